#!/usr/bin/env python3
import sys
ID=sys.argv[1]; notes=sys.argv[2] if len(sys.argv)>2 else "none"
s=open(__file__.rsplit('/',1)[0]+'/agent_prompt.txt').read()
print(s.replace('{ID}',ID).replace('{id}',ID.lower()).replace('{NOTES}',notes))
