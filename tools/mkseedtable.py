#!/usr/bin/env python3
"""Prints the markdown table of kept seeded changes (seeded/*/meta.json) for DESIGN.md."""
import glob, json, os
ROOT = os.path.dirname(os.path.dirname(os.path.abspath(__file__)))
print("| id | property | what the change does | needs | confirmed (tests pass, demo fails/passes) | check result |")
print("|---|---|---|---|---|---|")
for f in sorted(glob.glob(os.path.join(ROOT, "seeded", "*", "meta.json"))):
    m = json.load(open(f))
    s = (m.get("summary") or "").replace("|", "\\|").replace("\n", " ")
    n = (m.get("needs") or "").replace("|", "\\|").replace("\n", " ")
    s = s[:260] + ("…" if len(s) > 260 else "")
    n = n[:200] + ("…" if len(n) > 200 else "")
    chk = m.get("check") or []
    if not chk:
        res = "not run yet"
    else:
        c = chk[-1]
        kinds = []
        for v in c.get("violations", [])[:1]:
            kinds.append("no-failing-input-found" if v.rstrip().endswith("no-failing-input-found") else "concrete replay")
        res = ("CAUGHT (%s, %s tier, %ss)" % (", ".join(kinds) or "?", c.get("tier"), c.get("wall_s"))) if m.get("detected") else "missed by its own check (exit %s)" % c.get("rc")
    others = [k[len("detected_by_"):] for k in m if k.startswith("detected_by_") and m[k]]
    if others:
        res += "; CAUGHT by the check of " + ", ".join(others)
    elif chk and not m.get("detected"):
        res = "MISSED — " + res
    print("| %s | %s | %s | %s | %s | %s |" % (m.get("id"), m.get("property"), s, n, "yes" if m.get("confirmed") else "NO", res))
