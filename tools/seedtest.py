#!/usr/bin/env python3
"""tools/seedtest.py Cxx mN [--tier quick|thorough] [--keep] [--skip-confirm] [--seeds 1,2]

Confirms a seeded mutation produced by an independent agent (/tmp/seed/Cxx/out/mN: patch.diff, demo, meta.json)
in a scratch worktree of /repo's HEAD and runs the property's check against it:
  1. the patch applies, `go build ./...` succeeds, the tests of the touched packages pass;
  2. the demonstration fails with the patch and passes without it;
  3. `VERIF_REPO=<worktree> ./check Cxx` must exit 1 with a VIOLATION line (evidence/replays go to /tmp).
The result is stored as /verif/seeded/Cxx-mN/{patch.diff, demo/*, meta.json}. The worktree is removed afterwards.
(The registered checks always run against /repo itself; VERIF_REPO is only used here so that agents building
against /repo in parallel are not disturbed. Equivalent to `git -C /repo apply` + check + `git checkout`.)"""
import json
import os
import re
import shutil
import subprocess
import sys
import time

ROOT = os.path.dirname(os.path.dirname(os.path.abspath(__file__)))
ENV = dict(os.environ, GOFLAGS="-mod=mod", GOPROXY="off")


def sh(cmd, cwd=None, timeout=3600, env=None):
    p = subprocess.run(cmd, shell=True, cwd=cwd, env=env or ENV, stdout=subprocess.PIPE, stderr=subprocess.STDOUT,
                       text=True, timeout=timeout)
    return p.returncode, p.stdout


def main():
    args = [a for a in sys.argv[1:] if not a.startswith("--")]
    pid, mid = args[0], args[1]
    chk_pid = pid
    for i, a in enumerate(sys.argv):
        if a == "--with":
            chk_pid = sys.argv[i + 1]
    args = [a for a in args if a != chk_pid or a == pid]
    tier = "quick"
    seeds = ["1"]
    for i, a in enumerate(sys.argv):
        if a == "--tier":
            tier = sys.argv[i + 1]
        if a == "--seeds":
            seeds = sys.argv[i + 1].split(",")
    args = [a for a in args if a not in (tier,) and a not in (",".join(seeds),)]
    n = int(mid[1:])
    rnd, local = (n - 1) // 2 + 1, (n - 1) % 2 + 1   # m1,m2 = round 1; m3,m4 = round 2 (/tmp/seed2/.../m1,m2) ...
    seedbase = "/tmp/seed%s/%s" % ("" if rnd == 1 else str(rnd), pid)
    src = "%s/out/m%d" % (seedbase, local)
    if not os.path.exists(src + "/patch.diff"):
        src = os.path.join(ROOT, "seeded", "%s-%s" % (pid, mid))
    meta = json.load(open(src + "/meta.json"))
    wt = "/tmp/st-%s-%s" % (pid, mid)
    sh("git -C /repo worktree remove --force %s" % wt)
    shutil.rmtree(wt, ignore_errors=True)
    rc, out = sh("git -C /repo worktree add --detach %s HEAD" % wt)
    assert rc == 0, out
    result = {"property": pid, "id": "%s-%s" % (pid, mid), "summary": meta.get("summary"), "needs": meta.get("needs"),
              "repo_head": sh("git -C /repo rev-parse --short HEAD")[1].strip(), "ran": []}
    try:
        # untracked export files of /repo (not yet committed) are needed by the harness
        rc, out = sh("git -C /repo ls-files --others --exclude-standard | grep 'export_verif' || true")
        for f in out.split():
            os.makedirs(os.path.dirname(os.path.join(wt, f)), exist_ok=True)
            shutil.copy(os.path.join("/repo", f), os.path.join(wt, f))
        rc, out = sh("git apply --whitespace=nowarn %s/patch.diff" % src, cwd=wt)
        result["ran"].append("git apply patch.diff -> rc %d" % rc)
        if rc != 0:
            print("PATCH DOES NOT APPLY\n" + out)
            result["confirmed"] = False
            return finish(result, src, pid, mid, wt)
        touched = sorted(set(os.path.dirname(l[6:]) for l in open(src + "/patch.diff") if l.startswith("+++ b/")))
        result["touched"] = touched
        if "--skip-confirm" not in sys.argv:
            rc, out = sh("go build ./... ", cwd=wt)
            result["ran"].append("go build ./... -> rc %d" % rc)
            assert rc == 0, out[-3000:]
            pk = " ".join("./%s/..." % t for t in touched)
            rc, out = sh("go test -count=1 -p 4 %s 2>&1 | tail -30" % pk, cwd=wt, timeout=3000)
            fails = [l for l in out.split("\n") if l.startswith("FAIL") or l.startswith("--- FAIL")]
            result["ran"].append("go test %s -> %s" % (pk, "pass" if not fails else "FAIL"))
            result["tests_pass_with_patch"] = not fails
            if fails:
                print("EXISTING TESTS FAIL WITH PATCH:\n" + out[-3000:])
            # demo
            dpath, dcmd = meta.get("demo_path"), meta.get("demo_cmd")
            dpath = (dpath or "").split()[0].rstrip(",;") if dpath else dpath
            if dpath and dpath.startswith(seedbase + "/wt/"):
                dpath = dpath[len(seedbase + "/wt/"):]
            demo_files = [f for f in os.listdir(src) if f not in ("patch.diff", "meta.json") and not f.endswith(".log")]
            if "demo_test.go" in demo_files:
                demo_files = ["demo_test.go"]  # the primary demonstration; optional extras are not placed
            elif os.path.isdir(os.path.join(src, "demo")):
                demo_files = ["demo"]
            placed = []
            for f in demo_files:
                s = os.path.join(src, f)
                if os.path.isdir(s):
                    d = os.path.join(wt, dpath or f)
                    shutil.copytree(s, d, dirs_exist_ok=True)
                    placed.append(d)
                else:
                    d = os.path.join(wt, dpath) if dpath else os.path.join(wt, f)
                    if dpath and (os.path.isdir(d) or not dpath.endswith(".go")):
                        os.makedirs(d, exist_ok=True)
                        d = os.path.join(d, f)
                    else:
                        os.makedirs(os.path.dirname(d), exist_ok=True)
                    shutil.copy(s, d)
                    placed.append(d)
            dcmd = re.split(r"\s{2,}\(", dcmd or "")[0]
            dcmd = dcmd.replace(seedbase + "/wt", wt)
            rc1, out1 = sh(dcmd, cwd=wt, timeout=900)
            sh("git checkout -- .", cwd=wt)
            rc2, out2 = sh(dcmd, cwd=wt, timeout=900)
            result["ran"].append("demo with patch: rc %d; without: rc %d  (%s)" % (rc1, rc2, dcmd))
            result["demo_fails_with_patch"] = rc1 != 0
            result["demo_passes_without"] = rc2 == 0
            if rc1 == 0 or rc2 != 0:
                print("DEMO NOT CONFIRMED: with patch rc=%d, without rc=%d\n--- with:\n%s\n--- without:\n%s" % (rc1, rc2, out1[-1500:], out2[-1500:]))
            for d in placed:
                if os.path.isdir(d):
                    shutil.rmtree(d, ignore_errors=True)
                elif os.path.exists(d):
                    os.remove(d)
            rc, out = sh("git apply --whitespace=nowarn %s/patch.diff" % src, cwd=wt)
            assert rc == 0
            result["confirmed"] = bool(result["tests_pass_with_patch"] and result["demo_fails_with_patch"] and result["demo_passes_without"])
        # the check
        if os.path.exists(os.path.join(ROOT, "props", chk_pid, "check.py")):
            det = []
            for seed in seeds:
                env = dict(ENV, VERIF_REPO=wt, VERIF_EVIDENCE_DIR="/tmp/ev-%s-%s" % (pid, mid), VERIF_REPLAY_DIR="/tmp/rp-%s-%s" % (pid, mid),
                           VERIF_BUILD="/tmp/bd-%s-%s" % (pid, mid))
                t = time.time()
                rc, out = sh("./check %s --tier %s --seed %s" % (chk_pid, tier, seed), cwd=ROOT, env=env, timeout=7200)
                viol = [l for l in out.split("\n") if l.startswith("VIOLATION")]
                det.append({"seed": seed, "tier": tier, "rc": rc, "violations": viol[:5], "wall_s": round(time.time() - t)})
                result["ran"].append("VERIF_REPO=%s ./check %s --tier %s --seed %s -> rc %d, %d VIOLATION line(s)" % (wt, chk_pid, tier, seed, rc, len(viol)))
                print("check seed %s: rc=%d %s" % (seed, rc, viol[:3]))
                if rc not in (0, 1):
                    print(out[-2500:])
                for v in viol[:1]:
                    m = re.search(r"replay=(\S+)", v)
                    if m and os.path.exists(m.group(1)):
                        result["replay_excerpt"] = open(m.group(1)).read()[:1500]
            if chk_pid != pid:
                result["check_" + chk_pid] = det
                result["detected_by_" + chk_pid] = all(d["rc"] == 1 and d["violations"] for d in det)
            else:
                result["check"] = det
                result["detected"] = all(d["rc"] == 1 and d["violations"] for d in det)
                result["detected_with_input"] = result["detected"] and all(not v.rstrip().endswith("no-failing-input-found") for d in det for v in d["violations"][:1])
            for d in ("ev", "rp", "bd"):
                shutil.rmtree("/tmp/%s-%s-%s" % (d, pid, mid), ignore_errors=True)
        return finish(result, src, pid, mid, wt)
    finally:
        if "--keep" not in sys.argv:
            sh("git -C /repo worktree remove --force %s" % wt)
            shutil.rmtree(wt, ignore_errors=True)


def finish(result, src, pid, mid, wt):
    dst = os.path.join(ROOT, "seeded", "%s-%s" % (pid, mid))
    if os.path.abspath(src) != os.path.abspath(dst):
        os.makedirs(dst + "/demo", exist_ok=True)
        shutil.copy(src + "/patch.diff", dst + "/patch.diff")
        for f in os.listdir(src):
            if f not in ("patch.diff", "meta.json") and not f.endswith(".log"):
                s = os.path.join(src, f)
                if os.path.isdir(s):
                    shutil.copytree(s, os.path.join(dst, "demo", f), dirs_exist_ok=True)
                else:
                    shutil.copy(s, os.path.join(dst, "demo", f))
        meta = json.load(open(src + "/meta.json"))
    else:
        meta = json.load(open(dst + "/meta.json")).get("author_meta", {})
    old = {}
    if os.path.exists(dst + "/meta.json"):
        old = json.load(open(dst + "/meta.json"))
    for k, v in old.items():
        if k.startswith("check") or k.startswith("detected"):
            result.setdefault(k, v)
    if "confirmed" not in result and "confirmed" in old:
        for k in ("confirmed", "tests_pass_with_patch", "demo_fails_with_patch", "demo_passes_without", "touched"):
            if k in old:
                result.setdefault(k, old[k])
    result["author_meta"] = meta
    json.dump(result, open(dst + "/meta.json", "w"), indent=1)
    print(json.dumps({k: result.get(k) for k in result if k in ("id", "confirmed", "detected", "detected_with_input") or k.startswith("detected_by_")}))
    return 0


if __name__ == "__main__":
    sys.exit(main())
