#!/usr/bin/env python3
"""Assemble MANIFEST.json from props/*/manifest.json fragments + tools/manifest_head.json."""
import glob
import json
import os

ROOT = os.path.dirname(os.path.dirname(os.path.abspath(__file__)))
head = json.load(open(os.path.join(ROOT, "tools", "manifest_head.json")))
checks = []
claimed = set()
integrated = open(os.path.join(ROOT, "tools", "integrated.txt")).read().split()
for f in sorted(glob.glob(os.path.join(ROOT, "props", "C*", "manifest.json"))):
    frag = json.load(open(f))
    if frag["property_id"] not in integrated:
        continue
    pid = frag["property_id"]
    frag.setdefault("quick_cmd", "./check %s --tier quick" % pid)
    frag.setdefault("thorough_cmd", "./check %s --tier thorough" % pid)
    frag.setdefault("evidence_file", "evidence/%s.json" % pid)
    frag.setdefault("replay_cmd_template", "./check %s --replay {path}" % pid)
    frag.setdefault("engine", "coq-correspondence")
    checks.append(frag)
    claimed.add(pid)
import subprocess
try:
    log = subprocess.run(["git", "-C", "/repo", "log", "--format=%h %s"], stdout=subprocess.PIPE, text=True).stdout
    head["hooks"]["source_commits"] = [l.split()[0] for l in log.split("\n") if " verif hook" in l[:30]][::-1]
except Exception:
    pass
head["checks"] = checks
for e in head.get("engines", []):
    e["serves_properties"] = sorted(claimed)
na = json.load(open(os.path.join(ROOT, "tools", "not_applicable.json")))
head["not_applicable"] = [x for x in na if x["property_id"] not in claimed]
open(os.path.join(ROOT, "MANIFEST.json"), "w").write(json.dumps(head, indent=1) + "\n")
print("MANIFEST.json:", len(checks), "checks;", len(head["not_applicable"]), "not_applicable")
