#!/usr/bin/env python3
"""tools/seedprompt.py Cxx — prepares /tmp/seed/Cxx (property text + scratch worktree of /repo HEAD) and prints the prompt
for an independent sub-agent that is to produce realistic property-breaking changes (seeded mutations)."""
import json, os, subprocess, sys
pid = sys.argv[1]
rnd = sys.argv[2] if len(sys.argv) > 2 else ""
base = "/tmp/seed%s/%s" % (rnd, pid)
ROOT0 = os.path.dirname(os.path.dirname(os.path.abspath(__file__)))
used = []
import glob
for f in sorted(glob.glob(os.path.join(ROOT0, "seeded", pid + "-*", "meta.json"))):
    try:
        used.append("- " + (json.load(open(f)).get("summary") or "")[:300].replace("\n", " "))
    except Exception:
        pass
os.makedirs(base + "/out", exist_ok=True)
prop = None
for l in open(os.path.join(os.path.dirname(os.path.dirname(os.path.abspath(__file__))), "properties.jsonl")):
    p = json.loads(l)
    if p["id"] == pid:
        prop = p
open(base + "/property.json", "w").write(json.dumps(prop, indent=1))
wt = base + "/wt"
if not os.path.exists(wt):
    subprocess.run(["git", "-C", "/repo", "worktree", "add", "--detach", wt, "HEAD"], check=True, stdout=subprocess.DEVNULL, stderr=subprocess.DEVNULL)
print(f"""You are testing how well a verification effort detects regressions in ozontech/seq-db (a Go log database). You get ONE semantic property of the system and your own scratch git worktree of the repository; you know nothing about the verification machinery and must not look for it (do not read anything under /verif, do not touch /repo itself — work only inside {wt} and {base}/out).

The property (JSON, with anchors into the code): {base}/property.json — read it first, then read the anchored code in {wt}.

{("Earlier seeded changes for this property already exist; yours must use DIFFERENT mechanisms and different code sites than these:" + chr(10) + chr(10).join(used) + chr(10) + chr(10)) if (rnd and used) else ""}{"In this round prefer changes that need an interleaving of concurrent operations, a crash or I/O fault at a particular point, pooled or shared state reused across requests, state carried across a restart, or two cooperating sites that each look fine alone; avoid plain single-function arithmetic slips. " if rnd and int(rnd) >= 4 else ""}{"Also consider: behaviour that only differs under a non-default configuration value, caches or pooled objects that outlive a request, error paths taken after a partial success, and sequences of several requests against one long-lived object. " if rnd and int(rnd) >= 5 else ""}{"Further ideas for this round: a limit or capacity constant crossed by exactly one element (block capacities, maximum sizes, buffer lengths); behaviour on the second attempt after an error was returned once (retry and resume paths); two code paths that must answer the same request identically (legacy vs current, active vs sealed, with vs without a hint or cache) drifting apart; cleanup or release steps skipped on an early return. " if rnd and int(rnd) >= 6 else ""}Task: produce TWO different, independent changes to the seq-db source (non-test .go files) that each BREAK this property while the code still compiles and the existing test suite still passes. Each change must need something specific to manifest — a particular interleaving, a crash or fault at a particular point, a multi-step sequence of operations, an unusual input or data shape, or two cooperating sites that each look fine alone — NOT something ordinary use or the existing tests would expose at once. Make them realistic: the kind of small slip a maintainer could make in a refactoring, optimisation or bug fix (off-by-one at a boundary, a comparison flipped for an edge case, a dropped step on a rarely taken path, a swapped order of two operations, a swallowed error, a stale value reused), 1-15 changed lines each, in the mechanisms the property's anchors name. The two changes must hit different mechanisms.

For each change i in {{1,2}} deliver in {base}/out/m<i>/ (i.e. m1 and m2):
  patch.diff   — `git diff` of the source change only (must apply with `git apply` to a clean checkout of the worktree's HEAD)
  demo_test.go (or demo/main.go) — a demonstration that FAILS with the change and PASSES without it: a Go test placed in the right package directory (say where in meta.json) or a small program; deterministic, runs in under 2 minutes
  meta.json    — {{"property": "{pid}", "summary": "...what was changed", "needs": "...what exactly is needed for it to manifest", "demo_path": "where to copy the demo inside the repo", "demo_cmd": "command to run the demo", "commands_run": [...], "results": "..."}}

You must confirm yourself, in the worktree: (a) with the change `go build ./...` succeeds and the existing tests pass — run at least `go test -count=1 ./<every package you touched>/...` plus `go test -count=1 ./frac/... ./fracmanager/... ./storeapi/... ./proxy/... ./proxyapi/... ./seq/... ./parser/... ./pattern/... ./node/... ./cache/... ./disk/...` (a few minutes; 4 TestSeal integration tests fail in this sandbox with or without any change because tests/data/k8s.logs is empty — ignore the package tests/integration_tests unless your change plausibly affects it, in which case compare against a run without the change); (b) the demo fails with the change; (c) after `git checkout -- .` (change removed, demo kept) the demo passes. Restore the worktree to a clean state (no source change; demos may stay as untracked files) when done.

Go environment for every shell call: `export GOFLAGS=-mod=mod GOPROXY=off` (do NOT set GOTOOLCHAIN or GOSUMDB; there is no network). Other agents share the machine: do not use more than ~6 cores (`go test -p 4`). Files named export_verif*.go in the tree are build-tag-guarded helpers, ignore them. Your final message: for each change a 5-line description (what, why it passes the tests, what it needs to manifest, demo command and its two outcomes).""")
