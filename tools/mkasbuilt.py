#!/usr/bin/env python3
"""Regenerates the generated part of DESIGN.md (between the GENERATED markers): per-property state as built
(theorems and axioms from the evidence files, claimed level from the manifest fragments), the defects found and
repaired / recorded (known_findings.txt), and the table of kept seeded changes with the check that catches each."""
import glob, json, os, re, subprocess
ROOT = os.path.dirname(os.path.dirname(os.path.abspath(__file__)))
out = []
out.append("### 11.1 Properties as built (from props/*/manifest.json and the last evidence files)\n")
integrated = open(os.path.join(ROOT, "tools", "integrated.txt")).read().split()
for pid in ["C%02d" % i for i in range(1, 21)]:
    mf = os.path.join(ROOT, "props", pid, "manifest.json")
    if not os.path.exists(mf):
        out.append("**%s** — not built.\n" % pid)
        continue
    m = json.load(open(mf))
    ev = {}
    ef = os.path.join(ROOT, "evidence", pid + ".json")
    if os.path.exists(ef):
        try:
            ev = json.load(open(ef))
        except Exception:
            ev = {}
    cov = ev.get("coverage", {})
    out.append("**%s** (%s) — %s\n" % (pid, "claimed in MANIFEST.json" if pid in integrated else "built, not yet integrated", m["level_claimed"]["text"]))
    out.append("* trusted / assumed: %s" % m.get("level_note", ""))
    ths = cov.get("theorems") or []
    if ths:
        out.append("* theorems in `props/%s/coq/Props.v` (%d obligations, %d discharged; axioms: %s): %s" % (
            pid, cov.get("obligations", 0), cov.get("discharged", 0), ", ".join(cov.get("axioms_used") or []) or "none — every `Print Assumptions` says *Closed under the global context*",
            ", ".join("`%s`" % t for t in ths)))
    if cov:
        out.append("* last run written to evidence (%s tier, seed %s): %s evaluations, %s distinct non-trivial, %s model/implementation disagreements, %s s wall" % (
            ev.get("tier"), ev.get("seed"), cov.get("evaluations"), cov.get("distinct_nontrivial"), cov.get("disagreements_model_vs_impl"), ev.get("wall_s")))
    out.append("")
out.append("### 11.2 Defects found in ozontech/seq-db by these checks, and how each was handled\n")
out.append("Every entry was first reproduced on the real code by the property's own driver (schedule, history or input as replay). "
           "`fixed:` = repaired by a minimal unguarded `fix:` commit in /repo (the model then mirrors the repaired code, the old behaviour is kept as a `_v0` definition with a refutation `Example`, and reverting the commit is part of the mutation tests); "
           "`known:` = recorded, the check prints a KNOWN-FINDING line for exactly that input class.\n")
out.append("| kind | property | commit / fingerprint | what failed |")
out.append("|---|---|---|---|")
for line in open(os.path.join(ROOT, "known_findings.txt")):
    line = line.strip()
    m = re.match(r"(fixed|known):\s*property=(\S+)\s+(\S+)\s+(.*)", line)
    if m:
        out.append("| %s | %s | `%s` | %s |" % (m.group(1), m.group(2), m.group(3).replace("fingerprint=", ""), m.group(4).replace("|", "\\|")))
out.append("")
out.append("### 11.3 Seeded changes (written by independent sub-agents from the property text only) and which check catches them\n")
out.append("Each was confirmed in a scratch worktree (patch applies, builds, the packages it touches pass their tests, the demonstration fails with it and passes without it) and then run against `./check <property>` (quick tier) with `tools/seedtest.py`. Kept under `seeded/<id>/`.\n")
tab = subprocess.run([os.path.join(ROOT, "tools", "mkseedtable.py")], stdout=subprocess.PIPE, text=True).stdout
out.append(tab)
gen = "\n".join(out)
p = os.path.join(ROOT, "DESIGN.md")
s = open(p).read()
B, E = "<!-- BEGIN GENERATED (tools/mkasbuilt.py) -->", "<!-- END GENERATED -->"
if B not in s:
    s += "\n\n---------------------------------------------------------------------------------------\n\n## 11. As built\n\n" + B + "\n" + E + "\n"
i, j = s.index(B), s.index(E)
s = s[:i + len(B)] + "\n" + gen + "\n" + s[j:]
open(p, "w").write(s)
print("DESIGN.md: generated section updated (%d lines)" % len(out))
