#!/usr/bin/env python3
"""tools/integrate.py Cxx [seeds...] — acceptance run for one property on the unchanged tree:
quick check with several seeds must exit 0 without VIOLATION lines, evidence must validate,
forbidden-vernacular scan, then MANIFEST.json is re-assembled."""
import json
import os
import subprocess
import sys
import time

ROOT = os.path.dirname(os.path.dirname(os.path.abspath(__file__)))
prop = sys.argv[1]
seeds = [int(x) for x in sys.argv[2:]] or [1, 2, 3]
ok = True
for s in seeds:
    t = time.time()
    p = subprocess.run([os.path.join(ROOT, "check"), prop, "--tier", "quick", "--seed", str(s)],
                       cwd=ROOT, stdout=subprocess.PIPE, stderr=subprocess.PIPE, text=True)
    dt = time.time() - t
    viol = [l for l in p.stdout.split("\n") if l.startswith("VIOLATION")]
    known = [l for l in p.stdout.split("\n") if l.startswith("KNOWN-FINDING")]
    print("seed %d: rc=%d %.0fs violations=%d known=%d" % (s, p.returncode, dt, len(viol), len(known)))
    if p.returncode != 0 or viol:
        ok = False
        print(p.stdout[-2000:])
        print(p.stderr[-3000:])
v = subprocess.run(["python3-vt", "-c", """
import json,jsonschema,sys
ev=json.load(open('%s/evidence/%s.json'))
jsonschema.validate(ev, json.load(open('/root/.vp/EVIDENCE.schema.json')))
c=ev['coverage']
print('evidence valid: level=%%s obligations=%%s discharged=%%s evaluations=%%s nontrivial=%%s wall=%%ss axioms=%%s' %% (ev['level'],c.get('obligations'),c.get('discharged'),c.get('evaluations'),c.get('distinct_nontrivial'),ev['wall_s'],c.get('axioms_used')))
print('theorems:', c.get('theorems'))
assert c.get('obligations')==c.get('discharged') and c.get('obligations',0)>0
assert c.get('distinct_nontrivial',0)>=2
""" % (ROOT, prop)], stdout=subprocess.PIPE, stderr=subprocess.STDOUT, text=True)
print(v.stdout)
if v.returncode != 0:
    ok = False
subprocess.run([os.path.join(ROOT, "tools", "mkmanifest.py")], cwd=ROOT)
v = subprocess.run(["python3-vt", "-c", """
import json,jsonschema
jsonschema.validate(json.load(open('%s/MANIFEST.json')), json.load(open('/root/.vp/MANIFEST.schema.json')))
print('manifest valid')""" % ROOT], stdout=subprocess.PIPE, stderr=subprocess.STDOUT, text=True)
print(v.stdout)
if v.returncode != 0:
    ok = False
print("INTEGRATION", "OK" if ok else "FAILED", prop)
sys.exit(0 if ok else 1)
