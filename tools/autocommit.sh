#!/bin/sh
# Session helper (not part of any check): periodically commits work in progress so that an
# interruption loses nothing. /verif: everything; /repo: only new add-only export_verif*.go files.
while true; do
  sleep 420
  (
    flock 9
    cd /verif && git add -A >/dev/null 2>&1 && git diff --cached --quiet || git commit -qm "wip: work in progress (autocommit)" >/dev/null 2>&1
    cd /repo && new=$(git ls-files --others --exclude-standard | grep 'export_verif[^/]*\.go$')
    mod=$(git diff --name-only | grep 'export_verif[^/]*\.go$')
    if [ -n "$new$mod" ]; then git add $new $mod && git commit -qm "verif hook: export files (build tag verif, add-only)" -- $new $mod >/dev/null 2>&1; fi
  ) 9>/tmp/verif-autocommit.lock
done
