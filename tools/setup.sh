#!/bin/sh
# Build the framework from files on disk only (offline): Coq library + every property project
# (full .vo build), and warm the Go build cache with every harness binary.
set -e
cd "$(dirname "$0")/.."
export GOFLAGS=-mod=mod GOPROXY=off
python3 - <<'PY'
import glob, os, sys
sys.path.insert(0, "lib")
import vcheck
from concurrent.futures import ThreadPoolExecutor
rc, out = vcheck.make_coq(os.path.join(vcheck.ROOT, "coq", "lib"))
if rc != 0:
    print(out[-3000:]); sys.exit(1)
integrated = set(open("tools/integrated.txt").read().split())
props = sorted(p for p in (os.path.basename(os.path.dirname(p)) for p in glob.glob("props/C*/check.py")) if p in integrated)
def one(p):
    gen_fail = None
    if os.path.exists(os.path.join("props", p, "gen.json")):
        # props/<p>/coq/Gen.v is committed but always regenerated from the Go sources (harness/cmd/go2coq)
        gen_fail = vcheck.regen_gen(p)
    rc, out = vcheck.build_coq(p)
    if gen_fail:
        rc, out = 1, gen_fail + "\n" + out
    e, hout = vcheck.build_harness(p)
    return p, rc, out, e, hout
bad = 0
with ThreadPoolExecutor(max_workers=4) as ex:
    for p, rc, out, e, hout in ex.map(one, props):
        print("setup", p, "coq rc=%d" % rc, "harness", "ok" if e else "FAILED")
        if rc != 0:
            print(out[-2000:]); bad = 1
        if not e:
            print(hout[-2000:]); bad = 1
sys.exit(bad)
PY
