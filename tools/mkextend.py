#!/usr/bin/env python3
"""tools/mkextend.py Cxx — prints the prompt for an engineer sub-agent that extends an existing property's machinery
(template tools/extend_prompt.txt + task tools/extend_tasks/Cxx.txt)."""
import os, sys
ID = sys.argv[1]
d = os.path.dirname(os.path.abspath(__file__))
s = open(os.path.join(d, "extend_prompt.txt")).read()
t = open(os.path.join(d, "extend_tasks", ID + (sys.argv[2] if len(sys.argv) > 2 else "") + ".txt")).read().strip()
print(s.replace("{ID}", ID).replace("{id}", ID.lower()).replace("{TASK}", t))
