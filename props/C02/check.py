"""C02 — search returns exactly the matching documents, ordered, limited and counted (DESIGN.md section 7, C02)."""
import vcheck

PROP = "C02"

TRUSTED = [
    "go2coq translator (harness/cmd/go2coq, semantics coq/lib/GoSem.v): props/C02/coq/Gen.v is regenerated from the Go source of seq.LessOrEqual, seq.Less, util.BinSearchInRange, processor.getLIDsBorders, frac.inverser.Len/Inverse/Revert on every run (subset as documented in the header of harness/cmd/go2coq/main.go: integer/boolean expressions with explicit wrap-around, checked indexing, struct literals, assignment to a field of a local struct, function-typed parameters, function literals, monadic externs; anything else is rejected = red gate). externs (props/C02/coq/GenPrelude.v, hand-written): sort.Search -> sort_Search (the binary search loop of the Go standard library, midpoint (i+j)/2, 65 rounds of fuel, a panicking predicate propagates; theorem C02_gen_sort_Search_adequate: equal to the model's search_loop), the interface value idsIndex -> record ids_index with its methods Len -> ix_len and LessOrEqual -> ix_le (pure). Validated on every run by the gen-* correspondence classes (real function vs generated definition on boundary and random arguments)",
    "Coq 8.16.1 kernel (coqc), vm_compute for case evaluation; no native_compute",
    "hand-written model props/C02/coq/Model.v of the merge nodes (node/*.go), TreeFold, getLIDsBorders, "
    "buildEvalTree/evalLeaf and iterateEvalTree (tied to /repo by the correspondence run, not verified code)",
    "Go harness harness/cmd/hC02 (corpus/query generators, AST printer) and harness/internal/fracbuild",
    "hand-written transcription props/C02/coq/ModelTx.v of the active index (TokenLIDs, mergeSorted, inverser, "
    "inverseLIDs, AppendIDs), tied to /repo by unit-level classes through frac/export_verif_c02.go and by scripts",
    "ModelTxStep.v: GetLIDs as two steps (take the queue / sort+merge) with PutLIDsInQueue in between, fresh-queue "
    "discipline proved for every interleaving, shared-backing-array variant refuted; tied to /repo by forcing the window "
    "on the real TokenLIDs / active fraction (the MIDs write lock is held so that GetLIDs waits in mids.GetVals() after "
    "taking the queue: frac/export_verif_c02_window.go; the in-window bulk is published by hand through AppendIDs + "
    "PutLIDsInQueue + UpdateStats, its tokens must exist already). One reader at a time (sortedMu) is part of the model, "
    "not proved of the code",
    "hand-written transcription props/C02/coq/ModelSealed.v + SealedLids.v (copy of C03's LID-block model) of the SEALED "
    "search path at the level of numbers: ID blocks with their minima and sealedIDsIndex.LessOrEqual, the dictionary in "
    "(field, token) order, getLIDsBlockGenerator, Chunks.Pack/unpack on varint values, lids.Table, IteratorAsc/Desc; and "
    "of the provider's clamp to Info.From/To + EmptyDataProvider. Outside the model: byte codecs (varint bytes, zstd), "
    "token-table blocks and their loaders, caches, the _all_ / _exists_ tokens (TIDs of the model start at the first "
    "user field)",
    "the leaf matcher is ABSTRACT in every theorem (any function pat -> tok -> bool); the executable cases instantiate "
    "it with glob semantics for Literals (text terms and stars), Go string order for text ranges and, for numeric "
    "ranges, strconv.ParseFloat restricted to optionally signed decimal integers of <= 15 digits (the harness only "
    "produces values and bounds on which the real ParseFloat agrees with that fragment); that the real pattern.Search "
    "has glob semantics is C13's theorem, here it is tested through every search case",
    "frac.VerifC02SmallCapSearch (export file) assembles a search index from real parts (active IDs index, real "
    "getLIDsBlockGenerator with a small capacity, real Pack/unpack, lids.Table, sealedTokenIndex.GetLIDsFromTIDs, "
    "pattern.Search, processor.IndexSearch) with ~40 lines of glue for the token lookup; consts.IDsPerBlock is a Go "
    "constant, so ID blocks straddle only in corpora above 4096 documents (thorough tier)",
]
ASSUME = [
    "stored IDs pairwise distinct and MID >= 1 (MID 0 cannot be ingested: DocProvider.Append replaces it); MID, RID "
    "within uint64; fewer than 2^32-1 documents and (sealed) fewer than 2^32-1 distinct tokens",
    "posting lists handed to the merge nodes are strictly ascending; NOT borders satisfy lo >= 1 in reverse "
    "order and hi+1 < 2^32 (guaranteed by getLIDsBorders: minLID >= 1, maxLID < Len())",
    "one fraction per search (the cross-fraction merge of seq.MergeQPRs belongs to C16/C19)",
    "C02_clamp_irrelevant: Info.From <= every stored MID <= Info.To (what NewInfo + UpdateStats give once the appends "
    "are acknowledged: C17/C14; while a bulk is in flight Info may lag and the clamp then deliberately hides the "
    "not-yet-acknowledged documents)",
]
RULE = ("random trees of real merge nodes (AND/OR/NAND/NOT, depth <= 4, both directions) over shaped static "
        "posting lists; BuildORTree over 0-9 lists; real TokenLIDs under scripted PutLIDsInQueue/GetLIDs (duplicate LIDs inside and across batches, equal (MID,RID), puts after gets); real inverser + inverseLIDs on random mappings; real TokenLIDs with 1-3 PutLIDsInQueue executed INSIDE the window between 'queue taken' and 'merged' of a GetLIDs (token-lids-window); 40 (quick) / 400 active fractions where a second bulk is published inside the window of a bare GetLIDs or of a real Search, then positive / NOT / any-token queries with total and histogram, twice (window-active), and the in-window search itself (window-active-reader); active fractions <= 100 docs as scripts of bulks and searches replayed by the transcribed model; random corpora (1-40 docs, a few of 300-1500 (quick: 300-900) / 1000-3000 plus two sealed ones above 4096 IDs (thorough), equal "
        "MIDs, extreme RIDs, documents carrying the same token 2-3 times, 1-4 out-of-order bulks with a checked search between bulks on all tokens / on the tokens of the next bulk) in real active / sealed / "
        "sealed-and-reloaded fractions and (every 4th small corpus) the sealed LID path rebuilt by the real block generator "
        "with capacity 1-16 (continued blocks, blocks shared by tokens, field ends), 8-12 requests each (boolean trees with "
        "NOT at any depth over literal, prefix, suffix leaves and, in 2/3 of the corpora, the full leaf language: wildcards "
        "with 0-3 stars incl. middles, `*`/`**` alone, prefix*suffix overlapping in the value they were cut from, numeric / "
        "text / mixed ranges with open, closed, unbounded and empty-string ends, in-lists of literals and patterns, NOT "
        "over each, over values incl. numbers, number-like text and `-`; [from,to] around the stored MIDs incl. 0 and "
        "2^64-1, from>to, partly and wholly outside Info.From/To (counted as timerange:*); both orders; "
        "limits 0, 1, n, >n; with/without total; histogram intervals 1..2^40); getLIDsBorders on the same fractions. non-trivial = node tree "
        "with an operator and non-empty output / corpus with a non-empty answer to a query with an operator / "
        "border interval that is non-empty and not everything; distinct by input")


def harness_args(tier, seed, outdir):
    return ["-seed", str(seed), "-tier", tier, "-out", outdir]


def main(argv):
    return vcheck.standard_check(PROP, argv, harness_args, TRUSTED, ASSUME, RULE, coqchk=True, gen=True)
