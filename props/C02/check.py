"""C02 — search returns exactly the matching documents, ordered, limited and counted (DESIGN.md section 7, C02)."""
import vcheck

PROP = "C02"

TRUSTED = [
    "Coq 8.16.1 kernel (coqc), vm_compute for case evaluation; no native_compute",
    "hand-written model props/C02/coq/Model.v of the merge nodes (node/*.go), TreeFold, getLIDsBorders, "
    "buildEvalTree/evalLeaf and iterateEvalTree (tied to /repo by the correspondence run, not verified code)",
    "Go harness harness/cmd/hC02 (corpus/query generators, AST printer) and harness/internal/fracbuild",
    "hand-written transcription props/C02/coq/ModelTx.v of the active index (TokenLIDs, mergeSorted, inverser, "
    "inverseLIDs, AppendIDs), tied to /repo by unit-level classes through frac/export_verif_c02.go and by scripts",
    "the SEALED fraction's ID/LID blocks are modelled by their specification (position in the (MID,RID)-descending "
    "order), not transcribed",
    "leaf matching restricted to literal / prefix / suffix patterns on keyword fields (wildcards, ranges: C13)",
]
ASSUME = [
    "stored IDs pairwise distinct and MID >= 1 (MID 0 cannot be ingested: DocProvider.Append replaces it)",
    "posting lists handed to the merge nodes are strictly ascending; NOT borders satisfy lo >= 1 in reverse "
    "order and hi+1 < 2^32 (guaranteed by getLIDsBorders: minLID >= 1, maxLID < Len())",
    "one fraction per search (the cross-fraction merge of seq.MergeQPRs belongs to C16/C19)",
]
RULE = ("random trees of real merge nodes (AND/OR/NAND/NOT, depth <= 4, both directions) over shaped static "
        "posting lists; BuildORTree over 0-9 lists; real TokenLIDs under scripted PutLIDsInQueue/GetLIDs (duplicate LIDs inside and across batches, equal (MID,RID), puts after gets); real inverser + inverseLIDs on random mappings; active fractions <= 100 docs as scripts of bulks and searches replayed by the transcribed model; random corpora (1-40 docs, a few of 300-1500 (quick) / 1000-3000 plus two sealed ones above 4096 IDs (thorough), equal "
        "MIDs, extreme RIDs, documents carrying the same token 2-3 times, 1-4 out-of-order bulks with a checked search between bulks on all tokens / on the tokens of the next bulk) in real active / sealed / "
        "sealed-and-reloaded fractions, 8-12 requests each (boolean trees with NOT at any depth over literal, "
        "prefix, suffix leaves; [from,to] around the stored MIDs incl. 0 and 2^64-1 and from>to; both orders; "
        "limits 0, 1, n, >n; with/without total; histogram intervals 1..2^40); getLIDsBorders on the same fractions. non-trivial = node tree "
        "with an operator and non-empty output / corpus with a non-empty answer to a query with an operator / "
        "border interval that is non-empty and not everything; distinct by input")


def harness_args(tier, seed, outdir):
    return ["-seed", str(seed), "-tier", tier, "-out", outdir]


def main(argv):
    return vcheck.standard_check(PROP, argv, harness_args, TRUSTED, ASSUME, RULE, coqchk=True)
