(* C02 — soundness of the merge nodes. *)
From Coq Require Import List Bool Arith NArith ZArith Lia Sorting.Sorted.
From C02 Require Import Model.
Import ListNotations.
Open Scope N_scope.

Definition ltd (rev : bool) (a b : N) : Prop := less rev a b = true.
Definition ssorted (rev : bool) (l : list N) : Prop := StronglySorted (ltd rev) l.

Lemma less_irrefl rev a : less rev a a = false.
Proof. unfold less; destruct rev; apply N.ltb_irrefl. Qed.
Lemma less_trans rev a b c : less rev a b = true -> less rev b c = true -> less rev a c = true.
Proof. unfold less; destruct rev; rewrite !N.ltb_lt; lia. Qed.
Lemma less_tricho rev a b : less rev a b = false -> less rev b a = false -> a = b.
Proof. unfold less; destruct rev; rewrite !N.ltb_ge; lia. Qed.
Lemma less_asym rev a b : less rev a b = true -> less rev b a = false.
Proof. unfold less; destruct rev; rewrite N.ltb_lt, N.ltb_ge; lia. Qed.
Lemma less_neq rev a b : less rev a b = true -> a <> b.
Proof. intros H E. subst. rewrite less_irrefl in H. discriminate. Qed.

Lemma ssorted_inv rev a l : ssorted rev (a :: l) -> ssorted rev l /\ (forall x, In x l -> less rev a x = true).
Proof.
  intros H. apply StronglySorted_inv in H. destruct H as [H1 H2]. split; auto.
  intros x Hx. rewrite Forall_forall in H2. apply H2. assumption.
Qed.

Lemma ssorted_cons rev a l : ssorted rev l -> (forall x, In x l -> less rev a x = true) -> ssorted rev (a :: l).
Proof. intros H1 H2. constructor; auto. apply Forall_forall. exact H2. Qed.

Lemma ssorted_nil rev : ssorted rev []. Proof. constructor. Qed.

(* two strictly sorted lists with the same elements are equal *)
Lemma ssorted_ext rev l1 : forall l2, ssorted rev l1 -> ssorted rev l2 ->
  (forall x, In x l1 <-> In x l2) -> l1 = l2.
Proof.
  induction l1 as [|a l1 IH]; intros l2 H1 H2 E.
  - destruct l2 as [|b l2]; auto. exfalso. apply (E b). left; reflexivity.
  - destruct l2 as [|b l2]. { exfalso. apply (E a). left; reflexivity. }
    apply ssorted_inv in H1. destruct H1 as [S1 F1].
    apply ssorted_inv in H2. destruct H2 as [S2 F2].
    assert (a = b).
    { destruct (proj1 (E a) (or_introl eq_refl)) as [Hb|Hb]; auto.
      destruct (proj2 (E b) (or_introl eq_refl)) as [Ha|Ha]; auto.
      apply F2 in Hb. apply F1 in Ha. apply less_asym in Hb. congruence. }
    subst b. f_equal. apply IH; auto.
    intros x. split; intros Hx.
    + destruct (proj1 (E x) (or_intror Hx)) as [Hb|Hb]; auto.
      subst x. apply F1 in Hx. rewrite less_irrefl in Hx. discriminate.
    + destruct (proj2 (E x) (or_intror Hx)) as [Hb|Hb]; auto.
      subst x. apply F2 in Hx. rewrite less_irrefl in Hx. discriminate.
Qed.

(* ---------------------------------------------------------------- AND *)
Lemma and_drain_nil_l rev r : and_drain rev [] r = [].
Proof. destruct r; reflexivity. Qed.
Lemma and_drain_nil_r rev l : and_drain rev l [] = [].
Proof. destruct l; reflexivity. Qed.
Lemma and_drain_cons rev a l b r :
  and_drain rev (a :: l) (b :: r) =
  if less rev a b then and_drain rev l (b :: r)
  else if less rev b a then and_drain rev (a :: l) r
  else a :: and_drain rev l r.
Proof. reflexivity. Qed.

Lemma and_drain_In rev l : forall r x, ssorted rev l -> ssorted rev r ->
  (In x (and_drain rev l r) <-> In x l /\ In x r).
Proof.
  induction l as [|a l IHl]; intros r x Hl Hr.
  - rewrite and_drain_nil_l. simpl. tauto.
  - induction r as [|b r IHr].
    + rewrite and_drain_nil_r. simpl. tauto.
    + rewrite and_drain_cons.
      destruct (ssorted_inv _ _ _ Hl) as [Sl Fl]. destruct (ssorted_inv _ _ _ Hr) as [Sr Fr].
      destruct (less rev a b) eqn:Eab.
      * rewrite (IHl (b :: r) x Sl Hr). simpl. split; [tauto|].
        intros [[Ha|Hl'] Hb]; [|tauto]. exfalso. subst x.
        destruct Hb as [Hb|Hb].
        -- subst b. rewrite less_irrefl in Eab. discriminate.
        -- apply Fr in Hb. apply less_asym in Hb. congruence.
      * destruct (less rev b a) eqn:Eba.
        -- rewrite (IHr Sr). simpl. split; [tauto|].
           intros [Ha [Hb|Hb]]; [|tauto]. exfalso. subst x.
           destruct Ha as [Ha|Ha].
           ++ subst b. rewrite less_irrefl in Eba. discriminate.
           ++ apply Fl in Ha. apply less_asym in Ha. congruence.
        -- assert (a = b) by (eapply less_tricho; eauto). subst b.
           simpl. rewrite (IHl r x Sl Sr). tauto.
Qed.

Lemma and_drain_sorted rev l r : ssorted rev l -> ssorted rev r -> ssorted rev (and_drain rev l r).
Proof.
  revert r. induction l as [|a l IHl]; intros r Hl Hr.
  - rewrite and_drain_nil_l. constructor.
  - induction r as [|b r IHr].
    + rewrite and_drain_nil_r. constructor.
    + rewrite and_drain_cons.
      destruct (ssorted_inv _ _ _ Hl) as [Sl Fl]. destruct (ssorted_inv _ _ _ Hr) as [Sr Fr].
      destruct (less rev a b); [apply IHl; auto|].
      destruct (less rev b a); [apply IHr; auto|].
      apply ssorted_cons; [apply IHl; auto|].
      intros x Hx. apply and_drain_In in Hx; auto. apply Fl. tauto.
Qed.

(* ---------------------------------------------------------------- OR *)
Lemma or_drain_nil_r rev l : or_drain rev l [] = l.
Proof. induction l as [|a l IH]; [reflexivity|]. simpl. f_equal. exact IH. Qed.
Lemma or_drain_nil_l rev r : or_drain rev [] r = r.
Proof. induction r as [|b r IH]; [reflexivity|]. simpl. f_equal. exact IH. Qed.
Lemma or_drain_cons rev a l b r :
  or_drain rev (a :: l) (b :: r) =
  if less rev a b then a :: or_drain rev l (b :: r)
  else if less rev b a then b :: or_drain rev (a :: l) r
  else a :: or_drain rev l r.
Proof. reflexivity. Qed.

Lemma or_drain_In rev l : forall r x, In x (or_drain rev l r) <-> In x l \/ In x r.
Proof.
  induction l as [|a l IHl]; intros r x.
  - rewrite or_drain_nil_l. simpl. tauto.
  - induction r as [|b r IHr].
    + rewrite or_drain_nil_r. simpl. tauto.
    + rewrite or_drain_cons.
      destruct (less rev a b) eqn:Eab; [simpl; rewrite IHl; simpl; tauto|].
      destruct (less rev b a) eqn:Eba; [simpl; rewrite IHr; simpl; tauto|].
      assert (a = b) by (eapply less_tricho; eauto). subst b.
      simpl. rewrite IHl. tauto.
Qed.

Lemma or_drain_sorted rev l r : ssorted rev l -> ssorted rev r -> ssorted rev (or_drain rev l r).
Proof.
  revert r. induction l as [|a l IHl]; intros r Hl Hr.
  - rewrite or_drain_nil_l. assumption.
  - induction r as [|b r IHr].
    + rewrite or_drain_nil_r. assumption.
    + rewrite or_drain_cons.
      destruct (ssorted_inv _ _ _ Hl) as [Sl Fl]. destruct (ssorted_inv _ _ _ Hr) as [Sr Fr].
      destruct (less rev a b) eqn:Eab.
      { apply ssorted_cons; [apply IHl; auto|]. intros x Hx. apply or_drain_In in Hx.
        destruct Hx as [Hx|[Hx|Hx]]; auto. subst; auto. apply Fr in Hx. eapply less_trans; eauto. }
      destruct (less rev b a) eqn:Eba.
      { apply ssorted_cons; [apply IHr; auto|]. intros x Hx. apply or_drain_In in Hx.
        destruct Hx as [[Hx|Hx]|Hx]; auto. subst; auto. apply Fl in Hx. eapply less_trans; eauto. }
      assert (a = b) by (eapply less_tricho; eauto). subst b.
      apply ssorted_cons; [apply IHl; auto|]. intros x Hx. apply or_drain_In in Hx. destruct Hx; auto.
Qed.

(* ---------------------------------------------------------------- NAND *)
Lemma skip_less_spec rev x neg : ssorted rev neg ->
  ssorted rev (skip_less rev x neg) /\
  (forall y, In y (skip_less rev x neg) <-> In y neg /\ less rev y x = false).
Proof.
  induction neg as [|n neg IH]; intros H.
  - simpl. split; [constructor|]. intros; tauto.
  - destruct (ssorted_inv _ _ _ H) as [S F]. simpl.
    destruct (less rev n x) eqn:E.
    + destruct (IH S) as [IH1 IH2]. split; auto. intros y. rewrite IH2. cbn [In]. split; [tauto|].
      intros [[Hy|Hy] Hl]; [|tauto]. subst y. congruence.
    + split; auto. intros y. cbn [In]. split; [|tauto]. intros Hy. split; auto.
      destruct Hy as [Hy|Hy]; [subst; auto|].
      apply F in Hy. destruct (less rev y x) eqn:E2; auto.
      rewrite (less_trans _ _ _ _ Hy E2) in E. discriminate.
Qed.

Lemma nand_drain_In rev reg : forall neg x, ssorted rev neg -> ssorted rev reg ->
  (In x (nand_drain rev neg reg) <-> In x reg /\ ~ In x neg).
Proof.
  induction reg as [|a reg IH]; intros neg x Hn Hr.
  - simpl. tauto.
  - destruct (ssorted_inv _ _ _ Hr) as [Sr Fr].
    destruct (skip_less_spec rev a neg Hn) as [Sn' Hn'].
    assert (Hrest : forall y, In y reg -> (In y (skip_less rev a neg) <-> In y neg)).
    { intros y Hy. rewrite Hn'. apply Fr in Hy. apply less_asym in Hy. tauto. }
    assert (Hrec : In x (nand_drain rev (skip_less rev a neg) reg) <-> In x reg /\ ~ In x neg).
    { rewrite (IH _ x Sn' Sr). split; intros [H1 H2]; split; auto; rewrite <- (Hrest x H1) in *; auto. }
    cbn [nand_drain]. clear Hrest. revert Sn' Hn' Hrec.
    destruct (skip_less rev a neg) as [|n neg']; intros Sn' Hn' Hrec.
    + simpl. rewrite Hrec. split; [|tauto].
      intros [Hx|Hx]; [|tauto]. subst x. split; auto. intros Hin.
      assert (In a []) by (apply Hn'; split; auto; apply less_irrefl). contradiction.
    + destruct (N.eqb_spec n a) as [Ena|Ena].
      * subst n. rewrite Hrec. cbn [In]. split; [tauto|].
        intros [[Hx|Hx] Hnot]; [|tauto]. subst x. exfalso. apply Hnot.
        apply (Hn' a). left; reflexivity.
      * simpl. rewrite Hrec. split; [|tauto].
        intros [Hx|Hx]; [|tauto]. subst x. split; auto. intros Hin.
        assert (Hin' : In a (n :: neg')) by (apply Hn'; split; auto; apply less_irrefl).
        destruct Hin' as [Hh|Hh]; [congruence|].
        destruct (ssorted_inv _ _ _ Sn') as [_ Fn]. apply Fn in Hh.
        assert (Hna : less rev n a = false) by (apply (Hn' n); left; reflexivity).
        assert (Han : less rev a n = false) by (apply less_asym; assumption).
        apply Ena. eapply less_tricho; eauto.
Qed.

Lemma nand_drain_sub rev reg : forall neg x, In x (nand_drain rev neg reg) -> In x reg.
Proof.
  induction reg as [|a reg IH]; intros neg x H; [exact H|].
  cbn [nand_drain] in H.
  destruct (skip_less rev a neg) as [|n neg'].
  - destruct H as [H|H]; [left; auto|right; eapply IH; eauto].
  - destruct (n =? a).
    + right; eapply IH; eauto.
    + destruct H as [H|H]; [left; auto|right; eapply IH; eauto].
Qed.

Lemma nand_drain_sorted rev reg : forall neg, ssorted rev reg -> ssorted rev (nand_drain rev neg reg).
Proof.
  induction reg as [|a reg IH]; intros neg Hr; [constructor|].
  destruct (ssorted_inv _ _ _ Hr) as [Sr Fr].
  assert (C : forall ng, ssorted rev (a :: nand_drain rev ng reg)).
  { intros ng. apply ssorted_cons; [apply IH; auto|]. intros x Hx. apply Fr. eapply nand_drain_sub; eauto. }
  cbn [nand_drain].
  destruct (skip_less rev a neg) as [|n neg']; [apply C|].
  destruct (n =? a); [apply IH; auto|apply C].
Qed.

(* ---------------------------------------------------------------- RANGE *)
Fixpoint down (c : N) (k : nat) : list N :=
  match k with O => [] | S k' => c :: down (c - 1) k' end.

Definition two32 : N := 4294967296.

Lemma u32_small c : c < two32 -> u32 (Z.of_N c) = c.
Proof.
  intros H. unfold u32. rewrite Z.mod_small; [apply N2Z.id|].
  unfold two32 in H. split; [apply N2Z.is_nonneg|]. lia.
Qed.

Lemma range_asc : forall k c hi fuel,
  c + N.of_nat k = hi + 1 -> hi + 1 < two32 -> (k < fuel)%nat ->
  range_drain fuel false hi (Z.of_N c) 1 = Ok (iota c k).
Proof.
  induction k as [|k IH]; intros c hi fuel E B F; (destruct fuel as [|fuel]; [lia|]); cbn [range_drain iota].
  - rewrite u32_small by lia. unfold less.
    replace (hi <? c) with true by (symmetry; apply N.ltb_lt; lia). reflexivity.
  - rewrite u32_small by lia. unfold less.
    replace (hi <? c) with false by (symmetry; apply N.ltb_ge; lia).
    replace (Z.of_N c + 1)%Z with (Z.of_N (c + 1)) by lia.
    rewrite (IH (c + 1) hi fuel) by lia. reflexivity.
Qed.

Lemma range_desc : forall k c lo fuel,
  1 <= lo -> c + 1 = lo + N.of_nat k -> c < two32 -> (k < fuel)%nat ->
  range_drain fuel true lo (Z.of_N c) (-1) = Ok (down c k).
Proof.
  induction k as [|k IH]; intros c lo fuel L E B F; (destruct fuel as [|fuel]; [lia|]); cbn [range_drain down].
  - rewrite u32_small by lia. unfold less.
    replace (c <? lo) with true by (symmetry; apply N.ltb_lt; lia). reflexivity.
  - rewrite u32_small by lia. unfold less.
    replace (c <? lo) with false by (symmetry; apply N.ltb_ge; lia).
    replace (Z.of_N c + -1)%Z with (Z.of_N (c - 1)) by lia.
    rewrite (IH (c - 1) lo fuel) by lia. reflexivity.
Qed.

Lemma iota_In : forall k c x, In x (iota c k) <-> c <= x /\ x < c + N.of_nat k.
Proof.
  induction k as [|k IH]; intros c x; cbn [iota In].
  - lia.
  - rewrite IH. lia.
Qed.

Lemma iota_sorted : forall k c, ssorted false (iota c k).
Proof.
  induction k as [|k IH]; intros c; cbn [iota]; [constructor|].
  apply ssorted_cons; [apply IH|]. intros x Hx. apply iota_In in Hx. unfold less. apply N.ltb_lt. lia.
Qed.

Lemma down_In : forall k c x, (N.of_nat k <= c + 1) -> (In x (down c k) <-> x <= c /\ c < x + N.of_nat k).
Proof.
  induction k as [|k IH]; intros c x B; cbn [down In].
  - lia.
  - rewrite IH by lia. lia.
Qed.

Lemma down_sorted : forall k c, (N.of_nat k <= c + 1) -> ssorted true (down c k).
Proof.
  induction k as [|k IH]; intros c B; cbn [down]; [constructor|].
  apply ssorted_cons; [apply IH; lia|]. intros x Hx. apply down_In in Hx; [|lia].
  unfold less. apply N.ltb_lt. lia.
Qed.

Lemma range_node_spec rev lo hi :
  lo < two32 -> hi + 1 < two32 -> (rev = true -> 1 <= lo) ->
  exists out, range_node (range_fuel lo hi) rev lo hi = Ok out /\ ssorted rev out /\
              (forall x, In x out <-> lo <= x /\ x <= hi).
Proof.
  intros Bl Bh Hr. unfold range_node, range_fuel.
  destruct (N.le_gt_cases lo (hi + 1)) as [Hle|Hgt].
  - set (k := N.to_nat (hi + 1 - lo)).
    assert (Hk : lo + N.of_nat k = hi + 1) by (unfold k; lia).
    destruct rev.
    + exists (down hi k). split; [apply range_desc; auto; lia|].
      split; [apply down_sorted; lia|]. intros x. rewrite down_In by lia. lia.
    + exists (iota lo k). split; [apply range_asc; auto; lia|].
      split; [apply iota_sorted|]. intros x. rewrite iota_In. lia.
  - exists []. split.
    + replace (N.to_nat (hi + 1 - lo) + 1)%nat with 1%nat by lia. cbn [range_drain].
      destruct rev; rewrite u32_small by lia; unfold less.
      * replace (hi <? lo) with true by (symmetry; apply N.ltb_lt; lia). reflexivity.
      * replace (hi <? lo) with true by (symmetry; apply N.ltb_lt; lia). reflexivity.
    + split; [constructor|]. intros x. simpl. lia.
Qed.

(* ---------------------------------------------------------------- static lists *)
Lemma ssorted_app_one (R : N -> N -> Prop) l a :
  StronglySorted R l -> (forall x, In x l -> R x a) -> StronglySorted R (l ++ [a]).
Proof.
  induction l as [|b l IH]; intros S F; simpl.
  - constructor; constructor.
  - apply StronglySorted_inv in S. destruct S as [S1 S2]. constructor.
    + apply IH; auto. intros x Hx. apply F. right; assumption.
    + apply Forall_forall. intros x Hx. apply in_app_or in Hx. destruct Hx as [Hx|[Hx|[]]].
      * rewrite Forall_forall in S2. auto.
      * subst x. apply F. left; reflexivity.
Qed.

Lemma ssorted_rev l : ssorted false l -> ssorted true (List.rev l).
Proof.
  induction l as [|a l IH]; intros H; simpl; [constructor|].
  destruct (ssorted_inv _ _ _ H) as [S F].
  apply ssorted_app_one; [apply IH; auto|].
  intros x Hx. apply in_rev in Hx. apply F in Hx. exact Hx.
Qed.

Lemma memN_In x l : memN x l = true <-> In x l.
Proof.
  unfold memN. rewrite existsb_exists. split.
  - intros [y [Hy E]]. apply N.eqb_eq in E. subst; auto.
  - intros H. exists x. split; auto. apply N.eqb_refl.
Qed.

(* ---------------------------------------------------------------- node trees *)
Inductive wf_ntree (rev : bool) : ntree -> Prop :=
| wf_static d : ssorted false d -> wf_ntree rev (NStatic d)
| wf_and l r : wf_ntree rev l -> wf_ntree rev r -> wf_ntree rev (NAnd l r)
| wf_or l r : wf_ntree rev l -> wf_ntree rev r -> wf_ntree rev (NOr l r)
| wf_nand n r : wf_ntree rev n -> wf_ntree rev r -> wf_ntree rev (NNAnd n r)
| wf_not c lo hi : wf_ntree rev c -> lo < two32 -> hi + 1 < two32 -> (rev = true -> 1 <= lo) ->
                   wf_ntree rev (NNot c lo hi).

Definition node_sound (rev : bool) (t : ntree) : Prop :=
  exists out, eval_ntree rev t = Ok out /\ ssorted rev out /\ (forall x, In x out <-> nsem t x = true).

Theorem nodes_sound : forall rev t, wf_ntree rev t -> node_sound rev t.
Proof.
  intros rev t W. induction W as [d Hd|l r _ [a [Ea [Sa Ia]]] _ [b [Eb [Sb Ib]]]
                                   |l r _ [a [Ea [Sa Ia]]] _ [b [Eb [Sb Ib]]]
                                   |n r _ [a [Ea [Sa Ia]]] _ [b [Eb [Sb Ib]]]
                                   |c lo hi _ [a [Ea [Sa Ia]]] Bl Bh Hr]; unfold node_sound; cbn [eval_ntree nsem].
  - eexists. split; [reflexivity|]. destruct rev.
    + split; [apply ssorted_rev; auto|]. intros x. rewrite <- in_rev. symmetry. apply memN_In.
    + split; auto. intros x. symmetry. apply memN_In.
  - rewrite Ea, Eb. cbn [bind]. eexists. split; [reflexivity|]. split; [apply and_drain_sorted; auto|].
    intros x. rewrite and_drain_In by auto. rewrite Ia, Ib, andb_true_iff. tauto.
  - rewrite Ea, Eb. cbn [bind]. eexists. split; [reflexivity|]. split; [apply or_drain_sorted; auto|].
    intros x. rewrite or_drain_In. rewrite Ia, Ib, orb_true_iff. tauto.
  - rewrite Ea, Eb. cbn [bind]. eexists. split; [reflexivity|]. split; [apply nand_drain_sorted; auto|].
    intros x. rewrite nand_drain_In by auto. rewrite Ia, Ib, andb_true_iff, negb_true_iff.
    destruct (nsem n x); intuition congruence.
  - destruct (range_node_spec rev lo hi Bl Bh Hr) as [b [Eb [Sb Ib]]].
    rewrite Ea, Eb. cbn [bind]. eexists. split; [reflexivity|]. split; [apply nand_drain_sorted; auto|].
    intros x. rewrite nand_drain_In by auto. rewrite Ia, Ib, !andb_true_iff, negb_true_iff, !N.leb_le.
    destruct (nsem c x); intuition congruence.
Qed.
