(* C02 — transcription of the ACTIVE fraction's index maintenance and of its search path.
   Mirrors: frac/active_lids.go   (TokenLIDs: queue, PutLIDsInQueue, getQueuedLIDs, GetLIDs, queueIDs.Less,
                                   SeqIDCmp.compare, mergeSorted with its three de-duplication sites),
            frac/inverser.go      (newInverser, Len, Inverse, Revert),
            frac/active_index.go  (getIDsIndex: _all_ mapping + inverser; activeIDsIndex GetMID/GetRID/LessOrEqual/Len;
                                   GetLIDsFromTIDs + inverseLIDs with the minLID/maxLID clamp; Search),
            frac/active.go        (NewActive: system ID at LID 0; AppendIDs: LID = position in MIDs/RIDs),
            frac/active_indexer.go(appendWorker: AppendIDs, GroupLIDsByToken, addLIDsToTokens -> PutLIDsInQueue).
   Arrays (MIDs, RIDs, inversion) are lists indexed from 0. No proofs in this file. *)
From C02 Require Export Model.
Open Scope N_scope.

Definition get (a : list N) (i : N) : N := nth (N.to_nat i) a 0.

(* ---------------------------------------------------------------- SeqIDCmp.compare *)
(* Gt = 1 (a greater), Lt = -1, Eq = 0 *)
Definition seq_cmp (mids rids : list N) (a b : N) : comparison :=
  let ma := get mids a in let mb := get mids b in
  if mb <? ma then Gt else if ma <? mb then Lt else
  let ra := get rids a in let rb := get rids b in
  if rb <? ra then Gt else if ra <? rb then Lt else
  if a <? b then Lt else if b <? a then Gt else Eq.

(* queueIDs.Less on the values at two positions: true = a sorts before b (descending (MID, RID, LID)) *)
Definition queue_less (mids rids : list N) (a b : N) : bool :=
  if get mids a =? get mids b then
    if get rids a =? get rids b then b <? a else get rids b <? get rids a
  else get mids b <? get mids a.

(* sort.Sort(&queueIDs{...}): the order is total on values, so the sorted arrangement of the queue is unique
   (ProofsTx.sort_unique) and any correct sorting algorithm models it; insertion sort here *)
Fixpoint q_insert (mids rids : list N) (x : N) (l : list N) : list N :=
  match l with
  | [] => [x]
  | y :: l' => if queue_less mids rids y x then y :: q_insert mids rids x l' else x :: l
  end.
Fixpoint q_sort (mids rids : list N) (l : list N) : list N :=
  match l with [] => [] | x :: l' => q_insert mids rids x (q_sort mids rids l') end.

(* ---------------------------------------------------------------- mergeSorted *)
Definition max_u32 : N := 4294967295.

(* r == len(right): for _, val = range left[l:] { if val == prev { continue }; append; prev = val } *)
Fixpoint dedup_left (left : list N) (prev : N) : list N :=
  match left with
  | [] => []
  | v :: l => if v =? prev then dedup_left l prev else v :: dedup_left l v
  end.

(* heads of right/left = right[r] / left[l]; prev as in the Go loop *)
Fixpoint merge_sorted (cmp : N -> N -> comparison) (right : list N) : list N -> N -> list N :=
  fix go (left : list N) (prev : N) : list N :=
    match right, left with
    | ri :: right', li :: left' =>
        match cmp ri li with
        | Eq => if prev =? ri then merge_sorted cmp right' left' prev       (* case 0: r++, l++ *)
                else ri :: merge_sorted cmp right' left' ri
        | Gt => if prev =? ri then merge_sorted cmp right' left prev        (* case 1: r++ *)
                else ri :: merge_sorted cmp right' left ri
        | Lt => if prev =? li then go left' prev                            (* case -1: l++ *)
                else li :: go left' li
        end
    | _ :: _, [] => right                      (* l == len(left): append(result, right[r:]...) *)
    | [], _ => dedup_left left prev            (* r == len(right) *)
    end.

(* ---------------------------------------------------------------- TokenLIDs *)
Record tlids := { t_sorted : list N; t_queue : list N }.
Definition tl_empty : tlids := {| t_sorted := []; t_queue := [] |}.

Definition put_lids (tl : tlids) (lids : list N) : tlids :=
  {| t_sorted := t_sorted tl; t_queue := t_queue tl ++ lids |}.

(* GetLIDs: new state; the returned slice is its t_sorted *)
Definition get_lids (mids rids : list N) (tl : tlids) : tlids :=
  match t_queue tl with
  | [] => tl
  | q => {| t_sorted := merge_sorted (seq_cmp mids rids) (t_sorted tl) (q_sort mids rids q) max_u32;
            t_queue := [] |}
  end.

(* ---------------------------------------------------------------- inverser *)
Fixpoint upd (l : list N) (i : nat) (v : N) : list N :=
  match l, i with
  | [], _ => []                                (* out of range: Go would panic; never happens (values < size) *)
  | _ :: t, O => v :: t
  | h :: t, S i' => h :: upd t i' v
  end.

(* for i, v := range values { inversion[v] = i + 1 } *)
Fixpoint fill_inv (values : list N) (i : N) (inv : list N) : list N :=
  match values with
  | [] => inv
  | v :: vs => fill_inv vs (i + 1) (upd inv (N.to_nat v) (i + 1))
  end.

Definition new_inversion (values : list N) (size : nat) : list N := fill_inv values 0 (repeat 0 size).

(* Inverse(k): (v, v > 0), false beyond the array *)
Definition inverse (inversion : list N) (k : N) : option N :=
  match nth_error inversion (N.to_nat k) with
  | Some v => if 0 <? v then Some v else None
  | None => None
  end.

(* inverseLIDs *)
Fixpoint inverse_lids (unmapped inversion : list N) (minLID maxLID : N) : list N :=
  match unmapped with
  | [] => []
  | v :: r =>
      match inverse inversion v with
      | Some x => if (minLID <=? x) && (x <=? maxLID) then x :: inverse_lids r inversion minLID maxLID
                  else inverse_lids r inversion minLID maxLID
      | None => inverse_lids r inversion minLID maxLID
      end
  end.

(* ---------------------------------------------------------------- the active fraction's index state *)
(* the token dictionary (TokenList) is kept as the list of its tokens in order of first appearance plus the
   TokenLIDs of each token; its hash tables / TID numbering are not part of C02 *)
Record astate := {
  a_mids : list N;
  a_rids : list N;
  a_all : tlids;                (* TokenList.GetAllTokenLIDs() *)
  a_keys : list tok;
  a_tl : tok -> tlids
}.

(* NewActive: LID 0 is the system ID *)
Definition a_init : astate :=
  {| a_mids := [max_u64]; a_rids := [max_u64]; a_all := tl_empty; a_keys := []; a_tl := fun _ => tl_empty |}.

Definition tok_put (t : tok) (lid : N) (st : astate) : astate :=
  {| a_mids := a_mids st; a_rids := a_rids st; a_all := a_all st;
     a_keys := add_tok t (a_keys st);
     a_tl := fun u => if tok_eqb u t then put_lids (a_tl st t) [lid] else a_tl st u |}.

(* one document of a bulk: AppendIDs gives it LID = len(MIDs); its LID is queued once per token OCCURRENCE
   (GroupLIDsByToken keeps multiplicity) and once for the all-token. The real worker does AppendIDs for the
   whole bulk and then one PutLIDsInQueue per token with the token's group; the queues that result are the
   same lists (group order = document order). *)
Definition add_doc (st : astate) (d : doc) : astate :=
  let lid := N.of_nat (length (a_mids st)) in
  let st1 := {| a_mids := a_mids st ++ [dmid d]; a_rids := a_rids st ++ [drid d];
                a_all := put_lids (a_all st) [lid]; a_keys := a_keys st; a_tl := a_tl st |} in
  fold_left (fun s t => tok_put t lid s) (dtoks d) st1.

Definition bulk (st : astate) (ds : list doc) : astate := fold_left add_doc ds st.

(* ---------------------------------------------------------------- search on the active fraction *)
Fixpoint leaf_pats (q : query) : list pat :=
  match q with
  | QLeaf p => [p]
  | QNot a => leaf_pats a
  | QAnd l r | QOr l r | QNAnd l r => leaf_pats l ++ leaf_pats r
  end.

Section WithMatcher.
Context {tm : Matcher}.

(* what a search leaves behind: GetLIDs was called on the all-token and on every token matching a leaf *)
Definition touch (st : astate) (q : query) : astate :=
  let m := a_mids st in let r := a_rids st in
  {| a_mids := m; a_rids := r; a_all := get_lids m r (a_all st); a_keys := a_keys st;
     a_tl := fun u => if existsb (fun p => tok_match p u) (leaf_pats q) then get_lids m r (a_tl st u)
                      else a_tl st u |}.

(* the IDs index as IndexSearch sees it: position p (LID p+1) holds the ID of internal LID values[p]
   (Revert, then MIDs/RIDs); only IDs are known to it *)
Definition ids_table (mids rids values : list N) : list doc :=
  map (fun v => Doc (get mids v) (get rids v) []) values.

(* evalLeaf on the active token index: FindPattern, then per TID GetLIDs + inverseLIDs + NewStatic *)
Definition leaf_tx (st : astate) (inversion : list N) (minLID maxLID : N) (p : pat) : res ntree :=
  build_or_tree
    (map (fun t => NStatic (inverse_lids (t_sorted (get_lids (a_mids st) (a_rids st) (a_tl st t)))
                                         inversion minLID maxLID))
         (filter (tok_match p) (a_keys st))).

Definition tree_lids_tx (st : astate) (q : query) (from to : N) (rev : bool) : res (list N * list doc) :=
  let m := a_mids st in let r := a_rids st in
  let values := t_sorted (get_lids m r (a_all st)) in          (* mapping *)
  let inversion := new_inversion values (length m) in           (* newInverser(mapping, len(mids)) *)
  let tabx := ids_table m r values in
  bind (lids_borders from to tabx) (fun b =>
  bind (build_tree_with (leaf_tx st inversion (fst b) (snd b)) (fst b) (snd b) q) (fun t =>
  bind (eval_ntree rev t) (fun lids => Ok (lids, tabx)))).

Definition search_tx (st : astate) (q : query) (from to : N) (rev : bool) (limit : N) (wt : bool) (hist : N)
  : res (list id * N) :=
  bind (tree_lids_tx st q from to rev) (fun x =>
  let '(lids, tabx) := x in
  let '(total, ids) := iterate tabx limit (wt || (0 <? hist)) lids 0 0 (0, 0) in
  Ok (ids, if wt then total else 0)).

Definition hist_tx (st : astate) (q : query) (from to : N) (rev : bool) (hist : N) : res (list (N * N)) :=
  if 0 <? hist then
    bind (tree_lids_tx st q from to rev) (fun x =>
    let '(lids, tabx) := x in Ok (hist_of hist (map (fun l => fst (lid_id tabx l)) lids)))
  else Ok [].

(* ---------------------------------------------------------------- scripts: bulks and searches interleaved *)
Inductive op := OBulk (ds : list doc) | OSearch (q : query).

Definition step (st : astate) (o : op) : astate :=
  match o with OBulk ds => bulk st ds | OSearch q => touch st q end.
Definition run (ops : list op) : astate := fold_left step ops a_init.

Fixpoint docs_of (ops : list op) : list doc :=
  match ops with
  | [] => []
  | OBulk ds :: r => ds ++ docs_of r
  | OSearch _ :: r => docs_of r
  end.

(* the whole pipeline: ingest/search history, then one more search *)
Definition search_model_tx (ops : list op) (q : query) (from to : N) (rev : bool) (limit : N) (wt : bool)
           (hist : N) : res (list id * N) :=
  search_tx (run ops) q from to rev limit wt hist.

End WithMatcher.
