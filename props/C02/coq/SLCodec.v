(* copy of props/C03/coq/ProofsCodec.v (see SealedLids.v) *)
(* C03 — Chunks.Pack / Chunks.unpack round trip (uint32 wrap of the end marker). *)
From Coq Require Import List Bool Arith NArith ZArith Lia.
Import ListNotations.
From C02 Require Import SealedLids.

Local Open Scope Z_scope.

Definition lid_ok (x : N) : Prop := (x < 4294967295)%N.

(* chunk lists Pack can represent: every LID below the end marker; an open block (IsLastLID = false)
   ends inside a non-empty chunk *)
Definition chunks_wf (c : chunks) : Prop :=
  Forall (Forall lid_ok) (c_list c) /\
  (c_last c = false -> c_list c <> [] /\ last (c_list c) [] <> []).

Definition st_ok (z : Z) : Prop := 0 <= z < maxu32.

Lemma u32_small z : 0 <= z < two32 -> u32 z = z.
Proof. intros. unfold u32. apply Z.mod_small; auto. Qed.

Lemma step_lid last x : st_ok last -> 0 <= x < maxu32 -> u32 (last + u32 (x - last)) = x.
Proof.
  intros Hl Hx. unfold u32. rewrite Zplus_mod_idemp_r.
  replace (last + (x - last)) with x by lia. apply Z.mod_small. unfold maxu32, two32 in *. lia.
Qed.

Lemma step_marker last : st_ok last -> u32 (last + u32 (-1 - last)) = maxu32.
Proof.
  intros Hl. unfold u32. rewrite Zplus_mod_idemp_r.
  replace (last + (-1 - last)) with (-1) by lia. reflexivity.
Qed.

Lemma step_restore last : st_ok last -> u32 (maxu32 - u32 (-1 - last)) = last.
Proof.
  intros Hl. unfold u32. rewrite Zminus_mod_idemp_r.
  replace (maxu32 - (-1 - last)) with (last + 1 * two32) by (unfold maxu32, two32; lia).
  rewrite Z.mod_add by (unfold two32; lia). apply Z.mod_small. unfold st_ok, maxu32, two32 in *. lia.
Qed.

Lemma last_lid_ok l : forall last, st_ok last -> Forall lid_ok l -> st_ok (last_lid last l).
Proof.
  induction l as [|x r IH]; intros last Hl Hf; simpl; auto.
  inversion Hf; subst. apply IH; auto. unfold st_ok, lid_ok, maxu32 in *. lia.
Qed.

(* one chunk: its deltas are read back into [cur] *)
Lemma unpack_chunk l : forall last cur done rest,
  st_ok last -> Forall lid_ok l ->
  unpack_go (pack_chunk last l ++ rest) last cur done
  = unpack_go rest (last_lid last l) (rev l ++ cur) done.
Proof.
  induction l as [|x r IH]; intros last cur done rest Hl Hf; [reflexivity|].
  inversion Hf as [|? ? Hx Hr]; subst. cbn [pack_chunk app unpack_go last_lid rev].
  assert (Hx' : 0 <= Z.of_N x < maxu32) by (unfold lid_ok, maxu32 in *; lia).
  rewrite (step_lid last (Z.of_N x) Hl Hx').
  destruct (Z.eqb_spec (Z.of_N x) maxu32) as [E|_]; [lia|].
  rewrite N2Z.id. rewrite IH; auto.
  rewrite <- app_assoc. reflexivity.
Qed.

Lemma unpack_marker last cur done rest :
  st_ok last ->
  unpack_go ((-1 - last) :: rest) last cur done = unpack_go rest last [] (rev cur :: done).
Proof.
  intros Hl. cbn [unpack_go]. rewrite (step_marker last Hl). rewrite Z.eqb_refl.
  rewrite (step_restore last Hl). reflexivity.
Qed.

Lemma pack_from_cons last c rest isLast :
  pack_from last (c :: rest) isLast
  = pack_chunk last c ++ (if negb (is_nil rest) || isLast then [(-1 - last_lid last c)] else [])
      ++ pack_from (last_lid last c) rest isLast.
Proof. reflexivity. Qed.

Lemma unpack_closed cs : forall last done,
  st_ok last -> Forall (Forall lid_ok) cs ->
  unpack_go (pack_from last cs true) last [] done = mkChunks (rev done ++ cs) true.
Proof.
  induction cs as [|c rest IH]; intros last done Hl Hf.
  - cbn. rewrite app_nil_r. reflexivity.
  - inversion Hf as [|? ? Hc Hr]; subst.
    rewrite pack_from_cons, orb_true_r. rewrite unpack_chunk by auto.
    cbn [app]. rewrite unpack_marker by (apply last_lid_ok; auto).
    rewrite IH by (auto using last_lid_ok).
    rewrite app_nil_r, rev_involutive. cbn [rev]. rewrite <- app_assoc. reflexivity.
Qed.

Lemma unpack_open cs : forall lst done,
  st_ok lst -> Forall (Forall lid_ok) cs -> cs <> [] -> List.last cs [] <> [] ->
  unpack_go (pack_from lst cs false) lst [] done = mkChunks (rev done ++ cs) false.
Proof.
  induction cs as [|c rest IH]; intros lst done Hl Hf Hne Hlast; [congruence|].
  inversion Hf as [|? ? Hc Hr]; subst.
  rewrite pack_from_cons.
  destruct rest as [|c2 rest'].
  - cbn [is_nil negb orb pack_from app]. cbn [List.last] in Hlast.
    rewrite unpack_chunk by auto. cbn [unpack_go]. rewrite app_nil_r.
    destruct c as [|x r]; [congruence|].
    destruct (rev (x :: r)) eqn:E.
    + apply (f_equal (@length N)) in E. rewrite rev_length in E. simpl in E. lia.
    + rewrite <- E. rewrite rev_involutive. cbn [rev]. reflexivity.
  - cbn [is_nil negb orb].
    rewrite unpack_chunk by auto.
    cbn [app]. rewrite unpack_marker by (apply last_lid_ok; auto).
    rewrite IH; auto using last_lid_ok; try congruence.
    rewrite app_nil_r, rev_involutive. cbn [rev]. rewrite <- app_assoc. reflexivity.
Qed.

Theorem chunks_codec : forall c, chunks_wf c -> unpack (pack c) = c.
Proof.
  intros [cs isLast] [Hf Ho]. unfold unpack, pack. simpl in *.
  assert (H0 : st_ok 0) by (unfold st_ok, maxu32; lia).
  destruct isLast.
  - rewrite unpack_closed; auto.
  - destruct (Ho eq_refl). rewrite unpack_open; auto.
Qed.

(* non-vacuity / wrap witness: a LID just below the marker, followed by a smaller one *)
Example chunks_codec_wrap_witness :
  pack (mkChunks [[4294967294%N]; [3%N]] false) = [4294967294; -4294967295; -4294967291]
  /\ unpack [4294967294; -4294967295; -4294967291] = mkChunks [[4294967294%N]; [3%N]] false.
Proof. split; vm_compute; reflexivity. Qed.

(* the hypothesis "below the end marker" is needed: LID 2^32-1 is read as an end marker *)
Example chunks_codec_needs_bound :
  unpack (pack (mkChunks [[4294967295%N]] true)) <> mkChunks [[4294967295%N]] true.
Proof. vm_compute. congruence. Qed.
