(* C02 — TokenLIDs.GetLIDs as TWO steps, with PutLIDsInQueue of other index workers in between.
   Mirrors frac/active_lids.go: GetLIDs holds sortedMu for its whole duration (so at most one reader is between the
   steps), getQueuedLIDs takes the queue under queueMu only (step ZTake: `lids := tl.queue; tl.queue = nil`), then
   mids.GetVals()/rids.GetVals(), sort.Sort and mergeSorted run WITHOUT queueMu (step ZMerge), while PutLIDsInQueue
   (`tl.queue = append(tl.queue, lids...)` under queueMu only) of the index workers may run at any time (ZPut).
   The aliasing discipline is a parameter:
     Fresh        the code: after the take the queue is nil, so the taken slice is PRIVATE to the reader;
     Shared cap   the variant `tl.queue = tl.queue[:0]` ("keep the buffer"): the taken slice and the live queue share
                  one backing array of capacity cap; an append that fits writes INTO that array, i.e. over the taken
                  cells from offset len(queue) on; an append that does not fit reallocates (from then on no aliasing).
   No proofs in this file. *)
From C02 Require Export ModelTx.
Open Scope N_scope.

Inductive disc := Fresh | Shared (cap : nat).

Record tl2 := {
  z_sorted : list N;
  z_queue : list N;                  (* tl.queue as PutLIDsInQueue / getQueuedLIDs see it *)
  z_taken : option (list N);         (* the slice the reader holds between take and merge *)
  z_alias : bool                     (* the live queue still lives in the taken slice's backing array *)
}.
Definition tl2_empty : tl2 := {| z_sorted := []; z_queue := []; z_taken := None; z_alias := false |}.
Definition tl2_of (tl : tlids) : tl2 :=
  {| z_sorted := t_sorted tl; z_queue := t_queue tl; z_taken := None; z_alias := false |}.

(* the cells of t from offset off on are overwritten by xs (as far as t reaches) *)
Fixpoint overwrite (t : list N) (off : nat) (xs : list N) : list N :=
  match t with
  | [] => []
  | c :: t' =>
      match off with
      | S o => c :: overwrite t' o xs
      | O => match xs with [] => t | x :: xs' => x :: overwrite t' O xs' end
      end
  end.

Inductive tstep := ZPut (xs : list N) | ZTake | ZMerge.

Definition step2 (d : disc) (mids rids : list N) (z : tl2) (s : tstep) : tl2 :=
  match s with
  | ZPut xs =>
      let q' := z_queue z ++ xs in
      match d, z_alias z, z_taken z with
      | Shared cap, true, Some t =>
          if (length q' <=? cap)%nat
          then {| z_sorted := z_sorted z; z_queue := q';
                  z_taken := Some (overwrite t (length (z_queue z)) xs); z_alias := true |}
          else {| z_sorted := z_sorted z; z_queue := q'; z_taken := Some t; z_alias := false |}
      | _, _, _ => {| z_sorted := z_sorted z; z_queue := q'; z_taken := z_taken z; z_alias := z_alias z |}
      end
  | ZTake =>
      match z_taken z, z_queue z with
      | Some _, _ => z                                   (* sortedMu is held: a second GetLIDs waits *)
      | None, [] => z                                    (* getQueuedLIDs returns nil: GetLIDs returns tl.sorted at once *)
      | None, q => {| z_sorted := z_sorted z; z_queue := []; z_taken := Some q;
                      z_alias := match d with Shared _ => true | Fresh => false end |}
      end
  | ZMerge =>
      match z_taken z with
      | None => z
      | Some t => {| z_sorted := merge_sorted (seq_cmp mids rids) (z_sorted z) (q_sort mids rids t) max_u32;
                     z_queue := z_queue z; z_taken := None; z_alias := false |}
      end
  end.

Definition run2 (d : disc) (mids rids : list N) (sched : list tstep) (z : tl2) : tl2 :=
  fold_left (step2 d mids rids) sched z.

(* every LID ever handed to PutLIDsInQueue *)
Fixpoint puts_of (sched : list tstep) : list N :=
  match sched with
  | [] => []
  | ZPut xs :: r => xs ++ puts_of r
  | _ :: r => puts_of r
  end.

(* finish an open GetLIDs (if any), then one complete GetLIDs *)
Definition settle : list tstep := [ZMerge; ZTake; ZMerge].
