(* C02 — transcription of the SEALED fraction's search path at the level of numbers, and of the data
   provider's clamp of the requested time range.
   Mirrors: frac/sealed_index.go      (sealedIDsIndex: Len, GetMID/GetRID through blocks of consts.IDsPerBlock,
                                       LessOrEqual with the block-minimum shortcuts; sealedTokenIndex:
                                       GetTIDsByTokenExpr = pattern.Search over the field's TIDs in order,
                                       GetLIDsFromTIDs = one IteratorDesc / IteratorAsc per TID clipped to
                                       [minLID,maxLID]; sealedDataProvider.Search -> IndexSearch),
            frac/disk_blocks_producer.go (getIDsBlocksGenerator: sorted IDs cut into blocks; getFracSortedFields /
                                       getTIDsSortedByToken: TIDs numbered over fields and tokens in sorted order;
                                       getLIDsBlockGenerator — in SealedLids.v),
            frac/disk_blocks_writer.go (writeIDsBlocks: MinBlockIDs = last ID of each block),
            frac/lids/*               (Table, IteratorAsc/Desc, Chunks.Pack/unpack — SealedLids.v, copy of C03's model),
            frac/active_index.go      (activeDataProvider.Search: params.From/To clamped to info.From/To),
            frac/active.go            (DataProvider: EmptyDataProvider for a fraction without documents;
                                       UpdateStats: info.From/To = min/max MID), frac/info.go (NewInfo).
   The byte codecs of the ID blocks (varint / zstd) and the token table blocks are outside the model: a block is
   the list of the values it holds. No proofs in this file. *)
From C02 Require Export Model ModelTx.
From C02 Require SealedLids.
Module SL := SealedLids.
Open Scope N_scope.

(* ================================================================ the provider's clamp *)
(* NewInfo: From = MaxUint64, To = 0; UpdateStats after every bulk: From = min, To = max of the MIDs *)
Definition info_of (c : list doc) : N * N :=
  (fold_left (fun a d => N.min a (dmid d)) c max_u64, fold_left (fun a d => N.max a (dmid d)) c 0).

(* params.From = max(params.From, info.From); params.To = min(params.To, info.To) *)
Definition clamp (inf : N * N) (from to : N) : N * N := (N.max from (fst inf), N.min to (snd inf)).

Section WithMatcher.
Context {tm : Matcher}.

(* Active.DataProvider + activeDataProvider.Search, over the specification-level LID table *)
Definition provider_search (c : list doc) (q : query) (from to : N) (rev : bool) (limit : N) (wt : bool)
           (hist : N) : res (list id * N) :=
  match c with
  | [] => Ok ([], 0)                                     (* DocsTotal == 0: EmptyDataProvider *)
  | _ => let '(f, t) := clamp (info_of c) from to in search_model c q f t rev limit wt hist
  end.

(* the same over the transcribed active index (ModelTx.v) *)
Definition provider_search_tx (ops : list op) (q : query) (from to : N) (rev : bool) (limit : N) (wt : bool)
           (hist : N) : res (list id * N) :=
  match docs_of ops with
  | [] => Ok ([], 0)
  | c => let '(f, t) := clamp (info_of c) from to in search_model_tx ops q f t rev limit wt hist
  end.
Definition provider_hist_tx (ops : list op) (q : query) (from to : N) (rev : bool) (hist : N) : res (list (N * N)) :=
  match docs_of ops with
  | [] => Ok []
  | c => let '(f, t) := clamp (info_of c) from to in hist_tx (run ops) q f t rev hist
  end.

End WithMatcher.

(* ================================================================ sealed IDs *)
Definition sys_id : id := (max_u64, max_u64).            (* systemSeqID at LID 0 *)

(* getIDsBlocksGenerator: for len(ids) > 0 { right := min(size, len(ids)); push(ids[:right]); ids = ids[right:] } *)
Fixpoint chop {A} (fuel size : nat) (l : list A) : list (list A) :=
  match fuel with
  | O => []
  | S f => match l with
           | [] => []
           | _ => firstn size l :: chop f size (skipn size l)
           end
  end.

Record sids := { s_blocks : list (list id); s_mins : list id; s_total : N; s_ipb : N }.

Definition seal_ids (ipb : N) (tab : list doc) : sids :=
  let ids := sys_id :: map did tab in
  let bs := chop (length ids) (N.to_nat ipb) ids in
  {| s_blocks := bs;
     s_mins := map (fun b => last b (0, 0)) bs;          (* DiskIDsBlock.getMinID *)
     s_total := N.of_nat (length ids);                   (* IDsTable.IDsTotal = f.MIDs.Len() *)
     s_ipb := ipb |}.

(* GetMID / GetRID: block lid / IDsPerBlock, value at lid - startLID *)
Definition sid_get (s : sids) (lid : N) : id :=
  nth (N.to_nat (lid mod s_ipb s)) (nth (N.to_nat (lid / s_ipb s)) (s_blocks s) []) (0, 0).

(* sealedIDsIndex.LessOrEqual *)
Definition sealed_le (s : sids) (lid : N) (x : id) : bool :=
  if s_total s <=? lid then true                          (* out of right border *)
  else
    let bi := N.to_nat (lid / s_ipb s) in
    if negb (id_le (nth bi (s_mins s) (0, 0)) x) then false
    else if (0 <? bi)%nat && id_le (nth (bi - 1) (s_mins s) (0, 0)) x then true
    else
      let i := sid_get s lid in
      if fst i =? fst x then (if snd x =? max_u64 then true else snd i <=? snd x)
      else fst i <? fst x.

(* getLIDsBorders over any IDs index: le = LessOrEqual, last = Len() - 1 *)
Definition lids_borders_with (le : N -> id -> bool) (last from to : N) : res (N * N) :=
  let maxID : id := (to, max_u64) in
  let minID : id := if 0 <? from then (from - 1, max_u64) else (from, 0) in
  bind (bin_search_in_range 1 last (fun lid => le lid maxID)) (fun minLID =>
  bind (bin_search_in_range minLID last (fun lid => le lid minID)) (fun e =>
  Ok (minLID, e - 1))).

(* iterateEvalTree over any IDs index: get lid = (GetMID lid, GetRID lid) *)
Fixpoint iterate_g (get : N -> id) (limit : N) (scan_all : bool) (lids : list N)
         (nids total : N) (last : id) : N * list id :=
  let need_more := nids <? limit in
  if negb need_more && negb scan_all then (total, [])
  else match lids with
       | [] => (total, [])
       | lid :: rest =>
           if need_more then
             let x := get lid in
             if (total =? 0) || negb (id_eqb last x)
             then let '(t, l) := iterate_g get limit scan_all rest (nids + 1) (total + 1) x in (t, x :: l)
             else iterate_g get limit scan_all rest nids (total + 1) x
           else iterate_g get limit scan_all rest nids (total + 1) last
       end.

(* ================================================================ sealed tokens *)
(* dictionary order: getFracSortedFields (the harness numbers the fields in the order of their names), then
   getTIDsSortedByToken (bytes.Compare); TID = 1 + position in that order *)
Definition tok_leb (a b : tok) : bool :=
  (fst a <? fst b) || ((fst a =? fst b) && bytes_leb (snd a) (snd b)).

Fixpoint ins_tok (t : tok) (l : list tok) : list tok :=
  match l with
  | [] => [t]
  | s :: l' => if tok_eqb s t then l else if tok_leb t s then t :: l else s :: ins_tok t l'
  end.
Definition svocab (tab : list doc) : list tok :=
  fold_left (fun acc d => fold_left (fun a t => ins_tok t a) (dtoks d) acc) tab [].

(* the LID blocks are flushed at every field end: the dictionary as a list of fields *)
Fixpoint group_fields (l : list tok) : list (list tok) :=
  match l with
  | [] => []
  | t :: l' =>
      match group_fields l' with
      | (u :: g) :: gs => if fst t =? fst u then (t :: u :: g) :: gs else [t] :: (u :: g) :: gs
      | gs => [t] :: gs
      end
  end.

(* all LIDs of a token, ascending (what GetLIDs + reassignLIDs hand to the block generator) *)
Definition full_posting (tab : list doc) (t : tok) : list N := posting t 0 (N.of_nat (length tab)) 1 tab.

Record sprepared := {
  sp_tab : list doc;
  sp_ids : sids;
  sp_voc : list tok;                                     (* TID k+1 = k-th token *)
  sp_table : SL.table;                                   (* lids.Table as loaded from the registry *)
  sp_chunks : list SL.chunks;                            (* the LID blocks as unpacked from the file *)
  sp_ok : bool                                           (* the block generator delivered *)
}.

Definition sprepare (ipb cap : N) (c : list doc) : sprepared :=
  let tab := table c in
  let voc := svocab tab in
  let fields := map (map (full_posting tab)) (group_fields voc) in
  match SL.sealed_blocks (N.to_nat cap) fields with
  | SL.Ok bs => {| sp_tab := tab; sp_ids := seal_ids ipb tab; sp_voc := voc;
                   sp_table := SL.loaded_table bs; sp_chunks := SL.roundtrip_chunks bs; sp_ok := true |}
  | _ => {| sp_tab := tab; sp_ids := seal_ids ipb tab; sp_voc := voc;
            sp_table := SL.mkTable [] [] []; sp_chunks := []; sp_ok := false |}
  end.

Section WithMatcher2.
Context {tm : Matcher}.

(* pattern.Search walks the TIDs in order and keeps those whose token passes; GetLIDsFromTIDs makes one iterator
   per kept TID. read tid = everything that iterator yields (in the direction of the search). A reader that
   panics or runs out of fuel gives no tree. The node of a list that was produced downwards is represented by
   the static node of the ascending list (walked from its end when rev): NStatic (rev l) yields l. *)
Fixpoint sealed_nodes (read : N -> SL.res (list N)) (rev : bool) (p : pat) (tid : N) (voc : list tok)
  : res (list ntree) :=
  match voc with
  | [] => Ok []
  | t :: voc' =>
      if tok_match p t then
        match read tid with
        | SL.Ok l => bind (sealed_nodes read rev p (tid + 1) voc')
                          (fun ns => Ok (NStatic (if rev then List.rev l else l) :: ns))
        | _ => OutOfFuel
        end
      else sealed_nodes read rev p (tid + 1) voc'
  end.

Definition sealed_leaf (sp : sprepared) (minLID maxLID : N) (rev : bool) (p : pat) : res ntree :=
  if sp_ok sp then
    let read := fun tid => (if rev then SL.iter_asc else SL.iter_desc) (sp_table sp) (sp_chunks sp) tid minLID maxLID in
    bind (sealed_nodes read rev p 1 (sp_voc sp)) build_or_tree
  else OutOfFuel.

Definition tree_lids_sealed (sp : sprepared) (q : query) (from to : N) (rev : bool) : res (list N) :=
  bind (lids_borders_with (sealed_le (sp_ids sp)) (s_total (sp_ids sp) - 1) from to) (fun b =>
  bind (build_tree_with (sealed_leaf sp (fst b) (snd b) rev) (fst b) (snd b) q) (fun t => eval_ntree rev t)).

Definition search_sealed_prepared (sp : sprepared) (q : query) (from to : N) (rev : bool) (limit : N) (wt : bool)
           (hist : N) : res (list id * N) :=
  bind (tree_lids_sealed sp q from to rev) (fun lids =>
  let '(total, ids) := iterate_g (sid_get (sp_ids sp)) limit (wt || (0 <? hist)) lids 0 0 (0, 0) in
  Ok (ids, if wt then total else 0)).

Definition hist_sealed_prepared (sp : sprepared) (q : query) (from to : N) (rev : bool) (hist : N)
  : res (list (N * N)) :=
  if 0 <? hist then
    bind (tree_lids_sealed sp q from to rev)
         (fun lids => Ok (hist_of hist (map (fun l => fst (sid_get (sp_ids sp) l)) lids)))
  else Ok [].

(* the sealed fraction: ipb = consts.IDsPerBlock, cap = consts.LIDBlockCap *)
Definition search_sealed (ipb cap : N) (c : list doc) (q : query) (from to : N) (rev : bool) (limit : N)
           (wt : bool) (hist : N) : res (list id * N) :=
  search_sealed_prepared (sprepare ipb cap c) q from to rev limit wt hist.
Definition hist_sealed (ipb cap : N) (c : list doc) (q : query) (from to : N) (rev : bool) (hist : N) :=
  hist_sealed_prepared (sprepare ipb cap c) q from to rev hist.

End WithMatcher2.
