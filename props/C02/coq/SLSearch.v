(* copy of props/C03/coq/ProofsSearch.v (see SealedLids.v) *)
(* C03 — sort.Search (binary search) and the range narrowing of the LID iterators. *)
From Coq Require Import List Bool Arith NArith Lia Sorted.
Import ListNotations.
From C02 Require Import SealedLids.

(* ------------------------------------------------------------------ sort.Search *)
Lemma half_bounds i j : i < j -> i <= (i + j) / 2 < j.
Proof.
  intros. split.
  - apply Nat.div_le_lower_bound; lia.
  - apply Nat.div_lt_upper_bound; lia.
Qed.

Lemma bsearch_S k f i j :
  bsearch (S k) f i j = if i <? j then (if f ((i + j) / 2) then bsearch k f i ((i + j) / 2)
                                        else bsearch k f (S ((i + j) / 2)) j) else i.
Proof. reflexivity. Qed.

Definition mono_upto (f : nat -> bool) (n : nat) : Prop :=
  forall a b, a <= b -> b < n -> f a = true -> f b = true.

Lemma bsearch_spec f n : mono_upto f n ->
  forall fuel i j, j - i <= fuel -> i <= j -> j <= n ->
    (forall k, k < i -> f k = false) -> (j < n -> f j = true) ->
    let r := bsearch fuel f i j in
    r <= n /\ (forall k, k < r -> f k = false) /\ (r < n -> f r = true).
Proof.
  intros Hm. induction fuel as [|fuel IH]; intros i j Hf Hij Hjn Hlo Hhi; [cbn|rewrite bsearch_S; cbv zeta].
  - assert (i = j) by lia. subst. repeat split; auto.
  - destruct (Nat.ltb_spec i j) as [Hlt|Hge].
    + pose proof (half_bounds i j Hlt) as [H1 H2].
      destruct (f ((i + j) / 2)) eqn:Eh.
      * apply IH; auto; try lia.
      * apply IH; auto; try lia.
        intros k Hk. destruct (f k) eqn:Ek; auto.
        rewrite (Hm k ((i + j) / 2)) in Eh; auto; lia.
    + assert (i = j) by lia. subst. repeat split; auto.
Qed.

(* for a monotone predicate sort.Search returns the first index where it holds (or n) *)
Lemma sort_search_spec n f : mono_upto f n ->
  let r := sort_search n f in
  r <= n /\ (forall k, k < r -> f k = false) /\ (forall k, r <= k < n -> f k = true).
Proof.
  intros Hm. unfold sort_search.
  destruct (bsearch_spec f n Hm n 0 n) as (H1 & H2 & H3); try lia.
  repeat split; auto.
  intros k [Hk1 Hk2]. apply (Hm (bsearch n f 0 n) k); auto. apply H3. lia.
Qed.

(* ------------------------------------------------------------------ sorted lists *)
Definition sorted (l : list N) : Prop := StronglySorted N.lt l.

Lemma sorted_nth_lt l : sorted l -> forall i j, i < j -> j < length l -> (nthN l i < nthN l j)%N.
Proof.
  unfold nthN. induction 1 as [|x t Ht IH Hall]; intros i j Hij Hj; simpl in *; [lia|].
  destruct j; [lia|]. destruct i.
  - rewrite Forall_forall in Hall. apply Hall. apply nth_In. lia.
  - apply IH; lia.
Qed.

Lemma sorted_nth_le l : sorted l -> forall i j, i <= j -> j < length l -> (nthN l i <= nthN l j)%N.
Proof.
  intros Hs i j Hij Hj. destruct (Nat.eq_dec i j); [subst; lia|].
  apply N.lt_le_incl. apply sorted_nth_lt; auto; lia.
Qed.

Lemma split_filter (p : N -> bool) l : forall r, r <= length l ->
  (forall k, k < r -> p (nthN l k) = false) ->
  (forall k, r <= k < length l -> p (nthN l k) = true) ->
  skipn r l = filter p l /\ firstn r l = filter (fun x => negb (p x)) l.
Proof.
  unfold nthN. induction l as [|x t IH]; intros r Hr Hlo Hhi.
  - destruct r; simpl; auto.
  - destruct r as [|r].
    + simpl skipn. simpl firstn.
      assert (Hx : p x = true) by (apply (Hhi 0); simpl; lia).
      destruct (IH 0) as [E1 E2]; try (simpl; lia).
      { intros k Hk. apply (Hhi (S k)). simpl in *. lia. }
      simpl. rewrite Hx. simpl. simpl in E1, E2. rewrite <- E1, <- E2. auto.
    + assert (Hx : p x = false) by (apply (Hlo 0); lia).
      destruct (IH r) as [E1 E2]; try (simpl in *; lia).
      { intros k Hk. apply (Hlo (S k)). lia. }
      { intros k Hk. apply (Hhi (S k)). simpl in *. lia. }
      simpl. rewrite Hx. simpl. rewrite E1, E2. auto.
Qed.

Lemma cut_left_spec lo l : sorted l -> cut_left lo l = filter (fun x => (lo <=? x)%N) l.
Proof.
  intros Hs. unfold cut_left.
  destruct (sort_search_spec (length l) (fun i => (lo <=? nthN l i)%N)) as (H1 & H2 & H3).
  { intros a b Hab Hb Ha. apply N.leb_le in Ha. apply N.leb_le.
    pose proof (sorted_nth_le l Hs a b Hab Hb). lia. }
  apply (split_filter (fun x => (lo <=? x)%N) l); auto.
Qed.

Lemma cut_right_spec hi l : sorted l -> cut_right hi l = filter (fun x => (x <=? hi)%N) l.
Proof.
  intros Hs. unfold cut_right.
  destruct (sort_search_spec (length l) (fun i => (hi <? nthN l i)%N)) as (H1 & H2 & H3).
  { intros a b Hab Hb Ha. apply N.ltb_lt in Ha. apply N.ltb_lt.
    pose proof (sorted_nth_le l Hs a b Hab Hb). lia. }
  destruct (split_filter (fun x => (hi <? x)%N) l _ H1 H2 H3) as [_ E]. rewrite E.
  apply filter_ext. intros x. rewrite N.leb_antisym. reflexivity.
Qed.

Lemma sorted_filter p l : sorted l -> sorted (filter p l).
Proof.
  induction 1 as [|x t Ht IH Hall]; simpl; [constructor|].
  destruct (p x); auto. constructor; auto.
  rewrite Forall_forall in *. intros y Hy. apply filter_In in Hy. apply Hall. tauto.
Qed.

Lemma filter_all (p : N -> bool) l : (forall x, In x l -> p x = true) -> filter p l = l.
Proof.
  induction l as [|x t IH]; intros H; simpl; auto.
  rewrite (H x) by (left; auto). f_equal. apply IH. intros y Hy. apply H. right; auto.
Qed.
Lemma filter_none (p : N -> bool) l : (forall x, In x l -> p x = false) -> filter p l = [].
Proof.
  induction l as [|x t IH]; intros H; simpl; auto.
  rewrite (H x) by (left; auto). apply IH. intros y Hy. apply H. right; auto.
Qed.
Lemma filter_filter (p q : N -> bool) l : filter p (filter q l) = filter (fun x => q x && p x) l.
Proof.
  induction l as [|x t IH]; simpl; auto.
  destruct (q x); simpl; [destruct (p x)|]; rewrite IH; auto.
Qed.

Lemma sorted_first_le x t y : sorted (x :: t) -> In y (x :: t) -> (x <= y)%N.
Proof.
  intros Hs [E|Hin]; [subst; lia|].
  inversion Hs as [|? ? _ Hall]; subst. rewrite Forall_forall in Hall. specialize (Hall y Hin). lia.
Qed.

Lemma sorted_le_last' l : sorted l -> forall y, In y l -> (y <= lastN l)%N.
Proof.
  unfold lastN. induction 1 as [|x t Ht IH Hall]; intros y Hin; [inversion Hin|].
  destruct t as [|z t'].
  - destruct Hin as [E|[]]. subst. simpl. lia.
  - change (last (x :: z :: t') 0%N) with (last (z :: t') 0%N).
    destruct Hin as [E|Hin]; [subst|auto].
    rewrite Forall_forall in Hall.
    assert (H : In z (z :: t')) by (left; auto).
    pose proof (Hall z H). pose proof (IH z H). lia.
Qed.
Lemma sorted_le_last l y : sorted l -> In y l -> (y <= lastN l)%N.
Proof. intros. apply sorted_le_last'; auto. Qed.

Lemma lastN_in l : l <> [] -> In (lastN l) l.
Proof.
  unfold lastN. induction l as [|x t IH]; intros H; [congruence|].
  destruct t as [|z t']; [left; auto|]. right. apply IH. congruence.
Qed.

(* ------------------------------------------------------------------ narrowLIDsRange *)
(* IteratorDesc: the chunk is cut to [lo,hi]; reading stops early only when everything after this
   chunk is above hi *)
Lemma narrow_desc_spec lo hi l try : sorted l -> l <> [] ->
  exists try', narrow_desc lo hi l try = Some (filter (in_range lo hi) l, try')
               /\ (try' = try \/ (try' = false /\ (hi <= lastN l)%N)).
Proof.
  intros Hs Hne. destruct l as [|x t]; [congruence|]. unfold narrow_desc.
  set (l := x :: t) in *.
  destruct (N.ltb_spec hi x) as [H1|H1].
  { exists false. split; [|right; split; auto].
    - f_equal. f_equal. symmetry. apply filter_none. intros y Hy.
      pose proof (sorted_first_le x t y Hs Hy). unfold in_range.
      destruct (N.leb_spec y hi); try lia; try apply andb_false_r.
    - pose proof (sorted_le_last l x Hs (or_introl eq_refl)). lia. }
  destruct (N.ltb_spec (lastN l) lo) as [H2|H2].
  { exists try. split; [|left; auto]. f_equal. f_equal. symmetry. apply filter_none. intros y Hy.
    pose proof (sorted_le_last l y Hs Hy). unfold in_range.
    destruct (N.leb_spec lo y); try lia; try reflexivity. }
  assert (E1 : (if (x <? lo)%N then cut_left lo l else l) = filter (fun y => (lo <=? y)%N) l).
  { destruct (N.ltb_spec x lo); [apply cut_left_spec; auto|].
    symmetry. apply filter_all. intros y Hy. pose proof (sorted_first_le x t y Hs Hy). apply N.leb_le. lia. }
  rewrite E1.
  destruct (N.leb_spec hi (lastN l)) as [H3|H3].
  - exists false. split; [|right; auto].
    rewrite cut_right_spec by (apply sorted_filter; auto). rewrite filter_filter. reflexivity.
  - exists try. split; [|left; auto]. f_equal. f_equal.
    apply filter_ext_in. intros y Hy. unfold in_range.
    pose proof (sorted_le_last l y Hs Hy). destruct (N.leb_spec y hi); try lia; try (rewrite andb_true_r; reflexivity).
Qed.

(* IteratorAsc: reading (towards smaller LIDs) stops early only when everything before this chunk
   is below lo *)
Lemma narrow_asc_spec lo hi l try : sorted l -> l <> [] ->
  exists try', narrow_asc lo hi l try = Some (filter (in_range lo hi) l, try')
               /\ (try' = try \/ (try' = false /\ (hd 0%N l < lo)%N)).
Proof.
  intros Hs Hne. destruct l as [|x t]; [congruence|]. unfold narrow_asc.
  set (l := x :: t) in *.
  destruct (N.ltb_spec hi x) as [H1|H1].
  { exists try. split; [|left; auto].
    f_equal. f_equal. symmetry. apply filter_none. intros y Hy.
    pose proof (sorted_first_le x t y Hs Hy). unfold in_range.
    destruct (N.leb_spec y hi); try lia; try apply andb_false_r. }
  destruct (N.ltb_spec (lastN l) lo) as [H2|H2].
  { exists false. split.
    - f_equal. f_equal. symmetry. apply filter_none. intros y Hy.
      pose proof (sorted_le_last l y Hs Hy). unfold in_range.
      destruct (N.leb_spec lo y); try lia; try reflexivity.
    - right. split; auto. simpl. pose proof (sorted_le_last l x Hs (or_introl eq_refl)). lia. }
  assert (E2 : forall l1, sorted l1 ->
     (if (hi <=? lastN l)%N then cut_right hi l1 else l1) = filter (fun y => (y <=? hi)%N) l1
     \/ True) by (intros; right; exact I).
  destruct (N.ltb_spec x lo) as [H3|H3].
  - exists false. split; [|right; split; auto].
    f_equal. f_equal.
    rewrite cut_left_spec by auto.
    destruct (N.leb_spec hi (lastN l)) as [H4|H4].
    + rewrite cut_right_spec by (apply sorted_filter; auto). rewrite filter_filter. reflexivity.
    + apply filter_ext_in. intros y Hy. unfold in_range.
      pose proof (sorted_le_last l y Hs Hy). destruct (N.leb_spec y hi); try lia; try (rewrite andb_true_r; reflexivity).
  - exists try. split; [|left; auto]. f_equal. f_equal.
    destruct (N.leb_spec hi (lastN l)) as [H4|H4].
    + rewrite cut_right_spec by auto. apply filter_ext_in. intros y Hy. unfold in_range.
      pose proof (sorted_first_le x t y Hs Hy). destruct (N.leb_spec lo y); try lia; try reflexivity.
    + symmetry. apply filter_all. intros y Hy. unfold in_range.
      pose proof (sorted_first_le x t y Hs Hy). pose proof (sorted_le_last l y Hs Hy).
      apply andb_true_iff. split; apply N.leb_le; lia.
Qed.
