(* C02 — sort.Search / getLIDsBorders and the LID table. *)
From Coq Require Import List Bool Arith NArith ZArith Lia Sorting.Sorted Sorting.Permutation RelationClasses.
From C02 Require Import Model.
Import ListNotations.
Open Scope N_scope.

Lemma mid_bounds i j : i < j -> i <= (i + j) / 2 /\ (i + j) / 2 < j.
Proof.
  intros H. split.
  - apply N.div_le_lower_bound; lia.
  - apply N.div_lt_upper_bound; lia.
Qed.

(* sort.Search on a monotone predicate *)
Lemma search_loop_spec : forall fuel f i j,
  i <= j -> (N.to_nat (j - i) < fuel)%nat ->
  (forall a b, i <= a -> a <= b -> b < j -> f a = true -> f b = true) ->
  exists r, search_loop fuel f i j = Ok r /\ i <= r /\ r <= j /\
            (forall h, i <= h -> h < r -> f h = false) /\
            (forall h, r <= h -> h < j -> f h = true).
Proof.
  induction fuel as [|fuel IH]; intros f i j Hij Hf M; [lia|].
  cbn [search_loop]. destruct (N.ltb_spec i j) as [Hlt|Hge].
  - destruct (mid_bounds i j Hlt) as [B1 B2]. set (h := (i + j) / 2) in *. clearbody h.
    destruct (f h) eqn:Fh.
    + destruct (IH f i h) as [r [E [R1 [R2 [R3 R4]]]]]; [lia|lia|intros a b Ha Hab Hb Hfa; apply (M a b); auto; lia|].
      exists r. split; auto. split; auto. split; [lia|]. split; auto.
      intros k K1 K2. destruct (N.lt_ge_cases k h); [apply R4; auto|].
      apply (M h k); auto.
    + destruct (IH f (h + 1) j) as [r [E [R1 [R2 [R3 R4]]]]]; [lia|lia|intros a b Ha Hab Hb Hfa; apply (M a b); auto; lia|].
      exists r. split; auto. split; [lia|]. split; auto. split; auto.
      intros k K1 K2. destruct (N.lt_ge_cases h k); [apply R3; auto; lia|].
      destruct (f k) eqn:Fk; auto. rewrite (M k h) in Fh; auto; discriminate.
  - exists i. split; auto. split; [lia|]. split; [lia|]. split; intros; lia.
Qed.

Lemma bin_search_spec from to fn :
  from <= to + 1 ->
  (forall a b, from <= a -> a <= b -> b <= to -> fn a = true -> fn b = true) ->
  exists r, bin_search_in_range from to fn = Ok r /\ from <= r /\ r <= to + 1 /\
            (forall h, from <= h -> h < r -> fn h = false) /\
            (forall h, r <= h -> h <= to -> fn h = true).
Proof.
  intros H M. unfold bin_search_in_range.
  destruct (search_loop_spec (S (N.to_nat (to + 1 - from))) (fun i => fn (from + i)) 0 (to + 1 - from))
    as [r [E [R1 [R2 [R3 R4]]]]]; [lia|lia|intros; apply (M (from + a) (from + b)); auto; lia|].
  rewrite E. cbn [bind]. exists (from + r). split; auto. split; [lia|]. split; [lia|]. split.
  - intros h H1 H2. replace h with (from + (h - from)) by lia. apply R3; lia.
  - intros h H1 H2. replace h with (from + (h - from)) by lia. apply R4; lia.
Qed.

(* ---------------------------------------------------------------- tables *)
Definition dl (tab : list doc) (lid : N) : option doc := nth_error tab (N.to_nat (lid - 1)).

(* IDs never increase along the table *)
Definition desc_table (tab : list doc) : Prop :=
  StronglySorted (fun a b => id_geb (did a) (did b) = true) tab.

Lemma ssorted_nth {A} (R : A -> A -> Prop) l : StronglySorted R l ->
  forall p q x y, (p < q)%nat -> nth_error l p = Some x -> nth_error l q = Some y -> R x y.
Proof.
  induction 1 as [|a l S IH F]; intros p q x y Hpq Hp Hq.
  - destruct p; discriminate.
  - destruct q as [|q]; [lia|]. destruct p as [|p]; simpl in *.
    + inversion Hp; subst. rewrite Forall_forall in F. apply F. eapply nth_error_In; eauto.
    + apply (IH p q x y); auto. lia.
Qed.

Lemma id_le_geb a b : id_geb a b = true -> id_le b a = true.
Proof.
  unfold id_geb, id_le. destruct a as [m1 r1], b as [m2 r2]. simpl.
  rewrite (N.eqb_sym m2 m1). auto.
Qed.

Lemma id_le_trans a b c : id_le a b = true -> id_le b c = true -> id_le a c = true.
Proof.
  unfold id_le. destruct a as [m1 r1], b as [m2 r2], c as [m3 r3]. simpl.
  rewrite !orb_true_iff, !andb_true_iff, !N.ltb_lt, !N.eqb_eq, !N.leb_le. lia.
Qed.

Lemma lid_le_mono tab x : desc_table tab ->
  forall a b, 1 <= a -> a <= b -> lid_le tab a x = true -> lid_le tab b x = true.
Proof.
  intros D a b Ha Hab H. unfold lid_le in *.
  destruct (nth_error tab (N.to_nat (b - 1))) as [d2|] eqn:E2; auto.
  destruct (N.eq_dec a b) as [->|Hne]; [rewrite E2 in H; exact H|].
  destruct (nth_error tab (N.to_nat (a - 1))) as [d1|] eqn:E1.
  - assert (G : id_geb (did d1) (did d2) = true).
    { eapply (ssorted_nth _ tab D (N.to_nat (a - 1)) (N.to_nat (b - 1))); eauto. lia. }
    eapply id_le_trans; [apply id_le_geb; eauto|exact H].
  - apply nth_error_None in E1. assert (nth_error tab (N.to_nat (b - 1)) = None) by (apply nth_error_None; lia).
    congruence.
Qed.

Definition ok_doc (d : doc) : Prop := 1 <= dmid d /\ drid d <= max_u64.

Lemma le_maxid to d : ok_doc d -> id_le (did d) (to, max_u64) = (dmid d <=? to).
Proof.
  intros [_ H]. unfold id_le, did. cbn [fst snd].
  replace (drid d <=? max_u64) with true by (symmetry; apply N.leb_le; auto). rewrite andb_true_r.
  destruct (N.ltb_spec (dmid d) to), (N.eqb_spec (dmid d) to), (N.leb_spec (dmid d) to); simpl; auto; lia.
Qed.

Lemma le_minid from d : ok_doc d ->
  id_le (did d) (if 0 <? from then (from - 1, max_u64) else (from, 0)) = (dmid d <? from).
Proof.
  intros [H1 H2]. destruct (N.ltb_spec 0 from) as [Hf|Hf].
  - rewrite le_maxid by (split; auto).
    destruct (N.leb_spec (dmid d) (from - 1)), (N.ltb_spec (dmid d) from); auto; lia.
  - unfold id_le, did. cbn [fst snd].
    destruct (N.ltb_spec (dmid d) from), (N.eqb_spec (dmid d) from); simpl; auto; lia.
Qed.

(* getLIDsBorders returns exactly the interval of LIDs whose MID lies in [from,to] *)
Theorem borders_exact tab from to :
  desc_table tab -> Forall ok_doc tab ->
  exists lo hi, lids_borders from to tab = Ok (lo, hi) /\
    1 <= lo /\ lo <= hi + 1 /\ hi <= N.of_nat (length tab) /\
    (forall lid d, dl tab lid = Some d -> 1 <= lid ->
       (lo <= lid /\ lid <= hi <-> in_range from to d = true)).
Proof.
  intros D OK. unfold lids_borders. set (last := N.of_nat (length tab)).
  destruct (bin_search_spec 1 last (fun lid => lid_le tab lid (to, max_u64))) as [r1 [E1 [A1 [A2 [A3 A4]]]]];
    [lia|intros a b Ha Hab Hb Hf; apply (lid_le_mono tab _ D a b); auto|].
  rewrite E1. cbn [bind].
  destruct (bin_search_spec r1 last
              (fun lid => lid_le tab lid (if 0 <? from then (from - 1, max_u64) else (from, 0))))
    as [r2 [E2 [B1 [B2 [B3 B4]]]]]; [lia|intros a b Ha Hab Hb Hf; apply (lid_le_mono tab _ D a b); auto; lia|].
  rewrite E2. cbn [bind]. exists r1, (r2 - 1). split; auto. split; auto. split; [lia|]. split; [lia|].
  intros lid d Hd Hl.
  assert (Hin : lid <= last).
  { unfold dl in Hd. assert (nth_error tab (N.to_nat (lid - 1)) <> None) by congruence.
    apply nth_error_Some in H. unfold last. lia. }
  assert (Hok : ok_doc d).
  { rewrite Forall_forall in OK. apply OK. eapply nth_error_In. exact Hd. }
  assert (L1 : lid_le tab lid (to, max_u64) = (dmid d <=? to)).
  { unfold lid_le. unfold dl in Hd. rewrite Hd. apply le_maxid; auto. }
  assert (L2 : lid_le tab lid (if 0 <? from then (from - 1, max_u64) else (from, 0)) = (dmid d <? from)).
  { unfold lid_le. unfold dl in Hd. rewrite Hd. apply le_minid; auto. }
  unfold in_range. rewrite andb_true_iff, !N.leb_le.
  destruct (N.lt_ge_cases lid r1) as [C1|C1].
  - specialize (A3 lid Hl C1). cbv beta in A3. rewrite L1 in A3. apply N.leb_gt in A3. lia.
  - specialize (A4 lid C1 Hin). cbv beta in A4. rewrite L1 in A4. apply N.leb_le in A4.
    destruct (N.lt_ge_cases lid r2) as [C2|C2].
    + specialize (B3 lid C1 C2). cbv beta in B3. rewrite L2 in B3. apply N.ltb_ge in B3. lia.
    + specialize (B4 lid C2 Hin). cbv beta in B4. rewrite L2 in B4. apply N.ltb_lt in B4. lia.
Qed.

(* ---------------------------------------------------------------- the LID table of a corpus *)
Lemma key_geb_trans : Transitive (fun x y => is_true (DocOrder.leb x y)).
Proof.
  intros [i1 [m1 r1 t1]] [i2 [m2 r2 t2]] [i3 [m3 r3 t3]]. unfold is_true, DocOrder.leb, ikey, key_geb. simpl.
  rewrite !orb_true_iff, !andb_true_iff, !orb_true_iff, !andb_true_iff, !N.ltb_lt, !N.eqb_eq, !N.leb_le. lia.
Qed.

Lemma ssorted_map {A B} (R : A -> A -> Prop) (R' : B -> B -> Prop) (f : A -> B) l :
  (forall x y, R x y -> R' (f x) (f y)) -> StronglySorted R l -> StronglySorted R' (map f l).
Proof.
  intros H. induction 1 as [|a l S IH F]; simpl; constructor; auto.
  rewrite Forall_forall in *. intros y Hy. apply in_map_iff in Hy. destruct Hy as [x [<- Hx]]. auto.
Qed.

Lemma table_desc c : desc_table (table c).
Proof.
  unfold desc_table, table.
  apply (ssorted_map (fun x y => is_true (DocOrder.leb x y))).
  - intros [i1 [m1 r1 t1]] [i2 [m2 r2 t2]]. unfold is_true, DocOrder.leb, ikey, key_geb, id_geb, did. simpl.
    rewrite !orb_true_iff, !andb_true_iff, !orb_true_iff, !andb_true_iff, !N.ltb_lt, !N.eqb_eq, !N.leb_le. lia.
  - apply DocSort.StronglySorted_sort. exact key_geb_trans.
Qed.

Lemma number_from_snd : forall c i, map snd (number_from i c) = c.
Proof. induction c as [|d c IH]; intros i; simpl; [reflexivity|]. f_equal. apply IH. Qed.

Lemma table_perm c : Permutation c (table c).
Proof.
  unfold table. rewrite <- (number_from_snd c 0) at 1.
  apply Permutation_map. apply DocSort.Permuted_sort.
Qed.

Lemma table_ok c : Forall ok_doc c -> Forall ok_doc (table c).
Proof.
  intros H. rewrite Forall_forall in *. intros d Hd. apply H.
  eapply Permutation_in; [apply Permutation_sym; apply table_perm|exact Hd].
Qed.

(* borders for the table the model builds from any corpus *)
Theorem borders_exact_corpus c from to :
  Forall ok_doc c ->
  exists lo hi, lids_borders from to (table c) = Ok (lo, hi) /\
    1 <= lo /\ lo <= hi + 1 /\ hi <= N.of_nat (length c) /\
    (forall lid d, dl (table c) lid = Some d -> 1 <= lid ->
       (lo <= lid /\ lid <= hi <-> in_range from to d = true)).
Proof.
  intros H. destruct (borders_exact (table c) from to (table_desc c) (table_ok c H))
    as [lo [hi [E [A [B [C D]]]]]].
  exists lo, hi. split; auto. split; auto. split; auto. split; auto.
  rewrite (Permutation_length (table_perm c)). exact C.
Qed.
