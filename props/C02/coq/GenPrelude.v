(* C02 — HAND-WRITTEN, TRUSTED prelude of the generated definitions (Gen.v): the externs of
   props/C02/gen.json. Each definition stands for a standard-library operation or an interface value that
   go2coq does not translate; it is part of the trusted base and listed in evidence. NO proofs.
   (Same text as the round-2 part of props/C14/coq/GenPrelude.v: compiled files of another property cannot be
   imported.) *)
From Coq Require Import ZArith.
Open Scope Z_scope.
From VLib Require Import GoSem.

(* sort.Search(n, f) of the Go standard library:
       i, j := 0, n
       for i < j { h := int(uint(i+j) >> 1); if !f(h) { i = h + 1 } else { j = h } }
       return i
   For 0 <= i <= j < 2^63 the midpoint int(uint(i+j) >> 1) is (i + j) / 2. The predicate is a translated function
   literal (a function into `outcome bool`): when it panics the search panics. The interval at least halves in
   every round, so 65 rounds suffice for every n < 2^63 (C02_gen_sort_Search_adequate proves agreement with the
   model's fuelled sort_search, hence no OutOfFuel). *)
Fixpoint sort_Search_loop (fuel : nat) (f : Z -> outcome bool) (i j : Z) : outcome Z :=
  match fuel with
  | O => OutOfFuel
  | S k =>
      if i <? j then
        let h := (i + j) / 2 in
        bind (f h) (fun b => if b then sort_Search_loop k f i h else sort_Search_loop k f (h + 1) j)
      else Val i
  end.
Definition sort_Search (n : Z) (f : Z -> outcome bool) : outcome Z := sort_Search_loop 65 f 0 n.

(* the interface value `idsIndex` that getLIDsBorders receives: its two methods used there, Len() and the pure
   LessOrEqual(lid, id); I is the (generated) record type of seq.ID *)
Record ids_index (I : Type) := mk_ix { ix_len_f : Z; ix_le_f : Z -> I -> bool }.
Definition ix_len {I : Type} (x : ids_index I) : Z := ix_len_f I x.
Definition ix_le {I : Type} (x : ids_index I) (lid : Z) (id : I) : bool := ix_le_f I x lid id.
