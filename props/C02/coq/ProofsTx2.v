(* C02 — inverser, and the invariant of the active index over bulks and searches. *)
From Coq Require Import List Bool Arith NArith Lia Sorting.Sorted Sorting.Permutation.
From C02 Require Import Model ModelTx ProofsNodes ProofsBorders ProofsLeaf ProofsSearch ProofsTx.
Import ListNotations.
Open Scope N_scope.

Section WithMatcher.
Context {tm : Matcher}.


(* ---------------------------------------------------------------- inverser *)
Lemma upd_length : forall l i v, length (upd l i v) = length l.
Proof. induction l as [|h t IH]; intros [|i] v; simpl; auto. Qed.
Lemma upd_same : forall l i v, (i < length l)%nat -> nth_error (upd l i v) i = Some v.
Proof. induction l as [|h t IH]; intros [|i] v H; simpl in *; try lia; auto; try (apply IH; lia). Qed.
Lemma upd_other : forall l i j v, i <> j -> nth_error (upd l i v) j = nth_error l j.
Proof.
  induction l as [|h t IH]; intros [|i] [|j] v H; simpl; auto; try congruence; try (apply IH; congruence).
Qed.

Lemma fill_inv_spec : forall values i inv,
  NoDup values -> (forall v, In v values -> (N.to_nat v < length inv)%nat) ->
  length (fill_inv values i inv) = length inv /\
  (forall j v, nth_error values j = Some v ->
               nth_error (fill_inv values i inv) (N.to_nat v) = Some (i + N.of_nat j + 1)) /\
  (forall k, (forall v, In v values -> N.to_nat v <> k) -> nth_error (fill_inv values i inv) k = nth_error inv k).
Proof.
  induction values as [|v vs IH]; intros i inv ND B; cbn [fill_inv].
  - split; auto. split; auto. intros [|j] v H; discriminate.
  - inversion ND as [|? ? Hnot ND']; subst.
    destruct (IH (i + 1) (upd inv (N.to_nat v) (i + 1)) ND') as [L [P Q]].
    { intros w Hw. rewrite upd_length. apply B. right; auto. }
    split; [rewrite L; apply upd_length|]. split.
    + intros [|j] w H; simpl in H.
      * inversion H; subst w. rewrite Q.
        -- rewrite upd_same; [f_equal; lia|apply B; left; auto].
        -- intros w Hw E. apply N2Nat.inj in E. subst w. contradiction.
      * rewrite (P j w H). f_equal. lia.
    + intros k Hk. rewrite Q; [|intros w Hw; apply Hk; right; auto].
      apply upd_other. apply Hk. left; auto.
Qed.

Lemma nth_error_repeat0 n k v : nth_error (repeat 0 n) k = Some v -> v = 0.
Proof. intros H. apply nth_error_In in H. apply repeat_spec in H. exact H. Qed.

(* Inverse maps exactly the mapped values to their 1-based position *)
Theorem inverse_exact values size k x :
  NoDup values -> (forall v, In v values -> (N.to_nat v < size)%nat) ->
  (inverse (new_inversion values size) k = Some x <->
   exists j, nth_error values j = Some k /\ x = N.of_nat j + 1).
Proof.
  intros ND B. unfold inverse, new_inversion.
  destruct (fill_inv_spec values 0 (repeat 0 size) ND) as [L [P Q]]; [rewrite repeat_length; exact B|].
  split.
  - intros H. destruct (in_dec N.eq_dec k values) as [Hin|Hout].
    + apply In_nth_error in Hin. destruct Hin as [j Hj]. rewrite (P j k Hj) in H.
      exists j. split; auto. destruct (0 <? 0 + N.of_nat j + 1); inversion H; lia.
    + rewrite Q in H; [|intros w Hw E; apply N2Nat.inj in E; subst; contradiction].
      destruct (nth_error (repeat 0 size) (N.to_nat k)) as [v|] eqn:E; [|discriminate].
      apply nth_error_repeat0 in E. subst v. discriminate.
  - intros [j [Hj ->]]. rewrite (P j k Hj).
    replace (0 <? 0 + N.of_nat j + 1) with true by (symmetry; apply N.ltb_lt; lia). f_equal; try lia.
Qed.

Lemma inverse_lids_In un inv lo hi x :
  In x (inverse_lids un inv lo hi) <-> lo <= x /\ x <= hi /\ exists v, In v un /\ inverse inv v = Some x.
Proof.
  induction un as [|v r IH]; cbn [inverse_lids].
  - simpl. split; [tauto|]. intros [_ [_ [v [[] _]]]].
  - destruct (inverse inv v) as [y|] eqn:E.
    + destruct ((lo <=? y) && (y <=? hi)) eqn:C.
      * apply andb_true_iff in C. destruct C as [C1 C2]. apply N.leb_le in C1, C2. cbn [In]. rewrite IH. split.
        -- intros [<-|[A [B [w [Hw Ew]]]]].
           ++ split; auto. split; auto. exists v. split; [left; auto|auto].
           ++ split; auto. split; auto. exists w. split; [right; auto|auto].
        -- intros [A [B [w [[<-|Hw] Ew]]]]; [left; congruence|]. right. repeat split; auto. exists w. auto.
      * rewrite IH. split.
        -- intros [A [B [w [Hw Ew]]]]. repeat split; auto. exists w. split; auto. right; auto.
        -- intros [A [B [w [[<-|Hw] Ew]]]]; [|repeat split; auto; exists w; auto].
           exfalso. rewrite E in Ew. inversion Ew; subst y. apply andb_false_iff in C. rewrite !N.leb_gt in C. lia.
    + rewrite IH. split.
      * intros [A [B [w [Hw Ew]]]]. repeat split; auto. exists w. split; auto. right; auto.
      * intros [A [B [w [[<-|Hw] Ew]]]]; [congruence|]. repeat split; auto. exists w. auto.
Qed.

Lemma inverse_lids_sorted (R : N -> N -> Prop) un inv lo hi :
  StronglySorted R un ->
  (forall v1 v2 x1 x2, R v1 v2 -> inverse inv v1 = Some x1 -> inverse inv v2 = Some x2 -> x1 < x2) ->
  ssorted false (inverse_lids un inv lo hi).
Proof.
  intros S M. induction S as [|v r S IH F]; cbn [inverse_lids]; [constructor|].
  rewrite Forall_forall in F.
  destruct (inverse inv v) as [y|] eqn:E; auto.
  destruct ((lo <=? y) && (y <=? hi)); auto.
  apply ssorted_cons; auto. intros x Hx. apply inverse_lids_In in Hx. destruct Hx as [_ [_ [w [Hw Ew]]]].
  unfold less. apply N.ltb_lt. eapply M; eauto.
Qed.

(* ---------------------------------------------------------------- invariant of the active index *)
Definition all_sem (c : list doc) (l : N) : Prop := 1 <= l /\ l <= N.of_nat (length c).
Definition tok_sem (c : list doc) (t : tok) (l : N) : Prop :=
  1 <= l /\ exists d, nth_error c (N.to_nat (l - 1)) = Some d /\ has_tok t d = true.

(* sorted part strictly ordered; sorted part and queue together hold exactly the LIDs P (the queue with any
   multiplicity) *)
Definition tl_ok (mids rids : list N) (tl : tlids) (P : N -> Prop) : Prop :=
  StronglySorted (kgt mids rids) (t_sorted tl) /\
  (forall l, In l (t_sorted tl) \/ In l (t_queue tl) <-> P l).

Record Inv (st : astate) (c : list doc) : Prop := {
  i_mids : a_mids st = max_u64 :: map dmid c;
  i_rids : a_rids st = max_u64 :: map drid c;
  i_all : tl_ok (a_mids st) (a_rids st) (a_all st) (all_sem c);
  i_tok : forall t, tl_ok (a_mids st) (a_rids st) (a_tl st t) (tok_sem c t);
  i_keys : forall t d, In d c -> In t (dtoks d) -> In t (a_keys st)
}.

Lemma tok_sem_bound c t l : tok_sem c t l -> all_sem c l.
Proof.
  intros [H [d [E _]]]. split; auto. assert (nth_error c (N.to_nat (l - 1)) <> None) by congruence.
  apply nth_error_Some in H0. lia.
Qed.

(* the order of old LIDs does not change when the arrays grow *)
Lemma get_app a b i : (N.to_nat i < length a)%nat -> get (a ++ b) i = get a i.
Proof. intros H. unfold get. apply app_nth1. exact H. Qed.

Lemma kgt_app m r m' r' x y : length m = length r ->
  (N.to_nat x < length m)%nat -> (N.to_nat y < length m)%nat ->
  kgt m r x y -> kgt (m ++ m') (r ++ r') x y.
Proof.
  intros L Hx Hy. unfold kgt, seq_cmp. rewrite !get_app by (try rewrite <- L; auto). auto.
Qed.

Lemma tl_ok_app m r (m' r' : list N) tl (P : N -> Prop) n : length m = S n -> length r = S n ->
  (forall l, P l -> l <= N.of_nat n) -> tl_ok m r tl P -> tl_ok (m ++ m') (r ++ r') tl P.
Proof.
  intros Lm Lr B [S E]. split; auto.
  assert (R : forall x, In x (t_sorted tl) -> (N.to_nat x < length m)%nat).
  { intros x Hx. assert (P x) by (apply E; left; auto). apply B in H. lia. }
  clear E. induction S as [|a l S IH F]; constructor.
  - apply IH. intros x Hx. apply R. right; auto.
  - rewrite Forall_forall in *. intros x Hx. apply kgt_app; [congruence|apply R; left; auto|apply R; right; auto|auto].
Qed.

Lemma tl_ok_iff m r tl (P Q : N -> Prop) : (forall l, P l <-> Q l) -> tl_ok m r tl P -> tl_ok m r tl Q.
Proof. intros H [S E]. split; auto. intros l. rewrite E. apply H. Qed.

Lemma tl_ok_put m r tl (P : N -> Prop) lid : tl_ok m r tl P -> tl_ok m r (put_lids tl [lid]) (fun l => P l \/ l = lid).
Proof.
  intros [S E]. split; auto. intros l. cbn [put_lids t_sorted t_queue]. rewrite in_app_iff, <- E. simpl.
  intuition.
Qed.

(* a new document without tokens yet *)
Lemma all_sem_snoc c d l : all_sem (c ++ [d]) l <-> all_sem c l \/ l = N.of_nat (length c) + 1.
Proof. unfold all_sem. rewrite app_length. simpl. lia. Qed.

Lemma nth_error_snoc {A} (c : list A) d k x :
  nth_error (c ++ [d]) k = Some x <-> nth_error c k = Some x \/ (k = length c /\ x = d).
Proof.
  destruct (Nat.lt_ge_cases k (length c)) as [H|H].
  - rewrite nth_error_app1 by auto. split; [auto|]. intros [E|[E _]]; [auto|lia].
  - rewrite nth_error_app2 by auto. assert (nth_error c k = None) by (apply nth_error_None; auto).
    rewrite H0. destruct (k - length c)%nat eqn:E; simpl.
    + split; [intros X; inversion X; right; split; auto; lia|intros [X|[_ ->]]; [discriminate|auto]].
    + split; [destruct n; discriminate|intros [X|[X _]]; [discriminate|lia]].
Qed.

Lemma tok_sem_snoc c m r ts t l :
  tok_sem (c ++ [Doc m r ts]) t l <->
  tok_sem c t l \/ (l = N.of_nat (length c) + 1 /\ In t ts).
Proof.
  unfold tok_sem. split.
  - intros [H [d [E Ht]]]. apply nth_error_snoc in E. destruct E as [E|[E ->]].
    + left. split; auto. eauto.
    + right. split; [lia|]. apply has_tok_In in Ht. exact Ht.
  - intros [[H [d [E Ht]]]|[-> Ht]].
    + split; auto. exists d. split; auto. apply nth_error_snoc. auto.
    + split; [lia|]. exists (Doc m r ts). split; [apply nth_error_snoc; right; split; auto; lia|].
      apply has_tok_In. exact Ht.
Qed.

Lemma map_snoc {A B} (f : A -> B) l x : map f (l ++ [x]) = map f l ++ [f x].
Proof. rewrite map_app. reflexivity. Qed.

Lemma inv_new_doc st c m r :
  Inv st c ->
  Inv {| a_mids := a_mids st ++ [m]; a_rids := a_rids st ++ [r];
         a_all := put_lids (a_all st) [N.of_nat (length (a_mids st))]; a_keys := a_keys st; a_tl := a_tl st |}
      (c ++ [Doc m r []]).
Proof.
  intros [Im Ir Ia It Ik].
  assert (Lm : length (a_mids st) = S (length c)) by (rewrite Im; simpl; rewrite map_length; auto).
  assert (Lr : length (a_rids st) = S (length c)) by (rewrite Ir; simpl; rewrite map_length; auto).
  constructor; cbn [a_mids a_rids a_all a_keys a_tl].
  - rewrite Im, map_snoc. reflexivity.
  - rewrite Ir, map_snoc. reflexivity.
  - eapply tl_ok_iff; [|apply tl_ok_put; apply (tl_ok_app _ _ _ _ _ _ (length c)); [exact Lm|exact Lr| |exact Ia]].
    + intros l. rewrite all_sem_snoc, Lm. cbv beta.
      replace (N.of_nat (S (length c))) with (N.of_nat (length c) + 1) by lia. tauto.
    + intros l H. apply H.
  - intros t. eapply tl_ok_iff; [|apply (tl_ok_app _ _ _ _ _ _ (length c)); [exact Lm|exact Lr| |apply It]].
    + intros l. rewrite tok_sem_snoc. simpl. tauto.
    + intros l H. apply tok_sem_bound in H. apply H.
  - intros t d Hd Ht. apply in_app_or in Hd. destruct Hd as [Hd|[<-|[]]]; [eapply Ik; eauto|destruct Ht].
Qed.

Lemma inv_tok_put st c m r ts t :
  Inv st (c ++ [Doc m r ts]) ->
  Inv (tok_put t (N.of_nat (length c) + 1) st) (c ++ [Doc m r (ts ++ [t])]).
Proof.
  intros [Im Ir Ia It Ik]. constructor; cbn [tok_put a_mids a_rids a_all a_keys a_tl].
  - rewrite Im, !map_snoc. reflexivity.
  - rewrite Ir, !map_snoc. reflexivity.
  - eapply tl_ok_iff; [|exact Ia]. intros l. rewrite !all_sem_snoc. tauto.
  - intros u. destruct (tok_eqb u t) eqn:E.
    + apply tok_eqb_eq in E. subst u. eapply tl_ok_iff; [|apply tl_ok_put; apply It].
      intros l. cbv beta. rewrite !tok_sem_snoc, in_app_iff. simpl. intuition.
    + eapply tl_ok_iff; [|apply It]. intros l. rewrite !tok_sem_snoc, in_app_iff. simpl.
      split; [tauto|]. intros [H|[H1 [H2|[H2|[]]]]]; auto. subst u.
      assert (tok_eqb t t = true) by (apply tok_eqb_eq; auto). congruence.
  - intros u d Hd Hu. apply add_tok_In. apply in_app_or in Hd. destruct Hd as [Hd|[<-|[]]].
    + right. apply (Ik u d); auto. apply in_or_app. left; auto.
    + simpl in Hu. apply in_app_or in Hu. destruct Hu as [Hu|[<-|[]]]; auto.
      right. apply (Ik u (Doc m r ts)); auto. apply in_or_app. right. left; auto.
Qed.

Lemma inv_add_toks c m r : forall todo done st,
  Inv st (c ++ [Doc m r done]) ->
  Inv (fold_left (fun s t => tok_put t (N.of_nat (length c) + 1) s) todo st) (c ++ [Doc m r (done ++ todo)]).
Proof.
  induction todo as [|t todo IH]; intros done st H; cbn [fold_left].
  - rewrite app_nil_r. exact H.
  - replace (done ++ t :: todo) with ((done ++ [t]) ++ todo) by (rewrite <- app_assoc; reflexivity).
    apply IH. apply inv_tok_put. exact H.
Qed.

Lemma inv_add_doc st c d : Inv st c -> Inv (add_doc st d) (c ++ [d]).
Proof.
  intros H. destruct d as [m r ts]. unfold add_doc. cbn [dmid drid dtoks].
  assert (L : N.of_nat (length (a_mids st)) = N.of_nat (length c) + 1).
  { rewrite (i_mids _ _ H). simpl. rewrite map_length. lia. }
  rewrite L. apply (inv_add_toks c m r ts []). rewrite <- L. apply inv_new_doc. exact H.
Qed.

Lemma inv_bulk ds : forall st c, Inv st c -> Inv (bulk st ds) (c ++ ds).
Proof.
  unfold bulk. induction ds as [|d ds IH]; intros st c H; cbn [fold_left].
  - rewrite app_nil_r. exact H.
  - replace (c ++ d :: ds) with ((c ++ [d]) ++ ds) by (rewrite <- app_assoc; reflexivity).
    apply IH. apply inv_add_doc. exact H.
Qed.

(* GetLIDs on a well-kept TokenLIDs: everything merged, strictly ordered, the same set *)
Lemma get_ok m r tl (P : N -> Prop) : tl_ok m r tl P -> (forall l, P l -> l <> max_u32) ->
  tl_ok m r (get_lids m r tl) P /\ (forall x, In x (t_sorted (get_lids m r tl)) <-> P x).
Proof.
  intros [S E] B.
  destruct (get_lids_spec m r tl) as [[S' N'] [Q' I']].
  { split; auto. intros x Hx. apply B. apply E. exact Hx. }
  assert (X : forall x, In x (t_sorted (get_lids m r tl)) <-> P x) by (intros x; rewrite I'; apply E).
  split; auto. split; auto. intros l. rewrite Q'. rewrite <- X. simpl. tauto.
Qed.

Lemma inv_touch st c q : N.of_nat (length c) + 1 < two32 -> Inv st c -> Inv (touch st q) c.
Proof.
  intros B [Im Ir Ia It Ik].
  assert (Ba : forall l, all_sem c l -> l <> max_u32).
  { intros l [_ H]. unfold two32, max_u32 in *. lia. }
  constructor; cbn [touch a_mids a_rids a_all a_keys a_tl]; [exact Im|exact Ir| | |exact Ik].
  - apply get_ok; auto.
  - intros t. destruct (existsb (fun p => tok_match p t) (leaf_pats q)); auto.
    apply get_ok; auto. intros l H. apply Ba. eapply tok_sem_bound; eauto.
Qed.

Lemma inv_init : Inv a_init [].
Proof.
  constructor; cbn [a_init a_mids a_rids a_all a_keys a_tl]; auto.
  - split; [constructor|]. intros l. unfold all_sem. simpl. lia.
  - intros t. split; [constructor|]. intros l. unfold tok_sem. simpl. split; [tauto|].
    intros [_ [d [E _]]]. destruct (N.to_nat (l - 1)); discriminate.
Qed.

Lemma docs_of_len ops : forall c, (length c <= length (c ++ docs_of ops))%nat.
Proof. intros c. rewrite app_length. lia. Qed.

(* the invariant holds after every sequence of bulks and searches *)
Theorem inv_run : forall ops st c,
  Inv st c -> N.of_nat (length (c ++ docs_of ops)) + 1 < two32 ->
  Inv (fold_left step ops st) (c ++ docs_of ops).
Proof.
  induction ops as [|o ops IH]; intros st c H B; cbn [fold_left docs_of].
  - rewrite app_nil_r. exact H.
  - destruct o as [ds|q]; cbn [step docs_of] in *.
    + rewrite app_assoc. apply IH; [apply inv_bulk; auto|rewrite <- app_assoc; auto].
    + apply IH; auto. apply inv_touch; auto. pose proof (docs_of_len ops c). lia.
Qed.

Corollary inv_script ops : N.of_nat (length (docs_of ops)) + 1 < two32 -> Inv (run ops) (docs_of ops).
Proof. intros B. apply (inv_run ops a_init []); [apply inv_init|exact B]. Qed.

End WithMatcher.
