(* copy of props/C03/coq/ProofsNav.v (see SealedLids.v) *)
(* C03 — lids.Table navigation and the two iterators over a well-formed block list. *)
From Coq Require Import List Bool Arith NArith Lia Sorted.
Import ListNotations.
From C02 Require Import SealedLids SLSearch.

Definition badj (b : block) : N := if b_cont b then N.pred (b_min b) else b_min b.
Definition nchunks (b : block) : N := N.of_nat (length (c_list (b_chunks b))).
Definition piece (b : block) (tid : N) : list N := nth (N.to_nat (tid - badj b)) (c_list (b_chunks b)) [].
Definition inb (b : block) (tid : N) : bool := ((badj b <=? tid) && (tid <=? b_max b))%N.
Definition b0 : block := mkBlock 0 0 false (mkChunks [] true).

(* a block list as the generator lays it out: the first (adjusted) tid of a block is the last tid of
   the previous block (continued token) or the next one; MaxTID = first tid + #chunks - 1 *)
Definition bok (b : block) : Prop := (b_max b + 1 = badj b + nchunks b /\ 1 <= nchunks b)%N.
Fixpoint chain (m : N) (bs : list block) : Prop :=
  match bs with
  | [] => True
  | b :: r => (badj b = m \/ badj b = m + 1)%N /\ bok b /\ chain (b_max b) r
  end.
Definition lastmax (m : N) (bs : list block) : N := last (map b_max bs) m.

(* the chunks a reader must find for tid: one per block whose tid range contains it *)
Definition lookup (tid : N) (bs : list block) : list (list N) :=
  flat_map (fun b => if inb b tid then [piece b tid] else []) bs.

(* ------------------------------------------------------------------ chain facts *)
Lemma bok_le b : bok b -> (badj b <= b_max b)%N.
Proof. unfold bok. lia. Qed.

Lemma chain_all_ok m bs : chain m bs -> Forall bok bs.
Proof. revert m. induction bs as [|b r IH]; intros m H; constructor; simpl in H; try tauto. apply (IH (b_max b)). tauto. Qed.

Lemma chain_ge m bs : chain m bs -> forall x, In x bs -> (m <= badj x /\ m <= b_max x)%N.
Proof.
  revert m. induction bs as [|b r IH]; intros m H x Hin; [inversion Hin|].
  simpl in H. destruct H as (Ha & Hb & Hc). pose proof (bok_le b Hb).
  destruct Hin as [E|Hin].
  - subst. lia.
  - destruct (IH _ Hc x Hin). lia.
Qed.

Lemma last_cons_default {A} (l : list A) : forall x d, last (x :: l) d = last l x.
Proof.
  induction l as [|y t IH]; intros x d; [reflexivity|].
  change (last (x :: y :: t) d) with (last (y :: t) d). rewrite (IH y d), (IH y x). reflexivity.
Qed.

Lemma lastmax_cons m b r : lastmax m (b :: r) = lastmax (b_max b) r.
Proof. unfold lastmax. cbn [map]. apply last_cons_default. Qed.

Lemma chain_last_ge m bs : chain m bs -> (m <= lastmax m bs)%N.
Proof.
  revert m. induction bs as [|b r IH]; intros m H; [unfold lastmax; simpl; lia|].
  rewrite lastmax_cons. simpl in H. destruct H as (Ha & Hb & Hc). pose proof (bok_le b Hb).
  specialize (IH _ Hc). lia.
Qed.

Lemma chain_app m l1 l2 : chain m (l1 ++ l2) <-> chain m l1 /\ chain (lastmax m l1) l2.
Proof.
  revert m. induction l1 as [|b r IH]; intros m.
  - simpl. unfold lastmax. simpl. tauto.
  - rewrite lastmax_cons. simpl. rewrite IH. tauto.
Qed.

Lemma chain_max_le_last m bs : chain m bs -> forall x, In x bs -> (b_max x <= lastmax m bs)%N.
Proof.
  intros H x Hin. apply in_split in Hin. destruct Hin as (l1 & l2 & E). subst.
  apply chain_app in H. destruct H as [H1 H2].
  assert (E : lastmax m (l1 ++ x :: l2) = lastmax (b_max x) l2).
  { clear. revert m. induction l1 as [|y t IH]; intros m.
    - apply lastmax_cons.
    - change ((y :: t) ++ x :: l2) with (y :: (t ++ x :: l2)). rewrite lastmax_cons. apply IH. }
  rewrite E. simpl in H2. apply chain_last_ge. tauto.
Qed.

Lemma lookup_app tid l1 l2 : lookup tid (l1 ++ l2) = lookup tid l1 ++ lookup tid l2.
Proof. unfold lookup. apply flat_map_app. Qed.

Lemma lookup_none tid bs : (forall x, In x bs -> inb x tid = false) -> lookup tid bs = [].
Proof.
  induction bs as [|b r IH]; intros H; simpl; auto.
  rewrite (H b) by (left; auto). simpl. apply IH. intros x Hx. apply H. right; auto.
Qed.

Lemma lookup_above m tid bs : chain m bs -> (tid < m)%N -> lookup tid bs = [].
Proof.
  intros Hc Hlt. apply lookup_none. intros x Hx. destruct (chain_ge m bs Hc x Hx).
  unfold inb. destruct (N.leb_spec (badj x) tid); try lia; try reflexivity.
Qed.

Lemma lookup_below m tid bs : chain m bs -> (lastmax m bs < tid)%N -> lookup tid bs = [].
Proof.
  intros Hc Hlt. apply lookup_none. intros x Hx. pose proof (chain_max_le_last m bs Hc x Hx).
  unfold inb. destruct (N.leb_spec tid (b_max x)); try lia; try apply andb_false_r.
Qed.

(* ------------------------------------------------------------------ table_of / nth *)
Lemma nth_max bs i : nthN (map b_max bs) i = b_max (nth i bs b0).
Proof. unfold nthN. change 0%N with (b_max b0). apply map_nth. Qed.
Lemma adj_nth bs i : adj_min (table_of bs) i = badj (nth i bs b0).
Proof.
  unfold adj_min, badj, table_of, nthN. simpl.
  change false with (b_cont b0). rewrite map_nth.
  change 0%N with (b_min b0). rewrite map_nth. reflexivity.
Qed.

Lemma skipn_nth {A} (l : list A) d : forall i x r, skipn i l = x :: r -> nth i l d = x /\ skipn (S i) l = r /\ i < length l.
Proof.
  induction l as [|y t IH]; intros i x r H.
  - destruct i; discriminate.
  - destruct i.
    + simpl in H. inversion H; subst. simpl. repeat split; auto. lia.
    + simpl in H. destruct (IH i x r H) as (A1 & A2 & A3). simpl. repeat split; auto. lia.
Qed.

Lemma load_ok bs tid bi b :
  nth_error bs bi = Some b -> bok b -> inb b tid = true ->
  load_chunk (table_of bs) (map b_chunks bs) tid bi = Some (piece b tid).
Proof.
  intros Hn [Hb1 Hb2] Hi. unfold load_chunk.
  rewrite nth_error_map, Hn. simpl.
  assert (En : nth bi bs b0 = b) by (apply nth_error_nth; auto).
  unfold chunks_count. rewrite adj_nth. unfold table_of; simpl. rewrite nth_max. rewrite En.
  unfold inb in Hi. apply andb_true_iff in Hi. destruct Hi as [H1 H2].
  apply N.leb_le in H1. apply N.leb_le in H2. unfold nchunks in *.
  destruct (N.eqb_spec (N.of_nat (length (c_list (b_chunks b)))) (b_max b - badj b + 1)) as [_|Hne]; [|lia].
  simpl. destruct (N.ltb_spec tid (badj b)); [lia|].
  unfold piece. apply nth_error_nth'. lia.
Qed.

(* ------------------------------------------------------------------ IteratorDesc *)
Fixpoint walk_desc (tid : N) (bs : list block) : list (list N) :=
  match bs with
  | [] => []
  | b :: rest => piece b tid :: match rest with
                                | b' :: _ => if (badj b' =? tid)%N then walk_desc tid rest else []
                                | [] => []
                                end
  end.

Lemma sorted_app_lt a b : sorted (a ++ b) -> forall x y, In x a -> In y b -> (x < y)%N.
Proof.
  induction a as [|z t IH]; intros Hs x y Hx Hy; [inversion Hx|].
  simpl in Hs. inversion Hs as [|? ? Ht Hall]; subst.
  destruct Hx as [E|Hx].
  - subst. rewrite Forall_forall in Hall. apply Hall. apply in_or_app. right; auto.
  - apply IH; auto.
Qed.
Lemma sorted_app_l a b : sorted (a ++ b) -> sorted a.
Proof.
  induction a as [|z t IH]; intros Hs; [constructor|].
  simpl in Hs. inversion Hs as [|? ? Ht Hall]; subst. constructor.
  - apply IH. exact Ht.
  - rewrite Forall_forall in Hall |- *. intros y Hy. apply Hall. apply in_or_app. left; auto.
Qed.
Lemma sorted_app_r a b : sorted (a ++ b) -> sorted b.
Proof.
  induction a as [|z t IH]; intros Hs; auto.
  simpl in Hs. inversion Hs as [|? ? Ht Hall]; subst. apply IH. exact Ht.
Qed.

Lemma desc_loop_walk bs tid lo hi : Forall bok bs ->
  forall rest b bi fuel,
    skipn bi bs = b :: rest -> length rest < fuel -> inb b tid = true ->
    sorted (concat (walk_desc tid (b :: rest))) -> Forall (fun p => p <> []) (walk_desc tid (b :: rest)) ->
    desc_loop fuel (table_of bs) (map b_chunks bs) tid lo hi bi
    = Ok (filter (in_range lo hi) (concat (walk_desc tid (b :: rest)))).
Proof.
  intros Hok. induction rest as [|b' rest' IH]; intros b bi fuel Hsk Hfuel Hin Hs Hne;
    (destruct fuel as [|fuel]; [simpl in Hfuel; lia|]);
    destruct (skipn_nth bs b0 bi _ _ Hsk) as (En & Hsk' & Hlt);
    assert (Hnb : nth_error bs bi = Some b) by (rewrite <- En; apply nth_error_nth'; auto);
    assert (Hbok : bok b) by (rewrite Forall_forall in Hok; apply Hok; rewrite <- En; apply nth_In; auto);
    cbn [desc_loop]; rewrite (load_ok bs tid bi b Hnb Hbok Hin).
  - (* last block of the file *)
    cbn [walk_desc concat] in *. rewrite app_nil_r in *.
    pose proof (Forall_inv Hne) as Hp.
    destruct (narrow_desc_spec lo hi (piece b tid) (has_next (table_of bs) bi tid) Hs Hp) as (t' & E & Ht).
    rewrite E.
    assert (Hn : has_next (table_of bs) bi tid = false).
    { unfold has_next, table_of. simpl. rewrite map_length.
      assert (length bs = S bi).
      { apply (f_equal (@length block)) in Hsk'. rewrite skipn_length in Hsk'. simpl in Hsk'. lia. }
      rewrite H. rewrite Nat.eqb_refl. reflexivity. }
    rewrite Hn in Ht. destruct Ht as [->|[-> _]]; reflexivity.
  - assert (Hn : has_next (table_of bs) bi tid = (badj b' =? tid)%N).
    { unfold has_next. unfold table_of at 1. simpl. rewrite map_length.
      destruct (skipn_nth bs b0 (S bi) _ _ Hsk') as (En' & _ & Hlt').
      destruct (Nat.eqb_spec (length bs) (S bi)); [lia|].
      rewrite adj_nth, En'. reflexivity. }
    cbn [walk_desc] in Hs, Hne |- *.
    pose proof (Forall_inv Hne) as Hp; pose proof (Forall_inv_tail Hne) as Hne'.
    cbn [concat] in Hs |- *.
    destruct (narrow_desc_spec lo hi (piece b tid) (has_next (table_of bs) bi tid)
                (sorted_app_l _ _ Hs) Hp) as (t' & E & Ht).
    rewrite E. rewrite Hn in Ht.
    destruct (N.eqb_spec (badj b') tid) as [Eb|Eb].
    + assert (Hin' : inb b' tid = true).
      { destruct (skipn_nth bs b0 (S bi) _ _ Hsk') as (En' & _ & Hlt').
        assert (bok b') by (rewrite Forall_forall in Hok; apply Hok; rewrite <- En'; apply nth_In; auto).
        pose proof (bok_le b' H). unfold inb. apply andb_true_iff. split; apply N.leb_le; lia. }
      rewrite filter_app.
      destruct Ht as [->|[-> Hhi]].
      * rewrite (IH b' (S bi) fuel Hsk'); auto; [simpl in Hfuel; lia|apply (sorted_app_r _ _ Hs)].
      * (* stopped early: everything further is above hi *)
        rewrite (filter_none _ (concat (walk_desc tid (b' :: rest')))); [rewrite app_nil_r; reflexivity|].
        intros y Hy.
        pose proof (sorted_app_lt _ _ Hs (lastN (piece b tid)) y (lastN_in _ Hp) Hy).
        unfold in_range. destruct (N.leb_spec y hi); try lia; try apply andb_false_r.
    + cbn [concat]. rewrite app_nil_r.
      destruct Ht as [->|[-> _]]; reflexivity.
Qed.

Lemma lookup_walk_desc tid : forall rest b m,
  chain m (b :: rest) -> inb b tid = true -> lookup tid (b :: rest) = walk_desc tid (b :: rest).
Proof.
  induction rest as [|b' r IH]; intros b m Hc Hin.
  - simpl. rewrite Hin. reflexivity.
  - change (lookup tid (b :: b' :: r)) with ((if inb b tid then [piece b tid] else []) ++ lookup tid (b' :: r)).
    rewrite Hin. cbn [walk_desc app].
    simpl in Hc. destruct Hc as (Ha & Hb & (Ha' & Hb' & Hc')).
    unfold inb in Hin. apply andb_true_iff in Hin. destruct Hin as [H1 H2].
    apply N.leb_le in H1. apply N.leb_le in H2. pose proof (bok_le b' Hb').
    destruct (N.eqb_spec (badj b') tid) as [E|E].
    + f_equal. apply (IH b' (b_max b)); [simpl; tauto|].
      unfold inb. apply andb_true_iff. split; apply N.leb_le; lia.
    + f_equal. change (b' :: r) with ([b'] ++ r). rewrite lookup_app.
      rewrite (lookup_above (b_max b') tid r Hc') by lia.
      simpl. unfold inb. destruct (N.leb_spec (badj b') tid); try lia; try reflexivity.
Qed.

(* ------------------------------------------------------------------ IteratorAsc *)
Fixpoint walk_asc (tid : N) (rb : list block) : list (list N) :=
  match rb with
  | [] => []
  | b :: prev => piece b tid :: match prev with
                                | b' :: _ => if (b_max b' =? tid)%N then walk_asc tid prev else []
                                | [] => []
                                end
  end.

Lemma walk_asc_cons tid b b' p :
  walk_asc tid (b :: b' :: p) = piece b tid :: (if (b_max b' =? tid)%N then walk_asc tid (b' :: p) else []).
Proof. reflexivity. Qed.

Lemma firstn_S_rev (bs : list block) bi : bi < length bs ->
  rev (firstn (S bi) bs) = nth bi bs b0 :: rev (firstn bi bs).
Proof.
  revert bi. induction bs as [|x t IH]; intros bi H; [simpl in H; lia|].
  destruct bi.
  - simpl. reflexivity.
  - change (firstn (S (S bi)) (x :: t)) with (x :: firstn (S bi) t).
    change (firstn (S bi) (x :: t)) with (x :: firstn bi t).
    cbn [rev nth]. rewrite IH by (simpl in H; lia). reflexivity.
Qed.

Lemma asc_loop_walk bs tid lo hi : Forall bok bs ->
  forall bi fuel,
    bi < length bs -> bi < fuel -> inb (nth bi bs b0) tid = true ->
    sorted (concat (rev (walk_asc tid (rev (firstn (S bi) bs))))) ->
    Forall (fun p => p <> []) (walk_asc tid (rev (firstn (S bi) bs))) ->
    asc_loop fuel (table_of bs) (map b_chunks bs) tid lo hi bi
    = Ok (rev (filter (in_range lo hi) (concat (rev (walk_asc tid (rev (firstn (S bi) bs))))))).
Proof.
  intros Hok.
  assert (Hpre : forall bi, bi < length bs ->
            nth_error bs bi = Some (nth bi bs b0) /\ bok (nth bi bs b0)).
  { intros bi Hlt. split; [apply nth_error_nth'; auto|].
    rewrite Forall_forall in Hok. apply Hok. apply nth_In; auto. }
  induction bi as [|p IH]; intros fuel Hlt Hfuel Hin Hs Hne;
    (destruct fuel as [|fuel]; [lia|]);
    rewrite firstn_S_rev in Hs, Hne |- * by auto;
    destruct (Hpre _ Hlt) as [Hnb Hbok];
    cbn [asc_loop]; rewrite (load_ok bs tid _ _ Hnb Hbok Hin).
  - set (b := nth 0 bs b0) in *.
    cbn [firstn rev walk_asc concat app] in *. rewrite app_nil_r in *.
    pose proof (Forall_inv Hne) as Hp.
    destruct (narrow_asc_spec lo hi (piece b tid) (has_prev (table_of bs) 0 tid) Hs Hp) as (t' & E & Ht).
    rewrite E. cbn [has_prev] in Ht. destruct Ht as [->|[-> _]]; reflexivity.
  - set (b := nth (S p) bs b0) in *.
    assert (Er : rev (firstn (S p) bs) = nth p bs b0 :: rev (firstn p bs)) by (apply firstn_S_rev; lia).
    set (b' := nth p bs b0) in *.
    assert (Hn : has_prev (table_of bs) (S p) tid = (b_max b' =? tid)%N).
    { unfold has_prev, table_of. simpl. rewrite nth_max. reflexivity. }
    rewrite Er in Hs, Hne |- *. rewrite walk_asc_cons in Hs, Hne |- *. rewrite <- Er in Hs, Hne |- *.
    pose proof (Forall_inv Hne) as Hp; pose proof (Forall_inv_tail Hne) as Hne'.
    destruct (N.eqb_spec (b_max b') tid) as [Eb|Eb].
    + cbn [rev concat] in Hs |- *. rewrite concat_app in Hs |- *. cbn [concat] in Hs |- *. rewrite app_nil_r in Hs |- *.
      destruct (narrow_asc_spec lo hi (piece b tid) (has_prev (table_of bs) (S p) tid)
                  (sorted_app_r _ _ Hs) Hp) as (t' & E & Ht).
      rewrite E. rewrite Hn in Ht. rewrite filter_app, rev_app_distr.
      assert (Hin' : inb b' tid = true).
      { assert (bok b') by (rewrite Forall_forall in Hok; apply Hok; apply nth_In; lia).
        pose proof (bok_le b' H). unfold inb. apply andb_true_iff. split; apply N.leb_le; lia. }
      destruct Ht as [->|[-> Hlo]].
      * rewrite (IH fuel); auto; try lia. apply (sorted_app_l _ _ Hs).
      * rewrite (filter_none _ (concat (rev (walk_asc tid (rev (firstn (S p) bs)))))); [cbn [rev]; rewrite app_nil_r; reflexivity|].
        intros y Hy.
        assert (Hh : In (hd 0%N (piece b tid)) (piece b tid)) by (destruct (piece b tid); [congruence|left; auto]).
        pose proof (sorted_app_lt _ _ Hs y _ Hy Hh).
        unfold in_range. destruct (N.leb_spec lo y); try lia; try reflexivity.
    + cbn [rev concat app] in Hs |- *. rewrite app_nil_r in Hs |- *.
      destruct (narrow_asc_spec lo hi (piece b tid) (has_prev (table_of bs) (S p) tid) Hs Hp) as (t' & E & Ht).
      rewrite E. rewrite Hn in Ht. destruct Ht as [->|[-> _]]; reflexivity.
Qed.

Lemma lookup_walk_asc tid : forall pre b m,
  chain m (pre ++ [b]) -> inb b tid = true ->
  lookup tid (pre ++ [b]) = rev (walk_asc tid (b :: rev pre)).
Proof.
  induction pre as [|b' pre' IH] using rev_ind; intros b m Hc Hin.
  - simpl. rewrite Hin. reflexivity.
  - rewrite lookup_app. cbn [lookup flat_map]. rewrite Hin. rewrite rev_app_distr. cbn [rev app walk_asc].
    rewrite chain_app in Hc. destruct Hc as [Hc1 Hc2].
    assert (El : lastmax m (pre' ++ [b']) = b_max b').
    { unfold lastmax. rewrite map_app. simpl. apply last_last. }
    rewrite El in Hc2. simpl in Hc2. destruct Hc2 as (Ha & Hb & _).
    unfold inb in Hin. apply andb_true_iff in Hin. destruct Hin as [H1 H2].
    apply N.leb_le in H1. apply N.leb_le in H2.
    pose proof (chain_all_ok _ _ Hc1) as Hall. rewrite Forall_forall in Hall.
    assert (Hb' : bok b') by (apply Hall; apply in_or_app; right; left; auto).
    pose proof (bok_le b' Hb').
    destruct (N.eqb_spec (b_max b') tid) as [E|E].
    + rewrite (IH b' m Hc1).
      * cbn [rev]. reflexivity.
      * unfold inb. apply andb_true_iff. split; apply N.leb_le; lia.
    + rewrite (lookup_below m tid (pre' ++ [b']) Hc1) by (rewrite El; lia). reflexivity.
Qed.
