(* C02 — property theorems. Statements only, each closed by `exact <lemma>`; Print Assumptions beneath;
   non-vacuity examples. *)
From Coq Require Import List NArith Sorting.Sorted.
From C02 Require Import Model ModelTx ModelSealed CaseDefs ProofsNodes ProofsBorders ProofsIterate ProofsFold ProofsLeaf
     ProofsSearch ProofsTx ProofsTx2 ProofsTx3 ProofsSealedIds ProofsSealed ProofsClamp ModelTxStep ProofsTxStep.
Import ListNotations.
Open Scope N_scope.

(* The search path is modelled over an ABSTRACT leaf matcher (Model.v: Class Matcher = a record holding one
   function tok_match : pat -> tok -> bool, no law attached). Theorems that start with
   `forall tok_match, let tm := Build_Matcher tok_match in` hold for EVERY such function; statements without it
   (the executable verdicts, the examples) use the glob / range instance glob_matcher = Build_Matcher pat_match,
   the one the correspondence run evaluates. *)
#[local] Existing Instance glob_matcher.

(* thm:C02_nodes_sound — every tree of merge nodes (AND, OR with dedup, NAND, NOT over the LID range) over
   strictly ascending posting lists, drained in either direction, terminates (the range node's fuel is
   adequate), yields a strictly `less`-monotone list, and that list holds exactly the values of the tree's
   set denotation: AND = intersection, OR = union, NAND = regular minus negative, NOT = [lo..hi] minus child.
   wf_ntree: static lists strictly ascending; NOT borders lo < 2^32, hi+1 < 2^32 and, when walking
   downwards, lo >= 1 (what getLIDsBorders delivers: C02_borders gives 1 <= lo and hi <= number of docs). *)
Theorem C02_nodes_sound :
  forall rev t, wf_ntree rev t ->
    exists out, eval_ntree rev t = Ok out /\ StronglySorted (fun a b => less rev a b = true) out /\
                (forall x, In x out <-> nsem t x = true).
Proof. exact nodes_sound. Qed.
Print Assumptions C02_nodes_sound.

(* thm:C02_borders — for the LID table the model builds from ANY corpus (any arrival order, equal MIDs,
   duplicates allowed) whose documents have MID >= 1 and RID <= 2^64-1, getLIDsBorders terminates (binary
   search fuel adequate) and returns exactly the interval of LIDs whose MID lies in [from,to]; moreover
   1 <= minLID <= maxLID+1 and maxLID <= number of documents, so the reverse range node never starts at 0
   (defect #15 of the design is unreachable). *)
Theorem C02_borders :
  forall c from to, Forall ok_doc c ->
  exists lo hi, lids_borders from to (table c) = Ok (lo, hi) /\
    1 <= lo /\ lo <= hi + 1 /\ hi <= N.of_nat (length c) /\
    (forall lid d, nth_error (table c) (N.to_nat (lid - 1)) = Some d -> 1 <= lid ->
       (lo <= lid /\ lid <= hi <-> in_range from to d = true)).
Proof. exact borders_exact_corpus. Qed.
Print Assumptions C02_borders.

(* the LID table is a permutation of the corpus in non-increasing ID order *)
Theorem C02_table_sorted :
  forall c, Permutation.Permutation c (table c) /\
            StronglySorted (fun a b => id_geb (did a) (did b) = true) (table c).
Proof. intros c. split; [apply table_perm|apply table_desc]. Qed.
Print Assumptions C02_table_sorted.

(* limit / total / early stop: when the IDs of the tree's LID stream are pairwise distinct, iterateEvalTree
   returns exactly the first `limit` of them in stream order (all limits, incl. 0 and > stream length) and,
   when a total is requested, counts the whole stream. *)
Theorem C02_iterate_exact :
  forall tab limit wt lids, NoDup (map (lid_id tab) lids) ->
    snd (iterate tab limit wt lids 0 0 (0, 0)) = firstn (N.to_nat limit) (map (lid_id tab) lids) /\
    (wt = true -> fst (iterate tab limit wt lids 0 0 (0, 0)) = N.of_nat (length lids)).
Proof.
  intros tab limit wt lids ND. rewrite (iterate_exact tab limit wt lids ND). split; [reflexivity|].
  intros ->. reflexivity.
Qed.
Print Assumptions C02_iterate_exact.

(* BuildORTree (node/builder.go TreeFold), the OR-fold that evalLeaf puts over the posting lists of all tokens
   matching a leaf: terminates for every number of operands (0 included: the empty node) and denotes the union. *)
Theorem C02_or_tree_sound :
  forall rev vs, Forall (wf_ntree rev) vs ->
  exists t, build_or_tree vs = Ok t /\ wf_ntree rev t /\ (forall x, nsem t x = existsb (fun v => nsem v x) vs).
Proof. exact build_or_tree_sound. Qed.
Print Assumptions C02_or_tree_sound.

(* link to the correspondence run: on every well-formed node tree the model's output passes both executable
   verdicts of a CNode case, and conversely ANY output accepted by the spec checker is the strictly monotone
   list of the tree's denotation — so a real node whose output differs from the model's fails case_spec_ok. *)
Theorem C02_node_case_spec_ok :
  forall rev t, wf_ntree rev t ->
  exists out, eval_ntree rev t = Ok out /\ case_agrees (CNode rev t out) = true
              /\ case_spec_ok (CNode rev t out) = true.
Proof. exact node_case_spec_ok. Qed.
Print Assumptions C02_node_case_spec_ok.

Theorem C02_node_spec_complete :
  forall rev t impl, case_spec_ok (CNode rev t impl) = true ->
    StronglySorted (fun a b => less rev a b = true) impl /\ (forall x, In x impl <-> nsem t x = true).
Proof. exact node_spec_ok_complete. Qed.
Print Assumptions C02_node_spec_complete.

(* thm:C02_search_exact — for EVERY corpus (any arrival order, equal timestamps, repeated tokens) whose IDs are
   pairwise distinct, with MID >= 1, RID <= 2^64-1 and fewer than 2^32-1 documents, every query tree (AND/OR/NOT/
   NAND at any depth over literal, prefix and suffix leaves), every [from,to], both orders, every limit (0 and
   > matches included), with or without total, with or without a histogram request: the model of the fraction's
   search (LID table, getLIDsBorders, leaf postings OR-folded by TreeFold, merge nodes, iterateEvalTree)
   terminates (no OutOfFuel) and returns exactly the specification: the IDs of the documents that satisfy the
   query inside [from,to], strictly ordered by (MID,RID) in the requested direction, cut to the first `limit`,
   and Total = number of matching DOCUMENTS when requested (0 otherwise). *)
Theorem C02_search_exact :
  forall (tok_match : pat -> tok -> bool), let tm := Build_Matcher tok_match in
  forall c from to q, Forall ok_doc c -> NoDup (map did c) -> N.of_nat (length c) + 1 < 4294967296 ->
  forall rev limit wt hist,
    search_model c q from to rev limit wt hist = Ok (search_spec c q from to rev limit wt).
Proof. exact (fun f => @search_exact (Build_Matcher f)). Qed.
Print Assumptions C02_search_exact.

(* histogram: for the same corpora, the buckets (mid - mid % interval) the fraction counts over its LID stream
   are the buckets of the matching DOCUMENTS, whatever the order of the stream. *)
Theorem C02_hist_exact :
  forall (tok_match : pat -> tok -> bool), let tm := Build_Matcher tok_match in
  forall c from to q, Forall ok_doc c -> NoDup (map did c) -> N.of_nat (length c) + 1 < 4294967296 ->
  forall rev hist, hist_prepared (prepare c) q from to rev hist = Ok (hist_spec c q from to hist).
Proof. exact (fun f => @hist_exact (Build_Matcher f)). Qed.
Print Assumptions C02_hist_exact.

(* link to the correspondence run: a CSearch request answered exactly as the specification says passes both
   executable verdicts (model = answer, spec = answer) — the verdict functions the check evaluates on the real
   fraction's answers are the ones the theorems speak about. *)
Theorem C02_search_case_ok :
  forall c from to q rev limit wt hist,
  Forall ok_doc c -> NoDup (map did c) -> N.of_nat (length c) + 1 < 4294967296 ->
  let '(ids, total) := search_spec c q from to rev limit wt in
  let s := SQ q q from to rev limit wt hist ids total (hist_spec c q from to hist) in
  sq_agrees (prepare c) s = true /\ sq_spec_ok c s = true.
Proof. exact search_case_ok. Qed.
Print Assumptions C02_search_case_ok.

(* multiplicity of a token inside a document does not matter: whether a document satisfies a query (hence its
   membership in every posting list, the answer and the total) depends only on the SET of its tokens — a
   repeated word must not be counted twice. *)
Theorem C02_token_multiplicity :
  forall (tok_match : pat -> tok -> bool), let tm := Build_Matcher tok_match in
  forall q m1 r1 m2 r2 ts1 ts2, (forall u, In u ts1 <-> In u ts2) ->
    sat q (Doc m1 r1 ts1) = sat q (Doc m2 r2 ts2).
Proof. exact (fun f => @sat_set (Build_Matcher f)). Qed.
Print Assumptions C02_token_multiplicity.

(* ================= the ACTIVE index by transcription (ModelTx.v) ================= *)

(* TokenLIDs.GetLIDs = sort the queue by (MID, RID, LID) descending + mergeSorted (three de-duplication sites) into
   the sorted list: whenever the sorted part is strictly ordered and no LID is 2^32-1 (the initial `prev`), the
   result is strictly ordered again, the queue is empty, and the result holds exactly the LIDs of the old sorted
   part and of the queue — each once, whatever their multiplicity in the queue. *)
Theorem C02_tx_get_lids :
  forall mids rids tl, tl_wf mids rids tl ->
    tl_wf mids rids (get_lids mids rids tl) /\ t_queue (get_lids mids rids tl) = [] /\
    (forall x, In x (t_sorted (get_lids mids rids tl)) <-> In x (t_sorted tl) \/ In x (t_queue tl)).
Proof. exact get_lids_spec. Qed.
Print Assumptions C02_tx_get_lids.

(* sort.Sort(queueIDs) enters the model as an insertion sort; this is no loss: ANY rearrangement of the queue
   that is descending in the (MID, RID, LID) order is that very list. *)
Theorem C02_tx_sort_unique :
  forall mids rids l l', Permutation.Permutation l l' -> StronglySorted (kge mids rids) l' -> l' = q_sort mids rids l.
Proof. exact sort_unique. Qed.
Print Assumptions C02_tx_sort_unique.

(* for EVERY sequence of bulks (AppendIDs + PutLIDsInQueue per token occurrence) and interleaved searches (GetLIDs
   on the all-token and on the tokens the query touches): what GetLIDs returns for a token is the strictly ordered
   set of the LIDs of the documents carrying the token — multiplicity collapsed — and for the all-token the LIDs
   1..n of all documents. *)
Theorem C02_tx_postings :
  forall (tok_match : pat -> tok -> bool), let tm := Build_Matcher tok_match in
  forall ops t, N.of_nat (length (docs_of ops)) + 1 < 4294967296 ->
  let st := run ops in
  let s := t_sorted (get_lids (a_mids st) (a_rids st) (a_tl st t)) in
  let a := t_sorted (get_lids (a_mids st) (a_rids st) (a_all st)) in
  StronglySorted (kgt (a_mids st) (a_rids st)) s /\
  (forall l, In l s <-> 1 <= l /\ exists d, nth_error (docs_of ops) (N.to_nat (l - 1)) = Some d /\ has_tok t d = true) /\
  StronglySorted (kgt (a_mids st) (a_rids st)) a /\
  (forall l, In l a <-> 1 <= l /\ l <= N.of_nat (length (docs_of ops))).
Proof. exact (fun f => @tx_postings (Build_Matcher f)). Qed.
Print Assumptions C02_tx_postings.

(* newInverser / Inverse: for a duplicate-free mapping whose values lie inside the array, Inverse(k) is defined
   exactly for the mapped values and returns their 1-based position. *)
Theorem C02_tx_inverser :
  forall values size k x, NoDup values -> (forall v, In v values -> (N.to_nat v < size)%nat) ->
    (inverse (new_inversion values size) k = Some x <-> exists j, nth_error values j = Some k /\ x = N.of_nat j + 1).
Proof. exact inverse_exact. Qed.
Print Assumptions C02_tx_inverser.

(* C02_search_exact over the transcribed functions: after ANY history of bulks and searches, the search of the
   active fraction as transcribed (all-token mapping merged by GetLIDs, inverser, IDs through Revert + MIDs/RIDs,
   getLIDsBorders on them, per-token GetLIDs + inverseLIDs with the minLID/maxLID clamp, OR-fold, merge nodes,
   iterateEvalTree) returns exactly the specification over the documents ingested so far. *)
Theorem C02_search_exact_tx :
  forall (tok_match : pat -> tok -> bool), let tm := Build_Matcher tok_match in
  forall ops q from to rev limit wt hist,
  Forall ok_doc (docs_of ops) -> NoDup (map did (docs_of ops)) -> N.of_nat (length (docs_of ops)) + 1 < 4294967296 ->
  search_model_tx ops q from to rev limit wt hist = Ok (search_spec (docs_of ops) q from to rev limit wt).
Proof. exact (fun f => @search_model_tx_exact (Build_Matcher f)). Qed.
Print Assumptions C02_search_exact_tx.

Theorem C02_hist_exact_tx :
  forall (tok_match : pat -> tok -> bool), let tm := Build_Matcher tok_match in
  forall ops q from to rev hist,
  Forall ok_doc (docs_of ops) -> NoDup (map did (docs_of ops)) -> N.of_nat (length (docs_of ops)) + 1 < 4294967296 ->
  hist_tx (run ops) q from to rev hist = Ok (hist_spec (docs_of ops) q from to hist).
Proof. exact (fun f => @hist_tx_script (Build_Matcher f)). Qed.
Print Assumptions C02_hist_exact_tx.

(* ================= GetLIDs is NOT atomic: take the queue, then sort + merge (ModelTxStep.v) ================= *)

(* thm:C02_tx_getlids_two_step — TokenLIDs.GetLIDs takes the queue under queueMu and sorts/merges it later under
   sortedMu only, while PutLIDsInQueue of the index workers runs under queueMu only. For EVERY interleaving of takes,
   merges and puts (a schedule is any list of steps; a take while another reader is in the window, or a merge without
   a take, does nothing — sortedMu), with the fresh-queue discipline of the code (`tl.queue = nil`: the taken slice is
   private to the reader): once the open GetLIDs (if any) and one more complete GetLIDs have run, the queue is empty
   and the sorted list is strictly ordered and holds exactly the LIDs ever put, each ONCE. *)
Theorem C02_tx_getlids_two_step :
  forall mids rids sched, (forall x, In x (puts_of sched) -> x <> max_u32) ->
  let z := run2 Fresh mids rids (sched ++ settle) tl2_empty in
  z_taken z = None /\ z_queue z = [] /\
  StronglySorted (kgt mids rids) (z_sorted z) /\ NoDup (z_sorted z) /\
  (forall x, In x (z_sorted z) <-> In x (puts_of sched)).
Proof. exact getlids_two_step. Qed.
Print Assumptions C02_tx_getlids_two_step.

(* the one-step get_lids of ModelTx.v (over which C02_tx_postings / C02_search_exact_tx are stated) is take + merge
   with nothing in between; by the theorem above puts that fall into the window are simply seen by the NEXT GetLIDs,
   i.e. an interleaved execution ends in the state of the sequential one *)
Theorem C02_tx_take_merge_is_get_lids :
  forall mids rids tl, run2 Fresh mids rids [ZTake; ZMerge] (tl2_of tl) = tl2_of (get_lids mids rids tl).
Proof. exact take_merge_is_get_lids. Qed.
Print Assumptions C02_tx_take_merge_is_get_lids.

(* the discipline matters: with the taken slice sharing its backing array with the live queue (`tl.queue =
   tl.queue[:0]`, capacity 4) the schedule put [1;2]; take; put [3]; merge overwrites the taken cell holding LID 1:
   after everything settled the token's list is [3;2] — document 1 is lost for good (seed C02-m12) *)
Theorem C02_tx_getlids_shared_refuted :
  exists mids rids sched,
    (forall x, In x (puts_of sched) -> x <> max_u32) /\
    let z := run2 (Shared 4) mids rids (sched ++ settle) tl2_empty in
    In 1 (puts_of sched) /\ ~ In 1 (z_sorted z) /\ z_sorted z = [3; 2].
Proof. exact getlids_shared_refuted. Qed.
Print Assumptions C02_tx_getlids_shared_refuted.

(* non-vacuity: the same schedule under the fresh discipline keeps all three *)
Example C02_tx_two_step_nonvacuous :
  z_sorted (run2 Fresh [max_u64; 10; 11; 12] [max_u64; 1; 1; 1] ([ZPut [1; 2]; ZTake; ZPut [3]; ZMerge] ++ settle) tl2_empty)
    = [3; 2; 1] /\
  z_sorted (run2 Fresh [max_u64; 10; 11; 12] [max_u64; 1; 1; 1] [ZPut [1; 2]; ZTake; ZPut [3]; ZMerge] tl2_empty) = [2; 1].
Proof. split; vm_compute; reflexivity. Qed.

(* ================= the provider's clamp (ModelSealed.v: clamp, info_of, provider_search, provider_search_tx) ================= *)

(* thm:C02_clamp_irrelevant — activeDataProvider.Search replaces [from,to] by [max(from, Info.From), min(to, Info.To)]
   before getLIDsBorders. For EVERY matcher, corpus and request: whenever Info covers the stored MIDs (Info.From <=
   every MID <= Info.To — what NewInfo + UpdateStats establish once appends are acknowledged: C17/C14), the search
   and the histogram over the clamped range equal those over the requested range (also when the clamped range is
   empty or inverted: from > to, request wholly outside Info). *)
Theorem C02_clamp_irrelevant :
  forall (tok_match : pat -> tok -> bool), let tm := Build_Matcher tok_match in
  forall inf c q from to rev limit wt hist,
  Forall ok_doc c -> NoDup (map did c) -> N.of_nat (length c) + 1 < 4294967296 ->
  (forall d, In d c -> fst inf <= dmid d /\ dmid d <= snd inf) ->
  search_model (tm := tm) c q (fst (clamp inf from to)) (snd (clamp inf from to)) rev limit wt hist =
    search_model (tm := tm) c q from to rev limit wt hist /\
  hist_prepared (tm := tm) (prepare c) q (fst (clamp inf from to)) (snd (clamp inf from to)) rev hist =
    hist_prepared (tm := tm) (prepare c) q from to rev hist.
Proof. exact (fun f => @clamp_irrelevant (Build_Matcher f)). Qed.
Print Assumptions C02_clamp_irrelevant.

(* the MIN/MAX that NewInfo (From = 2^64-1, To = 0) and UpdateStats compute do cover the corpus *)
Theorem C02_info_covers :
  forall c d, In d c -> fst (info_of c) <= dmid d /\ dmid d <= snd (info_of c).
Proof. exact info_covers. Qed.
Print Assumptions C02_info_covers.

(* the whole provider: a fraction WITHOUT documents answers through EmptyDataProvider (no IDs, Total 0 — which is the
   specification over the empty corpus; its Info.From = 2^64-1 > Info.To = 0 is never used); otherwise clamp to the
   computed Info and search. Both equal the specification over the requested range. *)
Theorem C02_provider_exact :
  forall (tok_match : pat -> tok -> bool), let tm := Build_Matcher tok_match in
  forall c q from to rev limit wt hist,
  Forall ok_doc c -> NoDup (map did c) -> N.of_nat (length c) + 1 < 4294967296 ->
  provider_search (tm := tm) c q from to rev limit wt hist = Ok (search_spec (tm := tm) c q from to rev limit wt).
Proof. exact (fun f => @provider_exact (Build_Matcher f)). Qed.
Print Assumptions C02_provider_exact.

(* the same over the TRANSCRIBED active index, after any history of bulks and searches *)
Theorem C02_provider_exact_tx :
  forall (tok_match : pat -> tok -> bool), let tm := Build_Matcher tok_match in
  forall ops q from to rev limit wt hist,
  Forall ok_doc (docs_of ops) -> NoDup (map did (docs_of ops)) -> N.of_nat (length (docs_of ops)) + 1 < 4294967296 ->
  provider_search_tx (tm := tm) ops q from to rev limit wt hist
    = Ok (search_spec (tm := tm) (docs_of ops) q from to rev limit wt) /\
  provider_hist_tx (tm := tm) ops q from to rev hist = Ok (hist_spec (tm := tm) (docs_of ops) q from to hist).
Proof. exact (fun f => @provider_tx_exact (Build_Matcher f)). Qed.
Print Assumptions C02_provider_exact_tx.

(* ================= the SEALED fraction by transcription (ModelSealed.v, SealedLids.v) ================= *)

(* sealedIDsIndex.LessOrEqual — block index lid / IDsPerBlock, "block minimum > id => false", "previous block's
   minimum <= id => true", else MID/RID from the block with the RID = 2^64-1 shortcut — equals the plain comparison
   of the ID stored at that LID, for EVERY block size ipb >= 1, every ID-descending table of uint64 IDs and every
   LID >= 1 (beyond the table both say "true"). *)
Theorem C02_sealed_le_plain :
  forall ipb tab, 1 <= ipb -> desc_table tab -> Forall ok_doc64 tab -> forall lid x, 1 <= lid ->
    sealed_le (seal_ids ipb tab) lid x = lid_le tab lid x.
Proof. exact sealed_le_eq. Qed.
Print Assumptions C02_sealed_le_plain.

(* thm:C02_search_exact_sealed — for EVERY matcher, every ID block size ipb >= 1 and LID block capacity cap >= 1,
   every corpus (hypotheses of C02_search_exact, MIDs within uint64, fewer than 2^32-1 distinct tokens), query,
   [from,to], order, limit, total/histogram request: the sealed search as transcribed — sorted IDs behind the system
   ID cut into blocks (getIDsBlocksGenerator) with their minima, getLIDsBorders over sealedIDsIndex.LessOrEqual,
   the dictionary in (field, token) order, every token's postings written by getLIDsBlockGenerator into blocks of
   cap LIDs (continued blocks, field ends), Chunks.Pack/unpack, lids.Table rebuilt from the registry words, one
   IteratorDesc / IteratorAsc per matching TID clipped to [minLID,maxLID] (narrowLIDsRange, HasTIDInNext/PrevBlock),
   BuildORTree over them, the merge nodes, iterateEvalTree reading MID/RID through the ID blocks — terminates without
   panic and returns exactly the specification. *)
Theorem C02_search_exact_sealed :
  forall (tok_match : pat -> tok -> bool), let tm := Build_Matcher tok_match in
  forall ipb cap c, 1 <= ipb -> 1 <= cap ->
  Forall ok_doc64 c -> NoDup (map did c) -> N.of_nat (length c) + 1 < 4294967296 ->
  N.of_nat (length (svocab (table c))) < 4294967295 ->
  forall from to q rev limit wt hist,
    search_sealed (tm := tm) ipb cap c q from to rev limit wt hist = Ok (search_spec (tm := tm) c q from to rev limit wt).
Proof. exact (fun f => @search_sealed_exact (Build_Matcher f)). Qed.
Print Assumptions C02_search_exact_sealed.

Theorem C02_hist_exact_sealed :
  forall (tok_match : pat -> tok -> bool), let tm := Build_Matcher tok_match in
  forall ipb cap c, 1 <= ipb -> 1 <= cap ->
  Forall ok_doc64 c -> NoDup (map did c) -> N.of_nat (length c) + 1 < 4294967296 ->
  N.of_nat (length (svocab (table c))) < 4294967295 ->
  forall from to q rev hist,
    hist_sealed (tm := tm) ipb cap c q from to rev hist = Ok (hist_spec (tm := tm) c q from to hist).
Proof. exact (fun f => @hist_sealed_exact (Build_Matcher f)). Qed.
Print Assumptions C02_hist_exact_sealed.

(* link to the correspondence run: a CSealed request answered as the specification says passes both verdicts *)
Theorem C02_sealed_case_ok :
  forall ipb cap c from to q rev limit wt hist,
  1 <= ipb -> 1 <= cap -> Forall ok_doc64 c -> NoDup (map did c) -> N.of_nat (length c) + 1 < 4294967296 ->
  N.of_nat (length (svocab (table c))) < 4294967295 ->
  let '(ids, total) := search_spec c q from to rev limit wt in
  let s := SQ q q from to rev limit wt hist ids total (hist_spec c q from to hist) in
  case_agrees (CSealed ipb cap c [s]) = true /\ case_spec_ok (CSealed ipb cap c [s]) = true.
Proof. exact sealed_case_ok. Qed.
Print Assumptions C02_sealed_case_ok.

(* non-vacuity of the sealed / clamp / leaf-language theorems: the six-document corpus below (ex_corpus2: tokens
   "a", "ab", "aba", "b", numbers "7", "-3", "12", "x7"); ID blocks of 2, LID blocks of 3 (so both straddle); a
   wildcard with a middle and overlapping prefix/suffix (a*a does not match "a"), a numeric range with an open and an
   unbounded end ("x7" is not a number), a text range, an in-list under NOT; a request reaching outside Info *)
Definition ex_corpus2 : list doc :=
  [Doc 10 5 [(0, [97]); (1, [55])]; Doc 12 1 [(0, [97; 98]); (1, [45; 51])]; Doc 11 7 [(0, [97; 98; 97]); (1, [49; 50])];
   Doc 11 2 [(0, [98]); (0, [97])]; Doc 11 9 [(0, [98]); (1, [120; 55])]; Doc 13 4 [(0, [97; 98; 97]); (1, [55]); (0, [97])]].
Definition ex_q_glob : query := QLeaf (PGlob 0 [TText [97]; TStar; TText [97]]).
Definition ex_q_num : query := QLeaf (PRange 1 RUnb (RVal [49; 50]) true false).
Definition ex_q_text : query := QLeaf (PRange 0 (RVal [97; 98]) (RVal [98]) true false).
Definition ex_q_in : query := QNot (QLeaf (PIn 0 [[TText [98]]; [TText [97]; TStar; TText [98]]])).

Example C02_sealed_nonvacuous :
  Forall ok_doc64 ex_corpus2 /\ NoDup (map did ex_corpus2) /\
  N.of_nat (length (svocab (table ex_corpus2))) < 4294967295 /\
  search_sealed 2 3 ex_corpus2 ex_q_glob 0 100 false 10 true 0 = Ok ([(13, 4); (11, 7)], 2) /\
  search_sealed 2 3 ex_corpus2 ex_q_num 0 100 true 10 true 0 = Ok ([(10, 5); (12, 1); (13, 4)], 3) /\
  search_sealed 2 3 ex_corpus2 ex_q_text 11 12 false 1 true 0 = Ok ([(12, 1)], 2) /\
  search_sealed 1 1 ex_corpus2 ex_q_in 0 100 false 10 true 0 = Ok ([(13, 4); (11, 7); (10, 5)], 3) /\
  search_sealed 1 1 ex_corpus2 ex_q_in 0 100 false 10 true 0 = Ok (search_spec ex_corpus2 ex_q_in 0 100 false 10 true) /\
  hist_sealed 2 3 ex_corpus2 ex_q_num 0 100 true 2 = Ok [(10, 1); (12, 2)].
Proof.
  split. { repeat constructor; vm_compute; congruence. }
  split. { unfold ex_corpus2. cbv [map did dmid drid]. repeat (apply NoDup_cons; [simpl; intuition congruence|]). apply NoDup_nil. }
  repeat split; vm_compute; reflexivity.
Qed.

Example C02_clamp_nonvacuous :
  info_of ex_corpus2 = (10, 13) /\ clamp (info_of ex_corpus2) 5 12 = (10, 12) /\ clamp (info_of ex_corpus2) 20 30 = (20, 13) /\
  provider_search ex_corpus2 ex_q_num 5 12 false 10 true 0 = Ok ([(12, 1); (10, 5)], 2) /\
  provider_search ex_corpus2 ex_q_num 20 30 false 10 true 0 = Ok ([], 0) /\
  provider_search [] ex_q_num 0 100 false 10 true 0 = Ok ([], 0) /\ info_of [] = (18446744073709551615, 0).
Proof. repeat split; vm_compute; reflexivity. Qed.

(* non-vacuity: two bulks out of time order, a search in between (so the second bulk's queues merge into
   non-empty sorted lists), a document repeating a token *)
Example C02_tx_nonvacuous :
  let ops := [OBulk [Doc 10 5 [(0, [97]); (1, [98])]; Doc 12 1 [(0, [97]); (0, [97])]];
              OSearch (QLeaf (PPrefix 0 []));
              OBulk [Doc 11 7 [(0, [97]); (1, [98]); (0, [97])]; Doc 11 2 [(0, [97])]; Doc 13 4 [(0, [98])]]] in
  let q := QNAnd (QLeaf (PLit 1 [98])) (QLeaf (PLit 0 [97])) in
  Forall ok_doc (docs_of ops) /\ NoDup (map did (docs_of ops)) /\
  t_sorted (get_lids (a_mids (run ops)) (a_rids (run ops)) (a_tl (run ops) (0, [97]))) = [2; 3; 4; 1] /\
  search_model_tx ops q 0 100 false 10 true 0 = Ok ([(12, 1); (11, 2)], 2) /\
  search_model_tx ops q 0 100 true 1 true 0 = Ok (search_spec (docs_of ops) q 0 100 true 1 true).
Proof.
  split. { repeat constructor; vm_compute; congruence. }
  split. { cbv [docs_of app map did dmid drid]. repeat (apply NoDup_cons; [simpl; intuition congruence|]). apply NoDup_nil. }
  repeat split; vm_compute; reflexivity.
Qed.

(* ex:C02_nonvacuous — six documents, three sharing the timestamp at which the limit cuts; NOT under AND,
   a prefix leaf; both orders; the model equals the specification, the hypotheses of the theorems hold *)
Definition ex_corpus : list doc :=
  [Doc 10 5 [(0, [97]); (1, [98])]; Doc 12 1 [(0, [97])]; Doc 11 7 [(0, [97; 98]); (1, [98])];
   Doc 11 2 [(0, [97]); (0, [97])]; Doc 11 9 [(0, [98])]; Doc 13 4 [(0, [97; 97]); (1, [99]); (0, [97; 97])]].
Definition ex_query : query := QNAnd (QLeaf (PLit 1 [98])) (QLeaf (PPrefix 0 [97])).

Example C02_nonvacuous :
  Forall ok_doc ex_corpus /\ NoDup (map did ex_corpus) /\
  search_model ex_corpus ex_query 11 13 false 2 true 0 = Ok ([(13, 4); (12, 1)], 3) /\
  search_model ex_corpus ex_query 10 12 true 2 true 0 = Ok ([(11, 2); (12, 1)], 2) /\
  search_model ex_corpus ex_query 11 13 false 2 true 0 = Ok (search_spec ex_corpus ex_query 11 13 false 2 true) /\
  search_model ex_corpus (QNot ex_query) 11 11 true 1 true 0 = Ok (search_spec ex_corpus (QNot ex_query) 11 11 true 1 true) /\
  search_spec ex_corpus (QNot ex_query) 11 11 true 1 true = ([(11, 7)], 2).
Proof.
  split. { repeat constructor; vm_compute; congruence. }
  split. { unfold ex_corpus. cbv [map did dmid drid]. repeat (apply NoDup_cons; [simpl; intuition congruence|]). apply NoDup_nil. }
  repeat split; vm_compute; reflexivity.
Qed.

Example C02_nodes_nonvacuous :
  let t := NAnd (NOr (NStatic [1; 3; 5]) (NStatic [2; 3])) (NNot (NStatic [2; 4]) 1 5) in
  wf_ntree true t /\ eval_ntree true t = Ok [5; 3; 1] /\ eval_ntree false t = Ok [1; 3; 5].
Proof.
  split; [|split; vm_compute; reflexivity].
  repeat constructor; try (vm_compute; reflexivity); try (intros; vm_compute; congruence).
Qed.

(* hypotheses are necessary: a stored ID (0,0) is cut off by the border computation when from = 0
   (design defect #14; not ingestable: DocProvider.Append replaces MID 0) *)
Example C02_id00_excluded :
  search_model [Doc 0 0 [(0, [97])]] (QLeaf (PLit 0 [97])) 0 5 false 10 true 0 = Ok ([], 0) /\
  search_spec [Doc 0 0 [(0, [97])]] (QLeaf (PLit 0 [97])) 0 5 false 10 true = ([(0, 0)], 1).
Proof. split; vm_compute; reflexivity. Qed.

(* and the reverse range node started at minVal 0 wraps around uint32 and never ends (design defect #15;
   unreachable by C02_borders: minLID >= 1) *)
Example C02_range_rev_from0_runs_on : range_node 2000 true 0 3 = OutOfFuel.
Proof. vm_compute. reflexivity. Qed.

(* ------------------------------------------------------------------ generated definitions (Gen.v)
   Gen.v is regenerated from the Go sources on every run by harness/cmd/go2coq (spec: props/C02/gen.json, trusted
   externs in GenPrelude.v: sort.Search -> sort_Search, the idsIndex interface -> ids_index). The theorems below tie
   the GENERATED seq.LessOrEqual / Less, util.BinSearchInRange, processor.getLIDsBorders and frac.inverser.Len /
   Inverse / Revert to the N-based model functions the theorems above are about (id_le, id_geb,
   bin_search_in_range, lids_borders: C02_borders, C02_table_sorted, C02_search_exact; inverse: C02_tx_inverser):
   a change of one of these Go functions changes Gen.v and the corresponding theorem stops compiling. *)
From Coq Require Import ZArith.
From VLib Require GoSem.
From C02 Require Import GenPrelude Gen ProofsGen.

Theorem C02_gen_LessOrEqual_refines : forall a b, go_seq_LessOrEqual (zid a) (zid b) = id_le a b.
Proof. exact gen_LessOrEqual_refines. Qed.
Print Assumptions C02_gen_LessOrEqual_refines.

(* seq.Less(a, b) = not (a >= b) in the order of the LID table (id_geb, C02_table_sorted) *)
Theorem C02_gen_Less_refines : forall a b, go_seq_Less (zid a) (zid b) = negb (id_geb a b).
Proof. exact gen_Less_refines. Qed.
Print Assumptions C02_gen_Less_refines.

(* the trusted extern sort_Search (65 rounds) returns what the model's fuelled search_loop returns for every
   predicate that does not panic below n, every n < 2^64: no OutOfFuel there *)
Theorem C02_gen_sort_Search_adequate : forall (f : N -> bool) (F : Z -> GoSem.outcome bool) n v,
  (forall h, h < n -> F (Z.of_N h) = GoSem.Val (f h)) -> n < 18446744073709551616 ->
  search_loop (S (N.to_nat n)) f 0 n = Ok v -> sort_Search (Z.of_N n) F = GoSem.Val (Z.of_N v).
Proof. exact sort_Search_N. Qed.
Print Assumptions C02_gen_sort_Search_adequate.

Theorem C02_gen_BinSearchInRange_refines : forall from to (f : N -> bool) (F : Z -> GoSem.outcome bool) v,
  from <= to + 1 -> to < 4611686018427387904 ->
  (forall x, from <= x <= to -> F (Z.of_N x) = GoSem.Val (f x)) ->
  bin_search_in_range from to f = Ok v ->
  go_util_BinSearchInRange (Z.of_N from) (Z.of_N to) F = GoSem.Val (Z.of_N v).
Proof. exact gen_BinSearchInRange_refines. Qed.
Print Assumptions C02_gen_BinSearchInRange_refines.

(* getLIDsBorders as generated, called with the index of a fraction whose LID table is tab (Len() = stored IDs + 1,
   LessOrEqual = lid_le), = lids_borders for every table of fewer than 2^32 - 1 IDs and every uint64 range *)
Theorem C02_gen_getLIDsBorders_refines : forall tab from to a b,
  N.of_nat (length tab) + 1 < 4294967296 -> from <= max_u64 -> to <= max_u64 ->
  lids_borders from to tab = Ok (a, b) ->
  go_processor_getLIDsBorders (Z.of_N from) (Z.of_N to) (zix tab) = GoSem.Val (Z.of_N a, Z.of_N b)
  /\ 1 <= a <= N.of_nat (length tab) + 1 /\ a <= b + 1 /\ b <= N.of_nat (length tab).
Proof. exact gen_getLIDsBorders_refines. Qed.
Print Assumptions C02_gen_getLIDsBorders_refines.

(* thm:C02_borders directly over the GENERATED getLIDsBorders *)
Theorem C02_borders_gen : forall c from to, Forall ok_doc c -> N.of_nat (length c) + 1 < 4294967296 ->
  from <= max_u64 -> to <= max_u64 ->
  exists lo hi, go_processor_getLIDsBorders (Z.of_N from) (Z.of_N to) (zix (table c)) = GoSem.Val (Z.of_N lo, Z.of_N hi) /\
    1 <= lo /\ lo <= hi + 1 /\ hi <= N.of_nat (length c) /\
    (forall lid d, nth_error (table c) (N.to_nat (lid - 1)) = Some d -> 1 <= lid ->
       (lo <= lid /\ lid <= hi <-> in_range from to d = true)).
Proof. exact borders_gen. Qed.
Print Assumptions C02_borders_gen.

Theorem C02_gen_inverser_Len_refines : forall values inversion, N.of_nat (length values) < 4611686018427387904 ->
  go_frac_inverser_Len (zinv values inversion) = Z.of_N (N.of_nat (length values) + 1).
Proof. exact gen_inverser_Len_refines. Qed.
Print Assumptions C02_gen_inverser_Len_refines.

(* inverser.Inverse as generated = the model's inverse, the lookup inverse_lids / C02_tx_inverser are about *)
Theorem C02_gen_inverser_Inverse_refines : forall values inversion k,
  go_frac_inverser_Inverse (zinv values inversion) (Z.of_N k) =
  GoSem.Val (match inverse inversion k with Some v => (Z.of_N v, true) | None => (0%Z, false) end).
Proof. exact gen_inverser_Inverse_refines. Qed.
Print Assumptions C02_gen_inverser_Inverse_refines.

Theorem C02_gen_inverser_Revert_refines : forall values inversion i, 1 <= i -> i <= N.of_nat (length values) ->
  i < 4294967296 ->
  go_frac_inverser_Revert (zinv values inversion) (Z.of_N i) = GoSem.Val (Z.of_N (nth (N.to_nat (i - 1)) values 0)).
Proof. exact gen_inverser_Revert_refines. Qed.
Print Assumptions C02_gen_inverser_Revert_refines.

(* non-vacuity: the generated functions compute (vm_compute FIRST: never let `split` unify such equations lazily) *)
Example C02_gen_witness :
  let ix := mk_ix go_ID 5 (fun lid x => go_seq_LessOrEqual (mk_go_ID (nth (Z.to_nat lid) [0; 40; 30; 30; 10]%Z 0%Z) 7%Z) x) in
  go_processor_getLIDsBorders 20%Z 35%Z ix = GoSem.Val (2%Z, 3%Z) /\
  go_frac_inverser_Inverse (mk_go_inverser [2; 0]%Z [2; 0; 1]%Z) 2%Z = GoSem.Val (1%Z, true) /\
  go_frac_inverser_Inverse (mk_go_inverser [2; 0]%Z [2; 0; 1]%Z) 1%Z = GoSem.Val (0%Z, false) /\
  go_frac_inverser_Revert (mk_go_inverser [2; 0]%Z [2; 0; 1]%Z) 0%Z = GoSem.Panic.
Proof. vm_compute. repeat split; reflexivity. Qed.
