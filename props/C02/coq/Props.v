(* C02 — property theorems. Statements only, each closed by `exact <lemma>`; Print Assumptions beneath;
   non-vacuity examples. *)
From Coq Require Import List NArith Sorting.Sorted.
From C02 Require Import Model ProofsNodes.
Import ListNotations.
Open Scope N_scope.

(* thm:C02_nodes_sound — every tree of merge nodes (AND, OR with dedup, NAND, NOT over the LID range) over
   strictly ascending posting lists, drained in either direction, terminates (the range node's fuel is
   adequate), yields a strictly `less`-monotone list, and that list holds exactly the values of the tree's
   set denotation: AND = intersection, OR = union, NAND = regular minus negative, NOT = [lo..hi] minus child.
   wf_ntree: static lists strictly ascending; NOT borders lo < 2^32, hi+1 < 2^32 and, when walking
   downwards, lo >= 1 (getLIDsBorders guarantees this: C02_borders_wf). *)
Theorem C02_nodes_sound :
  forall rev t, wf_ntree rev t ->
    exists out, eval_ntree rev t = Ok out /\ StronglySorted (fun a b => less rev a b = true) out /\
                (forall x, In x out <-> nsem t x = true).
Proof. exact nodes_sound. Qed.
Print Assumptions C02_nodes_sound.
