(* copy of props/C03/coq/ProofsGen.v (see SealedLids.v) *)
(* C03 — invariants of getLIDsBlockGenerator: termination, layout (chain), content (lookup). *)
From Coq Require Import List Bool Arith NArith Lia Sorted.
Import ListNotations.
From C02 Require Import SealedLids SLCodec SLSearch SLNav.

(* ------------------------------------------------------------------ entries: (tid, chunk) pairs in file order *)
Fixpoint tag (tid : N) (cs : list (list N)) : list (N * list N) :=
  match cs with [] => [] | c :: r => (tid, c) :: tag (tid + 1) r end.
Definition bentries (b : block) := tag (badj b) (c_list (b_chunks b)).
Definition entries_of (bs : list block) := flat_map bentries bs.
Definition sel (t : N) (E : list (N * list N)) : list (list N) :=
  map snd (filter (fun e => (fst e =? t)%N) E).
Definition get (done : list (list N)) (t : N) : list N :=
  match t with 0%N => [] | _ => nth (N.to_nat (t - 1)) done [] end.

Lemma tag_app t a b : tag t (a ++ b) = tag t a ++ tag (t + N.of_nat (length a)) b.
Proof.
  revert t. induction a as [|x r IH]; intros t; simpl.
  - f_equal. lia.
  - f_equal. rewrite IH. f_equal. f_equal. lia.
Qed.
Lemma tag_snd t cs : map snd (tag t cs) = cs.
Proof. revert t. induction cs; intros; simpl; f_equal; auto. Qed.

Lemma sel_app t a b : sel t (a ++ b) = sel t a ++ sel t b.
Proof. unfold sel. rewrite filter_app, map_app. reflexivity. Qed.

Lemma sel_tag t cs : forall a,
  sel t (tag a cs) = if ((a <=? t) && (t <? a + N.of_nat (length cs)))%N
                     then [nth (N.to_nat (t - a)) cs []] else [].
Proof.
  induction cs as [|c r IH]; intros a.
  - simpl. destruct (N.leb_spec a t), (N.ltb_spec t (a + 0)); simpl; auto; lia.
  - cbn [tag]. change ((a, c) :: tag (a + 1) r) with ([(a, c)] ++ tag (a + 1) r).
    rewrite sel_app, IH. unfold sel at 1. cbn [filter fst].
    destruct (N.eqb_spec a t) as [E|E].
    + subst. cbn [map snd app].
      destruct (N.leb_spec (t + 1) t); [lia|]. cbn [andb].
      destruct (N.leb_spec t t); [|lia].
      destruct (N.ltb_spec t (t + N.of_nat (length (c :: r)))); [|simpl length in *; lia].
      cbn [andb]. replace (N.to_nat (t - t)) with 0 by lia. reflexivity.
    + cbn [map app].
      destruct (N.leb_spec (a + 1) t), (N.leb_spec a t), (N.ltb_spec t (a + 1 + N.of_nat (length r))),
        (N.ltb_spec t (a + N.of_nat (length (c :: r)))); cbn [andb]; simpl length in *; try lia; auto.
      replace (N.to_nat (t - a)) with (S (N.to_nat (t - (a + 1)))) by lia. reflexivity.
Qed.

Lemma sel_block t b : bok b -> sel t (bentries b) = if inb b t then [piece b t] else [].
Proof.
  intros [H1 H2]. unfold bentries. rewrite sel_tag. unfold inb, piece, nchunks in *.
  destruct (N.leb_spec (badj b) t), (N.ltb_spec t (badj b + N.of_nat (length (c_list (b_chunks b))))),
    (N.leb_spec t (b_max b)); cbn [andb]; try lia; auto.
Qed.

Lemma sel_entries t bs : Forall bok bs -> sel t (entries_of bs) = lookup t bs.
Proof.
  induction 1 as [|b r Hb Hr IH]; [reflexivity|].
  unfold entries_of, lookup in *. cbn [flat_map]. rewrite sel_app, IH, sel_block by auto. reflexivity.
Qed.

Ltac splits := repeat match goal with |- _ /\ _ => split end.

(* ------------------------------------------------------------------ state invariant *)
Definition adj_cur (s : gst) : N := if g_cont s then g_lastMax s else (g_lastMax s + 1)%N.
Definition nt (s : gst) : N := (adj_cur s + N.of_nat (length (g_cur s)))%N.
Definition entries (s : gst) : list (N * list N) :=
  entries_of (rev (g_out s)) ++ tag (adj_cur s) (rev (g_cur s)).
Definition Pp (p : list N) : Prop := p <> [] /\ Forall lid_ok p.

Record inv (s : gst) : Prop := {
  i_chain : chain 0 (rev (g_out s));
  i_last : g_lastMax s = lastmax 0 (rev (g_out s));
  i_len : g_len s = length (concat (g_cur s));
  i_ne : Forall (fun p => p <> []) (g_cur s);
  i_lm : (g_lastMax s <= g_maxTID s)%N
}.

Lemma lastmax_snoc m bs b : lastmax m (bs ++ [b]) = b_max b.
Proof. unfold lastmax. rewrite map_app. simpl. apply last_last. Qed.

Lemma badj_new s isLast :
  badj (mkBlock (g_lastMax s + 1) (g_maxTID s) (g_cont s) (mkChunks (rev (g_cur s)) isLast)) = adj_cur s.
Proof. unfold badj, adj_cur. simpl. destruct (g_cont s); auto. lia. Qed.

(* closing the block being filled *)
Lemma close_ok s isLast :
  inv s -> g_cur s <> [] -> (nt s = g_maxTID s + 1)%N ->
  let s' := new_block s isLast in
  inv s' /\ entries s' = entries s /\ g_len s' = 0 /\ g_maxTID s' = g_maxTID s
  /\ nt s' = (if isLast then g_maxTID s + 1 else g_maxTID s)%N.
Proof.
  intros [Hc Hl Hn Hne Hlm] Hcur Hnt. cbv zeta.
  set (b := mkBlock (g_lastMax s + 1) (g_maxTID s) (g_cont s) (mkChunks (rev (g_cur s)) isLast)).
  assert (Hb : badj b = adj_cur s) by apply badj_new.
  unfold new_block. fold b. split; [constructor|]; cbn [g_out g_lastMax g_len g_cur g_maxTID g_cont].
  - cbn [rev]. apply chain_app. split; auto. cbn [chain]. rewrite <- Hl, Hb. repeat split.
    + unfold adj_cur. destruct (g_cont s); auto.
    + rewrite ?Hb. unfold nchunks, b. cbn [b_max b_chunks c_list]. rewrite rev_length. unfold nt in Hnt. lia.
    + unfold nchunks, b. cbn [b_chunks c_list]. rewrite rev_length. destruct (g_cur s); [congruence|simpl; lia].
  - cbn [rev]. rewrite lastmax_snoc. reflexivity.
  - reflexivity.
  - constructor.
  - lia.
  - split; [|split; [reflexivity|split; [reflexivity|]]].
    + unfold entries. cbn [g_out g_cur rev tag]. rewrite app_nil_r.
      unfold entries_of. rewrite flat_map_app. cbn [flat_map]. rewrite app_nil_r.
      f_equal. unfold bentries. rewrite Hb. reflexivity.
    + unfold nt, adj_cur. cbn [g_cont g_lastMax g_cur length]. destruct isLast; simpl; lia.
Qed.

Lemma Forall_firstn {A} (P : A -> Prop) n l : Forall P l -> Forall P (firstn n l).
Proof. revert n. induction l; intros n H; destruct n; simpl; auto. inversion H; subst. constructor; auto. Qed.
Lemma Forall_skipn {A} (P : A -> Prop) n l : Forall P l -> Forall P (skipn n l).
Proof. revert n. induction l; intros n H; destruct n; simpl; auto. inversion H; subst. auto. Qed.

(* the loop over one token's LIDs *)
Lemma gen_token_ok cap : 0 < cap -> forall fuel lids s,
  length lids < fuel -> inv s -> g_len s < cap ->
  (lids <> [] -> nt s = g_maxTID s) -> (lids = [] -> nt s = g_maxTID s + 1)%N ->
  Forall lid_ok lids ->
  exists s' ps, gen_token fuel cap s lids = Some s' /\ inv s' /\ g_len s' < cap
    /\ (nt s' = g_maxTID s' + 1)%N /\ g_maxTID s' = g_maxTID s
    /\ entries s' = entries s ++ map (pair (g_maxTID s)) ps
    /\ concat ps = lids /\ Forall Pp ps.
Proof.
  intros Hcap. induction fuel as [|f IH]; intros lids s Hfuel Hinv Hlt Hnt1 Hnt2 Hok; [lia|].
  destruct lids as [|x l].
  - exists s, []. cbn. rewrite app_nil_r. splits; auto.
  - set (lids := x :: l) in *.
    assert (Hne : lids <> []) by (unfold lids; congruence).
    specialize (Hnt1 Hne). clear Hnt2.
    cbn [gen_token]. fold lids.
    set (right := Nat.min (cap - g_len s) (length lids)).
    assert (Hr1 : 1 <= right) by (unfold right, lids; simpl length; lia).
    assert (Hr2 : right <= length lids) by (unfold right; lia).
    set (p := firstn right lids). set (rest := skipn right lids).
    assert (Hp : Pp p).
    { split; [|apply Forall_firstn; auto].
      unfold p, lids. destruct right; [lia|]. simpl. congruence. }
    assert (Hplen : length p = right) by (unfold p; rewrite firstn_length; lia).
    set (s1 := mkG (g_maxTID s) (g_lastMax s) (g_cont s) (p :: g_cur s) (g_len s + right) (g_out s)).
    destruct Hinv as [Hc Hl Hn Hnn Hlm].
    assert (Hinv1 : inv s1).
    { constructor; cbn [g_out g_lastMax g_len g_cur s1]; auto.
      - cbn [concat]. rewrite app_length. lia.
      - constructor; auto. apply Hp. }
    assert (He1 : entries s1 = entries s ++ [(g_maxTID s, p)]).
    { unfold entries. assert (Ea : adj_cur s1 = adj_cur s) by reflexivity. rewrite Ea.
      change (g_out s1) with (g_out s). change (g_cur s1) with (p :: g_cur s). cbn [rev].
      rewrite tag_app, <- app_assoc. f_equal. f_equal. cbn [tag]. rewrite rev_length.
      unfold nt in Hnt1. rewrite Hnt1. reflexivity. }
    assert (Hnt_s1 : (nt s1 = g_maxTID s1 + 1)%N).
    { unfold nt, adj_cur in *. cbn [g_cont g_lastMax g_cur g_maxTID s1 length]. lia. }
    assert (Hrestlen : length rest = length lids - right) by (unfold rest; apply skipn_length).
    assert (Hcat : p ++ rest = lids) by (apply firstn_skipn).
    destruct (Nat.eqb_spec (g_len s1) cap) as [Efull|Enot].
    + (* block full: push *)
      destruct (close_ok s1 (is_nil rest) Hinv1) as (Hinv2 & He2 & Hlen2 & Hm2 & Hnt2);
        [cbn; congruence|auto|].
      set (s2 := new_block s1 (is_nil rest)) in *.
      destruct (IH rest s2) as (s' & ps & Eg & Hi' & Hl' & Hn' & Hm' & He' & Hc' & Hp'); auto; try lia.
      * intros Hr. rewrite Hnt2. destruct rest; [congruence|]. cbn [is_nil]. rewrite Hm2. reflexivity.
      * intros Hr. rewrite Hnt2. rewrite Hr. cbn [is_nil]. rewrite Hm2. reflexivity.
      * apply Forall_skipn; auto.
      * exists s', (p :: ps).
        split; [exact Eg|]. split; [exact Hi'|]. split; [exact Hl'|]. split; [exact Hn'|].
        split; [rewrite Hm', Hm2; reflexivity|].
        split; [rewrite He', He2, He1, Hm2; change (g_maxTID s1) with (g_maxTID s); cbn [map];
                rewrite <- app_assoc; reflexivity|].
        split; [cbn [concat]; rewrite Hc'; exact Hcat|].
        constructor; auto.
    + (* block not full: the token is exhausted *)
      assert (Hrest : rest = []).
      { apply length_zero_iff_nil. cbn [g_len s1] in Enot. unfold right in *. lia. }
      rewrite Hrest in *.
      destruct f as [|f']; [simpl in Hfuel; lia|]. cbn [gen_token].
      exists s1, [p].
      split; [reflexivity|]. split; [exact Hinv1|].
      split; [cbn [g_len s1] in *; unfold right in *; lia|].
      split; [exact Hnt_s1|]. split; [reflexivity|]. split; [exact He1|].
      split; [cbn [concat]; rewrite app_nil_r in *; auto|].
      constructor; auto.
Qed.

(* ------------------------------------------------------------------ between tokens *)
Record inv2 (cap : nat) (s : gst) (done : list (list N)) : Prop := {
  j_inv : inv s;
  j_lt : g_len s < cap;
  j_nt : (nt s = g_maxTID s + 1)%N;
  j_tid : g_maxTID s = N.of_nat (length done);
  j_sel : forall t, concat (sel t (entries s)) = get done t;
  j_pp : Forall (fun e => Pp (snd e)) (entries s)
}.

Definition post_ok (l : list N) : Prop := l <> [] /\ Forall lid_ok l.

Lemma get_snoc done lids t :
  get (done ++ [lids]) t = get done t ++ (if (N.of_nat (length done) + 1 =? t)%N then lids else []).
Proof.
  unfold get. destruct t as [|p]; [destruct (N.eqb_spec (N.of_nat (length done) + 1) 0); [lia|reflexivity]|].
  set (t := N.pos p) in *. assert (0 < t)%N by (unfold t; lia).
  destruct (N.eqb_spec (N.of_nat (length done) + 1) t) as [E|E].
  - replace (N.to_nat (t - 1)) with (length done) by lia.
    rewrite nth_middle. rewrite nth_overflow by lia. reflexivity.
  - rewrite app_nil_r. destruct (Nat.lt_ge_cases (N.to_nat (t - 1)) (length done)).
    + apply app_nth1; auto.
    + rewrite !nth_overflow; auto; try lia. rewrite app_length. cbn [length]. lia.
Qed.

Lemma sel_pairs tid t ps :
  sel t (map (pair tid) ps) = if (tid =? t)%N then ps else [].
Proof.
  unfold sel. induction ps as [|p r IH]; cbn [map filter fst].
  - destruct (tid =? t)%N; reflexivity.
  - destruct (N.eqb_spec tid t); cbn [map snd]; rewrite IH; reflexivity.
Qed.

Lemma gen_tid_ok cap : 0 < cap -> forall s done lids,
  inv2 cap s done -> post_ok lids ->
  exists s', gen_tid cap (Some s) lids = Some s' /\ inv2 cap s' (done ++ [lids]).
Proof.
  intros Hcap s done lids [Hi Hlt Hnt Htid Hsel Hpp] [Hne Hok].
  unfold gen_tid.
  destruct (gen_token_ok cap Hcap (S (length lids)) lids (bump s)) as
      (s' & ps & Eg & Hi' & Hl' & Hn' & Hm' & He' & Hc' & Hp'); auto.
  - destruct Hi. constructor; auto. cbn. lia.
  - intros; congruence.
  - exists s'. split; auto.
    assert (Ee : entries (bump s) = entries s) by reflexivity.
    assert (Em : g_maxTID (bump s) = (N.of_nat (length done) + 1)%N) by (cbn; lia).
    constructor; auto.
    + rewrite Hm', Em, app_length. simpl. lia.
    + intros t. rewrite He', Ee, sel_app, concat_app, Hsel, sel_pairs, Em, get_snoc.
      destruct (N.eqb_spec (N.of_nat (length done) + 1) t); [rewrite Hc'|]; reflexivity.
    + rewrite He', Ee. apply Forall_app. split; auto.
      rewrite Forall_forall in Hp' |- *. intros e He. apply in_map_iff in He.
      destruct He as (p & <- & Hin). apply Hp'; auto.
Qed.

Lemma gen_toks_ok cap : 0 < cap -> forall toks s done,
  inv2 cap s done -> Forall post_ok toks ->
  exists s', fold_left (gen_tid cap) toks (Some s) = Some s' /\ inv2 cap s' (done ++ toks).
Proof.
  intros Hcap. induction toks as [|l r IH]; intros s done Hi Hok.
  - exists s. rewrite app_nil_r. auto.
  - inversion Hok as [|? ? Hl Hr]; subst. cbn [fold_left].
    destruct (gen_tid_ok cap Hcap s done l Hi Hl) as (s1 & E1 & Hi1). rewrite E1.
    destruct (IH s1 (done ++ [l]) Hi1 Hr) as (s2 & E2 & Hi2).
    exists s2. rewrite <- app_assoc in Hi2. auto.
Qed.

Lemma cur_empty s : inv s -> g_len s = 0 -> g_cur s = [].
Proof.
  intros [_ _ Hn Hne _] H0. rewrite Hn in H0. destruct (g_cur s) as [|p r]; auto.
  inversion Hne as [|? ? Hp _]; subst. destruct p; [congruence|simpl in H0; lia].
Qed.

(* a field ends with its last block pushed: nothing is left in the buffer *)
Lemma gen_field_ok cap : 0 < cap -> forall toks s done,
  inv2 cap s done -> g_cur s = [] -> Forall post_ok toks ->
  exists s', gen_field cap (Some s) toks = Some s' /\ inv2 cap s' (done ++ toks) /\ g_cur s' = [].
Proof.
  intros Hcap toks s done Hi Hcur Hok. unfold gen_field.
  destruct (gen_toks_ok cap Hcap toks s done Hi Hok) as (s1 & E1 & [Hi1 Hlt1 Hnt1 Htid1 Hsel1 Hpp1]).
  rewrite E1. destruct (Nat.ltb_spec 0 (g_len s1)) as [Hpos|Hz].
  - destruct (close_ok s1 true Hi1) as (Hi2 & He2 & Hl2 & Hm2 & Hn2); auto.
    { intros E. destruct Hi1 as [_ _ Hn _ _]. rewrite E in Hn. simpl in Hn. lia. }
    eexists. split; [reflexivity|]. split; [|reflexivity].
    constructor.
    + exact Hi2.
    + rewrite Hl2. lia.
    + rewrite Hn2, Hm2. reflexivity.
    + rewrite Hm2. exact Htid1.
    + intros t. rewrite He2. apply Hsel1.
    + rewrite He2. exact Hpp1.
  - exists s1. split; auto. split; [constructor; auto|]. apply cur_empty; auto. lia.
Qed.

Lemma gen_fields_ok cap : 0 < cap -> forall fields s done,
  inv2 cap s done -> g_cur s = [] -> Forall (Forall post_ok) fields ->
  exists s', fold_left (gen_field cap) fields (Some s) = Some s'
             /\ inv2 cap s' (done ++ concat fields) /\ g_cur s' = [].
Proof.
  intros Hcap. induction fields as [|f r IH]; intros s done Hi Hcur Hok.
  - exists s. cbn. rewrite app_nil_r. auto.
  - inversion Hok as [|? ? Hf Hr]; subst. cbn [fold_left].
    destruct (gen_field_ok cap Hcap f s done Hi Hcur Hf) as (s1 & E1 & Hi1 & Hc1). rewrite E1.
    destruct (IH s1 (done ++ f) Hi1 Hc1 Hr) as (s2 & E2 & Hi2 & Hc2).
    exists s2. cbn [concat]. rewrite app_assoc. auto.
Qed.

Lemma inv2_init cap : 0 < cap -> inv2 cap g_init [].
Proof.
  intros. constructor; cbn; auto.
  - constructor; cbn; auto. lia.
  - intros t. destruct t; [reflexivity|]. unfold get. destruct (N.to_nat (N.pos p - 1)); reflexivity.
Qed.

Definition input_ok (fields : list (list (list N))) : Prop := Forall (Forall post_ok) fields.

(* what the generator guarantees *)
Theorem gen_blocks_ok cap fields : 0 < cap -> input_ok fields ->
  exists bs, gen_blocks cap fields = Ok bs
    /\ chain 0 bs
    /\ lastmax 0 bs = N.of_nat (length (concat fields))
    /\ (forall t, concat (lookup t bs) = postings fields t)
    /\ Forall (fun b => Forall Pp (c_list (b_chunks b))) bs.
Proof.
  intros Hcap Hok. unfold gen_blocks.
  destruct (gen_fields_ok cap Hcap fields g_init [] (inv2_init cap Hcap) eq_refl Hok)
    as (s & E & [Hi Hlt Hnt Htid Hsel Hpp] & Hcur).
  rewrite E. exists (rev (g_out s)).
  assert (Hent : entries s = entries_of (rev (g_out s))).
  { unfold entries. rewrite Hcur. cbn. apply app_nil_r. }
  destruct Hi as [Hc Hl Hn Hne].
  splits; auto.
  - rewrite <- Hl. unfold nt, adj_cur in Hnt. rewrite Hcur in Hnt. cbn in Hnt. cbn [app] in Htid.
    destruct (g_cont s); lia.
  - intros t. rewrite <- sel_entries by (eapply chain_all_ok; eauto). rewrite <- Hent, Hsel. reflexivity.
  - rewrite Hent in Hpp. clear - Hpp. induction (rev (g_out s)) as [|b r IH]; constructor.
    + unfold entries_of in Hpp. cbn [flat_map] in Hpp. apply Forall_app in Hpp. destruct Hpp as [H1 _].
      unfold bentries in H1. rewrite <- (tag_snd (badj b) (c_list (b_chunks b))).
      rewrite Forall_map. auto.
    + apply IH. unfold entries_of in Hpp. cbn [flat_map] in Hpp. apply Forall_app in Hpp. tauto.
Qed.
