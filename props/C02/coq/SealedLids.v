(* C02 — the sealed fraction's LID blocks at the level of numbers. This file is a COPY of the LID part of
   props/C03/coq/Model.v (re-modelled here because compiled files of another property cannot be imported):

   Mirrors (as the code is NOW, after fix cf53e44):
     frac/lids/chunks.go            Chunks.Pack / Chunks.unpack   (on varint VALUES; the byte encoding of
                                    encoding/binary varints is outside the model)
     frac/disk_blocks_producer.go   getLIDsBlockGenerator, getTokensBlocksGenerator (+ the pre-fix
                                    version as tok_field_v0), getIDsBlocksGenerator
     frac/lids/block.go             GetExtForRegistry  /  frac/sealed_loader.go loadLIDsBlocksTable
     frac/lids/table.go             Table (all functions)
     frac/lids/iterator_desc.go, iterator_asc.go   (a drained iterator = list of all Next() results)
     sort.Search                    transcribed literally (binary search with fuel)
   Data are N (uint32 / uint64 values), positions and lengths are nat. *)
From Coq Require Import List Bool Arith NArith ZArith.
Import ListNotations.

Inductive res (A : Type) := Ok (a : A) | Panic | OutOfFuel.
Arguments Ok {A} a. Arguments Panic {A}. Arguments OutOfFuel {A}.

Definition is_nil {A} (l : list A) : bool := match l with [] => true | _ => false end.

(* ------------------------------------------------------------------ sort.Search *)
(* func Search(n, f): i, j := 0, n; for i < j { h := (i+j)/2; if !f(h) { i = h+1 } else { j = h } }; return i *)
Fixpoint bsearch (fuel : nat) (f : nat -> bool) (i j : nat) : nat :=
  match fuel with
  | 0 => i
  | S k => if i <? j then let h := (i + j) / 2 in
                          if f h then bsearch k f i h else bsearch k f (S h) j
           else i
  end.
Definition sort_search (n : nat) (f : nat -> bool) : nat := bsearch n f 0 n.

Definition nthN (l : list N) (i : nat) : N := nth i l 0%N.

(* ------------------------------------------------------------------ lids.Chunks *)
Record chunks := mkChunks { c_list : list (list N); c_last : bool }.

Definition two32 : Z := 4294967296.
Definition maxu32 : Z := 4294967295.
Definition u32 (z : Z) : Z := (z mod two32)%Z.

(* the deltas of one chunk; [last] is lastLID *)
Fixpoint pack_chunk (last : Z) (l : list N) : list Z :=
  match l with
  | [] => []
  | x :: r => (Z.of_N x - last)%Z :: pack_chunk (Z.of_N x) r
  end.
Fixpoint last_lid (last : Z) (l : list N) : Z :=
  match l with [] => last | x :: r => last_lid (Z.of_N x) r end.

(* Chunks.Pack: after chunk i an end marker (-1 - lastLID) is written iff i < last || IsLastLID *)
Fixpoint pack_from (last : Z) (cs : list (list N)) (isLast : bool) : list Z :=
  match cs with
  | [] => []
  | c :: rest =>
      let last' := last_lid last c in
      pack_chunk last c
        ++ (if negb (is_nil rest) || isLast then [(-1 - last')%Z] else [])
        ++ pack_from last' rest isLast
  end.
Definition pack (c : chunks) : list Z := pack_from 0%Z (c_list c) (c_last c).

(* Chunks.unpack: lid is a uint32; [cur] = LIDs read since the last end marker (reversed),
   [done] = finished chunks (reversed). `int(offset) < len(buf.lids)` <=> cur is not empty. *)
Fixpoint unpack_go (vals : list Z) (lid : Z) (cur : list N) (done : list (list N)) : chunks :=
  match vals with
  | [] => match cur with
          | [] => mkChunks (rev done) true
          | _ => mkChunks (rev (rev cur :: done)) false
          end
  | d :: r =>
      let lid' := u32 (lid + u32 d) in                       (* lid += uint32(delta) *)
      if (lid' =? maxu32)%Z
      then unpack_go r (u32 (lid' - u32 d)) [] (rev cur :: done)   (* lid -= uint32(delta) *)
      else unpack_go r lid' (Z.to_N lid' :: cur) done
  end.
Definition unpack (vals : list Z) : chunks := unpack_go vals 0%Z [] [].

(* ------------------------------------------------------------------ LID block generator *)
Record block := mkBlock { b_min : N; b_max : N; b_cont : bool; b_chunks : chunks }.

Record gst := mkG {
  g_maxTID : N; g_lastMax : N; g_cont : bool;
  g_cur : list (list N);      (* chunks of the block being filled, REVERSED (offsets) *)
  g_len : nat;                (* len(blockLIDs) *)
  g_out : list block          (* pushed blocks, REVERSED *)
}.
Definition g_init : gst := mkG 0 0 false [] 0 [].

(* newBlockFn(isLastLID) + push *)
Definition new_block (s : gst) (isLast : bool) : gst :=
  mkG (g_maxTID s) (g_maxTID s) (negb isLast) [] 0
      (mkBlock (g_lastMax s + 1) (g_maxTID s) (g_cont s) (mkChunks (rev (g_cur s)) isLast) :: g_out s).

(* for len(tokenLIDs) > 0 { right := min(cap-len(blockLIDs), len(tokenLIDs)); append; offsets; cut;
                            if len(blockLIDs) == cap { push(newBlockFn(len(tokenLIDs) == 0)) } } *)
Fixpoint gen_token (fuel : nat) (cap : nat) (s : gst) (lids : list N) : option gst :=
  match lids with
  | [] => Some s
  | _ =>
    match fuel with
    | 0 => None
    | S f =>
        let right := Nat.min (cap - g_len s) (length lids) in
        let rest := skipn right lids in
        let s1 := mkG (g_maxTID s) (g_lastMax s) (g_cont s) (firstn right lids :: g_cur s)
                      (g_len s + right) (g_out s) in
        let s2 := if g_len s1 =? cap then new_block s1 (is_nil rest) else s1 in
        gen_token f cap s2 rest
    end
  end.

Definition bump (s : gst) : gst :=
  mkG (g_maxTID s + 1) (g_lastMax s) (g_cont s) (g_cur s) (g_len s) (g_out s).

(* one tid: maxTID++ ; the loop. The fuel is generous: every iteration consumes >= 1 LID when cap > 0 *)
Definition gen_tid (cap : nat) (os : option gst) (lids : list N) : option gst :=
  match os with
  | None => None
  | Some s => gen_token (S (length lids)) cap (bump s) lids
  end.

(* one field: its tokens in dictionary order; `if len(blockLIDs) > 0 { push(newBlockFn(true)) }` *)
Definition gen_field (cap : nat) (os : option gst) (toks : list (list N)) : option gst :=
  match fold_left (gen_tid cap) toks os with
  | None => None
  | Some s => Some (if 0 <? g_len s then new_block s true else s)
  end.

(* fields in sorted order, each a list of posting lists (new LIDs: reassignLIDs is a map over the
   block's LIDs and commutes with the slicing, the harness passes old LIDs + oldToNew, see reassign) *)
Definition gen_blocks (cap : nat) (fields : list (list (list N))) : res (list block) :=
  match fold_left (gen_field cap) fields (Some g_init) with
  | None => OutOfFuel
  | Some s => Ok (rev (g_out s))
  end.

Definition reassign (o2n : list N) (fields : list (list (list N))) : list (list (list N)) :=
  map (map (map (fun l => nthN o2n (N.to_nat l)))) fields.

(* ------------------------------------------------------------------ registry ext words + lids.Table *)
Record table := mkTable { t_min : list N; t_max : list N; t_cont : list bool }.

(* DiskBlocksWriter.writeLIDsBlocks: lidsTable.Add(block) — the PRELOADED table *)
Definition table_of (bs : list block) : table :=
  mkTable (map b_min bs) (map b_max bs) (map b_cont bs).

(* Block.GetExtForRegistry / Loader.loadLIDsBlocksTable — the LOADED table *)
Definition ext_of (b : block) : N * N :=
  ((if b_cont b then 1 else 0)%N, N.lor (N.shiftl (b_max b) 32) (b_min b)).
Definition table_of_ext (exts : list (N * N)) : table :=
  mkTable (map (fun e => N.land (snd e) 4294967295) exts)
          (map (fun e => N.shiftr (snd e) 32) exts)
          (map (fun e => N.eqb (fst e) 1) exts).

Definition adj_min (t : table) (i : nat) : N :=
  if nth i (t_cont t) false then N.pred (nthN (t_min t) i) else nthN (t_min t) i.
Definition chunks_count (t : table) (i : nat) : N := (nthN (t_max t) i - adj_min t i + 1)%N.

Definition first_block (t : table) (tid : N) : res nat :=
  let n := length (t_max t) in
  if n =? 0 then Panic else
  let i := sort_search n (fun i => (tid <=? nthN (t_max t) i)%N) in
  if i =? n then Panic else Ok i.

Definition last_block (t : table) (tid : N) : res nat :=
  if length (t_max t) =? 0 then Panic else
  let n := length (t_min t) in
  match sort_search n (fun i => (tid <? adj_min t i)%N) with
  | 0 => Panic                                           (* index -1 *)
  | S i => if (nthN (t_max t) i <? tid)%N then Panic else Ok i
  end.

Definition has_prev (t : table) (bi : nat) (tid : N) : bool :=
  match bi with 0 => false | S p => (nthN (t_max t) p =? tid)%N end.
Definition has_next (t : table) (bi : nat) (tid : N) : bool :=
  if length (t_min t) =? S bi then false else (adj_min t (S bi) =? tid)%N.

(* ------------------------------------------------------------------ iterators *)
Definition lastN (l : list N) : N := last l 0%N.

Definition cut_left (lo : N) (l : list N) : list N :=
  skipn (sort_search (length l) (fun i => (lo <=? nthN l i)%N)) l.
Definition cut_right (hi : N) (l : list N) : list N :=
  firstn (sort_search (length l) (fun i => (hi <? nthN l i)%N)) l.

(* IteratorDesc.narrowLIDsRange; None = index out of range on an empty chunk *)
Definition narrow_desc (lo hi : N) (l : list N) (try : bool) : option (list N * bool) :=
  match l with
  | [] => None
  | first :: _ =>
      if (hi <? first)%N then Some ([], false) else
      let lst := lastN l in
      if (lst <? lo)%N then Some ([], try) else
      let l1 := if (first <? lo)%N then cut_left lo l else l in
      if (hi <=? lst)%N then Some (cut_right hi l1, false) else Some (l1, try)
  end.

(* IteratorAsc.narrowLIDsRange *)
Definition narrow_asc (lo hi : N) (l : list N) (try : bool) : option (list N * bool) :=
  match l with
  | [] => None
  | first :: _ =>
      if (hi <? first)%N then Some ([], try) else
      let lst := lastN l in
      if (lst <? lo)%N then Some ([], false) else
      let '(l1, try1) := if (first <? lo)%N then (cut_left lo l, false) else (l, try) in
      let l2 := if (hi <=? lst)%N then cut_right hi l1 else l1 in
      Some (l2, try1)
  end.

(* loadNextLIDsChunk: the chunk of [tid] in block [bi]; checks as in the code *)
Definition load_chunk (t : table) (bs : list chunks) (tid : N) (bi : nat) : option (list N) :=
  match nth_error bs bi with
  | None => None                                                   (* block cannot be loaded *)
  | Some ch =>
      if negb (N.of_nat (length (c_list ch)) =? chunks_count t bi)%N then None   (* unexpected LIDs count *)
      else if (tid <? adj_min t bi)%N then None                     (* uint32 wrap of the chunk index *)
      else nth_error (c_list ch) (N.to_nat (tid - adj_min t bi))
  end.

(* all results of IteratorDesc.Next() until it returns false *)
Fixpoint desc_loop (fuel : nat) (t : table) (bs : list chunks) (tid lo hi : N) (bi : nat) : res (list N) :=
  match fuel with
  | 0 => OutOfFuel
  | S f =>
      match load_chunk t bs tid bi with
      | None => Panic
      | Some l =>
          match narrow_desc lo hi l (has_next t bi tid) with
          | None => Panic
          | Some (l', try') =>
              if try' then match desc_loop f t bs tid lo hi (S bi) with
                           | Ok r => Ok (l' ++ r) | e => e end
              else Ok l'
          end
      end
  end.
Definition iter_desc (t : table) (bs : list chunks) (tid lo hi : N) : res (list N) :=
  match first_block t tid with
  | Ok bi => desc_loop (S (length bs)) t bs tid lo hi bi
  | Panic => Panic | OutOfFuel => OutOfFuel
  end.

(* all results of IteratorAsc.Next(): every chunk is consumed from its end *)
Fixpoint asc_loop (fuel : nat) (t : table) (bs : list chunks) (tid lo hi : N) (bi : nat) : res (list N) :=
  match fuel with
  | 0 => OutOfFuel
  | S f =>
      match load_chunk t bs tid bi with
      | None => Panic
      | Some l =>
          match narrow_asc lo hi l (has_prev t bi tid) with
          | None => Panic
          | Some (l', try') =>
              if try' then match bi with
                           | 0 => Panic                              (* blockIndex-- wrapped *)
                           | S p => match asc_loop f t bs tid lo hi p with
                                    | Ok r => Ok (rev l' ++ r) | e => e end
                           end
              else Ok (rev l')
          end
      end
  end.
Definition iter_asc (t : table) (bs : list chunks) (tid lo hi : N) : res (list N) :=
  match last_block t tid with
  | Ok bi => asc_loop (S (length bs)) t bs tid lo hi bi
  | Panic => Panic | OutOfFuel => OutOfFuel
  end.

(* the whole path of one posting-list read on a sealed fraction:
   generate -> Pack -> (file) -> unpack, table from the registry ext words *)
Definition sealed_blocks (cap : nat) (fields : list (list (list N))) : res (list block) := gen_blocks cap fields.
Definition roundtrip_chunks (bs : list block) : list chunks := map (fun b => unpack (pack (b_chunks b))) bs.
Definition loaded_table (bs : list block) : table := table_of_ext (map ext_of bs).

Definition read_postings (asc : bool) (cap : nat) (fields : list (list (list N))) (tid lo hi : N) : res (list N) :=
  match sealed_blocks cap fields with
  | Ok bs => (if asc then iter_asc else iter_desc) (loaded_table bs) (roundtrip_chunks bs) tid lo hi
  | Panic => Panic | OutOfFuel => OutOfFuel
  end.

(* what the active fraction answers for the same read: the token's postings cut to [lo,hi] *)
Definition in_range (lo hi x : N) : bool := ((lo <=? x) && (x <=? hi))%N.
Definition postings (fields : list (list (list N))) (tid : N) : list N :=
  match tid with 0%N => [] | _ => nth (N.to_nat (tid - 1)) (concat fields) [] end.
Definition expected (asc : bool) (fields : list (list (list N))) (tid lo hi : N) : list N :=
  let l := filter (in_range lo hi) (postings fields tid) in if asc then rev l else l.

