(* C02 — the transcribed active search equals the specification. *)
From Coq Require Import List Bool Arith NArith Lia Sorting.Sorted Sorting.Permutation.
From C02 Require Import Model ModelTx ProofsNodes ProofsBorders ProofsIterate ProofsFold ProofsLeaf ProofsSearch
     ProofsTx ProofsTx2.
Import ListNotations.
Open Scope N_scope.

Section WithMatcher.
Context {tm : Matcher}.


(* ---------------------------------------------------------------- only the IDs of a table matter *)
Lemma nth_error_map' {A B} (f : A -> B) l : forall n, nth_error (map f l) n = option_map f (nth_error l n).
Proof. induction l as [|a l IH]; intros [|n]; simpl; auto. Qed.

Lemma lid_le_ext t1 t2 : map did t1 = map did t2 -> forall lid x, lid_le t1 lid x = lid_le t2 lid x.
Proof.
  intros E lid x. unfold lid_le.
  assert (H : option_map did (nth_error t1 (N.to_nat (lid - 1))) = option_map did (nth_error t2 (N.to_nat (lid - 1)))).
  { rewrite <- !nth_error_map'. rewrite E. reflexivity. }
  destruct (nth_error t1 (N.to_nat (lid - 1))), (nth_error t2 (N.to_nat (lid - 1))); simpl in H; try discriminate; auto.
  inversion H. congruence.
Qed.

Lemma lid_id_ext t1 t2 : map did t1 = map did t2 -> forall x, lid_id t1 x = lid_id t2 x.
Proof.
  intros E x. unfold lid_id.
  assert (H : option_map did (nth_error t1 (N.to_nat (x - 1))) = option_map did (nth_error t2 (N.to_nat (x - 1)))).
  { rewrite <- !nth_error_map'. rewrite E. reflexivity. }
  destruct (nth_error t1 (N.to_nat (x - 1))), (nth_error t2 (N.to_nat (x - 1))); simpl in H; try discriminate; auto.
  inversion H. congruence.
Qed.

Lemma search_loop_ext f g : (forall i, f i = g i) -> forall fuel i j, search_loop fuel f i j = search_loop fuel g i j.
Proof.
  intros H. induction fuel as [|fuel IH]; intros i j; cbn [search_loop]; destruct (i <? j); auto.
  rewrite H. destruct (g ((i + j) / 2)); apply IH.
Qed.

Lemma bin_search_ext a b f g : (forall i, f i = g i) -> bin_search_in_range a b f = bin_search_in_range a b g.
Proof.
  intros H. unfold bin_search_in_range. rewrite (search_loop_ext (fun i => f (a + i)) (fun i => g (a + i))); auto.
Qed.

Lemma lids_borders_ext t1 t2 from to : map did t1 = map did t2 -> lids_borders from to t1 = lids_borders from to t2.
Proof.
  intros E. unfold lids_borders.
  assert (L : length t1 = length t2) by (rewrite <- (map_length did t1), E, map_length; auto).
  rewrite L. rewrite (bin_search_ext _ _ _ (fun lid => lid_le t2 lid (to, max_u64))) by (intros; apply lid_le_ext; auto).
  destruct (bin_search_in_range 1 (N.of_nat (length t2)) (fun lid => lid_le t2 lid (to, max_u64))); cbn [bind]; auto.
  rewrite (bin_search_ext _ _ _ (fun lid => lid_le t2 lid (if 0 <? from then (from - 1, max_u64) else (from, 0))))
    by (intros; apply lid_le_ext; auto).
  reflexivity.
Qed.

Lemma nodup_map_inj {A B} (f : A -> B) l a b : NoDup (map f l) -> In a l -> In b l -> f a = f b -> a = b.
Proof.
  induction l as [|x l IH]; intros ND Ha Hb E; [destruct Ha|].
  simpl in ND. inversion ND as [|? ? Hnot ND']; subst.
  destruct Ha as [->|Ha], Hb as [->|Hb]; auto.
  - exfalso. apply Hnot. rewrite E. apply in_map. auto.
  - exfalso. apply Hnot. rewrite <- E. apply in_map. auto.
Qed.

(* ---------------------------------------------------------------- the theorem *)
Section SearchTx.
  Variable c : list doc.
  Variables from to : N.
  Variable q : query.
  Variable st : astate.
  Hypothesis Hok : Forall ok_doc c.
  Hypothesis Hnd : NoDup (map did c).
  Hypothesis Hlen : N.of_nat (length c) + 1 < two32.
  Hypothesis HI : Inv st c.

  Let m := a_mids st.
  Let r := a_rids st.
  Let tab := table c.
  Let values := t_sorted (get_lids m r (a_all st)).
  Let tabx := ids_table m r values.
  Let inversion := new_inversion values (length m).

  Lemma small l : all_sem c l -> l <> max_u32.
  Proof. intros [_ H]. unfold two32, max_u32 in *. lia. Qed.

  Lemma values_sorted : StronglySorted (kgt m r) values.
  Proof. apply (get_ok m r (a_all st) (all_sem c)); [apply (i_all _ _ HI)|apply small]. Qed.
  Lemma values_In v : In v values <-> all_sem c v.
  Proof. apply (get_ok m r (a_all st) (all_sem c)); [apply (i_all _ _ HI)|apply small]. Qed.
  Lemma values_nodup : NoDup values.
  Proof. eapply gsorted_nodup; [apply kgt_irrefl|apply values_sorted]. Qed.

  Lemma doc_at v : all_sem c v -> exists d, nth_error c (N.to_nat (v - 1)) = Some d.
  Proof.
    intros [A B]. destruct (nth_error c (N.to_nat (v - 1))) as [d|] eqn:E; [eauto|].
    apply nth_error_None in E. lia.
  Qed.

  Lemma get_id v d : 1 <= v -> nth_error c (N.to_nat (v - 1)) = Some d -> (get m v, get r v) = did d.
  Proof.
    intros A E. unfold get, m, r. rewrite (i_mids _ _ HI), (i_rids _ _ HI).
    replace (N.to_nat v) with (S (N.to_nat (v - 1))) by lia. cbn [nth].
    rewrite (nth_error_nth _ _ _ (map_nth_error dmid _ _ E)), (nth_error_nth _ _ _ (map_nth_error drid _ _ E)).
    reflexivity.
  Qed.

  Lemma tabx_ids : map did tabx = map (fun v => (get m v, get r v)) values.
  Proof. unfold tabx, ids_table. rewrite map_map. reflexivity. Qed.

  Lemma ids_eq : map did tabx = map did tab.
  Proof.
    apply (gsorted_ext id_gt id_gt_irrefl id_gt_asym).
    - rewrite tabx_ids. apply (gsorted_map_in (kgt m r)); [|apply values_sorted].
      intros v1 v2 H1 H2 G. split; [apply kgt_id; exact G|].
      apply values_In in H1, H2. destruct (doc_at v1 H1) as [d1 E1]. destruct (doc_at v2 H2) as [d2 E2].
      rewrite (get_id v1 d1), (get_id v2 d2); auto; try apply H1; try apply H2. intros E.
      assert (N.to_nat (v1 - 1) = N.to_nat (v2 - 1)).
      { pose proof Hnd as ND. rewrite NoDup_nth_error in ND. apply ND.
        - rewrite map_length. apply nth_error_Some. congruence.
        - rewrite (map_nth_error did _ _ E1), (map_nth_error did _ _ E2). congruence. }
      assert (v1 = v2) by (destruct H1, H2; lia). subst. eapply kgt_irrefl; eauto.
    - apply gsorted_strict; [|apply tab_nodup; exact Hnd].
      apply (ssorted_map (fun a b => id_geb (did a) (did b) = true)); auto. apply table_desc.
    - intros i. rewrite tabx_ids, !in_map_iff. split.
      + intros [v [<- Hv]]. apply values_In in Hv. destruct (doc_at v Hv) as [d E].
        exists d. split; [symmetry; apply get_id; auto; apply Hv|].
        eapply Permutation_in; [apply table_perm|]. eapply nth_error_In; eauto.
      + intros [d [<- Hd]]. assert (Hc : In d c) by (eapply Permutation_in; [apply Permutation_sym; apply table_perm|exact Hd]).
        apply In_nth_error in Hc. destruct Hc as [n En]. exists (N.of_nat n + 1).
        assert (E' : nth_error c (N.to_nat (N.of_nat n + 1 - 1)) = Some d) by (replace (N.to_nat (N.of_nat n + 1 - 1)) with n by lia; auto).
        split; [apply get_id; auto; lia|]. apply values_In. split; [lia|].
        assert (nth_error c n <> None) by congruence. apply nth_error_Some in H. lia.
  Qed.

  Lemma len_eq : length values = length tab.
  Proof. rewrite <- (map_length did tab), <- ids_eq, map_length. unfold tabx, ids_table. rewrite map_length. auto. Qed.

  (* position j of the mapping holds the document that the LID table holds at LID j+1 *)
  Lemma pos_doc j v : nth_error values j = Some v ->
    exists d, nth_error c (N.to_nat (v - 1)) = Some d /\ 1 <= v /\ dl tab (N.of_nat j + 1) = Some d.
  Proof.
    intros Hj. assert (Hv : all_sem c v) by (apply values_In; eapply nth_error_In; eauto).
    destruct (doc_at v Hv) as [d E]. exists d. split; auto. split; [apply Hv|].
    assert (X : nth_error (map did tab) j = Some (did d)).
    { rewrite <- ids_eq, tabx_ids. rewrite (map_nth_error _ _ _ Hj). f_equal. apply get_id; auto. apply Hv. }
    rewrite nth_error_map' in X. unfold dl. replace (N.to_nat (N.of_nat j + 1 - 1)) with j by lia.
    destruct (nth_error tab j) as [d'|] eqn:E'; [|discriminate]. simpl in X. assert (X' : did d' = did d) by congruence.
    f_equal. apply (nodup_map_inj did c d' d Hnd); [| |exact X'].
    - eapply Permutation_in; [apply Permutation_sym; apply table_perm|]. eapply nth_error_In; eauto.
    - eapply nth_error_In; eauto.
  Qed.

  Lemma doc_pos x d : 1 <= x -> dl tab x = Some d ->
    exists v, nth_error values (N.to_nat (x - 1)) = Some v /\ nth_error c (N.to_nat (v - 1)) = Some d /\ 1 <= v.
  Proof.
    intros A E. unfold dl in E.
    assert (L : (N.to_nat (x - 1) < length values)%nat).
    { rewrite len_eq. apply nth_error_Some. congruence. }
    destruct (nth_error values (N.to_nat (x - 1))) as [v|] eqn:Ev; [|apply nth_error_None in Ev; lia].
    exists v. split; auto. destruct (pos_doc _ _ Ev) as [d' [E1 [E2 E3]]].
    unfold dl in E3. replace (N.to_nat (N.of_nat (N.to_nat (x - 1)) + 1 - 1)) with (N.to_nat (x - 1)) in E3 by lia.
    rewrite E in E3. inversion E3; subst d'. auto.
  Qed.

  Lemma inverse_pos v x : inverse inversion v = Some x <-> exists j, nth_error values j = Some v /\ x = N.of_nat j + 1.
  Proof.
    unfold inversion. apply inverse_exact; [apply values_nodup|].
    intros w Hw. apply values_In in Hw. unfold m. rewrite (i_mids _ _ HI). simpl. rewrite map_length.
    destruct Hw. lia.
  Qed.

  Lemma inverse_mono v1 v2 x1 x2 :
    kgt m r v1 v2 -> inverse inversion v1 = Some x1 -> inverse inversion v2 = Some x2 -> x1 < x2.
  Proof.
    intros G H1 H2. apply inverse_pos in H1, H2. destruct H1 as [j1 [E1 ->]]. destruct H2 as [j2 [E2 ->]].
    destruct (Nat.lt_trichotomy j1 j2) as [H|[H|H]]; [lia| |].
    - subst j2. rewrite E1 in E2. inversion E2; subst v2. exfalso. eapply kgt_irrefl; eauto.
    - exfalso. eapply kgt_asym; [exact G|]. eapply (ssorted_nth _ values values_sorted j2 j1); eauto.
  Qed.

  Section Leaves.
    Variables lo hi : N.
    Variable rev : bool.
    Hypothesis Hlo : 1 <= lo.

    Lemma leaf_tx_sound p :
      exists t, leaf_tx st inversion lo hi p = Ok t /\ wf_ntree rev t /\
                (forall x, nsem t x = true <-> sel tab lo hi (QLeaf p) x).
    Proof.
      unfold leaf_tx. fold m r.
      set (post := fun t => inverse_lids (t_sorted (get_lids m r (a_tl st t))) inversion lo hi).
      set (vs := map (fun t => NStatic (post t)) (filter (tok_match p) (a_keys st))).
      assert (G : forall t, StronglySorted (kgt m r) (t_sorted (get_lids m r (a_tl st t))) /\
                            forall v, In v (t_sorted (get_lids m r (a_tl st t))) <-> tok_sem c t v).
      { intros t. destruct (get_ok m r (a_tl st t) (tok_sem c t)) as [[S _] I]; [apply (i_tok _ _ HI)| |auto].
        intros l H. apply small. eapply tok_sem_bound; eauto. }
      destruct (build_or_tree_sound rev vs) as [t [E [W S]]].
      { apply Forall_forall. intros v Hv. unfold vs in Hv. apply in_map_iff in Hv.
        destruct Hv as [tk [<- _]]. constructor. unfold post.
        eapply inverse_lids_sorted; [apply (G tk)|apply inverse_mono]. }
      exists t. split; auto. split; auto. intros x. rewrite S, existsb_exists. unfold sel. cbn [sat]. split.
      - intros [v [Hv Hx]]. unfold vs in Hv. apply in_map_iff in Hv. destruct Hv as [tk [<- Htk]].
        apply filter_In in Htk. destruct Htk as [_ M]. cbn [nsem] in Hx. apply memN_In in Hx.
        unfold post in Hx. apply inverse_lids_In in Hx. destruct Hx as [A [B [w [Hw Ew]]]].
        apply inverse_pos in Ew. destruct Ew as [j [Ej ->]].
        destruct (pos_doc j w Ej) as [d [E1 [E2 E3]]].
        apply (G tk) in Hw. destruct Hw as [_ [d' [E1' Ht]]]. rewrite E1 in E1'. inversion E1'; subst d'.
        split; auto. split; auto. exists d. split; auto.
        apply existsb_exists. exists tk. split; auto. apply has_tok_In; auto.
      - intros [A [B [d [Ed Hs]]]]. apply existsb_exists in Hs. destruct Hs as [tk [Htk M]].
        destruct (doc_pos x d) as [v [Ev [Ec V1]]]; [lia|auto|].
        exists (NStatic (post tk)). split.
        + unfold vs. apply in_map_iff. exists tk. split; auto. apply filter_In. split; auto.
          apply (i_keys _ _ HI tk d); auto. eapply nth_error_In; eauto.
        + cbn [nsem]. apply memN_In. unfold post. apply inverse_lids_In. split; auto. split; auto.
          exists v. split.
          * apply (G tk). split; auto. exists d. split; auto. apply has_tok_In; auto.
          * apply inverse_pos. exists (N.to_nat (x - 1)). split; auto. lia.
    Qed.
  End Leaves.

  (* the LID stream of the transcribed pipeline *)
  Lemma tree_lids_tx_spec rev :
    exists lids, tree_lids_tx st q from to rev = Ok (lids, tabx) /\ ssorted rev lids /\
      (forall x, In x lids <-> 1 <= x /\ exists d, dl tab x = Some d /\ in_range from to d && sat q d = true).
  Proof.
    destruct (borders_exact_corpus c from to Hok) as [lo [hi [E [A [B [C D]]]]]].
    fold tab in E, D.
    assert (Hhi : hi <= N.of_nat (length tab)).
    { unfold tab. rewrite <- (Permutation_length (table_perm c)). exact C. }
    assert (H32 : hi + 1 < two32) by lia.
    destruct (build_tree_with_sound tab lo hi rev A Hhi B H32 (leaf_tx st inversion lo hi)
                (fun p => leaf_tx_sound lo hi rev A p) q) as [t [Eb [W S]]].
    destruct (nodes_sound rev t W) as [lids [Ee [Ss Si]]].
    exists lids. split.
    - unfold tree_lids_tx. fold m r. fold values. fold tabx. fold inversion.
      rewrite (lids_borders_ext tabx tab from to ids_eq), E. cbn [bind fst snd]. rewrite Eb. cbn [bind].
      rewrite Ee. reflexivity.
    - split; auto. intros x. rewrite Si, S. unfold sel. split.
      + intros [X1 [X2 [d [Ed Hs]]]]. split; [lia|]. exists d. split; auto.
        apply andb_true_iff. split; auto. apply (D x d Ed); lia.
      + intros [X1 [d [Ed Hm]]]. apply andb_true_iff in Hm. destruct Hm as [Hr Hs].
        apply (D x d Ed X1) in Hr. destruct Hr. split; auto. split; auto. eauto.
  Qed.

  Lemma stream_tx rev :
    exists lids, tree_lids_tx st q from to rev = Ok (lids, tabx) /\
      map (lid_id tabx) lids =
      (if rev then List.rev (IdSort.sort (map did (filter (fun d => in_range from to d && sat q d) c)))
       else IdSort.sort (map did (filter (fun d => in_range from to d && sat q d) c))).
  Proof.
    destruct (tree_lids_tx_spec rev) as [lids [El [Ss Si]]]. exists lids. split; auto.
    rewrite (map_ext _ _ (lid_id_ext tabx tab ids_eq)).
    apply (stream_ids c from to q Hnd Hlen rev lids Ss Si).
  Qed.

  Theorem search_tx_exact rev limit wt hist :
    search_tx st q from to rev limit wt hist = Ok (search_spec c q from to rev limit wt).
  Proof.
    destruct (stream_tx rev) as [lids [El Eq]]. unfold search_tx. rewrite El. cbn [bind].
    apply (search_finish c from to q Hnd rev limit wt hist tabx lids Eq).
  Qed.

  Theorem hist_tx_exact rev hist :
    hist_tx st q from to rev hist = Ok (hist_spec c q from to hist).
  Proof.
    unfold hist_tx, hist_spec. destruct (0 <? hist); [|reflexivity].
    destruct (stream_tx rev) as [lids [El Eq]]. rewrite El. cbn [bind]. f_equal.
    apply (hist_finish c from to q rev hist tabx lids Eq).
  Qed.
End SearchTx.

(* for every history of bulks and searches *)
Theorem search_model_tx_exact ops q from to rev limit wt hist :
  Forall ok_doc (docs_of ops) -> NoDup (map did (docs_of ops)) -> N.of_nat (length (docs_of ops)) + 1 < two32 ->
  search_model_tx ops q from to rev limit wt hist = Ok (search_spec (docs_of ops) q from to rev limit wt).
Proof.
  intros H1 H2 H3. unfold search_model_tx. apply search_tx_exact; auto. apply inv_script. exact H3.
Qed.

Theorem hist_tx_script ops q from to rev hist :
  Forall ok_doc (docs_of ops) -> NoDup (map did (docs_of ops)) -> N.of_nat (length (docs_of ops)) + 1 < two32 ->
  hist_tx (run ops) q from to rev hist = Ok (hist_spec (docs_of ops) q from to hist).
Proof. intros H1 H2 H3. apply hist_tx_exact; auto. apply inv_script. exact H3. Qed.

Theorem tx_postings ops t : N.of_nat (length (docs_of ops)) + 1 < two32 ->
  let st := run ops in
  let s := t_sorted (get_lids (a_mids st) (a_rids st) (a_tl st t)) in
  let a := t_sorted (get_lids (a_mids st) (a_rids st) (a_all st)) in
  StronglySorted (kgt (a_mids st) (a_rids st)) s /\
  (forall l, In l s <-> 1 <= l /\ exists d, nth_error (docs_of ops) (N.to_nat (l - 1)) = Some d /\ has_tok t d = true) /\
  StronglySorted (kgt (a_mids st) (a_rids st)) a /\
  (forall l, In l a <-> 1 <= l /\ l <= N.of_nat (length (docs_of ops))).
Proof.
  intros B. cbn zeta. pose proof (inv_script ops B) as HI.
  assert (S : forall l, all_sem (docs_of ops) l -> l <> max_u32).
  { intros l [_ H]. unfold max_u32, two32 in *. lia. }
  destruct (get_ok _ _ _ _ (i_tok _ _ HI t)) as [[S1 _] I1]; [intros l H; apply S; eapply tok_sem_bound; eauto|].
  destruct (get_ok _ _ _ _ (i_all _ _ HI) S) as [[S2 _] I2].
  exact (conj S1 (conj I1 (conj S2 I2))).
Qed.

End WithMatcher.
