From C02 Require Import Model.
