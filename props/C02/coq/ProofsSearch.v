(* C02 — the composition: search_model = search_spec. *)
From Coq Require Import List Bool Arith NArith Lia Sorting.Sorted Sorting.Permutation RelationClasses.
From VLib Require Import CaseLib.
From C02 Require Import Model CaseDefs ProofsNodes ProofsBorders ProofsIterate ProofsFold ProofsLeaf.
Import ListNotations.
Open Scope N_scope.

Section WithMatcher.
Context {tm : Matcher}.


(* ---------------------------------------------------------------- generic sorted-list facts *)
Section Gen.
  Context {A : Type} (R : A -> A -> Prop).
  Hypothesis R_irrefl : forall a, ~ R a a.
  Hypothesis R_asym : forall a b, R a b -> R b a -> False.

  Lemma gsorted_inv a l : StronglySorted R (a :: l) -> StronglySorted R l /\ (forall x, In x l -> R a x).
  Proof.
    intros H. apply StronglySorted_inv in H. destruct H as [H1 H2]. split; auto.
    intros x Hx. rewrite Forall_forall in H2. auto.
  Qed.

  Lemma gsorted_ext l1 : forall l2, StronglySorted R l1 -> StronglySorted R l2 ->
    (forall x, In x l1 <-> In x l2) -> l1 = l2.
  Proof.
    induction l1 as [|a l1 IH]; intros l2 H1 H2 E.
    - destruct l2 as [|b l2]; auto. exfalso. apply (E b). left; reflexivity.
    - destruct l2 as [|b l2]. { exfalso. apply (E a). left; reflexivity. }
      apply gsorted_inv in H1. destruct H1 as [S1 F1].
      apply gsorted_inv in H2. destruct H2 as [S2 F2].
      assert (a = b).
      { destruct (proj1 (E a) (or_introl eq_refl)) as [Hb|Hb]; auto.
        destruct (proj2 (E b) (or_introl eq_refl)) as [Ha|Ha]; auto.
        exfalso. eapply R_asym; [apply F2; exact Hb|apply F1; exact Ha]. }
      subst b. f_equal. apply IH; auto.
      intros x. split; intros Hx.
      + destruct (proj1 (E x) (or_intror Hx)) as [Hb|Hb]; auto.
        subst x. exfalso. eapply R_irrefl. apply F1. exact Hx.
      + destruct (proj2 (E x) (or_intror Hx)) as [Hb|Hb]; auto.
        subst x. exfalso. eapply R_irrefl. apply F2. exact Hx.
  Qed.

  Lemma gsorted_nodup l : StronglySorted R l -> NoDup l.
  Proof.
    induction l as [|a l IH]; intros H; constructor.
    - apply gsorted_inv in H. destruct H as [_ F]. intros Hin. eapply R_irrefl. apply F. exact Hin.
    - apply IH. apply gsorted_inv in H. tauto.
  Qed.
End Gen.

Lemma gsorted_app_one {A} (R : A -> A -> Prop) l a :
  StronglySorted R l -> (forall x, In x l -> R x a) -> StronglySorted R (l ++ [a]).
Proof.
  induction l as [|b l IH]; intros S F; simpl.
  - constructor; constructor.
  - apply StronglySorted_inv in S. destruct S as [S1 S2]. constructor.
    + apply IH; auto. intros x Hx. apply F. right; assumption.
    + apply Forall_forall. intros x Hx. apply in_app_or in Hx. destruct Hx as [Hx|[Hx|[]]].
      * rewrite Forall_forall in S2. auto.
      * subst x. apply F. left; reflexivity.
Qed.

Lemma gsorted_rev {A} (R : A -> A -> Prop) l :
  StronglySorted R l -> StronglySorted (fun a b => R b a) (List.rev l).
Proof.
  induction l as [|a l IH]; intros H; simpl; [constructor|].
  apply StronglySorted_inv in H. destruct H as [S F].
  apply gsorted_app_one; [apply IH; auto|].
  intros x Hx. apply in_rev in Hx. rewrite Forall_forall in F. auto.
Qed.

Lemma gsorted_map_in {A B} (R : A -> A -> Prop) (R' : B -> B -> Prop) (f : A -> B) l :
  (forall x y, In x l -> In y l -> R x y -> R' (f x) (f y)) ->
  StronglySorted R l -> StronglySorted R' (map f l).
Proof.
  intros H S. induction S as [|a l S IH F]; simpl; constructor.
  - apply IH. intros x y Hx Hy. apply H; right; assumption.
  - rewrite Forall_forall in *. intros y Hy. apply in_map_iff in Hy. destruct Hy as [x [<- Hx]].
    apply H; [left; reflexivity|right; assumption|auto].
Qed.

Lemma gsorted_strict {A} (R : A -> A -> Prop) l :
  StronglySorted R l -> NoDup l -> StronglySorted (fun a b => R a b /\ a <> b) l.
Proof.
  induction 1 as [|a l S IH F]; intros ND; constructor.
  - apply IH. inversion ND; auto.
  - inversion ND as [|? ? Hnot ND']; subst. rewrite Forall_forall in *. intros x Hx. split; auto.
    intros ->. contradiction.
Qed.

Lemma nodup_map_filter {A B} (f : A -> B) (p : A -> bool) l : NoDup (map f l) -> NoDup (map f (filter p l)).
Proof.
  induction l as [|a l IH]; simpl; intros H; [constructor|].
  inversion H as [|? ? Hnot ND]; subst. destruct (p a); simpl; auto.
  constructor; auto. intros Hin. apply Hnot. apply in_map_iff in Hin. destruct Hin as [x [E Hx]].
  apply filter_In in Hx. apply in_map_iff. exists x. tauto.
Qed.

(* ---------------------------------------------------------------- the order of IDs *)
Definition id_gt (a b : id) : Prop := id_geb a b = true /\ a <> b.

Lemma id_geb_antisym a b : id_geb a b = true -> id_geb b a = true -> a = b.
Proof.
  destruct a as [m1 r1], b as [m2 r2]. unfold id_geb. simpl.
  rewrite !orb_true_iff, !andb_true_iff, !N.ltb_lt, !N.eqb_eq, !N.leb_le. intros H1 H2.
  assert (m1 = m2) by lia. subst. f_equal. lia.
Qed.

Lemma id_geb_trans : Transitive (fun x y => is_true (IdOrder.leb x y)).
Proof.
  intros [m1 r1] [m2 r2] [m3 r3]. unfold is_true, IdOrder.leb, id_geb. simpl.
  rewrite !orb_true_iff, !andb_true_iff, !N.ltb_lt, !N.eqb_eq, !N.leb_le. lia.
Qed.

Lemma id_gt_irrefl a : ~ id_gt a a.
Proof. intros [_ H]. apply H. reflexivity. Qed.
Lemma id_gt_asym a b : id_gt a b -> id_gt b a -> False.
Proof. intros [H1 N1] [H2 _]. apply N1. apply id_geb_antisym; auto. Qed.

Definition rdir (rev : bool) (a b : id) : Prop := if rev then id_gt b a else id_gt a b.

(* ---------------------------------------------------------------- histogram: order of the stream is irrelevant *)
Lemma hist_add_comm : forall h a b, hist_add a (hist_add b h) = hist_add b (hist_add a h).
Proof.
  induction h as [|[k n] h IH]; intros a b; cbn [hist_add].
  - destruct (N.ltb_spec a b), (N.ltb_spec b a), (N.eqb_spec a b), (N.eqb_spec b a); try lia; subst; auto.
  - destruct (N.ltb_spec a k), (N.ltb_spec b k), (N.eqb_spec a k), (N.eqb_spec b k); try lia; subst; cbn [hist_add];
      repeat match goal with
             | |- context [N.ltb ?x ?y] => destruct (N.ltb_spec x y); try lia
             | |- context [N.eqb ?x ?y] => destruct (N.eqb_spec x y); try lia
             end; subst; try reflexivity; try lia.
    rewrite IH. reflexivity.
Qed.

Lemma hist_fold_perm i l1 l2 : Permutation l1 l2 ->
  forall h, fold_left (fun h m => hist_add (bucket i m) h) l1 h = fold_left (fun h m => hist_add (bucket i m) h) l2 h.
Proof.
  induction 1 as [|x l1 l2 P IH|x y l|l1 l2 l3 P1 IH1 P2 IH2]; intros h; cbn [fold_left]; auto.
  - rewrite hist_add_comm. reflexivity.
  - rewrite IH1. apply IH2.
Qed.

Lemma hist_of_perm i l1 l2 : Permutation l1 l2 -> hist_of i l1 = hist_of i l2.
Proof. intros P. unfold hist_of. apply hist_fold_perm. exact P. Qed.

(* ---------------------------------------------------------------- the theorem *)
Section Search.
  Variable c : list doc.
  Variables from to : N.
  Variable q : query.
  Hypothesis Hok : Forall ok_doc c.
  Hypothesis Hnd : NoDup (map did c).
  Hypothesis Hlen : N.of_nat (length c) + 1 < two32.

  Let tab := table c.
  Let mt := fun d => in_range from to d && sat q d.

  Lemma tab_nodup : NoDup (map did tab).
  Proof. eapply Permutation_NoDup; [apply Permutation_map; apply table_perm|exact Hnd]. Qed.

  Lemma tab_len : length tab = length c.
  Proof. symmetry. apply Permutation_length. apply table_perm. Qed.

  (* smaller LID = greater ID *)
  Lemma pos_gt x y dx dy : 1 <= x -> x < y -> dl tab x = Some dx -> dl tab y = Some dy ->
    id_gt (did dx) (did dy).
  Proof.
    intros H1 Hxy Ex Ey. unfold dl in *. split.
    - eapply (ssorted_nth _ tab (table_desc c) (N.to_nat (x - 1)) (N.to_nat (y - 1))); eauto. lia.
    - intros E. pose proof tab_nodup as ND. rewrite NoDup_nth_error in ND.
      assert (N.to_nat (x - 1) = N.to_nat (y - 1)).
      { apply ND.
        - rewrite map_length. apply nth_error_Some. congruence.
        - rewrite (map_nth_error did _ _ Ex), (map_nth_error did _ _ Ey). congruence. }
      lia.
  Qed.

  Lemma lid_id_dl x d : dl tab x = Some d -> lid_id tab x = did d.
  Proof. unfold dl, lid_id. intros ->. reflexivity. Qed.

  (* the LID stream of the query: strictly monotone, exactly the LIDs of the matching documents *)
  Lemma tree_lids_spec rev :
    exists lids, tree_lids (prepare c) q from to rev = Ok lids /\ ssorted rev lids /\
      (forall x, In x lids <-> 1 <= x /\ exists d, dl tab x = Some d /\ mt d = true).
  Proof.
    destruct (borders_exact_corpus c from to Hok) as [lo [hi [E [A [B [C D]]]]]].
    fold tab in E, D.
    assert (Hhi : hi <= N.of_nat (length tab)) by (rewrite tab_len; exact C).
    assert (H32 : hi + 1 < two32) by lia.
    destruct (build_tree_sound tab lo hi rev A Hhi B H32 q) as [t [Eb [W S]]].
    destruct (nodes_sound rev t W) as [lids [Ee [Ss Si]]].
    exists lids. split.
    - unfold tree_lids, prepare. cbn [p_tab p_voc]. fold tab. rewrite E. cbn [bind fst snd]. rewrite Eb. cbn [bind].
      exact Ee.
    - split; auto. intros x. rewrite Si, S. unfold sel, mt. split.
      + intros [X1 [X2 [d [Ed Hs]]]]. split; [lia|]. exists d. split; auto.
        apply andb_true_iff. split; auto. apply (D x d Ed); lia.
      + intros [X1 [d [Ed Hm]]]. apply andb_true_iff in Hm. destruct Hm as [Hr Hs].
        apply (D x d Ed X1) in Hr. destruct Hr. split; auto. split; auto. eauto.
  Qed.

  (* the IDs of the LID stream are the specification's sorted list *)
  Lemma stream_ids (rev : bool) (lids : list N) :
    ssorted rev lids ->
    (forall x, In x lids <-> 1 <= x /\ exists d, dl tab x = Some d /\ mt d = true) ->
    map (lid_id tab) lids =
      (if rev then List.rev (IdSort.sort (map did (filter mt c))) else IdSort.sort (map did (filter mt c))).
  Proof.
    intros Ss Si.
    set (sorted := IdSort.sort (map did (filter mt c))).
    set (target := if rev then List.rev sorted else sorted).
    (* the specification's list is strictly sorted in the requested direction *)
    assert (Psort : Permutation (map did (filter mt c)) sorted) by apply IdSort.Permuted_sort.
    assert (NDs : NoDup sorted).
    { eapply Permutation_NoDup; [exact Psort|]. apply nodup_map_filter. exact Hnd. }
    assert (SSs : StronglySorted id_gt sorted).
    { apply gsorted_strict; auto. apply (IdSort.StronglySorted_sort _ id_geb_trans). }
    assert (ST : StronglySorted (rdir rev) target).
    { unfold target, rdir. destruct rev; [apply gsorted_rev; exact SSs|exact SSs]. }
    (* the model's list is strictly sorted in the requested direction *)
    assert (SM : StronglySorted (rdir rev) (map (lid_id tab) lids)).
    { apply (gsorted_map_in (ltd rev)); [|exact Ss].
      intros x y Hx Hy L. apply Si in Hx, Hy.
      destruct Hx as [X1 [dx [Ex _]]]. destruct Hy as [Y1 [dy [Ey _]]].
      rewrite (lid_id_dl _ _ Ex), (lid_id_dl _ _ Ey). unfold ltd, less in L. unfold rdir.
      destruct rev; apply N.ltb_lt in L; [apply (pos_gt y x dy dx)|apply (pos_gt x y dx dy)]; auto. }
    assert (Irr : forall a, ~ rdir rev a a) by (intros a; unfold rdir; destruct rev; apply id_gt_irrefl).
    assert (Asym : forall a b, rdir rev a b -> rdir rev b a -> False).
    { intros a b; unfold rdir; destruct rev; intros; eapply id_gt_asym; eauto. }
    (* same elements *)
    assert (Eq : map (lid_id tab) lids = target).
    { apply (gsorted_ext (rdir rev) Irr Asym); auto. intros i.
      assert (T : In i target <-> In i (map did (filter mt c))).
      { unfold target. destruct rev; [rewrite <- in_rev|]; split; intros H;
          solve [eapply Permutation_in; [apply Permutation_sym; exact Psort|exact H]
                |eapply Permutation_in; [exact Psort|exact H]]. }
      rewrite T, !in_map_iff. split.
      - intros [x [<- Hx]]. apply Si in Hx. destruct Hx as [X1 [d [Ed Hm]]].
        exists d. split; [symmetry; apply lid_id_dl; auto|]. apply filter_In. split; auto.
        eapply Permutation_in; [apply Permutation_sym; apply table_perm|].
        unfold dl in Ed. eapply nth_error_In; eauto.
      - intros [d [<- Hd]]. apply filter_In in Hd. destruct Hd as [Hd Hm].
        assert (Ht : In d tab) by (eapply Permutation_in; [apply table_perm|exact Hd]).
        apply In_nth_error in Ht. destruct Ht as [n En].
        assert (Ed : dl tab (N.of_nat n + 1) = Some d).
        { unfold dl. replace (N.to_nat (N.of_nat n + 1 - 1)) with n by lia. exact En. }
        exists (N.of_nat n + 1). split; [apply lid_id_dl; auto|]. apply Si. split; [lia|]. eauto. }
    exact Eq.
  Qed.

  Lemma stream_exact rev :
    exists lids, tree_lids (prepare c) q from to rev = Ok lids /\
      map (lid_id tab) lids =
        (if rev then List.rev (IdSort.sort (map did (filter mt c))) else IdSort.sort (map did (filter mt c))).
  Proof.
    destruct (tree_lids_spec rev) as [lids [El [Ss Si]]]. exists lids. split; [exact El|].
    apply stream_ids; auto.
  Qed.

  Lemma sorted_nodup : NoDup (IdSort.sort (map did (filter mt c))).
  Proof.
    eapply Permutation_NoDup; [apply IdSort.Permuted_sort|]. apply nodup_map_filter. exact Hnd.
  Qed.

  (* from the stream's IDs to the answer: any IDs table that shows the stream as the specification's list *)
  Lemma search_finish (rev : bool) (limit : N) (wt : bool) (hist : N) (tabx : list doc) (lids : list N) :
    map (lid_id tabx) lids =
      (if rev then List.rev (IdSort.sort (map did (filter mt c))) else IdSort.sort (map did (filter mt c))) ->
    (let '(total, ids) := iterate tabx limit (wt || (0 <? hist)) lids 0 0 (0, 0) in
     Ok (ids, if wt then total else 0)) = Ok (search_spec c q from to rev limit wt).
  Proof.
    intros Eq.
    set (sorted := IdSort.sort (map did (filter mt c))) in *.
    set (target := if rev then List.rev sorted else sorted) in *.
    assert (ND : NoDup (map (lid_id tabx) lids)).
    { rewrite Eq. unfold target. destruct rev; [apply NoDup_rev|]; apply sorted_nodup. }
    rewrite (iterate_exact tabx limit (wt || (0 <? hist)) lids ND).
    unfold search_spec, matching. fold mt. fold sorted. fold target. rewrite Eq. f_equal. f_equal.
    destruct wt; cbn [orb]; auto. f_equal.
    rewrite <- (map_length (lid_id tabx) lids), Eq. unfold target.
    assert (length sorted = length (filter mt c)).
    { unfold sorted. rewrite <- (Permutation_length (IdSort.Permuted_sort _)). apply map_length. }
    destruct rev; [rewrite rev_length|]; auto.
  Qed.

  Lemma hist_finish (rev : bool) (hist : N) (tabx : list doc) (lids : list N) :
    map (lid_id tabx) lids =
      (if rev then List.rev (IdSort.sort (map did (filter mt c))) else IdSort.sort (map did (filter mt c))) ->
    hist_of hist (map (fun l => fst (lid_id tabx l)) lids) = hist_of hist (map dmid (matching c q from to)).
  Proof.
    intros Eq. unfold matching. fold mt. apply hist_of_perm.
    rewrite <- (map_map (lid_id tabx) fst lids), Eq.
    replace (map dmid (filter mt c)) with (map fst (map did (filter mt c))) by (rewrite map_map; reflexivity).
    apply Permutation_map. apply Permutation_sym.
    destruct rev; [eapply Permutation_trans; [|apply Permutation_rev]|]; apply IdSort.Permuted_sort.
  Qed.

  Theorem search_exact rev limit wt hist :
    search_model c q from to rev limit wt hist = Ok (search_spec c q from to rev limit wt).
  Proof.
    destruct (stream_exact rev) as [lids [El Eq]].
    unfold search_model, search_prepared. rewrite El. cbn [bind]. unfold prepare. cbn [p_tab]. fold tab.
    apply search_finish. exact Eq.
  Qed.

  (* histogram = buckets of the matching documents *)
  Theorem hist_exact rev hist :
    hist_prepared (prepare c) q from to rev hist = Ok (hist_spec c q from to hist).
  Proof.
    unfold hist_prepared, hist_spec. destruct (0 <? hist); [|reflexivity].
    destruct (stream_exact rev) as [lids [El Eq]]. rewrite El. cbn [bind]. f_equal.
    unfold prepare. cbn [p_tab]. fold tab. unfold matching. fold mt.
    apply hist_of_perm.
    rewrite <- (map_map (lid_id tab) fst lids), Eq.
    replace (map dmid (filter mt c)) with (map fst (map did (filter mt c))) by (rewrite map_map; reflexivity).
    apply Permutation_map. apply Permutation_sym.
    destruct rev; [eapply Permutation_trans; [|apply Permutation_rev]|]; apply IdSort.Permuted_sort.
  Qed.
End Search.

End WithMatcher.

#[local] Existing Instance glob_matcher.

(* ---------------------------------------------------------------- link to the executable verdicts *)
Lemma list_eqb_refl {A} (e : A -> A -> bool) : (forall a, e a a = true) -> forall l, list_eqb e l l = true.
Proof. intros H. induction l as [|a l IH]; simpl; auto. rewrite H, IH. reflexivity. Qed.

Theorem search_case_ok c from to q rev limit wt hist :
  Forall ok_doc c -> NoDup (map did c) -> N.of_nat (length c) + 1 < two32 ->
  let '(ids, total) := search_spec c q from to rev limit wt in
  let s := SQ q q from to rev limit wt hist ids total (hist_spec c q from to hist) in
  sq_agrees (prepare c) s = true /\ sq_spec_ok c s = true.
Proof.
  intros H1 H2 H3. destruct (search_spec c q from to rev limit wt) as [ids total] eqn:E. cbn zeta.
  assert (I : ids_eqb ids ids = true).
  { apply list_eqb_refl. intros [m r]. unfold id_eqb. simpl. rewrite !N.eqb_refl. reflexivity. }
  assert (Hh : forall h, hist_eqb h h = true).
  { apply list_eqb_refl. intros [m r]. unfold pair_eqb. simpl. rewrite !N.eqb_refl. reflexivity. }
  split.
  - unfold sq_agrees. pose proof (search_exact c from to q H1 H2 H3 rev limit wt hist) as S.
    unfold search_model in S. rewrite S, E. rewrite (hist_exact c from to q H1 H2 H3 rev hist).
    rewrite I, N.eqb_refl, Hh. reflexivity.
  - unfold sq_spec_ok. rewrite E. rewrite I, N.eqb_refl, Hh. reflexivity.
Qed.
