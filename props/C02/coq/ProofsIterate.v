(* C02 — the limit / total / early-stop loop (iterateEvalTree). *)
From Coq Require Import List Bool Arith NArith Lia.
From C02 Require Import Model.
Import ListNotations.
Open Scope N_scope.

Lemma id_eqb_eq a b : id_eqb a b = true <-> a = b.
Proof.
  destruct a as [m1 r1], b as [m2 r2]. unfold id_eqb. simpl.
  rewrite andb_true_iff, !N.eqb_eq. split; [intros [-> ->]; reflexivity|intros E; inversion E; auto].
Qed.

Lemma iterate_spec tab limit wt : forall lids nids total last,
  NoDup (map (lid_id tab) lids) ->
  (nids < limit -> total = 0 \/ ~ In last (map (lid_id tab) lids)) ->
  let r := iterate tab limit wt lids nids total last in
  snd r = firstn (N.to_nat (limit - nids)) (map (lid_id tab) lids) /\
  (wt = true -> fst r = total + N.of_nat (length lids)).
Proof.
  induction lids as [|lid rest IH]; intros nids total last ND P; cbn zeta.
  - cbn [iterate]. destruct (negb (nids <? limit) && negb wt); cbn [fst snd map length];
      rewrite firstn_nil; split; auto; intros; lia.
  - cbn [iterate]. destruct (N.ltb_spec nids limit) as [Hn|Hn]; cbn [negb andb].
    + cbn [map] in *. inversion ND as [|? ? Hnot ND']; subst.
      assert (C : (total =? 0) || negb (id_eqb last (lid_id tab lid)) = true).
      { destruct (P Hn) as [->|Hl]; [reflexivity|]. apply orb_true_iff. right. apply negb_true_iff.
        destruct (id_eqb last (lid_id tab lid)) eqn:E; auto. apply id_eqb_eq in E. subst last.
        exfalso. apply Hl. left; reflexivity. }
      rewrite C.
      destruct (IH (nids + 1) (total + 1) (lid_id tab lid) ND') as [I1 I2]; [intros _; right; exact Hnot|].
      destruct (iterate tab limit wt rest (nids + 1) (total + 1) (lid_id tab lid)) as [t l].
      cbn [fst snd] in *. split.
      * replace (N.to_nat (limit - nids)) with (S (N.to_nat (limit - (nids + 1)))) by lia.
        cbn [firstn]. f_equal. exact I1.
      * intros W. rewrite (I2 W). cbn [length]. lia.
    + destruct wt; cbn [negb].
      * cbn [map] in *. inversion ND as [|? ? Hnot ND']; subst.
        destruct (IH nids (total + 1) last ND') as [I1 I2]; [intros; lia|].
        split.
        -- rewrite I1. replace (N.to_nat (limit - nids)) with 0%nat by lia. reflexivity.
        -- intros W. rewrite (I2 W). cbn [length]. lia.
      * cbn [fst snd]. split; [|discriminate].
        replace (N.to_nat (limit - nids)) with 0%nat by lia. reflexivity.
Qed.

(* the loop returns the first `limit` IDs of the tree's stream and, when a total is requested, their number *)
Theorem iterate_exact tab limit wt lids :
  NoDup (map (lid_id tab) lids) ->
  iterate tab limit wt lids 0 0 (0, 0) =
    (if wt then N.of_nat (length lids) else fst (iterate tab limit wt lids 0 0 (0, 0)),
     firstn (N.to_nat limit) (map (lid_id tab) lids)).
Proof.
  intros ND. destruct (iterate_spec tab limit wt lids 0 0 (0, 0) ND) as [I1 I2]; [left; reflexivity|].
  cbn zeta in *. destruct (iterate tab limit wt lids 0 0 (0, 0)) as [t l]. cbn [fst snd] in *.
  rewrite N.sub_0_r in I1. subst l. destruct wt; [rewrite I2; auto|reflexivity].
Qed.
