(* C02 — the data provider's clamp of [from,to] to Info.From/To does not change the answer. *)
From Coq Require Import List Bool Arith NArith Lia Sorting.Sorted Sorting.Permutation.
From C02 Require Import Model ModelTx ModelSealed ProofsNodes ProofsBorders ProofsLeaf ProofsSearch ProofsTx3.
Import ListNotations.
Open Scope N_scope.

Lemma fold_min_le : forall (c : list doc) a, fold_left (fun a d => N.min a (dmid d)) c a <= a /\
  forall d, In d c -> fold_left (fun a d => N.min a (dmid d)) c a <= dmid d.
Proof.
  induction c as [|x c IH]; intros a; simpl; [split; [lia|tauto]|].
  destruct (IH (N.min a (dmid x))) as [A B]. split; [lia|]. intros d [<-|H]; [lia|auto].
Qed.

Lemma fold_max_ge : forall (c : list doc) a, a <= fold_left (fun a d => N.max a (dmid d)) c a /\
  forall d, In d c -> dmid d <= fold_left (fun a d => N.max a (dmid d)) c a.
Proof.
  induction c as [|x c IH]; intros a; simpl; [split; [lia|tauto]|].
  destruct (IH (N.max a (dmid x))) as [A B]. split; [lia|]. intros d [<-|H]; [lia|auto].
Qed.

(* Info.From/To as NewInfo + UpdateStats leave them cover every stored MID *)
Lemma info_covers c d : In d c -> fst (info_of c) <= dmid d /\ dmid d <= snd (info_of c).
Proof.
  intros H. unfold info_of. cbn [fst snd]. split; [apply fold_min_le|apply fold_max_ge]; exact H.
Qed.

Definition covers (inf : N * N) (c : list doc) : Prop := forall d, In d c -> fst inf <= dmid d /\ dmid d <= snd inf.

Lemma in_range_clamp inf from to d : fst inf <= dmid d /\ dmid d <= snd inf ->
  in_range (fst (clamp inf from to)) (snd (clamp inf from to)) d = in_range from to d.
Proof.
  intros [A B]. unfold in_range, clamp. cbn [fst snd].
  destruct (N.leb_spec from (dmid d)), (N.leb_spec (dmid d) to),
           (N.leb_spec (N.max from (fst inf)) (dmid d)), (N.leb_spec (dmid d) (N.min to (snd inf))); simpl; auto; lia.
Qed.

Section Clamp.
  Context {tm : Matcher}.

  Lemma matching_clamp inf c q from to : covers inf c ->
    matching c q (fst (clamp inf from to)) (snd (clamp inf from to)) = matching c q from to.
  Proof.
    intros H. unfold matching. apply filter_ext_in. intros d Hd. rewrite (in_range_clamp inf from to d (H d Hd)). reflexivity.
  Qed.

  (* the specification itself does not see the clamp *)
  Lemma spec_clamp inf c q from to rev limit wt : covers inf c ->
    search_spec c q (fst (clamp inf from to)) (snd (clamp inf from to)) rev limit wt = search_spec c q from to rev limit wt.
  Proof. intros H. unfold search_spec. rewrite (matching_clamp inf c q from to H). reflexivity. Qed.

  Lemma hist_spec_clamp inf c q from to hist : covers inf c ->
    hist_spec c q (fst (clamp inf from to)) (snd (clamp inf from to)) hist = hist_spec c q from to hist.
  Proof. intros H. unfold hist_spec. rewrite (matching_clamp inf c q from to H). reflexivity. Qed.

  Lemma spec_empty q from to rev limit wt : search_spec [] q from to rev limit wt = ([], 0).
  Proof.
    unfold search_spec, matching. cbn [filter map length N.of_nat].
    change (IdSort.sort []) with (@nil id). f_equal.
    - destruct rev; cbn [List.rev]; destruct (N.to_nat limit); reflexivity.
    - destruct wt; reflexivity.
  Qed.

  Lemma hist_spec_empty q from to hist : hist_spec [] q from to hist = [].
  Proof. unfold hist_spec, matching. cbn [filter map]. destruct (0 <? hist); reflexivity. Qed.

  (* for every corpus and every request, searching the clamped range = searching the requested range, whenever
     Info covers the stored MIDs *)
  Theorem clamp_irrelevant inf c q from to rev limit wt hist :
    Forall ok_doc c -> NoDup (map did c) -> N.of_nat (length c) + 1 < two32 -> covers inf c ->
    search_model c q (fst (clamp inf from to)) (snd (clamp inf from to)) rev limit wt hist =
      search_model c q from to rev limit wt hist /\
    hist_prepared (prepare c) q (fst (clamp inf from to)) (snd (clamp inf from to)) rev hist =
      hist_prepared (prepare c) q from to rev hist.
  Proof.
    intros H1 H2 H3 H4. rewrite !(search_exact c _ _ q H1 H2 H3), !(hist_exact c _ _ q H1 H2 H3).
    rewrite (spec_clamp inf c q from to rev limit wt H4), (hist_spec_clamp inf c q from to hist H4). auto.
  Qed.

  (* the provider (EmptyDataProvider for a fraction without documents, else clamp to Info + IndexSearch) *)
  Theorem provider_exact c q from to rev limit wt hist :
    Forall ok_doc c -> NoDup (map did c) -> N.of_nat (length c) + 1 < two32 ->
    provider_search c q from to rev limit wt hist = Ok (search_spec c q from to rev limit wt).
  Proof.
    intros H1 H2 H3. unfold provider_search. destruct c as [|d0 c'] eqn:Ec; [rewrite spec_empty; reflexivity|].
    rewrite <- Ec in *. destruct (clamp (info_of c) from to) as [f t] eqn:E.
    replace f with (fst (clamp (info_of c) from to)) by (rewrite E; reflexivity).
    replace t with (snd (clamp (info_of c) from to)) by (rewrite E; reflexivity).
    rewrite (search_exact c _ _ q H1 H2 H3). f_equal. apply spec_clamp. intros d Hd. apply info_covers. exact Hd.
  Qed.

  Theorem provider_tx_exact ops q from to rev limit wt hist :
    Forall ok_doc (docs_of ops) -> NoDup (map did (docs_of ops)) -> N.of_nat (length (docs_of ops)) + 1 < two32 ->
    provider_search_tx ops q from to rev limit wt hist = Ok (search_spec (docs_of ops) q from to rev limit wt) /\
    provider_hist_tx ops q from to rev hist = Ok (hist_spec (docs_of ops) q from to hist).
  Proof.
    intros H1 H2 H3. unfold provider_search_tx, provider_hist_tx.
    destruct (docs_of ops) as [|d0 c'] eqn:Ec; [rewrite spec_empty, hist_spec_empty; auto|].
    rewrite <- Ec in *. destruct (clamp (info_of (docs_of ops)) from to) as [f t] eqn:E.
    replace f with (fst (clamp (info_of (docs_of ops)) from to)) by (rewrite E; reflexivity).
    replace t with (snd (clamp (info_of (docs_of ops)) from to)) by (rewrite E; reflexivity).
    rewrite (search_model_tx_exact ops q _ _ rev limit wt hist H1 H2 H3), (hist_tx_script ops q _ _ rev hist H1 H2 H3).
    rewrite spec_clamp, hist_spec_clamp by (intros d Hd; apply info_covers; exact Hd). auto.
  Qed.
End Clamp.
