(* C02 — leaves: vocabulary, posting lists, OR-fold; buildEvalTree = sat. *)
From Coq Require Import List Bool Arith NArith Lia Sorting.Sorted Sorting.Permutation.
From C02 Require Import Model ProofsNodes ProofsBorders ProofsFold.
Import ListNotations.
Open Scope N_scope.

Section WithMatcher.
Context {tm : Matcher}.


(* ---------------------------------------------------------------- tokens *)
Lemma bytes_eqb_eq : forall a b, bytes_eqb a b = true <-> a = b.
Proof.
  induction a as [|x a IH]; destruct b as [|y b]; simpl; split; intros H; try discriminate; auto.
  - apply andb_true_iff in H. destruct H as [H1 H2]. apply N.eqb_eq in H1. apply IH in H2. subst; auto.
  - inversion H; subst. rewrite N.eqb_refl. simpl. apply IH. reflexivity.
Qed.

Lemma tok_eqb_eq a b : tok_eqb a b = true <-> a = b.
Proof.
  destruct a as [f1 v1], b as [f2 v2]. unfold tok_eqb. simpl.
  rewrite andb_true_iff, N.eqb_eq, bytes_eqb_eq. split; [intros [-> ->]; auto|intros H; inversion H; auto].
Qed.

Lemma has_tok_In t d : has_tok t d = true <-> In t (dtoks d).
Proof.
  unfold has_tok. rewrite existsb_exists. split.
  - intros [y [Hy E]]. apply tok_eqb_eq in E. subst; auto.
  - intros H. exists t. split; auto. apply tok_eqb_eq. reflexivity.
Qed.

(* multiplicity of a token inside a document does not matter: carrying a token, and hence satisfying a
   query, depends only on the SET of the document's tokens *)
Lemma has_tok_set t m1 r1 m2 r2 ts1 ts2 :
  (forall u, In u ts1 <-> In u ts2) -> has_tok t (Doc m1 r1 ts1) = has_tok t (Doc m2 r2 ts2).
Proof.
  intros H. apply eq_true_iff_eq. rewrite !has_tok_In. simpl. apply H.
Qed.

Lemma sat_set q : forall m1 r1 m2 r2 ts1 ts2,
  (forall u, In u ts1 <-> In u ts2) -> sat q (Doc m1 r1 ts1) = sat q (Doc m2 r2 ts2).
Proof.
  induction q as [p|a IHa|l IHl r IHr|l IHl r IHr|n IHn r IHr]; intros m1 r1 m2 r2 ts1 ts2 H; cbn [sat].
  - apply eq_true_iff_eq. rewrite !existsb_exists. simpl.
    split; intros [t [Ht M]]; exists t; split; auto; apply H; auto.
  - f_equal. eapply IHa; eauto.
  - f_equal; [eapply IHl|eapply IHr]; eauto.
  - f_equal; [eapply IHl|eapply IHr]; eauto.
  - f_equal; [f_equal; eapply IHn|eapply IHr]; eauto.
Qed.

(* ---------------------------------------------------------------- vocabulary *)
Lemma add_tok_In t u seen : In u (add_tok t seen) <-> u = t \/ In u seen.
Proof.
  induction seen as [|s seen IH]; simpl.
  - intuition.
  - destruct (tok_eqb s t) eqn:E.
    + apply tok_eqb_eq in E. subst s. simpl. intuition.
    + simpl. rewrite IH. intuition.
Qed.

Lemma fold_add_In ts : forall acc u,
  In u (fold_left (fun a t => add_tok t a) ts acc) <-> In u ts \/ In u acc.
Proof.
  induction ts as [|t ts IH]; intros acc u; simpl.
  - intuition.
  - rewrite IH, add_tok_In. intuition.
Qed.

Lemma vocab_fold_In tab : forall acc u,
  In u (fold_left (fun acc d => fold_left (fun a t => add_tok t a) (dtoks d) acc) tab acc)
  <-> (exists d, In d tab /\ In u (dtoks d)) \/ In u acc.
Proof.
  induction tab as [|d tab IH]; intros acc u; simpl.
  - split; [auto|intros [[d [[] _]]|H]; auto].
  - rewrite IH, fold_add_In. split.
    + intros [[d' [H1 H2]]|[H|H]]; auto; left; [exists d'|exists d]; auto.
    + intros [[d' [[H1|H1] H2]]|H]; auto. subst; auto. left. exists d'. auto.
Qed.

Lemma vocab_In tab u : In u (vocab tab) <-> exists d, In d tab /\ In u (dtoks d).
Proof. unfold vocab. rewrite vocab_fold_In. simpl. intuition. Qed.

(* ---------------------------------------------------------------- posting lists *)
Lemma posting_In t lo hi : forall tab s x,
  In x (posting t lo hi s tab) <->
  lo <= x /\ x <= hi /\ s <= x /\ exists d, nth_error tab (N.to_nat (x - s)) = Some d /\ has_tok t d = true.
Proof.
  induction tab as [|d tab IH]; intros s x; cbn [posting].
  - simpl. split; [tauto|]. intros [_ [_ [_ [d [H _]]]]]. destruct (N.to_nat (x - s)); discriminate.
  - assert (R : In x (posting t lo hi (s + 1) tab) <->
               lo <= x /\ x <= hi /\ s < x /\ exists d0, nth_error (d :: tab) (N.to_nat (x - s)) = Some d0 /\ has_tok t d0 = true).
    { rewrite IH. split.
      - intros [A [B [C [d0 [E F]]]]]. repeat split; auto; [lia|]. exists d0. split; auto.
        replace (N.to_nat (x - s)) with (S (N.to_nat (x - (s + 1)))) by lia. exact E.
      - intros [A [B [C [d0 [E F]]]]]. repeat split; auto; [lia|]. exists d0. split; auto.
        replace (N.to_nat (x - s)) with (S (N.to_nat (x - (s + 1)))) in E by lia. exact E. }
    destruct (has_tok t d && (lo <=? s) && (s <=? hi)) eqn:C.
    + cbn [In]. rewrite R. apply andb_true_iff in C. destruct C as [C C3]. apply andb_true_iff in C.
      destruct C as [C1 C2]. apply N.leb_le in C2, C3. split.
      * intros [<-|[A [B [C [d0 [E F]]]]]].
        -- repeat split; auto; [lia|]. exists d. rewrite N.sub_diag. simpl. auto.
        -- repeat split; auto; [lia|]. exists d0; auto.
      * intros [A [B [C [d0 [E F]]]]]. destruct (N.eq_dec s x) as [->|Hne]; auto.
        right. repeat split; auto; [lia|]. exists d0; auto.
    + rewrite R. split.
      * intros [A [B [C' [d0 [E F]]]]]. repeat split; auto; [lia|]. exists d0; auto.
      * intros [A [B [C' [d0 [E F]]]]]. destruct (N.eq_dec s x) as [->|Hne].
        -- exfalso. rewrite N.sub_diag in E. simpl in E. inversion E; subst d0.
           rewrite F in C. simpl in C. apply andb_false_iff in C. rewrite !N.leb_gt in C. lia.
        -- repeat split; auto; [lia|]. exists d0; auto.
Qed.

Lemma posting_sorted t lo hi : forall tab s, ssorted false (posting t lo hi s tab).
Proof.
  induction tab as [|d tab IH]; intros s; cbn [posting]; [constructor|].
  destruct (has_tok t d && (lo <=? s) && (s <=? hi)); [|apply IH].
  apply ssorted_cons; [apply IH|]. intros x Hx. apply posting_In in Hx. unfold less. apply N.ltb_lt. lia.
Qed.

(* ---------------------------------------------------------------- one leaf *)
Section Tree.
  Variable tab : list doc.
  Variables lo hi : N.
  Variable rev : bool.
  Hypothesis Hlo : 1 <= lo.
  Hypothesis Hhi : hi <= N.of_nat (length tab).
  Hypothesis Hlohi : lo <= hi + 1.
  Hypothesis H32 : hi + 1 < two32.

  (* LIDs selected by query q inside the borders *)
  Definition sel (q : query) (x : N) : Prop :=
    lo <= x /\ x <= hi /\ exists d, dl tab x = Some d /\ sat q d = true.

  Lemma in_borders_doc x : lo <= x -> x <= hi -> exists d, dl tab x = Some d.
  Proof.
    intros A B. unfold dl. destruct (nth_error tab (N.to_nat (x - 1))) as [d|] eqn:E; [eauto|].
    apply nth_error_None in E. lia.
  Qed.

  Lemma leaf_tree_sound p :
    exists t, leaf_tree (vocab tab) tab lo hi p = Ok t /\ wf_ntree rev t /\
              (forall x, nsem t x = true <-> sel (QLeaf p) x).
  Proof.
    unfold leaf_tree.
    set (vs := map (fun t => NStatic (posting t lo hi 1 tab)) (filter (tok_match p) (vocab tab))).
    destruct (build_or_tree_sound rev vs) as [t [E [W S]]].
    { apply Forall_forall. intros v Hv. unfold vs in Hv. apply in_map_iff in Hv.
      destruct Hv as [tk [<- _]]. constructor. apply posting_sorted. }
    exists t. split; auto. split; auto. intros x. rewrite S. rewrite existsb_exists. unfold sel. cbn [sat]. split.
    - intros [v [Hv Hx]]. unfold vs in Hv. apply in_map_iff in Hv. destruct Hv as [tk [<- Htk]].
      apply filter_In in Htk. destruct Htk as [_ M]. cbn [nsem] in Hx. apply memN_In in Hx.
      apply posting_In in Hx. destruct Hx as [A [B [_ [d [Ed Ht]]]]].
      split; auto. split; auto. exists d. split; auto.
      apply existsb_exists. exists tk. split; auto. apply has_tok_In; auto.
    - intros [A [B [d [Ed Hs]]]]. apply existsb_exists in Hs. destruct Hs as [tk [Htk M]].
      exists (NStatic (posting tk lo hi 1 tab)). split.
      + unfold vs. apply in_map_iff. exists tk. split; [reflexivity|]. apply filter_In. split; auto. apply vocab_In. exists d. split; auto.
        unfold dl in Ed. eapply nth_error_In; eauto.
      + cbn [nsem]. apply memN_In. apply posting_In. repeat split; auto; [lia|].
        exists d. split; auto. apply has_tok_In; auto.
  Qed.

  (* buildEvalTree: the node tree of a query selects exactly the LIDs inside the borders whose document
     satisfies the query *)
  Lemma build_tree_with_sound (leaf : pat -> res ntree) :
    (forall p, exists t, leaf p = Ok t /\ wf_ntree rev t /\ (forall x, nsem t x = true <-> sel (QLeaf p) x)) ->
    forall q,
    exists t, build_tree_with leaf lo hi q = Ok t /\ wf_ntree rev t /\
              (forall x, nsem t x = true <-> sel q x).
  Proof.
    intros Hleaf.
    induction q as [p|a [ta [Ea [Wa Sa]]]|l [tl [El [Wl Sl]]] r [tr [Er [Wr Sr]]]
                   |l [tl [El [Wl Sl]]] r [tr [Er [Wr Sr]]]|n [tn [En [Wn Sn]]] r [tr [Er [Wr Sr]]]];
      cbn [build_tree_with].
    - apply Hleaf.
    - rewrite Ea. cbn [bind]. eexists. split; [reflexivity|]. split.
      { constructor; auto; try (unfold two32 in *; lia). }
      intros x. cbn [nsem]. rewrite !andb_true_iff, !N.leb_le, negb_true_iff. unfold sel. cbn [sat]. split.
      + intros [[A B] C]. split; auto. split; auto. destruct (in_borders_doc x A B) as [d Ed].
        exists d. split; auto. apply negb_true_iff. destruct (sat a d) eqn:Es; auto.
        assert (nsem ta x = true) by (apply Sa; unfold sel; eauto). congruence.
      + intros [A [B [d [Ed Hs]]]]. split; auto. destruct (nsem ta x) eqn:En; auto.
        apply Sa in En. destruct En as [_ [_ [d' [Ed' Hs']]]]. rewrite Ed in Ed'. inversion Ed'; subst d'.
        rewrite Hs' in Hs. discriminate.
    - rewrite El, Er. cbn [bind]. eexists. split; [reflexivity|]. split; [constructor; auto|].
      intros x. cbn [nsem]. rewrite andb_true_iff, Sl, Sr. unfold sel. cbn [sat]. split.
      + intros [[A [B [d [Ed H1]]]] [_ [_ [d' [Ed' H2]]]]]. rewrite Ed in Ed'. inversion Ed'; subst d'.
        split; auto. split; auto. exists d. rewrite H1, H2. auto.
      + intros [A [B [d [Ed H]]]]. apply andb_true_iff in H. destruct H. split; (split; auto; split; eauto).
    - rewrite El, Er. cbn [bind]. eexists. split; [reflexivity|]. split; [constructor; auto|].
      intros x. cbn [nsem]. rewrite orb_true_iff, Sl, Sr. unfold sel. cbn [sat]. split.
      + intros [[A [B [d [Ed H1]]]]|[A [B [d [Ed H1]]]]]; split; auto; split; auto; exists d; rewrite H1;
          split; auto using orb_true_r.
      + intros [A [B [d [Ed H]]]]. apply orb_true_iff in H. destruct H; [left|right]; split; auto; split; eauto.
    - rewrite En, Er. cbn [bind]. eexists. split; [reflexivity|]. split; [constructor; auto|].
      intros x. cbn [nsem]. rewrite andb_true_iff, negb_true_iff, Sr. unfold sel. cbn [sat]. split.
      + intros [C [A [B [d [Ed H2]]]]]. split; auto. split; auto. exists d. split; auto. rewrite H2, andb_true_r.
        apply negb_true_iff. destruct (sat n d) eqn:Es; auto.
        assert (nsem tn x = true) by (apply Sn; unfold sel; eauto). congruence.
      + intros [A [B [d [Ed H]]]]. apply andb_true_iff in H. destruct H as [H1 H2]. apply negb_true_iff in H1. split.
        * destruct (nsem tn x) eqn:E; auto. apply Sn in E. destruct E as [_ [_ [d' [Ed' Hs']]]].
          rewrite Ed in Ed'. inversion Ed'; subst d'. congruence.
        * split; auto. split; eauto.
  Qed.

  Lemma build_tree_sound : forall q,
    exists t, build_tree (vocab tab) tab lo hi q = Ok t /\ wf_ntree rev t /\
              (forall x, nsem t x = true <-> sel q x).
  Proof. intros q. unfold build_tree. apply build_tree_with_sound. apply leaf_tree_sound. Qed.
End Tree.

End WithMatcher.
