(* copy of props/C03/coq/ProofsLids.v (see SealedLids.v) *)
(* C03 — assembly: generate -> Pack -> unpack -> table from the registry ext words -> iterators. *)
From Coq Require Import List Bool Arith NArith ZArith Lia Sorted.
Import ListNotations.
From C02 Require Import SealedLids SLCodec SLSearch SLNav SLGen.

(* ------------------------------------------------------------------ registry ext words *)
Definition u32max : N := 4294967295.

Lemma ext_min mx mn : (mn < 4294967296)%N ->
  N.land (N.lor (N.shiftl mx 32) mn) 4294967295 = mn.
Proof.
  intros H. change 4294967295%N with (N.ones 32).
  rewrite N.land_lor_distr_l. rewrite !N.land_ones.
  rewrite N.shiftl_mul_pow2. rewrite N.mod_mul by (compute; congruence).
  rewrite N.lor_0_l. apply N.mod_small. exact H.
Qed.

Lemma ext_max mx mn : (mn < 4294967296)%N ->
  N.shiftr (N.lor (N.shiftl mx 32) mn) 32 = mx.
Proof.
  intros H. rewrite N.shiftr_lor. rewrite N.shiftr_shiftl_l by lia.
  replace (32 - 32)%N with 0%N by lia. rewrite N.shiftl_0_r.
  rewrite N.shiftr_div_pow2. rewrite N.div_small by exact H. apply N.lor_0_r.
Qed.

Lemma loaded_table_eq bs :
  Forall (fun b => (b_min b < 4294967296)%N) bs -> loaded_table bs = table_of bs.
Proof.
  intros H. unfold loaded_table, table_of, table_of_ext. rewrite !map_map. f_equal.
  - apply map_ext_in. intros b Hb. rewrite Forall_forall in H. cbn. apply ext_min. apply H; auto.
  - apply map_ext_in. intros b Hb. rewrite Forall_forall in H. cbn. apply ext_max. apply H; auto.
  - apply map_ext. intros b. cbn. destruct (b_cont b); reflexivity.
Qed.

(* ------------------------------------------------------------------ chain: index facts *)
Lemma chain_max_mono m bs : chain m bs -> forall i j, i < j -> j < length bs ->
  (b_max (nth i bs b0) <= b_max (nth j bs b0) /\ badj (nth i bs b0) <= badj (nth j bs b0))%N.
Proof.
  revert m. induction bs as [|b r IH]; intros m Hc i j Hij Hj; [simpl in Hj; lia|].
  simpl in Hc. destruct Hc as (Ha & Hb & Hc). destruct j; [lia|]. destruct i.
  - cbn [nth]. assert (In (nth j r b0) r) by (apply nth_In; simpl in Hj; lia).
    destruct (chain_ge _ _ Hc _ H). pose proof (bok_le b Hb). lia.
  - cbn [nth]. apply (IH _ Hc); simpl in Hj; lia.
Qed.

Lemma chain_adjacent m bs : chain m bs -> forall i, S i < length bs ->
  (badj (nth (S i) bs b0) <= b_max (nth i bs b0) + 1)%N.
Proof.
  revert m. induction bs as [|b r IH]; intros m Hc i Hi; [simpl in Hi; lia|].
  simpl in Hc. destruct Hc as (Ha & Hb & Hc). destruct i.
  - cbn [nth]. destruct r as [|b' r']; [simpl in Hi; lia|]. cbn [nth]. simpl in Hc. lia.
  - cbn [nth]. apply (IH _ Hc). simpl in Hi. lia.
Qed.

Lemma chain_first m bs : chain m bs -> 0 < length bs -> (badj (nth 0 bs b0) <= m + 1)%N.
Proof. destruct bs; simpl; intros; lia. Qed.

Lemma lastmax_nth m bs : bs <> [] -> lastmax m bs = b_max (nth (length bs - 1) bs b0).
Proof.
  revert m. induction bs as [|b r IH]; intros m H; [congruence|].
  rewrite lastmax_cons. destruct r as [|b' r'].
  - reflexivity.
  - rewrite IH by congruence. cbn [length]. replace (S (S (length r')) - 1) with (S (length r')) by lia.
    replace (S (length r') - 1) with (length r') by lia. reflexivity.
Qed.

Lemma skipn_cons_nth {A} (l : list A) d : forall i, i < length l -> skipn i l = nth i l d :: skipn (S i) l.
Proof.
  induction l as [|x t IH]; intros i H; [simpl in H; lia|].
  destruct i; [reflexivity|]. cbn [skipn nth]. apply IH. simpl in H. lia.
Qed.

Lemma firstn_S_snoc {A} (l : list A) d : forall i, i < length l -> firstn (S i) l = firstn i l ++ [nth i l d].
Proof.
  induction l as [|x t IH]; intros i H; [simpl in H; lia|].
  destruct i; [reflexivity|]. cbn [firstn nth app]. f_equal. apply IH. simpl in H. lia.
Qed.

Lemma lastmax_firstn_lt bs tid : forall r, r <= length bs -> (0 < tid)%N ->
  (forall k, k < r -> (b_max (nth k bs b0) < tid)%N) -> (lastmax 0 (firstn r bs) < tid)%N.
Proof.
  intros r Hr Ht H. destruct r as [|r'].
  - unfold lastmax. simpl. exact Ht.
  - assert (Hne : firstn (S r') bs <> []) by (destruct bs; simpl in *; [lia|congruence]).
    rewrite lastmax_nth by auto. rewrite firstn_length. replace (Nat.min (S r') (length bs)) with (S r') by lia.
    replace (S r' - 1) with r' by lia.
    assert (E : nth r' (firstn (S r') bs) b0 = nth r' bs b0).
    { rewrite <- (firstn_skipn (S r') bs) at 2. rewrite app_nth1; auto. rewrite firstn_length. lia. }
    rewrite E. apply H. lia.
Qed.

(* ------------------------------------------------------------------ pieces are real chunks *)
Definition chunks_pp (b : block) : Prop := Forall Pp (c_list (b_chunks b)).

Lemma lookup_pp tid bs : Forall bok bs -> Forall chunks_pp bs -> Forall (fun p => p <> []) (lookup tid bs).
Proof.
  intros Hok Hpp. induction bs as [|b r IH]; [constructor|].
  inversion Hok as [|? ? Hb Hr]; subst. inversion Hpp as [|? ? Hp Hr']; subst.
  unfold lookup. cbn [flat_map]. apply Forall_app. split; [|apply IH; auto].
  destruct (inb b tid) eqn:E; constructor; [|constructor].
  unfold inb in E. apply andb_true_iff in E. destruct E as [E1 E2].
  apply N.leb_le in E1. apply N.leb_le in E2. destruct Hb as [Hb1 Hb2]. unfold nchunks in *.
  unfold chunks_pp in Hp. rewrite Forall_forall in Hp.
  assert (Hin : In (piece b tid) (c_list (b_chunks b))) by (unfold piece; apply nth_In; lia).
  apply (Hp _ Hin).
Qed.

Lemma chunks_wf_of b : bok b -> chunks_pp b -> chunks_wf (b_chunks b).
Proof.
  intros [_ Hn] H. unfold chunks_pp in H. unfold nchunks in Hn. split.
  - rewrite Forall_forall in H |- *. intros c Hc. apply (H c Hc).
  - intros _. destruct (c_list (b_chunks b)) as [|c r] eqn:E; [simpl in Hn; lia|].
    split; [congruence|]. rewrite Forall_forall in H.
    assert (Hin : In (last (c :: r) []) (c :: r)).
    { clear. revert c. induction r as [|y t IH]; intros c; [left; auto|]. right. apply IH. }
    apply (H _ Hin).
Qed.

Lemma roundtrip_eq bs : Forall bok bs -> Forall chunks_pp bs -> roundtrip_chunks bs = map b_chunks bs.
Proof.
  intros Hok Hpp. unfold roundtrip_chunks. apply map_ext_in. intros b Hb.
  rewrite Forall_forall in Hok, Hpp. apply chunks_codec. apply chunks_wf_of; auto.
Qed.

(* ------------------------------------------------------------------ the two iterators on a generated layout *)
Section Layout.
  Variable bs : list block.
  Variable tid : N.
  Variable post : list N.
  Hypothesis Hchain : chain 0 bs.
  Hypothesis Hpp : Forall chunks_pp bs.
  Hypothesis Htid : (1 <= tid <= lastmax 0 bs)%N.
  Hypothesis Hpost : concat (lookup tid bs) = post.
  Hypothesis Hsorted : sorted post.

  Let Hok : Forall bok bs := chain_all_ok 0 bs Hchain.

  Lemma bs_ne : bs <> [].
  Proof. intros E. subst bs. unfold lastmax in Htid. simpl in Htid. lia. Qed.

  Lemma len_pos : 0 < length bs.
  Proof. pose proof bs_ne. destruct bs; [congruence|simpl; lia]. Qed.

  Lemma mono_max : mono_upto (fun i => (tid <=? nthN (t_max (table_of bs)) i)%N) (length bs).
  Proof.
    intros a b Hab Hb Ha. unfold table_of in *. cbn [t_max] in *. rewrite nth_max in *.
    apply N.leb_le in Ha. apply N.leb_le.
    destruct (Nat.eq_dec a b); [subst; auto|].
    destruct (chain_max_mono 0 bs Hchain a b); try lia.
  Qed.

  Lemma mono_adj : mono_upto (fun i => (tid <? adj_min (table_of bs) i)%N) (length bs).
  Proof.
    intros a b Hab Hb Ha. rewrite adj_nth in *.
    apply N.ltb_lt in Ha. apply N.ltb_lt.
    destruct (Nat.eq_dec a b); [subst; auto|].
    destruct (chain_max_mono 0 bs Hchain a b); try lia.
  Qed.

  Theorem iter_desc_ok lo hi :
    iter_desc (table_of bs) (map b_chunks bs) tid lo hi = Ok (filter (in_range lo hi) post).
  Proof.
    pose proof len_pos as Hlen. pose proof bs_ne as Hne.
    assert (El : length (t_max (table_of bs)) = length bs) by (unfold table_of; cbn; apply map_length).
    unfold iter_desc, first_block. rewrite !El.
    destruct (Nat.eqb_spec (length bs) 0); [lia|].
    destruct (sort_search_spec (length bs) _ mono_max) as (H1 & H2 & H3).
    set (r := sort_search (length bs) _) in *.
    assert (Hr : r < length bs).
    { destruct (Nat.lt_ge_cases r (length bs)); auto. exfalso.
      specialize (H2 (length bs - 1)). unfold table_of in H2. cbn [t_max] in H2. rewrite nth_max in H2.
      rewrite <- lastmax_nth with (m := 0%N) in H2 by auto.
      assert (E : (tid <=? lastmax 0 bs)%N = false) by (apply H2; lia).
      apply N.leb_gt in E. lia. }
    destruct (Nat.eqb_spec r (length bs)); [lia|].
    set (b := nth r bs b0). set (rest := skipn (S r) bs).
    assert (Hsk : skipn r bs = b :: rest) by (apply skipn_cons_nth; auto).
    assert (Hsplit : bs = firstn r bs ++ b :: rest) by (rewrite <- Hsk; symmetry; apply firstn_skipn).
    assert (Hc2 := Hchain). rewrite Hsplit in Hc2. apply chain_app in Hc2. destruct Hc2 as [Hc1 Hc2].
    assert (Hlow : (lastmax 0 (firstn r bs) < tid)%N).
    { apply lastmax_firstn_lt; try lia. intros k Hk. specialize (H2 k Hk).
      unfold table_of in H2. cbn [t_max] in H2. rewrite nth_max in H2. apply N.leb_gt in H2. exact H2. }
    assert (Hin : inb b tid = true).
    { unfold inb. apply andb_true_iff. split; apply N.leb_le.
      - simpl in Hc2. lia.
      - assert (E : (tid <=? nthN (t_max (table_of bs)) r)%N = true) by (apply H3; lia).
        unfold table_of in E. cbn [t_max] in E. rewrite nth_max in E. apply N.leb_le in E. exact E. }
    assert (Hlook : lookup tid bs = walk_desc tid (b :: rest)).
    { rewrite Hsplit at 1. rewrite lookup_app. rewrite (lookup_below 0 tid _ Hc1 Hlow).
      apply (lookup_walk_desc tid rest b _ Hc2 Hin). }
    rewrite (desc_loop_walk bs tid lo hi Hok rest b r); auto.
    - rewrite <- Hlook, Hpost. reflexivity.
    - unfold rest. rewrite skipn_length, map_length. lia.
    - rewrite <- Hlook, Hpost. exact Hsorted.
    - rewrite <- Hlook. apply lookup_pp; auto.
  Qed.

  Theorem iter_asc_ok lo hi :
    iter_asc (table_of bs) (map b_chunks bs) tid lo hi = Ok (rev (filter (in_range lo hi) post)).
  Proof.
    pose proof len_pos as Hlen. pose proof bs_ne as Hne.
    assert (El : length (t_max (table_of bs)) = length bs) by (unfold table_of; cbn; apply map_length).
    assert (El2 : length (t_min (table_of bs)) = length bs) by (unfold table_of; cbn; apply map_length).
    unfold iter_asc, last_block. rewrite !El, !El2.
    destruct (Nat.eqb_spec (length bs) 0); [lia|].
    destruct (sort_search_spec (length bs) _ mono_adj) as (H1 & H2 & H3).
    set (s := sort_search (length bs) _) in *.
    assert (Hf0 : (tid <? adj_min (table_of bs) 0)%N = false).
    { rewrite adj_nth. apply N.ltb_ge. pose proof (chain_first 0 bs Hchain Hlen). lia. }
    destruct s as [|l] eqn:Es.
    { rewrite H3 in Hf0 by lia. discriminate. }
    assert (Hl : l < length bs) by lia.
    set (b := nth l bs b0).
    assert (Hadj : (badj b <= tid)%N).
    { assert (E : (tid <? adj_min (table_of bs) l)%N = false) by (apply H2; lia).
      rewrite adj_nth in E. apply N.ltb_ge in E. exact E. }
    assert (Hmax : (tid <= b_max b)%N).
    { destruct (Nat.eq_dec (S l) (length bs)) as [E|E].
      - unfold b. replace l with (length bs - 1) by lia. rewrite <- lastmax_nth with (m := 0%N) by auto. lia.
      - assert (E2 : (tid <? adj_min (table_of bs) (S l))%N = true) by (apply H3; lia).
        rewrite adj_nth in E2. apply N.ltb_lt in E2.
        pose proof (chain_adjacent 0 bs Hchain l). unfold b. lia. }
    unfold table_of at 1. cbn [t_max]. rewrite nth_max. fold b.
    destruct (N.ltb_spec (b_max b) tid); [lia|].
    assert (Hin : inb b tid = true) by (unfold inb; apply andb_true_iff; split; apply N.leb_le; auto).
    set (pre := firstn l bs). set (rest := skipn (S l) bs).
    assert (Hf : firstn (S l) bs = pre ++ [b]).
    { apply firstn_S_snoc; auto. }
    assert (Hsplit : bs = (pre ++ [b]) ++ rest) by (rewrite <- Hf; symmetry; apply firstn_skipn).
    assert (Hc2 := Hchain). rewrite Hsplit in Hc2. apply chain_app in Hc2. destruct Hc2 as [Hc1 Hc2].
    rewrite lastmax_snoc in Hc2.
    assert (Hrest : lookup tid rest = []).
    { destruct rest as [|b2 rest2] eqn:Er; [reflexivity|].
      assert (Hl2 : S l < length bs).
      { destruct (Nat.eq_dec (S l) (length bs)) as [E|E]; [|lia].
        assert (length rest = 0) by (unfold rest; rewrite skipn_length; lia).
        rewrite Er in H0. simpl in H0. lia. }
      assert (Eb2 : b2 = nth (S l) bs b0).
      { assert (Hs2 : skipn (S l) bs = nth (S l) bs b0 :: skipn (S (S l)) bs) by (apply skipn_cons_nth; auto).
        fold rest in Hs2. rewrite Er in Hs2. inversion Hs2; auto. }
      assert (E2 : (tid <? adj_min (table_of bs) (S l))%N = true) by (apply H3; lia).
      rewrite adj_nth, <- Eb2 in E2. apply N.ltb_lt in E2.
      simpl in Hc2. destruct Hc2 as (_ & Hb2 & Hc3). pose proof (bok_le b2 Hb2).
      change (b2 :: rest2) with ([b2] ++ rest2). rewrite lookup_app.
      rewrite (lookup_above (b_max b2) tid rest2 Hc3) by lia.
      simpl. unfold inb. destruct (N.leb_spec (badj b2) tid); try lia; reflexivity. }
    assert (Hlook : lookup tid bs = rev (walk_asc tid (rev (firstn (S l) bs)))).
    { rewrite Hsplit at 1. rewrite lookup_app, Hrest, app_nil_r.
      rewrite (lookup_walk_asc tid pre b 0%N Hc1 Hin). rewrite Hf, rev_app_distr. reflexivity. }
    rewrite (asc_loop_walk bs tid lo hi Hok l); auto.
    - rewrite <- Hlook, Hpost. reflexivity.
    - rewrite map_length. lia.
    - rewrite <- Hlook, Hpost. exact Hsorted.
    - pose proof (lookup_pp tid bs Hok Hpp) as Hq. rewrite Hlook in Hq.
      apply Forall_rev in Hq. rewrite rev_involutive in Hq. exact Hq.
  Qed.
End Layout.

(* ------------------------------------------------------------------ thm:C03_lids_roundtrip *)
Definition tokens_total (fields : list (list (list N))) : N := N.of_nat (length (concat fields)).
Definition input_sorted (fields : list (list (list N))) : Prop := Forall (Forall sorted) fields.

Lemma bmin_le b : (b_min b <= badj b + 1)%N.
Proof. unfold badj. destruct (b_cont b); lia. Qed.

Lemma postings_sorted fields tid : input_sorted fields -> sorted (postings fields tid).
Proof.
  intros H. unfold postings. destruct tid; [constructor|].
  destruct (nth_in_or_default (N.to_nat (N.pos p - 1)) (concat fields) []) as [Hin|E].
  - apply in_concat in Hin. destruct Hin as (f & Hf & Hin).
    unfold input_sorted in H. rewrite Forall_forall in H. specialize (H f Hf).
    rewrite Forall_forall in H. apply H; auto.
  - rewrite E. constructor.
Qed.

Theorem lids_roundtrip : forall cap fields tid lo hi asc,
  0 < cap -> input_ok fields -> input_sorted fields ->
  (tokens_total fields < 4294967295)%N ->
  (1 <= tid <= tokens_total fields)%N ->
  read_postings asc cap fields tid lo hi = Ok (expected asc fields tid lo hi).
Proof.
  intros cap fields tid lo hi asc Hcap Hok Hs Htot Htid.
  destruct (gen_blocks_ok cap fields Hcap Hok) as (bs & Eg & Hc & Hl & Hlook & Hpp).
  unfold read_postings, sealed_blocks. rewrite Eg.
  pose proof (chain_all_ok 0 bs Hc) as Hbok.
  assert (Hmin : Forall (fun b => (b_min b < 4294967296)%N) bs).
  { rewrite Forall_forall. intros b Hb. pose proof (chain_max_le_last 0 bs Hc b Hb) as Hm.
    rewrite Forall_forall in Hbok. pose proof (bok_le b (Hbok b Hb)). pose proof (bmin_le b).
    unfold tokens_total in *. lia. }
  rewrite (loaded_table_eq bs Hmin), (roundtrip_eq bs Hbok Hpp).
  unfold tokens_total in *. rewrite <- Hl in Htid.
  pose proof (postings_sorted fields tid Hs) as Hsp.
  unfold expected. destruct asc.
  - apply (iter_asc_ok bs tid (postings fields tid) Hc Hpp Htid (Hlook tid) Hsp).
  - apply (iter_desc_ok bs tid (postings fields tid) Hc Hpp Htid (Hlook tid) Hsp).
Qed.

(* termination alone (no sortedness needed) *)
Theorem gen_blocks_total : forall cap fields, 0 < cap -> input_ok fields -> gen_blocks cap fields <> OutOfFuel.
Proof.
  intros cap fields Hcap Hok. destruct (gen_blocks_ok cap fields Hcap Hok) as (bs & Eg & _). rewrite Eg. discriminate.
Qed.

(* loaded LID table (registry ext words) = preloaded LID table (lidsTable.Add) on every generated layout *)
Theorem lids_tables_equal : forall cap fields bs,
  0 < cap -> input_ok fields -> (tokens_total fields < 4294967295)%N ->
  gen_blocks cap fields = Ok bs -> loaded_table bs = table_of bs.
Proof.
  intros cap fields bs Hcap Hok Htot Eg.
  destruct (gen_blocks_ok cap fields Hcap Hok) as (bs' & Eg' & Hc & Hl & _ & _).
  rewrite Eg in Eg'. inversion Eg'; subst bs'.
  pose proof (chain_all_ok 0 bs Hc) as Hbok.
  apply loaded_table_eq. rewrite Forall_forall. intros b Hb.
  pose proof (chain_max_le_last 0 bs Hc b Hb) as Hm.
  rewrite Forall_forall in Hbok. pose proof (bok_le b (Hbok b Hb)). pose proof (bmin_le b).
  unfold tokens_total in *. lia.
Qed.
