(* C02 — the transcribed active index: TokenLIDs (queue sort + mergeSorted), inverser. *)
From Coq Require Import List Bool Arith NArith Lia Sorting.Sorted Sorting.Permutation.
From C02 Require Import Model ModelTx ProofsNodes ProofsSearch.
Import ListNotations.
Open Scope N_scope.

(* ---------------------------------------------------------------- the (MID, RID, LID) order *)
Section Order.
  Variables mids rids : list N.
  Notation cmp := (seq_cmp mids rids).
  Definition kgt (a b : N) : Prop := cmp a b = Gt.
  Definition kge (a b : N) : Prop := kgt a b \/ a = b.

  Ltac cmp_tac :=
    unfold kgt, seq_cmp, queue_less, id_geb; cbn [fst snd];
    repeat match goal with
           | |- context [get ?m ?x] => generalize (get m x); intro
           end;
    repeat match goal with
           | |- context [N.ltb ?x ?y] => destruct (N.ltb_spec x y)
           | |- context [N.eqb ?x ?y] => destruct (N.eqb_spec x y)
           | |- context [N.leb ?x ?y] => destruct (N.leb_spec x y)
           end; intros; try discriminate; try reflexivity; try lia; try congruence.

  Lemma cmp_eq a b : cmp a b = Eq <-> a = b.
  Proof. split; [|intros ->]; cmp_tac. Qed.
  Lemma cmp_lt a b : cmp a b = Lt <-> kgt b a.
  Proof. split; cmp_tac. Qed.
  Lemma kgt_irrefl a : ~ kgt a a.
  Proof. unfold not. cmp_tac. Qed.
  Lemma kgt_asym a b : kgt a b -> kgt b a -> False.
  Proof. cmp_tac. Qed.
  Lemma less_kgt a b : queue_less mids rids a b = true <-> kgt a b.
  Proof. split; cmp_tac. Qed.
  Lemma kgt_total a b : kgt a b \/ a = b \/ kgt b a.
  Proof.
    destruct (cmp a b) eqn:E; [right; left; apply cmp_eq; auto|right; right; apply cmp_lt; auto|left; exact E].
  Qed.
  Lemma kgt_id a b : kgt a b -> id_geb (get mids a, get rids a) (get mids b, get rids b) = true.
  Proof. cmp_tac. Qed.
End Order.

Lemma kgt_trans mids rids a b c : kgt mids rids a b -> kgt mids rids b c -> kgt mids rids a c.
Proof.
  unfold kgt, seq_cmp. generalize (get mids a) (get mids b) (get mids c) (get rids a) (get rids b) (get rids c).
  intros ma mb mc ra rb rc H1 H2.
  repeat match goal with
         | H : context [N.ltb ?x ?y] |- _ => destruct (N.ltb_spec x y)
         | |- context [N.ltb ?x ?y] => destruct (N.ltb_spec x y)
         end; try discriminate; try reflexivity; try lia.
Qed.

Lemma kge_trans_l mids rids a b c : kgt mids rids a b -> kge mids rids b c -> kgt mids rids a c.
Proof. intros H [H2| ->]; auto. eapply kgt_trans; eauto. Qed.

(* ---------------------------------------------------------------- sort.Sort(queueIDs) *)
Section Sort.
  Variables mids rids : list N.
  Notation gt := (kgt mids rids).
  Notation ge := (kge mids rids).

  Lemma q_insert_In x l y : In y (q_insert mids rids x l) <-> y = x \/ In y l.
  Proof.
    induction l as [|z l IH]; simpl; [intuition|].
    destruct (queue_less mids rids z x); simpl; [rewrite IH|]; intuition.
  Qed.

  Lemma q_sort_In l y : In y (q_sort mids rids l) <-> In y l.
  Proof. induction l as [|x l IH]; simpl; [tauto|]. rewrite q_insert_In, IH. intuition. Qed.

  Lemma q_insert_sorted x l : StronglySorted ge l -> StronglySorted ge (q_insert mids rids x l).
  Proof.
    induction l as [|z l IH]; intros S; simpl; [constructor; constructor|].
    apply StronglySorted_inv in S. destruct S as [S F]. rewrite Forall_forall in F.
    destruct (queue_less mids rids z x) eqn:E.
    - apply less_kgt in E. constructor; [apply IH; auto|]. apply Forall_forall. intros y Hy.
      apply q_insert_In in Hy. destruct Hy as [->|Hy]; [left; auto|auto].
    - assert (G : ge x z).
      { destruct (kgt_total mids rids x z) as [H|[H|H]]; [left; auto|right; auto|].
        apply less_kgt in H. congruence. }
      constructor; [constructor; auto; apply Forall_forall; auto|]. apply Forall_forall. intros y [->|Hy]; auto.
      destruct G as [G| ->]; [|auto]. left. eapply kge_trans_l; eauto.
  Qed.

  Lemma q_sort_sorted l : StronglySorted ge (q_sort mids rids l).
  Proof. induction l as [|x l IH]; simpl; [constructor|apply q_insert_sorted; auto]. Qed.
End Sort.

(* ---------------------------------------------------------------- mergeSorted *)
Section Merge.
  Variables mids rids : list N.
  Notation cmp := (seq_cmp mids rids).
  Notation gt := (kgt mids rids).
  Notation ge := (kge mids rids).
  Variable s : N.                               (* initial prev: math.MaxUint32, never a stored LID *)

  (* x lies strictly below prev / below-or-equal *)
  Definition ab (prev x : N) : Prop := x <> prev /\ (prev = s \/ gt prev x).
  Definition abe (prev x : N) : Prop := prev = s \/ gt prev x \/ prev = x.

  Lemma emit_ok prev v L :
    v <> s -> v <> prev -> abe prev v -> StronglySorted gt L -> (forall x, In x L -> x <> s) ->
    (forall x, In x L -> ab v x) ->
    StronglySorted gt (v :: L) /\ (forall x, In x (v :: L) -> ab prev x).
  Proof.
    intros Vs Vp A S Ns F.
    assert (G : forall x, In x L -> gt v x).
    { intros x Hx. destruct (F x Hx) as [_ [E|E]]; [contradiction|exact E]. }
    split.
    - constructor; auto. apply Forall_forall. exact G.
    - intros x [<-|Hx].
      + split; auto. destruct A as [A|[A|A]]; auto. congruence.
      + specialize (G x Hx). destruct A as [A|[A|A]].
        * split; [|left; auto]. subst prev. apply Ns; auto.
        * assert (gt prev x) by (eapply kgt_trans; eauto). split; [|right; auto].
          intros ->. eapply kgt_irrefl; eauto.
        * congruence.
  Qed.

  Lemma dedup_left_spec : forall left prev,
    StronglySorted ge left -> (forall x, In x left -> x <> s) -> (forall x, In x left -> abe prev x) ->
    let D := dedup_left left prev in
    StronglySorted gt D /\ (forall x, In x D -> ab prev x) /\
    (forall x, In x D <-> In x left /\ x <> prev).
  Proof.
    induction left as [|v l IH]; intros prev S Ns A; cbn zeta; cbn [dedup_left].
    - split; [constructor|]. split; [intros x []|]. intros x. simpl. tauto.
    - apply StronglySorted_inv in S. destruct S as [S F]. rewrite Forall_forall in F.
      destruct (N.eqb_spec v prev) as [->|Hne].
      + destruct (IH prev S) as [I1 [I2 I3]]; [intros; apply Ns; right; auto|intros; apply A; right; auto|].
        split; auto. split; auto. intros x. rewrite I3. simpl. split; [tauto|]. intros [[<-|H] H2]; tauto.
      + destruct (IH v S) as [I1 [I2 I3]]; [intros; apply Ns; right; auto| |].
        { intros x Hx. destruct (F x Hx) as [G| ->]; [right; left; auto|right; right; auto]. }
        destruct (emit_ok prev v (dedup_left l v)) as [E1 E2]; auto.
        { apply Ns. left; auto. } { apply A. left; auto. } { intros x Hx. apply I3 in Hx. apply Ns. right; tauto. }
        split; auto. split; auto. intros x. cbn [In]. rewrite I3. split.
        * intros [<-|[H1 H2]]; [split; auto|]. split; auto. apply (E2 x). right. apply I3. auto.
        * intros [[<-|H1] H2]; auto. destruct (N.eq_dec x v); auto.
  Qed.

  Lemma merge_nil_l left prev : merge_sorted cmp [] left prev = dedup_left left prev.
  Proof. destruct left; reflexivity. Qed.
  Lemma merge_nil_r ri right prev : merge_sorted cmp (ri :: right) [] prev = ri :: right.
  Proof. reflexivity. Qed.
  Lemma merge_cons ri right li left prev :
    merge_sorted cmp (ri :: right) (li :: left) prev =
    match cmp ri li with
    | Eq => if prev =? ri then merge_sorted cmp right left prev else ri :: merge_sorted cmp right left ri
    | Gt => if prev =? ri then merge_sorted cmp right (li :: left) prev
            else ri :: merge_sorted cmp right (li :: left) ri
    | Lt => if prev =? li then merge_sorted cmp (ri :: right) left prev
            else li :: merge_sorted cmp (ri :: right) left li
    end.
  Proof. reflexivity. Qed.

  Lemma merge_sorted_spec : forall right left prev,
    StronglySorted gt right -> StronglySorted ge left ->
    (forall x, In x right -> x <> s) -> (forall x, In x left -> x <> s) ->
    (forall x, In x right -> ab prev x) -> (forall x, In x left -> abe prev x) ->
    let L := merge_sorted cmp right left prev in
    StronglySorted gt L /\ (forall x, In x L -> ab prev x) /\
    (forall x, In x L <-> (In x right \/ In x left) /\ x <> prev).
  Proof.
    induction right as [|ri right IHr]; intros left prev Sr Sl Nr Nl Ar Al; cbn zeta.
    - rewrite merge_nil_l. destruct (dedup_left_spec left prev Sl Nl Al) as [D1 [D2 D3]].
      split; auto. split; auto. intros x. rewrite D3. simpl. tauto.
    - revert prev Ar Al. induction left as [|li left IHl]; intros prev Ar Al.
      + rewrite merge_nil_r. split; auto. split; auto. intros x. split; [|simpl; tauto].
        intros H. split; [left; auto|]. apply (Ar x H).
      + rewrite merge_cons.
        pose proof (StronglySorted_inv Sr) as [Sr' Fr]. rewrite Forall_forall in Fr.
        pose proof (StronglySorted_inv Sl) as [Sl' Fl]. rewrite Forall_forall in Fl.
        assert (Hri : ri <> prev) by (apply (Ar ri); left; auto).
        assert (Nri : ri <> s) by (apply Nr; left; auto).
        assert (Nli : li <> s) by (apply Nl; left; auto).
        destruct (cmp ri li) eqn:C.
        * (* equal values *)
          apply cmp_eq in C. subst li.
          destruct (N.eqb_spec prev ri) as [E|_]; [congruence|].
          destruct (IHr left ri Sr' Sl') as [I1 [I2 I3]];
            [intros; apply Nr; right; auto|intros; apply Nl; right; auto| | |].
          { intros x Hx. split; [|right; auto]. intros ->. eapply kgt_irrefl; eauto. }
          { intros x Hx. destruct (Fl x Hx) as [G| ->]; [right; left; auto|right; right; auto]. }
          destruct (emit_ok prev ri (merge_sorted cmp right left ri)) as [E1 E2]; auto.
          { destruct (Ar ri) as [_ [A|A]]; [left; auto|left; auto|right; left; auto]. }
          { intros x Hx. apply I3 in Hx. destruct Hx as [[H|H] _]; [apply Nr|apply Nl]; right; auto. }
          split; auto. split; auto. intros x. cbn [In]. rewrite I3. split.
          -- intros [<-|[H1 H2]]; [split; auto|]. split; [tauto|]. apply (E2 x). right. apply I3. auto.
          -- intros [[[<-|H1]|[<-|H1]] H2]; auto; destruct (N.eq_dec x ri); auto.
        * (* left value first *)
          apply cmp_lt in C.
          assert (Ali : abe prev li) by (apply Al; left; auto).
          destruct (N.eqb_spec prev li) as [E|Hne].
          -- subst prev. destruct (IHl Sl' (fun x H => Nl x (or_intror H)) li) as [I1 [I2 I3]];
               [exact Ar|intros; apply Al; right; auto|].
             split; auto. split; auto. intros x. rewrite I3. cbn [In]. split; [tauto|].
             intros [[H|[<-|H]] H2]; tauto.
          -- destruct (IHl Sl' (fun x H => Nl x (or_intror H)) li) as [I1 [I2 I3]].
             { intros x [<-|Hx]; (split; [intros ->; eapply kgt_irrefl; eauto|right]); auto.
               - eapply kgt_trans; eauto. - eapply kgt_trans; eauto. }
             { intros x Hx. destruct (Fl x Hx) as [G| ->]; [right; left; auto|right; right; auto]. }
             destruct (emit_ok prev li (merge_sorted cmp (ri :: right) left li)) as [E1 E2]; auto.
             { intros x Hx. apply I3 in Hx. destruct Hx as [[H|H] _]; [apply Nr|apply Nl; right]; auto. }
             split; auto. split; auto. intros x. cbn [In]. rewrite I3. cbn [In]. split.
             ++ intros [<-|[H1 H2]]; [split; auto|]. split; [tauto|]. apply (E2 x). right. apply I3. auto.
             ++ intros [[H1|[<-|H1]] H2]; auto; destruct (N.eq_dec x li); auto.
        * (* right value first *)
          destruct (N.eqb_spec prev ri) as [E|_]; [congruence|].
          destruct (IHr (li :: left) ri Sr' Sl) as [I1 [I2 I3]]; [intros; apply Nr; right; auto|exact Nl| | |].
          { intros x Hx. split; [|right; auto]. intros ->. eapply kgt_irrefl; eauto. }
          { intros x [<-|Hx]; [right; left; exact C|]. right; left. eapply kge_trans_l; eauto. }
          destruct (emit_ok prev ri (merge_sorted cmp right (li :: left) ri)) as [E1 E2]; auto.
          { destruct (Ar ri) as [_ [A|A]]; [left; auto|left; auto|right; left; auto]. }
          { intros x Hx. apply I3 in Hx. destruct Hx as [[H|H] _]; [apply Nr; right|apply Nl]; auto. }
          split; auto. split; auto. intros x. cbn [In]. rewrite I3. cbn [In]. split.
          -- intros [<-|[H1 H2]]; [split; auto|]. split; [tauto|]. apply (E2 x). right. apply I3. auto.
          -- intros [[[<-|H1]|H1] H2]; auto; destruct (N.eq_dec x ri); auto.
  Qed.
End Merge.

(* ---------------------------------------------------------------- GetLIDs *)
(* the sorted list is strictly ordered; the LIDs below 2^32-1 *)
Definition tl_wf (mids rids : list N) (tl : tlids) : Prop :=
  StronglySorted (kgt mids rids) (t_sorted tl) /\
  (forall x, In x (t_sorted tl) \/ In x (t_queue tl) -> x <> max_u32).

Theorem get_lids_spec mids rids tl : tl_wf mids rids tl ->
  let tl' := get_lids mids rids tl in
  tl_wf mids rids tl' /\ t_queue tl' = [] /\
  (forall x, In x (t_sorted tl') <-> In x (t_sorted tl) \/ In x (t_queue tl)).
Proof.
  intros [S Ns]. cbn zeta. unfold get_lids. destruct (t_queue tl) as [|q0 q] eqn:Q.
  - split; [split; auto; rewrite Q; auto|]. split; auto. intros x. simpl. tauto.
  - cbn [t_sorted t_queue].
    destruct (merge_sorted_spec mids rids max_u32 (t_sorted tl) (q_sort mids rids (q0 :: q)) max_u32)
      as [M1 [M2 M3]].
    + exact S.
    + apply q_sort_sorted.
    + intros x Hx. apply Ns. left; auto.
    + intros x Hx. apply q_sort_In in Hx. apply Ns. right; auto.
    + intros x Hx. split; [apply Ns; left; auto|left; auto].
    + intros x Hx. left; auto.
    + split; [split; auto|].
      * intros x [Hx|[]]. apply (M2 x Hx).
      * split; auto. intros x. rewrite M3, q_sort_In. split; [tauto|].
        intros H. split; [exact H|]. apply Ns. exact H.
Qed.

(* ---------------------------------------------------------------- sort.Sort is determined by its contract *)
Section SortUnique.
  Variables mids rids : list N.
  Notation ge := (kge mids rids).

  Lemma q_insert_perm x l : Permutation (x :: l) (q_insert mids rids x l).
  Proof.
    induction l as [|y l IH]; simpl; auto.
    destruct (queue_less mids rids y x); auto.
    eapply Permutation_trans; [apply perm_swap|]. apply perm_skip. exact IH.
  Qed.

  Lemma q_sort_perm l : Permutation l (q_sort mids rids l).
  Proof.
    induction l as [|x l IH]; simpl; auto.
    eapply Permutation_trans; [apply perm_skip; exact IH|apply q_insert_perm].
  Qed.

  Lemma kge_antisym a b : ge a b -> ge b a -> a = b.
  Proof. intros [H1| ->] [H2|H2]; auto. exfalso. eapply kgt_asym; eauto. Qed.

  Lemma sorted_perm_eq : forall l1 l2, StronglySorted ge l1 -> StronglySorted ge l2 -> Permutation l1 l2 -> l1 = l2.
  Proof.
    induction l1 as [|a l1 IH]; intros l2 S1 S2 P.
    - apply Permutation_nil in P. auto.
    - destruct l2 as [|b l2]; [apply Permutation_sym, Permutation_nil in P; discriminate|].
      pose proof (StronglySorted_inv S1) as [S1' F1]. pose proof (StronglySorted_inv S2) as [S2' F2].
      rewrite Forall_forall in F1, F2.
      assert (a = b).
      { assert (Ha : In a (b :: l2)) by (eapply Permutation_in; [exact P|left; auto]).
        assert (Hb : In b (a :: l1)) by (eapply Permutation_in; [apply Permutation_sym; exact P|left; auto]).
        destruct Ha as [->|Ha]; auto. destruct Hb as [->|Hb]; auto. apply kge_antisym; auto. }
      subst b. f_equal. apply IH; auto. eapply Permutation_cons_inv; eauto.
  Qed.

  (* whatever algorithm sort.Sort uses: a descending rearrangement of the queue IS q_sort's output *)
  Theorem sort_unique l l' : Permutation l l' -> StronglySorted ge l' -> l' = q_sort mids rids l.
  Proof.
    intros P S. apply sorted_perm_eq; auto; [apply q_sort_sorted|].
    eapply Permutation_trans; [apply Permutation_sym; exact P|apply q_sort_perm].
  Qed.
End SortUnique.
