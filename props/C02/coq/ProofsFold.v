(* C02 — node.TreeFold / BuildORTree, and the link from the theorems to the executable spec checker. *)
From Coq Require Import List Bool Arith NArith Lia Sorting.Sorted.
From VLib Require Import CaseLib.
From C02 Require Import Model CaseDefs ProofsNodes.
Import ListNotations.
Open Scope N_scope.

Lemma div2_le : forall k, (Nat.div2 k <= k)%nat.
Proof.
  assert (H : forall k, (Nat.div2 k <= k /\ Nat.div2 (S k) <= S k)%nat).
  { induction k as [|k [IH1 IH2]]; simpl; [lia|]. split; [exact IH2|]. destruct k; simpl in *; lia. }
  intros k. apply H.
Qed.

Lemma existsb_app_split {A} (f : A -> bool) n l :
  existsb f l = existsb f (firstn n l) || existsb f (skipn n l).
Proof. rewrite <- existsb_app, firstn_skipn. reflexivity. Qed.

Lemma tree_fold_sound rev : forall fuel vs,
  (length vs < fuel)%nat -> Forall (wf_ntree rev) vs ->
  exists t, tree_fold fuel vs = Ok t /\ wf_ntree rev t /\
            (forall x, nsem t x = existsb (fun v => nsem v x) vs).
Proof.
  induction fuel as [|fuel IH]; intros vs Hf W; [lia|].
  cbn [tree_fold]. destruct vs as [|v1 [|v2 rest]].
  - exists (NStatic []). split; auto. split; [constructor; constructor|]. reflexivity.
  - exists v1. split; auto. inversion W; subst. split; auto. intros x. simpl. rewrite orb_false_r. reflexivity.
  - set (vs := v1 :: v2 :: rest) in *. set (m := Nat.div2 (length vs)).
    assert (Hm1 : (1 <= m)%nat) by (unfold m, vs; simpl; lia).
    assert (Hm2 : (m < length vs)%nat).
    { unfold m, vs. cbn [length Nat.div2]. pose proof (div2_le (length rest)). lia. }
    destruct (IH (firstn m vs)) as [a [Ea [Wa Sa]]].
    { rewrite firstn_length. lia. }
    { apply Forall_forall. intros x Hx. rewrite Forall_forall in W. apply W. rewrite <- (firstn_skipn m vs). apply in_or_app. left; exact Hx. }
    destruct (IH (skipn m vs)) as [b [Eb [Wb Sb]]].
    { rewrite skipn_length. lia. }
    { apply Forall_forall. intros x Hx. rewrite Forall_forall in W. apply W. rewrite <- (firstn_skipn m vs). apply in_or_app. right; exact Hx. }
    rewrite Ea, Eb. cbn [bind]. exists (NOr a b). split; auto. split; [constructor; auto|].
    intros x. cbn [nsem]. rewrite Sa, Sb. symmetry. apply existsb_app_split.
Qed.

(* BuildORTree: the fold terminates and denotes the union of its operands *)
Theorem build_or_tree_sound rev vs :
  Forall (wf_ntree rev) vs ->
  exists t, build_or_tree vs = Ok t /\ wf_ntree rev t /\
            (forall x, nsem t x = existsb (fun v => nsem v x) vs).
Proof. intros W. apply tree_fold_sound; auto. Qed.

(* ---- the executable spec checker accepts what the model computes ---- *)
Lemma strictly_sorted_of rev l : ssorted rev l -> strictly_sorted rev l = true.
Proof.
  induction l as [|a l IH]; intros H; auto.
  destruct (ssorted_inv _ _ _ H) as [S F]. destruct l as [|b l]; auto.
  cbn [strictly_sorted] in *. rewrite (F b) by (left; reflexivity). rewrite IH; auto.
Qed.

Theorem node_case_spec_ok rev t : wf_ntree rev t ->
  exists out, eval_ntree rev t = Ok out /\ case_agrees (CNode rev t out) = true
              /\ case_spec_ok (CNode rev t out) = true.
Proof.
  intros W. destruct (nodes_sound rev t W) as [out [E [S I]]]. exists out. split; auto. split.
  - cbn [case_agrees]. rewrite E. cbn [resl_eqb].
    clear. induction out as [|a out IH]; simpl; auto. rewrite N.eqb_refl. exact IH.
  - cbn [case_spec_ok]. rewrite strictly_sorted_of by auto. cbn [andb].
    apply andb_true_iff. split.
    + apply forallb_forall. intros x Hx. apply I. exact Hx.
    + apply forallb_forall. intros x Hx. apply filter_In in Hx. destruct Hx as [_ Hx].
      apply memN_In. apply I. exact Hx.
Qed.

(* conversely: whatever list passes the spec checker of a node case IS the strictly monotone list of the
   tree's denotation (so the checker is as strong as the theorem) *)
Lemma strictly_sorted_to rev l : strictly_sorted rev l = true -> ssorted rev l.
Proof.
  induction l as [|a l IH]; intros H; [constructor|].
  destruct l as [|b l]; [constructor; constructor|].
  cbn [strictly_sorted] in H. apply andb_true_iff in H. destruct H as [H1 H2].
  specialize (IH H2). apply ssorted_cons; auto.
  intros x [Hx|Hx]; [subst; auto|].
  destruct (ssorted_inv _ _ _ IH) as [_ F]. eapply less_trans; eauto.
Qed.

Lemma nsem_universe t : forall x, nsem t x = true -> In x (universe t).
Proof.
  induction t as [d|l IHl r IHr|l IHl r IHr|n IHn r IHr|c IHc lo hi]; intros x H; cbn [nsem universe] in *.
  - apply memN_In. exact H.
  - apply andb_true_iff in H. apply in_or_app. left. apply IHl. tauto.
  - apply orb_true_iff in H. apply in_or_app. destruct H; [left; apply IHl|right; apply IHr]; auto.
  - apply andb_true_iff in H. apply in_or_app. right. apply IHr. tauto.
  - rewrite !andb_true_iff, !N.leb_le in H. apply in_or_app. left. apply iota_In. lia.
Qed.

Theorem node_spec_ok_complete rev t impl :
  case_spec_ok (CNode rev t impl) = true ->
  ssorted rev impl /\ (forall x, In x impl <-> nsem t x = true).
Proof.
  cbn [case_spec_ok]. rewrite !andb_true_iff. intros [[H1 H2] H3]. split; [apply strictly_sorted_to; auto|].
  intros x. split.
  - intros Hx. rewrite forallb_forall in H2. auto.
  - intros Hx. rewrite forallb_forall in H3. apply memN_In. apply H3. apply filter_In. split; auto.
    apply nsem_universe. exact Hx.
Qed.
