(* C02 — the sealed search equals the specification; the provider's clamp does not change the answer. *)
From Coq Require Import List Bool Arith NArith Lia Sorting.Sorted Sorting.Permutation.
From C02 Require Import Model ModelTx ModelSealed CaseDefs ProofsNodes ProofsBorders ProofsIterate ProofsFold ProofsLeaf
     ProofsSearch ProofsTx3 ProofsSealedIds.
From C02 Require SealedLids SLCodec SLSearch SLGen SLLids.
Import ListNotations.
Open Scope N_scope.

(* ---------------------------------------------------------------- the sorted dictionary *)
Lemma ins_tok_In t u l : In u (ins_tok t l) <-> u = t \/ In u l.
Proof.
  induction l as [|s l IH]; simpl.
  - intuition.
  - destruct (tok_eqb s t) eqn:E.
    + apply tok_eqb_eq in E. subst s. simpl. intuition.
    + destruct (tok_leb t s); simpl; [intuition|]. rewrite IH. intuition.
Qed.

Lemma fold_ins_In ts : forall acc u,
  In u (fold_left (fun a t => ins_tok t a) ts acc) <-> In u ts \/ In u acc.
Proof.
  induction ts as [|t ts IH]; intros acc u; simpl.
  - intuition.
  - rewrite IH, ins_tok_In. intuition.
Qed.

Lemma svocab_fold_In tab : forall acc u,
  In u (fold_left (fun acc d => fold_left (fun a t => ins_tok t a) (dtoks d) acc) tab acc)
  <-> (exists d, In d tab /\ In u (dtoks d)) \/ In u acc.
Proof.
  induction tab as [|d tab IH]; intros acc u; simpl.
  - split; [auto|intros [[d [[] _]]|H]; auto].
  - rewrite IH, fold_ins_In. split.
    + intros [[d' [H1 H2]]|[H|H]]; auto; left; [exists d'|exists d]; auto.
    + intros [[d' [[H1|H1] H2]]|H]; auto. subst; auto. left. exists d'. auto.
Qed.

Lemma svocab_In tab u : In u (svocab tab) <-> exists d, In d tab /\ In u (dtoks d).
Proof. unfold svocab. rewrite svocab_fold_In. simpl. intuition. Qed.

Lemma group_concat l : concat (group_fields l) = l.
Proof.
  induction l as [|t l IH]; [reflexivity|]. cbn [group_fields].
  destruct (group_fields l) as [|[|u g] gs]; simpl in *; try (rewrite <- IH; reflexivity).
  destruct (fst t =? fst u); simpl; rewrite <- IH; reflexivity.
Qed.

(* ---------------------------------------------------------------- the posting lists handed to the block generator *)
Lemma ss_impl {A} (R R' : A -> A -> Prop) l : (forall a b, R a b -> R' a b) -> StronglySorted R l -> StronglySorted R' l.
Proof.
  intros H. induction 1 as [|a l S IH F]; constructor; auto.
  rewrite Forall_forall in *. auto.
Qed.

Lemma ss_filter {A} (R : A -> A -> Prop) f l : StronglySorted R l -> StronglySorted R (filter f l).
Proof.
  induction 1 as [|a l S IH F]; simpl; [constructor|]. destruct (f a); auto. constructor; auto.
  rewrite Forall_forall in *. intros x Hx. apply filter_In in Hx. apply F. tauto.
Qed.

Section Sealed.
  Context {tm : Matcher}.
  Variables ipb cap : N.
  Variable c : list doc.
  Hypothesis Hipb : 1 <= ipb.
  Hypothesis Hcap : 1 <= cap.
  Hypothesis Hok : Forall ok_doc64 c.
  Hypothesis Hnd : NoDup (map did c).
  Hypothesis Hlen : N.of_nat (length c) + 1 < two32.
  Hypothesis Hvoc : N.of_nat (length (svocab (table c))) < 4294967295.

  Let tab := table c.
  Let voc := svocab tab.
  Let fields := map (map (full_posting tab)) (group_fields voc).

  Lemma Hok1 : Forall ok_doc c.
  Proof. rewrite Forall_forall in *. intros d Hd. apply Hok. exact Hd. Qed.

  Lemma tab_ok64 : Forall ok_doc64 tab.
  Proof.
    rewrite Forall_forall in *. intros d Hd. apply Hok.
    eapply Permutation_in; [apply Permutation_sym; apply table_perm|exact Hd].
  Qed.

  Lemma tab_length : length tab = length c.
  Proof. symmetry. apply Permutation_length. apply table_perm. Qed.

  Lemma full_posting_In t x :
    In x (full_posting tab t) <-> 1 <= x /\ exists d, dl tab x = Some d /\ has_tok t d = true.
  Proof.
    unfold full_posting. rewrite posting_In. unfold dl. split.
    - intros [_ [_ [A B]]]. auto.
    - intros [A [d [E F]]]. split; [lia|]. split; [|eauto].
      assert (nth_error tab (N.to_nat (x - 1)) <> None) by congruence. apply nth_error_Some in H. lia.
  Qed.

  Lemma full_posting_ok t : In t voc -> SLGen.post_ok (full_posting tab t).
  Proof.
    intros Ht. apply svocab_In in Ht. destruct Ht as [d [Hd Hu]]. split.
    - apply In_nth_error in Hd. destruct Hd as [n En].
      assert (In (N.of_nat n + 1) (full_posting tab t)).
      { apply full_posting_In. split; [lia|]. exists d. split; [|apply has_tok_In; auto].
        unfold dl. replace (N.to_nat (N.of_nat n + 1 - 1)) with n by lia. exact En. }
      intros E. rewrite E in H. destruct H.
    - apply Forall_forall. intros x Hx. apply full_posting_In in Hx. destruct Hx as [_ [d' [E _]]].
      unfold dl in E. assert (nth_error tab (N.to_nat (x - 1)) <> None) by congruence. apply nth_error_Some in H.
      unfold SLCodec.lid_ok. rewrite tab_length in H. unfold two32 in Hlen. lia.
  Qed.

  Lemma full_posting_sorted t : SLSearch.sorted (full_posting tab t).
  Proof.
    unfold SLSearch.sorted, full_posting. eapply ss_impl; [|apply posting_sorted].
    intros a b H. unfold ltd, less in H. apply N.ltb_lt. exact H.
  Qed.

  Lemma fields_concat : concat fields = map (full_posting tab) voc.
  Proof. unfold fields. rewrite <- concat_map, group_concat. reflexivity. Qed.

  Lemma fields_ok : SLGen.input_ok fields.
  Proof.
    unfold SLGen.input_ok, fields. apply Forall_forall. intros f Hf. apply in_map_iff in Hf.
    destruct Hf as [g [<- Hg]]. apply Forall_forall. intros l Hl. apply in_map_iff in Hl. destruct Hl as [t [<- Ht]].
    apply full_posting_ok. rewrite <- (group_concat voc). apply in_concat. eauto.
  Qed.

  Lemma fields_sorted : SLLids.input_sorted fields.
  Proof.
    unfold SLLids.input_sorted, fields. apply Forall_forall. intros f Hf. apply in_map_iff in Hf.
    destruct Hf as [g [<- Hg]]. apply Forall_forall. intros l Hl. apply in_map_iff in Hl. destruct Hl as [t [<- Ht]].
    apply full_posting_sorted.
  Qed.

  Lemma fields_total : SLLids.tokens_total fields = N.of_nat (length voc).
  Proof. unfold SLLids.tokens_total. rewrite fields_concat, map_length. reflexivity. Qed.

  (* what the sealed form returns for the k-th token of the dictionary *)
  Definition Lsel (lo hi : N) (t : tok) : list N := filter (SL.in_range lo hi) (full_posting tab t).

  Lemma read_ok (rev : bool) lo hi k t : nth_error voc k = Some t ->
    SL.read_postings rev (N.to_nat cap) fields (1 + N.of_nat k) lo hi =
      SL.Ok (if rev then List.rev (Lsel lo hi t) else Lsel lo hi t).
  Proof.
    intros E. assert (Hk : (k < length voc)%nat) by (apply nth_error_Some; congruence).
    rewrite SLLids.lids_roundtrip.
    - unfold SL.expected, SL.postings. destruct (1 + N.of_nat k) eqn:E1; [lia|]. rewrite <- E1.
      replace (N.to_nat (1 + N.of_nat k - 1)) with k by lia. rewrite fields_concat.
      rewrite (nth_indep _ [] (full_posting tab t)) by (rewrite map_length; exact Hk).
      rewrite map_nth. rewrite (nth_error_nth _ _ _ E). reflexivity.
    - lia.
    - apply fields_ok.
    - apply fields_sorted.
    - rewrite fields_total. unfold voc, tab. exact Hvoc.
    - rewrite fields_total. lia.
  Qed.

  Let sp := sprepare ipb cap c.

  Lemma sp_facts : exists bs, SL.sealed_blocks (N.to_nat cap) fields = SL.Ok bs /\
    sp_ok sp = true /\ sp_tab sp = tab /\ sp_ids sp = seal_ids ipb tab /\ sp_voc sp = voc /\
    sp_table sp = SL.loaded_table bs /\ sp_chunks sp = SL.roundtrip_chunks bs.
  Proof.
    assert (Hc : (0 < N.to_nat cap)%nat) by lia.
    destruct (SLGen.gen_blocks_ok (N.to_nat cap) fields Hc fields_ok) as [bs [Eg _]].
    exists bs. unfold sp, sprepare. fold tab. fold voc. fold fields. unfold SL.sealed_blocks. rewrite Eg.
    repeat split; reflexivity.
  Qed.

  Lemma sealed_nodes_ok (read : N -> SL.res (list N)) (rev : bool) (p : pat) (L : tok -> list N) : forall vs tid0,
    (forall k t, nth_error vs k = Some t -> read (tid0 + N.of_nat k) = SL.Ok (if rev then List.rev (L t) else L t)) ->
    sealed_nodes read rev p tid0 vs = Ok (map (fun t => NStatic (L t)) (filter (tok_match p) vs)).
  Proof.
    induction vs as [|t vs IH]; intros tid0 H; cbn [sealed_nodes filter map]; [reflexivity|].
    assert (H' : forall k t0, nth_error vs k = Some t0 ->
                 read (tid0 + 1 + N.of_nat k) = SL.Ok (if rev then List.rev (L t0) else L t0)).
    { intros k t0 E. replace (tid0 + 1 + N.of_nat k) with (tid0 + N.of_nat (S k)) by lia. apply H. exact E. }
    destruct (tok_match p t).
    - pose proof (H O t eq_refl) as R. rewrite N.add_0_r in R. rewrite R. rewrite (IH _ H'). cbn [bind map].
      destruct rev; [rewrite rev_involutive|]; reflexivity.
    - apply IH. exact H'.
  Qed.

  Section Leaf.
    Variables lo hi : N.
    Variable rev : bool.
    Hypothesis Hlo : 1 <= lo.

    Lemma sealed_leaf_sound p :
      exists t, sealed_leaf sp lo hi rev p = Ok t /\ wf_ntree rev t /\
                (forall x, nsem t x = true <-> sel tab lo hi (QLeaf p) x).
    Proof.
      destruct sp_facts as [bs [Eb [F1 [F2 [F3 [F4 [F5 F6]]]]]]].
      unfold sealed_leaf. rewrite F1, F4, F5, F6.
      rewrite (sealed_nodes_ok _ rev p (Lsel lo hi)).
      2:{ intros k t E. pose proof (read_ok rev lo hi k t E) as R. unfold SL.read_postings in R. rewrite Eb in R.
          exact R. }
      cbn [bind].
      set (vs := map (fun t => NStatic (Lsel lo hi t)) (filter (tok_match p) voc)).
      destruct (build_or_tree_sound rev vs) as [t [E [W S]]].
      { apply Forall_forall. intros v Hv. unfold vs in Hv. apply in_map_iff in Hv.
        destruct Hv as [tk [<- _]]. constructor. unfold Lsel, full_posting. apply ss_filter. apply posting_sorted. }
      exists t. split; auto. split; auto. intros x. rewrite S. rewrite existsb_exists. unfold sel. cbn [sat].
      assert (Lin : forall tk, In x (Lsel lo hi tk) <->
                lo <= x /\ x <= hi /\ exists d, dl tab x = Some d /\ has_tok tk d = true).
      { intros tk. unfold Lsel. rewrite filter_In, full_posting_In. unfold SL.in_range.
        rewrite andb_true_iff, !N.leb_le. split.
        - intros [[_ [d [A B]]] [C D]]. eauto.
        - intros [A [B [d [C D]]]]. split; [split; [lia|eauto]|auto]. }
      split.
      - intros [v [Hv Hx]]. unfold vs in Hv. apply in_map_iff in Hv. destruct Hv as [tk [<- Htk]].
        apply filter_In in Htk. destruct Htk as [_ M]. cbn [nsem] in Hx. apply memN_In in Hx.
        apply Lin in Hx. destruct Hx as [A [B [d [Ed Ht]]]].
        split; auto. split; auto. exists d. split; auto.
        apply existsb_exists. exists tk. split; auto. apply has_tok_In; auto.
      - intros [A [B [d [Ed Hs]]]]. apply existsb_exists in Hs. destruct Hs as [tk [Htk M]].
        exists (NStatic (Lsel lo hi tk)). split.
        + unfold vs. apply in_map_iff. exists tk. split; [reflexivity|]. apply filter_In. split; auto.
          apply svocab_In. exists d. split; auto. unfold dl in Ed. eapply nth_error_In; eauto.
        + cbn [nsem]. apply memN_In. apply Lin. split; auto. split; auto. exists d. split; auto. apply has_tok_In; auto.
    Qed.
  End Leaf.

  Variables from to : N.
  Variable q : query.
  Let mt := fun d => in_range from to d && sat q d.

  Lemma tree_lids_sealed_spec rev :
    exists lids, tree_lids_sealed sp q from to rev = Ok lids /\ ssorted rev lids /\
      (forall x, In x lids <-> 1 <= x /\ exists d, dl tab x = Some d /\ mt d = true).
  Proof.
    destruct sp_facts as [bs [Eb [F1 [F2 [F3 [F4 [F5 F6]]]]]]].
    destruct (borders_exact_corpus c from to Hok1) as [lo [hi [E [A [B [C D]]]]]]. fold tab in E, D.
    assert (Hhi : hi <= N.of_nat (length tab)) by (rewrite tab_length; exact C).
    assert (H32 : hi + 1 < two32) by lia.
    destruct (build_tree_with_sound tab lo hi rev A Hhi B H32 (sealed_leaf sp lo hi rev)
                (sealed_leaf_sound lo hi rev A) q) as [t [Ebt [W S]]].
    destruct (nodes_sound rev t W) as [lids [Ee [Ss Si]]].
    exists lids. split.
    - unfold tree_lids_sealed. rewrite F3.
      assert (Tot : s_total (seal_ids ipb tab) - 1 = N.of_nat (length tab)).
      { unfold seal_ids. cbn [s_total length]. rewrite map_length. lia. }
      rewrite Tot.
      rewrite (borders_with_ext _ (lid_le tab) _ from to
                 (fun lid x H => sealed_le_eq ipb tab Hipb (table_desc c) tab_ok64 lid x H)).
      rewrite borders_with_plain, E. cbn [bind fst snd]. rewrite Ebt. cbn [bind]. exact Ee.
    - split; auto. intros x. rewrite Si, S. unfold sel, mt. split.
      + intros [X1 [X2 [d [Ed Hs]]]]. split; [lia|]. exists d. split; auto.
        apply andb_true_iff. split; auto. apply (D x d Ed); lia.
      + intros [X1 [d [Ed Hm]]]. apply andb_true_iff in Hm. destruct Hm as [Hr Hs].
        apply (D x d Ed X1) in Hr. destruct Hr. split; auto. split; auto. eauto.
  Qed.

  Lemma sealed_get_eq lids :
    (forall x, In x lids -> 1 <= x /\ exists d, dl tab x = Some d) ->
    forall l, In l lids -> sid_get (seal_ids ipb tab) l = lid_id tab l.
  Proof.
    intros H l Hl. destruct (H l Hl) as [H1 [d Ed]].
    rewrite (sid_get_doc ipb tab Hipb l d H1 Ed). unfold lid_id. unfold dl in Ed. rewrite Ed. reflexivity.
  Qed.

  Theorem search_sealed_exact rev limit wt hist :
    search_sealed ipb cap c q from to rev limit wt hist = Ok (search_spec c q from to rev limit wt).
  Proof.
    destruct sp_facts as [bs [Eb [F1 [F2 [F3 [F4 [F5 F6]]]]]]].
    destruct (tree_lids_sealed_spec rev) as [lids [El [Ss Si]]].
    unfold search_sealed, search_sealed_prepared. fold sp. rewrite El. cbn [bind]. rewrite F3.
    rewrite (iterate_g_ext _ (lid_id tab)).
    2:{ apply sealed_get_eq. intros x Hx. apply Si in Hx. destruct Hx as [X1 [d [Ed _]]]. eauto. }
    rewrite iterate_g_plain.
    apply (search_finish c from to q Hnd). apply (stream_ids c from to q Hnd Hlen rev lids Ss Si).
  Qed.

  Theorem hist_sealed_exact rev hist :
    hist_sealed ipb cap c q from to rev hist = Ok (hist_spec c q from to hist).
  Proof.
    destruct sp_facts as [bs [Eb [F1 [F2 [F3 [F4 [F5 F6]]]]]]].
    unfold hist_sealed, hist_sealed_prepared, hist_spec. fold sp. destruct (0 <? hist); [|reflexivity].
    destruct (tree_lids_sealed_spec rev) as [lids [El [Ss Si]]]. rewrite El. cbn [bind]. f_equal. rewrite F3.
    rewrite (map_ext_in _ (fun l => fst (lid_id tab l))).
    2:{ intros l Hl. f_equal. apply (sealed_get_eq lids); auto.
        intros x Hx. apply Si in Hx. destruct Hx as [X1 [d [Ed _]]]. eauto. }
    apply (hist_finish c from to q rev hist tab lids). apply (stream_ids c from to q Hnd Hlen rev lids Ss Si).
  Qed.
End Sealed.

(* ---------------------------------------------------------------- link to the executable verdicts *)
#[local] Existing Instance glob_matcher.

Theorem sealed_case_ok ipb cap c from to q rev limit wt hist :
  1 <= ipb -> 1 <= cap -> Forall ok_doc64 c -> NoDup (map did c) -> N.of_nat (length c) + 1 < two32 ->
  N.of_nat (length (svocab (table c))) < 4294967295 ->
  let '(ids, total) := search_spec c q from to rev limit wt in
  let s := CaseDefs.SQ q q from to rev limit wt hist ids total (hist_spec c q from to hist) in
  CaseDefs.case_agrees (CaseDefs.CSealed ipb cap c [s]) = true /\
  CaseDefs.case_spec_ok (CaseDefs.CSealed ipb cap c [s]) = true.
Proof.
  intros H1 H2 H3 H4 H5 H6.
  assert (H3' : Forall ok_doc c) by (rewrite Forall_forall in *; intros d Hd; apply H3; exact Hd).
  pose proof (search_case_ok c from to q rev limit wt hist H3' H4 H5) as K.
  pose proof (search_sealed_exact ipb cap c H1 H2 H3 H4 H5 H6 from to q rev limit wt hist) as S.
  pose proof (hist_sealed_exact ipb cap c H1 H2 H3 H4 H5 H6 from to q rev hist) as Hh.
  destruct (search_spec c q from to rev limit wt) as [ids total] eqn:E. cbn zeta in *. destruct K as [K1 K2].
  cbn [CaseDefs.case_agrees CaseDefs.case_spec_ok forallb]. rewrite K1, K2. split; [|reflexivity].
  unfold CaseDefs.sq_agrees_sealed. unfold search_sealed in S. unfold hist_sealed in Hh. rewrite S, Hh.
  unfold CaseDefs.sq_spec_ok in K2. rewrite E in K2. rewrite K2. reflexivity.
Qed.
