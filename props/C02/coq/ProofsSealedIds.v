(* C02 — sealed IDs: blocks, the block-minimum shortcuts of LessOrEqual, borders and iterate over any IDs index. *)
From Coq Require Import List Bool Arith NArith Lia Sorting.Sorted Sorting.Permutation.
From C02 Require Import Model ModelTx ModelSealed ProofsNodes ProofsBorders ProofsIterate.
Import ListNotations.

(* ---------------------------------------------------------------- lists cut into blocks (nat arithmetic) *)
Lemma nth_firstn' {A} (d : A) : forall n l i, (i < n)%nat -> nth i (firstn n l) d = nth i l d.
Proof.
  induction n as [|n IH]; intros l i H; [lia|]. destruct l as [|a l]; [reflexivity|].
  destruct i as [|i]; simpl; auto. apply IH. lia.
Qed.

Lemma nth_skipn' {A} (d : A) : forall n l j, nth j (skipn n l) d = nth (n + j) l d.
Proof.
  induction n as [|n IH]; intros l j; [reflexivity|]. destruct l as [|a l]; simpl.
  - destruct j; reflexivity.
  - apply IH.
Qed.

Lemma nth_nil {A} (d : A) n : nth n [] d = d.
Proof. destruct n; reflexivity. Qed.

Lemma nth_0_cons {A} (x : A) r d : nth 0 (x :: r) d = x. Proof. reflexivity. Qed.
Lemma nth_S_cons {A} (x : A) r d k : nth (S k) (x :: r) d = nth k r d. Proof. reflexivity. Qed.

Lemma chop_nth {A} (d : A) : forall fuel size l i, (0 < size)%nat -> (length l <= fuel)%nat ->
  nth (i mod size) (nth (i / size) (chop fuel size l) []) d = nth i l d.
Proof.
  induction fuel as [|fuel IH]; intros size l i Hs Hl.
  - destruct l; [|simpl in Hl; lia]. cbn [chop]. rewrite !nth_nil. reflexivity.
  - destruct l as [|a l]; [cbn [chop]; rewrite !nth_nil; reflexivity|].
    cbn [chop]. set (l0 := a :: l) in *. assert (L0 : (1 <= length l0)%nat) by (unfold l0; simpl; lia). clearbody l0.
    destruct (Nat.lt_ge_cases i size) as [C|C].
    + rewrite Nat.div_small, Nat.mod_small by lia. rewrite nth_0_cons. apply nth_firstn'. exact C.
    + replace i with ((i - size) + 1 * size)%nat at 1 2 by lia.
      rewrite Nat.div_add, Nat.mod_add by lia. replace ((i - size) / size + 1)%nat with (S ((i - size) / size)) by lia.
      rewrite nth_S_cons. rewrite IH; auto.
      * rewrite nth_skipn'. f_equal. lia.
      * rewrite skipn_length. lia.
Qed.

Lemma chop_block_length {A} : forall fuel size (l : list A) b, (0 < size)%nat -> (length l <= fuel)%nat ->
  length (nth b (chop fuel size l) []) = Nat.min size (length l - b * size).
Proof.
  induction fuel as [|fuel IH]; intros size l b Hs Hl.
  - destruct l; [|simpl in Hl; lia]. cbn [chop]. rewrite nth_nil. simpl. lia.
  - destruct l as [|a l]; [cbn [chop]; rewrite nth_nil; simpl; lia|].
    cbn [chop]. set (l0 := a :: l) in *. assert (L0 : (1 <= length l0)%nat) by (unfold l0; simpl; lia). clearbody l0.
    destruct b as [|b].
    + rewrite nth_0_cons. rewrite firstn_length. simpl. lia.
    + rewrite nth_S_cons. rewrite IH; auto.
      * rewrite skipn_length. simpl. lia.
      * rewrite skipn_length. lia.
Qed.

Lemma last_nth {A} (d : A) : forall l, last l d = nth (length l - 1) l d.
Proof.
  induction l as [|a l IH]; [reflexivity|]. destruct l as [|b l]; [reflexivity|].
  change (last (a :: b :: l) d) with (last (b :: l) d). rewrite IH. simpl. rewrite Nat.sub_0_r. reflexivity.
Qed.

Open Scope N_scope.

(* ---------------------------------------------------------------- the sealed IDs index *)
Definition ok_doc64 (d : doc) : Prop := ok_doc d /\ dmid d <= max_u64.

Section Ids.
  Variable ipb : N.
  Variable tab : list doc.
  Hypothesis Hipb : 1 <= ipb.
  Hypothesis Hdesc : desc_table tab.
  Hypothesis Hok : Forall ok_doc64 tab.

  Let ids := sys_id :: map did tab.
  Let s := seal_ids ipb tab.

  Lemma sid_get_flat lid : sid_get s lid = nth (N.to_nat lid) ids (0, 0).
  Proof.
    unfold sid_get, s, seal_ids. cbn [s_blocks s_ipb]. fold ids.
    rewrite N2Nat.inj_mod, N2Nat.inj_div. apply chop_nth; lia.
  Qed.

  Lemma sid_get_doc lid d : 1 <= lid -> dl tab lid = Some d -> sid_get s lid = did d.
  Proof.
    intros H1 Hd. rewrite sid_get_flat. unfold ids, dl in *.
    replace (N.to_nat lid) with (S (N.to_nat (lid - 1))) by lia. cbn [nth].
    apply nth_error_split in Hd. destruct Hd as [l1 [l2 [E L]]]. rewrite E, map_app, app_nth2; rewrite map_length; [|lia].
    rewrite L, Nat.sub_diag. reflexivity.
  Qed.

  (* the flat list never increases *)
  Lemma ids_desc i j : (i <= j)%nat -> (j < length ids)%nat ->
    id_le (nth j ids (0, 0)) (nth i ids (0, 0)) = true.
  Proof.
    intros Hij Hj.
    assert (Hrefl : forall x : id, id_le x x = true).
    { intros [m r]. unfold id_le. simpl. rewrite N.eqb_refl, N.leb_refl. apply orb_true_r. }
    destruct (Nat.eq_dec i j) as [->|Hne]; [apply Hrefl|].
    unfold ids in *. simpl in Hj. rewrite map_length in Hj.
    destruct j as [|j]; [lia|]. cbn [nth].
    assert (Ej : exists dj, nth_error tab j = Some dj).
    { destruct (nth_error tab j) eqn:E; eauto. apply nth_error_None in E. lia. }
    destruct Ej as [dj Ej].
    assert (Nj : nth j (map did tab) (0, 0) = did dj).
    { apply nth_error_split in Ej. destruct Ej as [l1 [l2 [E L]]]. rewrite E, map_app, app_nth2; rewrite map_length; [|lia].
      rewrite L, Nat.sub_diag. reflexivity. }
    rewrite Nj. destruct i as [|i].
    - cbn [nth]. rewrite Forall_forall in Hok. destruct (Hok dj (nth_error_In _ _ Ej)) as [[_ R] M].
      unfold id_le, sys_id, did. cbn [fst snd]. apply N.leb_le in R.
      destruct (N.ltb_spec (dmid dj) max_u64); simpl; auto.
      assert (dmid dj = max_u64) by lia. rewrite H0, N.eqb_refl. simpl. exact R.
    - cbn [nth].
      assert (Ei : exists di, nth_error tab i = Some di).
      { destruct (nth_error tab i) eqn:E; eauto. apply nth_error_None in E. lia. }
      destruct Ei as [di Ei].
      assert (Ni : nth i (map did tab) (0, 0) = did di).
      { apply nth_error_split in Ei. destruct Ei as [l1 [l2 [E L]]]. rewrite E, map_app, app_nth2; rewrite map_length; [|lia].
        rewrite L, Nat.sub_diag. reflexivity. }
      rewrite Ni. apply id_le_geb. eapply (ssorted_nth _ tab Hdesc i j); eauto. lia.
  Qed.

  Lemma mins_nth b : nth b (s_mins s) (0, 0) = last (nth b (s_blocks s) []) (0, 0).
  Proof.
    unfold s, seal_ids. cbn [s_mins s_blocks].
    exact (map_nth (fun b : list id => last b (0, 0)) _ [] b).
  Qed.

  (* the last ID of block b, for a block that exists *)
  Lemma block_last b : (b * N.to_nat ipb < length ids)%nat ->
    exists k, nth b (s_mins s) (0, 0) = nth k ids (0, 0) /\ (k < length ids)%nat /\
              (b * N.to_nat ipb <= k)%nat /\ (k < (b + 1) * N.to_nat ipb)%nat /\
              ((b + 1) * N.to_nat ipb <= length ids -> k = (b + 1) * N.to_nat ipb - 1)%nat /\
              (forall i, (i < length ids)%nat -> (i / N.to_nat ipb = b)%nat -> (i <= k)%nat).
  Proof.
    intros Hb. set (size := N.to_nat ipb) in *. assert (Hs : (0 < size)%nat) by (unfold size; lia).
    rewrite mins_nth, last_nth. unfold s, seal_ids. cbn [s_blocks]. fold ids. fold size.
    set (blk := nth b (chop (length ids) size ids) []).
    assert (Lb : length blk = Nat.min size (length ids - b * size)).
    { unfold blk. apply chop_block_length; lia. }
    set (j := (length blk - 1)%nat).
    assert (Hj : (j < size)%nat) by (unfold j; lia).
    exists (b * size + j)%nat.
    assert (Ed : ((b * size + j) / size = b)%nat).
    { rewrite Nat.add_comm, Nat.div_add by lia. rewrite Nat.div_small by lia. reflexivity. }
    assert (Em : ((b * size + j) mod size = j)%nat).
    { rewrite Nat.add_comm, Nat.mod_add by lia. apply Nat.mod_small. lia. }
    split.
    - pose proof (chop_nth (0, 0) (length ids) size ids (b * size + j) Hs (le_n _)) as Q. rewrite Ed, Em in Q.
      exact Q.
    - split; [unfold j; lia|]. split; [lia|]. split; [lia|]. split; [unfold j; lia|].
      intros i Hi Hd. pose proof (Nat.div_mod i size ltac:(lia)) as DM. rewrite Hd in DM.
      pose proof (Nat.mod_upper_bound i size ltac:(lia)). unfold j. nia.
  Qed.

  (* sealedIDsIndex.LessOrEqual = the plain comparison with the ID at that LID *)
  Lemma sealed_le_eq lid x : 1 <= lid -> sealed_le s lid x = lid_le tab lid x.
  Proof.
    intros H1. unfold sealed_le.
    assert (Tot : s_total s = N.of_nat (length ids)) by reflexivity.
    assert (Len : length ids = S (length tab)) by (unfold ids; simpl; rewrite map_length; reflexivity).
    rewrite Tot. destruct (N.leb_spec (N.of_nat (length ids)) lid) as [Hout|Hin].
    - unfold lid_le. destruct (nth_error tab (N.to_nat (lid - 1))) eqn:E; auto.
      assert (nth_error tab (N.to_nat (lid - 1)) <> None) by congruence. apply nth_error_Some in H. lia.
    - assert (Ed : exists d, dl tab lid = Some d).
      { unfold dl. destruct (nth_error tab (N.to_nat (lid - 1))) eqn:E; eauto. apply nth_error_None in E. lia. }
      destruct Ed as [d Ed]. unfold lid_le. unfold dl in Ed. rewrite Ed.
      pose proof (sid_get_doc lid d H1 Ed) as G.
      assert (Gf : nth (N.to_nat lid) ids (0, 0) = did d) by (rewrite <- sid_get_flat; exact G).
      assert (Ei : s_ipb s = ipb) by reflexivity. rewrite Ei.
      set (size := N.to_nat ipb). assert (Hs : (0 < size)%nat) by (unfold size; lia).
      assert (Eb : N.to_nat (lid / ipb) = (N.to_nat lid / size)%nat) by (rewrite N2Nat.inj_div; reflexivity).
      rewrite Eb. set (b := (N.to_nat lid / size)%nat).
      assert (Hb : (b * size <= N.to_nat lid)%nat).
      { unfold b. rewrite Nat.mul_comm. apply Nat.mul_div_le. lia. }
      destruct (block_last b) as [k [Ek [K1 [K2 [K3 [_ K5]]]]]]; [fold size; lia|]. fold size in K2, K3.
      rewrite Ek.
      assert (Lk : (N.to_nat lid <= k)%nat) by (apply K5; [lia|reflexivity]).
      destruct (id_le (nth k ids (0, 0)) x) eqn:C1; cbn [negb].
      + destruct ((0 <? b)%nat && id_le (nth (b - 1) (s_mins s) (0, 0)) x) eqn:C2.
        * apply andb_true_iff in C2. destruct C2 as [B0 C2]. apply Nat.ltb_lt in B0.
          destruct (block_last (b - 1)%nat) as [k' [Ek' [K1' [K2' [K3' [K4' _]]]]]]; [fold size; nia|]. fold size in K2', K3', K4'.
          rewrite Ek' in C2. assert (k' = ((b - 1 + 1) * size - 1)%nat) by (apply K4'; nia).
          symmetry. eapply id_le_trans; [|exact C2]. rewrite <- Gf. apply ids_desc; [nia|lia].
        * rewrite G. unfold id_le. destruct (did d) as [m r] eqn:Edid. destruct x as [xm xr]. cbn [fst snd].
          destruct (N.eqb_spec m xm) as [->|Hne].
          -- rewrite N.ltb_irrefl. simpl. destruct (N.eqb_spec xr max_u64) as [->|Hx]; auto.
             symmetry. apply N.leb_le. rewrite Forall_forall in Hok.
             destruct (Hok d (nth_error_In _ _ Ed)) as [[_ R] _].
             assert (drid d = r) by (unfold did in Edid; inversion Edid; reflexivity). lia.
          -- simpl. rewrite orb_false_r. reflexivity.
      + symmetry. destruct (id_le (did d) x) eqn:C3; auto.
        rewrite <- C1. symmetry. eapply id_le_trans; [|exact C3]. rewrite <- Gf. apply ids_desc; lia.
  Qed.
End Ids.

(* ---------------------------------------------------------------- borders over any index *)
Lemma search_loop_ext : forall fuel f g i j, (forall k, f k = g k) -> search_loop fuel f i j = search_loop fuel g i j.
Proof.
  induction fuel as [|fuel IH]; intros f g i j H; cbn [search_loop]; [reflexivity|].
  destruct (i <? j); auto. rewrite H. destruct (g ((i + j) / 2)); apply IH; auto.
Qed.

Lemma bin_search_ext from to f g : (forall lid, from <= lid -> f lid = g lid) ->
  bin_search_in_range from to f = bin_search_in_range from to g.
Proof.
  intros H. unfold bin_search_in_range. f_equal. apply search_loop_ext. intros k. apply H. lia.
Qed.

Lemma bin_search_ge from to f r : bin_search_in_range from to f = Ok r -> from <= r.
Proof.
  unfold bin_search_in_range. destruct (search_loop _ _ 0 (to + 1 - from)) as [i|]; cbn [bind]; [|discriminate].
  intros E. inversion E. lia.
Qed.

Lemma borders_with_ext le1 le2 last from to : (forall lid x, 1 <= lid -> le1 lid x = le2 lid x) ->
  lids_borders_with le1 last from to = lids_borders_with le2 last from to.
Proof.
  intros H. unfold lids_borders_with.
  rewrite (bin_search_ext 1 last (fun lid => le1 lid (to, max_u64)) (fun lid => le2 lid (to, max_u64))) by (intros; apply H; auto).
  destruct (bin_search_in_range 1 last (fun lid => le2 lid (to, max_u64))) as [r|] eqn:E; cbn [bind]; [|reflexivity].
  apply bin_search_ge in E.
  rewrite (bin_search_ext r last _ (fun lid => le2 lid (if 0 <? from then (from - 1, max_u64) else (from, 0))));
    [reflexivity|]. intros lid Hl. apply H. lia.
Qed.

Lemma borders_with_plain tab from to :
  lids_borders_with (lid_le tab) (N.of_nat (length tab)) from to = lids_borders from to tab.
Proof. reflexivity. Qed.

(* ---------------------------------------------------------------- iterate over any index *)
Lemma iterate_g_plain tab limit sa : forall lids nids total last,
  iterate_g (lid_id tab) limit sa lids nids total last = iterate tab limit sa lids nids total last.
Proof.
  induction lids as [|l lids IH]; intros nids total last; cbn [iterate_g iterate]; [reflexivity|].
  destruct (negb (nids <? limit) && negb sa); auto. destruct (nids <? limit); [|apply IH].
  destruct ((total =? 0) || negb (id_eqb last (lid_id tab l))); rewrite IH; reflexivity.
Qed.

Lemma iterate_g_ext g1 g2 limit sa : forall lids nids total last, (forall l, In l lids -> g1 l = g2 l) ->
  iterate_g g1 limit sa lids nids total last = iterate_g g2 limit sa lids nids total last.
Proof.
  induction lids as [|l lids IH]; intros nids total last H; cbn [iterate_g]; [reflexivity|].
  destruct (negb (nids <? limit) && negb sa); auto.
  assert (E : g1 l = g2 l) by (apply H; left; reflexivity).
  assert (H' : forall l0, In l0 lids -> g1 l0 = g2 l0) by (intros; apply H; right; auto).
  destruct (nids <? limit); [|apply IH; auto]. rewrite E.
  destruct ((total =? 0) || negb (id_eqb last (g2 l))); rewrite IH; auto.
Qed.
