(* C02 — executable model of the search path of one fraction.
   Mirrors: node/node_and.go, node_or.go, node_nand.go, node_not.go, node_range.go, node_static.go,
            node/builder.go (TreeFold / BuildORTree), node/less_fn.go,
            frac/processor/search.go (getLIDsBorders, iterateEvalTree, IndexSearch),
            frac/processor/eval_tree.go (buildEvalTree, evalLeaf), util.BinSearchInRange / sort.Search,
            LID order of frac/active_lids.go + frac/inverser.go and of the sealed ID table
            (external LID = 1-based position in the (MID,RID,arrival)-descending order).
   Child nodes are consumed only through Next(), so a child is represented by the finite list of the
   values its Next() yields; every function below is the transcription of one Next() loop (structural
   recursion; fuel only where the Go loop is not structurally bounded).
   No proofs in this file. *)
From Coq Require Export List Bool Arith NArith ZArith.
From Coq Require Import Sorting.Mergesort Orders.
Export ListNotations.
Open Scope N_scope.

Inductive res (A : Type) := Ok (a : A) | OutOfFuel.
Arguments Ok {A} a. Arguments OutOfFuel {A}.

Definition bind {A B} (r : res A) (f : A -> res B) : res B :=
  match r with Ok a => f a | OutOfFuel => OutOfFuel end.

(* ---------------------------------------------------------------- node/less_fn.go *)
(* reverse = seq.DocsOrderAsc: LIDs are walked downwards *)
Definition less (rev : bool) (a b : N) : bool := if rev then b <? a else a <? b.

(* ---------------------------------------------------------------- node/node_and.go *)
(* heads of the two lists = leftID / rightID, [] = !has *)
Fixpoint and_drain (rev : bool) (l : list N) : list N -> list N :=
  fix go (r : list N) : list N :=
    match l, r with
    | a :: l', b :: r' =>
        if less rev a b then and_drain rev l' r          (* readLeft *)
        else if less rev b a then go r'                  (* readRight *)
        else a :: and_drain rev l' r'                    (* equal: emit, readLeft, readRight *)
    | _, _ => []
    end.

(* ---------------------------------------------------------------- node/node_or.go *)
Fixpoint or_drain (rev : bool) (l : list N) : list N -> list N :=
  fix go (r : list N) : list N :=
    match l, r with
    | [], [] => []
    | a :: l', [] => a :: or_drain rev l' []
    | [], b :: r' => b :: go r'
    | a :: l', b :: r' =>
        if less rev a b then a :: or_drain rev l' r
        else if less rev b a then b :: go r'
        else a :: or_drain rev l' r'                     (* equal: emit once, advance both *)
    end.

(* ---------------------------------------------------------------- node/node_nand.go *)
Fixpoint skip_less (rev : bool) (x : N) (neg : list N) : list N :=
  match neg with
  | n :: neg' => if less rev n x then skip_less rev x neg' else neg
  | [] => []
  end.

Fixpoint nand_drain (rev : bool) (neg reg : list N) : list N :=
  match reg with
  | [] => []
  | x :: reg' =>
      let neg' := skip_less rev x neg in
      match neg' with
      | n :: _ => if n =? x then nand_drain rev neg' reg' else x :: nand_drain rev neg' reg'
      | [] => x :: nand_drain rev neg' reg'
      end
  end.

(* ---------------------------------------------------------------- node/node_range.go *)
(* cur is a Go int, converted with uint32(cur) at each use *)
Definition u32 (z : Z) : N := Z.to_N (z mod 4294967296).

Fixpoint range_drain (fuel : nat) (rev : bool) (maxVal : N) (cur step : Z) : res (list N) :=
  match fuel with
  | O => OutOfFuel
  | S f =>
      if less rev maxVal (u32 cur) then Ok []
      else bind (range_drain f rev maxVal (cur + step) step) (fun l => Ok (u32 cur :: l))
  end.

(* NewRange: swaps the borders and steps by -1 when reverse *)
Definition range_node (fuel : nat) (rev : bool) (minVal maxVal : N) : res (list N) :=
  if rev then range_drain fuel rev minVal (Z.of_N maxVal) (-1)%Z
  else range_drain fuel rev maxVal (Z.of_N minVal) 1%Z.

Definition range_fuel (lo hi : N) : nat := N.to_nat (hi + 1 - lo) + 1.

(* ---------------------------------------------------------------- node trees *)
Inductive ntree :=
| NStatic (data : list N)            (* node.NewStatic: data ascending; reverse walks it from the end *)
| NAnd (l r : ntree)
| NOr (l r : ntree)
| NNAnd (neg reg : ntree)
| NNot (c : ntree) (lo hi : N).      (* node.NewNot = NewNAnd(child, NewRange(lo, hi)) *)

Fixpoint eval_ntree (rev : bool) (t : ntree) : res (list N) :=
  match t with
  | NStatic d => Ok (if rev then List.rev d else d)
  | NAnd l r => bind (eval_ntree rev l) (fun a => bind (eval_ntree rev r) (fun b => Ok (and_drain rev a b)))
  | NOr l r => bind (eval_ntree rev l) (fun a => bind (eval_ntree rev r) (fun b => Ok (or_drain rev a b)))
  | NNAnd n r => bind (eval_ntree rev n) (fun a => bind (eval_ntree rev r) (fun b => Ok (nand_drain rev a b)))
  | NNot c lo hi =>
      bind (eval_ntree rev c) (fun a =>
      bind (range_node (range_fuel lo hi) rev lo hi) (fun b => Ok (nand_drain rev a b)))
  end.

(* ---------------------------------------------------------------- specification of node trees *)
(* set denotation of a node tree (independent of the merge algorithms) *)
Definition memN (x : N) (l : list N) : bool := existsb (N.eqb x) l.

Fixpoint nsem (t : ntree) (x : N) : bool :=
  match t with
  | NStatic d => memN x d
  | NAnd l r => nsem l x && nsem r x
  | NOr l r => nsem l x || nsem r x
  | NNAnd n r => negb (nsem n x) && nsem r x
  | NNot c lo hi => (lo <=? x) && (x <=? hi) && negb (nsem c x)
  end.

(* lo, lo+1, ..., lo+k-1 *)
Fixpoint iota (lo : N) (k : nat) : list N :=
  match k with O => [] | S k' => lo :: iota (lo + 1) k' end.

(* every value that can possibly be selected *)
Fixpoint universe (t : ntree) : list N :=
  match t with
  | NStatic d => d
  | NAnd l r | NOr l r | NNAnd l r => universe l ++ universe r
  | NNot c lo hi => iota lo (N.to_nat (hi + 1 - lo)) ++ universe c
  end.

Fixpoint strictly_sorted (rev : bool) (l : list N) : bool :=
  match l with
  | a :: ((b :: _) as l') => less rev a b && strictly_sorted rev l'
  | _ => true
  end.


(* ---------------------------------------------------------------- node/builder.go: TreeFold *)
Fixpoint tree_fold (fuel : nat) (vs : list ntree) : res ntree :=
  match fuel with
  | O => OutOfFuel
  | S f =>
      match vs with
      | [] => Ok (NStatic [])                           (* emptyNode *)
      | [v] => Ok v
      | _ =>
          let m := Nat.div2 (length vs) in
          bind (tree_fold f (firstn m vs)) (fun a =>
          bind (tree_fold f (skipn m vs)) (fun b => Ok (NOr a b)))
      end
  end.
Definition build_or_tree (vs : list ntree) : res ntree := tree_fold (S (length vs)) vs.

(* ---------------------------------------------------------------- documents and queries *)
Definition tok := (N * list N)%type.                     (* field number, value bytes *)
Definition id := (N * N)%type.                           (* MID, RID *)
Inductive doc := Doc (mid rid : N) (toks : list tok).
Definition dmid (d : doc) := let 'Doc m _ _ := d in m.
Definition drid (d : doc) := let 'Doc _ r _ := d in r.
Definition dtoks (d : doc) := let 'Doc _ _ t := d in t.
Definition did (d : doc) : id := (dmid d, drid d).

Fixpoint bytes_eqb (a b : list N) : bool :=
  match a, b with
  | [], [] => true
  | x :: a', y :: b' => (x =? y) && bytes_eqb a' b'
  | _, _ => false
  end.
Fixpoint prefixb (p v : list N) : bool :=
  match p, v with
  | [], _ => true
  | x :: p', y :: v' => (x =? y) && prefixb p' v'
  | _ :: _, [] => false
  end.
Definition tok_eqb (a b : tok) : bool := (fst a =? fst b) && bytes_eqb (snd a) (snd b).

(* ---------------------------------------------------------------- the leaf language *)
(* parser.Literal = Field + list of terms {text | `*`} (parser/token_literal.go);
   parser.Range = Field, From/To (text or the symbol `*` = unbounded), IncludeFrom/IncludeTo (token_range.go);
   an in-list is parsed into an OR of Literals (parseFilterIn), so PIn only occurs in GENERATED expressions
   (the `src` of a request), never in the AST handed to the fraction. *)
Inductive term := TText (bs : list N) | TStar.
Inductive rbound := RUnb | RVal (bs : list N).

Inductive pat :=
| PLit (f : N) (v : list N)          (* f:v *)
| PPrefix (f : N) (p : list N)       (* f:p*   (p may be empty: f:* ) *)
| PSuffix (f : N) (s : list N)       (* f:*s *)
| PGlob (f : N) (ts : list term)     (* general Literal: text terms and stars in any arrangement *)
| PRange (f : N) (lo hi : rbound) (incl_lo incl_hi : bool)
| PIn (f : N) (alts : list (list term)).   (* f:in(a, b*, ...) *)

(* glob semantics of a term list: a text term consumes itself, a star any (possibly empty) run of bytes *)
Fixpoint strip_prefix (p v : list N) : option (list N) :=
  match p, v with
  | [], _ => Some v
  | x :: p', y :: v' => if x =? y then strip_prefix p' v' else None
  | _ :: _, [] => None
  end.

Fixpoint glob (ts : list term) : list N -> bool :=
  match ts with
  | [] => fun v => match v with [] => true | _ => false end
  | TText bs :: ts' => fun v => match strip_prefix bs v with Some r => glob ts' r | None => false end
  | TStar :: ts' => fix star (v : list N) : bool :=
                      glob ts' v || match v with [] => false | _ :: v' => star v' end
  end.

(* Go string comparison: bytewise lexicographic *)
Fixpoint bytes_leb (a b : list N) : bool :=
  match a, b with
  | [], _ => true
  | _ :: _, [] => false
  | x :: a', y :: b' => (x <? y) || ((x =? y) && bytes_leb a' b')
  end.
Definition bytes_ltb (a b : list N) : bool := negb (bytes_leb b a).

(* strconv.ParseFloat on the fragment the correspondence run uses: optional sign, 1..15 decimal digits (exactly
   representable in float64, so float comparison = integer comparison). Everything else = "not a number"; the
   harness only produces strings on which the real ParseFloat (finite result) agrees with this. *)
Fixpoint digits_val (acc : Z) (bs : list N) : option Z :=
  match bs with
  | [] => Some acc
  | b :: r => if (48 <=? b) && (b <=? 57) then digits_val (acc * 10 + Z.of_N (b - 48))%Z r else None
  end.
Definition parse_num (bs : list N) : option Z :=
  let unsigned (ds : list N) :=
    match ds with
    | [] => None
    | _ => if (length ds <=? 15)%nat then digits_val 0%Z ds else None
    end in
  match bs with
  | 45 :: ds => option_map Z.opp (unsigned ds)          (* '-' *)
  | 43 :: ds => unsigned ds                             (* '+' *)
  | _ => unsigned bs
  end.

(* newSearcher on a Range: the number searcher when both ends are numbers or unbounded, else the text searcher *)
Definition range_match (lo hi : rbound) (il ih : bool) (v : list N) : bool :=
  let num (b : rbound) : option (option Z) :=           (* Some None = unbounded, None = not a number *)
    match b with RUnb => Some None | RVal bs => option_map Some (parse_num bs) end in
  match num lo, num hi with
  | Some nlo, Some nhi =>
      match parse_num v with
      | None => false
      | Some x =>
          match nlo with None => true | Some l => if il then (l <=? x)%Z else (l <? x)%Z end
          && match nhi with None => true | Some h => if ih then (x <=? h)%Z else (x <? h)%Z end
      end
  | _, _ =>
      match lo with RUnb => true | RVal l => if il then bytes_leb l v else bytes_ltb l v end
      && match hi with RUnb => true | RVal h => if ih then bytes_leb v h else bytes_ltb v h end
  end.

(* the glob / range matcher: the instance of the abstract matcher used by the executable cases *)
Definition pat_match (p : pat) (t : tok) : bool :=
  match p with
  | PLit f v => (f =? fst t) && bytes_eqb v (snd t)
  | PPrefix f q => (f =? fst t) && prefixb q (snd t)
  | PSuffix f s => (f =? fst t) && prefixb (List.rev s) (List.rev (snd t))
  | PGlob f ts => (f =? fst t) && glob ts (snd t)
  | PRange f lo hi il ih => (f =? fst t) && range_match lo hi il ih (snd t)
  | PIn f alts => (f =? fst t) && existsb (fun ts => glob ts (snd t)) alts
  end.

(* The search path never looks inside a leaf: it only asks which tokens of the dictionary a leaf selects
   (pattern.Search). So the whole model below is written over an ABSTRACT matcher, and every theorem about it
   holds for every matcher; pat_match above is the instance the correspondence run evaluates. *)
Class Matcher := { tok_match : pat -> tok -> bool }.
Definition glob_matcher : Matcher := {| tok_match := pat_match |}.

Inductive query :=
| QLeaf (p : pat)
| QNot (a : query)
| QAnd (l r : query)
| QOr (l r : query)
| QNAnd (neg reg : query).           (* parser.LogicalNAnd: children[0] negative, children[1] regular *)

(* ---------------------------------------------------------------- LID order *)
(* sort key (MID, RID, arrival index), descending — queueIDs.Less / SeqIDCmp / sortSeqIDs *)
Definition key := (N * N * N)%type.
Definition key_geb (a b : key) : bool :=
  let '(m1, r1, i1) := a in let '(m2, r2, i2) := b in
  (m2 <? m1) || ((m1 =? m2) && ((r2 <? r1) || ((r1 =? r2) && (i2 <=? i1)))).

Definition idoc := (N * doc)%type.                       (* arrival index, document *)
Definition ikey (x : idoc) : key := (dmid (snd x), drid (snd x), fst x).

Module DocOrder <: TotalLeBool.
  Definition t := idoc.
  Definition leb (x y : t) : bool := key_geb (ikey x) (ikey y).
  Theorem leb_total : forall a1 a2, leb a1 a2 = true \/ leb a2 a1 = true.
  Proof.
    intros [i1 [m1 r1 t1]] [i2 [m2 r2 t2]]; unfold leb, ikey, key_geb; simpl.
    destruct (N.ltb_spec m2 m1); simpl; auto.
    destruct (N.ltb_spec m1 m2); simpl; auto.
    assert (m1 = m2) by (apply N.le_antisymm; assumption). subst. rewrite N.eqb_refl. simpl.
    destruct (N.ltb_spec r2 r1); simpl; auto.
    destruct (N.ltb_spec r1 r2); simpl; auto.
    assert (r1 = r2) by (apply N.le_antisymm; assumption). subst. rewrite N.eqb_refl. simpl.
    destruct (N.leb_spec i2 i1); auto. right. apply N.leb_le. apply N.lt_le_incl. assumption.
  Qed.
End DocOrder.
Module DocSort := Sort DocOrder.

Fixpoint number_from (i : N) (c : list doc) : list idoc :=
  match c with [] => [] | d :: c' => (i, d) :: number_from (i + 1) c' end.

(* the fraction's documents in LID order: position p (from 0) has LID p+1 *)
Definition table (c : list doc) : list doc := map snd (DocSort.sort (number_from 0 c)).

(* ---------------------------------------------------------------- getLIDsBorders *)
Definition max_u64 : N := 18446744073709551615.

(* seq.LessOrEqual on IDs *)
Definition id_le (a b : id) : bool := (fst a <? fst b) || ((fst a =? fst b) && (snd a <=? snd b)).

(* idsIndex.LessOrEqual(lid, id); lid outside the table is never probed *)
Definition lid_le (tab : list doc) (lid : N) (x : id) : bool :=
  match nth_error tab (N.to_nat (lid - 1)) with
  | Some d => id_le (did d) x
  | None => true
  end.

(* sort.Search: smallest i in [0,n) with f i, else n *)
Fixpoint search_loop (fuel : nat) (f : N -> bool) (i j : N) : res N :=
  if i <? j then
    match fuel with
    | O => OutOfFuel
    | S fu => let h := (i + j) / 2 in
              if f h then search_loop fu f i h else search_loop fu f (h + 1) j
    end
  else Ok i.

(* util.BinSearchInRange(from, to, fn) with from <= to+1 *)
Definition bin_search_in_range (from to : N) (fn : N -> bool) : res N :=
  let n := to + 1 - from in
  bind (search_loop (S (N.to_nat n)) (fun i => fn (from + i)) 0 n) (fun i => Ok (from + i)).

Definition lids_borders (from to : N) (tab : list doc) : res (N * N) :=
  (* idsIndex.Len() = stored IDs + the virtual LID 0, so it is never 0 here *)
  let last := N.of_nat (length tab) in                   (* Len()-1 *)
  let maxID : id := (to, max_u64) in
  let minID : id := if 0 <? from then (from - 1, max_u64) else (from, 0) in
  bind (bin_search_in_range 1 last (fun lid => lid_le tab lid maxID)) (fun minLID =>
  bind (bin_search_in_range minLID last (fun lid => lid_le tab lid minID)) (fun e =>
  Ok (minLID, e - 1))).

(* IDs descending *)
Definition id_geb (a b : id) : bool := (fst b <? fst a) || ((fst a =? fst b) && (snd b <=? snd a)).
Module IdOrder <: TotalLeBool.
  Definition t := id.
  Definition leb := id_geb.
  Theorem leb_total : forall a1 a2, leb a1 a2 = true \/ leb a2 a1 = true.
  Proof.
    intros [m1 r1] [m2 r2]; unfold leb, id_geb; simpl.
    destruct (N.ltb_spec m2 m1); simpl; auto.
    destruct (N.ltb_spec m1 m2); simpl; auto.
    assert (m1 = m2) by (apply N.le_antisymm; assumption). subst. rewrite N.eqb_refl. simpl.
    destruct (N.leb_spec r2 r1); auto. right. apply N.leb_le. apply N.lt_le_incl. assumption.
  Qed.
End IdOrder.
Module IdSort := Sort IdOrder.


(* ================================================================ everything below: over an abstract matcher *)
Section WithMatcher.
Context {tm : Matcher}.

(* ---------------------------------------------------------------- leaves: evalLeaf *)
Definition has_tok (t : tok) (d : doc) : bool := existsb (tok_eqb t) (dtoks d).

(* posting list of a token restricted to [minLID, maxLID], ascending (inverseLIDs / sealed LID blocks) *)
Fixpoint posting (t : tok) (minLID maxLID : N) (lid : N) (tab : list doc) : list N :=
  match tab with
  | [] => []
  | d :: tab' =>
      if has_tok t d && (minLID <=? lid) && (lid <=? maxLID)
      then lid :: posting t minLID maxLID (lid + 1) tab'
      else posting t minLID maxLID (lid + 1) tab'
  end.

Fixpoint add_tok (t : tok) (seen : list tok) : list tok :=
  match seen with
  | [] => [t]
  | s :: seen' => if tok_eqb s t then seen else s :: add_tok t seen'
  end.
(* the fraction's token dictionary (every distinct token once) *)
Definition vocab (tab : list doc) : list tok :=
  fold_left (fun acc d => fold_left (fun a t => add_tok t a) (dtoks d) acc) tab [].

Definition leaf_tree (voc : list tok) (tab : list doc) (minLID maxLID : N) (p : pat) : res ntree :=
  build_or_tree (map (fun t => NStatic (posting t minLID maxLID 1 tab)) (filter (tok_match p) voc)).

(* ---------------------------------------------------------------- buildEvalTree *)
(* leaf = createLeafFunc: how a leaf token becomes a node *)
Fixpoint build_tree_with (leaf : pat -> res ntree) (minLID maxLID : N) (q : query) : res ntree :=
  match q with
  | QLeaf p => leaf p
  | QNot a => bind (build_tree_with leaf minLID maxLID a) (fun x => Ok (NNot x minLID maxLID))
  | QAnd l r => bind (build_tree_with leaf minLID maxLID l) (fun x =>
                bind (build_tree_with leaf minLID maxLID r) (fun y => Ok (NAnd x y)))
  | QOr l r => bind (build_tree_with leaf minLID maxLID l) (fun x =>
               bind (build_tree_with leaf minLID maxLID r) (fun y => Ok (NOr x y)))
  | QNAnd n r => bind (build_tree_with leaf minLID maxLID n) (fun x =>
                 bind (build_tree_with leaf minLID maxLID r) (fun y => Ok (NNAnd x y)))
  end.

Definition build_tree (voc : list tok) (tab : list doc) (minLID maxLID : N) (q : query) : res ntree :=
  build_tree_with (leaf_tree voc tab minLID maxLID) minLID maxLID q.

(* ---------------------------------------------------------------- iterateEvalTree *)
Definition id_eqb (a b : id) : bool := (fst a =? fst b) && (snd a =? snd b).
Definition lid_id (tab : list doc) (lid : N) : id :=
  match nth_error tab (N.to_nat (lid - 1)) with Some d => did d | None => (0, 0) end.

(* lids = what evalTree.Next() yields, consumed lazily; nids = len(ids) *)
Fixpoint iterate (tab : list doc) (limit : N) (scan_all : bool) (lids : list N)
         (nids total : N) (last : id) : N * list id :=
  let need_more := nids <? limit in
  if negb need_more && negb scan_all then (total, [])
  else match lids with
       | [] => (total, [])
       | lid :: rest =>
           if need_more then
             let x := lid_id tab lid in
             if (total =? 0) || negb (id_eqb last x)
             then let '(t, l) := iterate tab limit scan_all rest (nids + 1) (total + 1) x in (t, x :: l)
             else iterate tab limit scan_all rest nids (total + 1) x
           else iterate tab limit scan_all rest nids (total + 1) last
       end.

(* ---------------------------------------------------------------- IndexSearch *)
Record prepared := { p_tab : list doc; p_voc : list tok }.
Definition prepare (c : list doc) : prepared := let t := table c in {| p_tab := t; p_voc := vocab t |}.

(* the LID stream of the query's eval tree inside the borders of [from,to] *)
Definition tree_lids (p : prepared) (q : query) (from to : N) (rev : bool) : res (list N) :=
  bind (lids_borders from to (p_tab p)) (fun b =>
  bind (build_tree (p_voc p) (p_tab p) (fst b) (snd b) q) (fun t => eval_ntree rev t)).

(* hist = SearchParams.HistInterval (0 = no histogram); IsScanAllRequest = WithTotal || HasHist *)
Definition search_prepared (p : prepared) (q : query) (from to : N) (rev : bool) (limit : N) (wt : bool)
           (hist : N) : res (list id * N) :=
  bind (tree_lids p q from to rev) (fun lids =>
  let '(total, ids) := iterate (p_tab p) limit (wt || (0 <? hist)) lids 0 0 (0, 0) in
  Ok (ids, if wt then total else 0)).

Definition search_model (c : list doc) (q : query) (from to : N) (rev : bool) (limit : N) (wt : bool)
           (hist : N) :=
  search_prepared (prepare c) q from to rev limit wt hist.

(* histogram: with HasHist the loop never stops early and every LID of the stream bumps the bucket
   mid - mid % interval; kept as an association list sorted by bucket (canonical form of the Go map) *)
Fixpoint hist_add (b : N) (h : list (N * N)) : list (N * N) :=
  match h with
  | [] => [(b, 1)]
  | (k, n) :: h' => if b <? k then (b, 1) :: h
                    else if b =? k then (k, n + 1) :: h'
                    else (k, n) :: hist_add b h'
  end.
Definition bucket (interval m : N) : N := m - m mod interval.
Definition hist_of (interval : N) (mids : list N) : list (N * N) :=
  fold_left (fun h m => hist_add (bucket interval m) h) mids [].

Definition hist_prepared (p : prepared) (q : query) (from to : N) (rev : bool) (hist : N)
  : res (list (N * N)) :=
  if 0 <? hist then
    bind (tree_lids p q from to rev) (fun lids => Ok (hist_of hist (map (fun l => fst (lid_id (p_tab p) l)) lids)))
  else Ok [].

(* ---------------------------------------------------------------- the specification *)
Fixpoint sat (q : query) (d : doc) : bool :=
  match q with
  | QLeaf p => existsb (tok_match p) (dtoks d)
  | QNot a => negb (sat a d)
  | QAnd l r => sat l d && sat r d
  | QOr l r => sat l d || sat r d
  | QNAnd n r => negb (sat n d) && sat r d
  end.

Definition in_range (from to : N) (d : doc) : bool := (from <=? dmid d) && (dmid d <=? to).

Definition matching (c : list doc) (q : query) (from to : N) : list doc :=
  filter (fun d => in_range from to d && sat q d) c.

Definition search_spec (c : list doc) (q : query) (from to : N) (rev : bool) (limit : N) (wt : bool)
  : list id * N :=
  let m := matching c q from to in
  let sorted := IdSort.sort (map did m) in
  (firstn (N.to_nat limit) (if rev then List.rev sorted else sorted),
   if wt then N.of_nat (length m) else 0).

(* histogram of the matching DOCUMENTS *)
Definition hist_spec (c : list doc) (q : query) (from to : N) (hist : N) : list (N * N) :=
  if 0 <? hist then hist_of hist (map dmid (matching c q from to)) else [].

End WithMatcher.
