(* C02 — the definitions GENERATED from the Go sources by harness/cmd/go2coq (Gen.v, regenerated on every run)
   refine the hand-written N-based model functions of Model.v / ModelTx.v that the property theorems are about
   (seq.LessOrEqual / Less, util.BinSearchInRange over sort.Search, processor.getLIDsBorders, the inverser's
   Len / Inverse / Revert). Bridge between the translator's Z and the model's N: Z.of_N / Z.to_N. *)
From Coq Require Import ZArith NArith List Bool Lia ZifyN ZifyNat ZifyBool Permutation.
From VLib Require GoSem GoSemFacts.
From C02 Require Import Model ModelTx ProofsBorders GenPrelude Gen.
Import ListNotations.
Open Scope N_scope.

Notation Val := GoSem.Val.
Definition zid (x : id) : go_ID := mk_go_ID (Z.of_N (fst x)) (Z.of_N (snd x)).
Definition nid (x : go_ID) : id := (Z.to_N (go_ID_MID x), Z.to_N (go_ID_RID x)).

Lemma nid_zid : forall x, nid (zid x) = x.
Proof. intros [a b]. unfold nid, zid. cbn [go_ID_MID go_ID_RID fst snd]. rewrite !N2Z.id. reflexivity. Qed.

(* ------------------------------------------------------------------ seq.LessOrEqual, seq.Less *)
Lemma gen_LessOrEqual_refines : forall a b, go_seq_LessOrEqual (zid a) (zid b) = id_le a b.
Proof.
  intros [a1 a2] [b1 b2]. unfold go_seq_LessOrEqual, id_le, zid. cbn [go_ID_MID go_ID_RID fst snd].
  destruct (Z.eqb_spec (Z.of_N a1) (Z.of_N b1)); destruct (N.ltb_spec a1 b1); destruct (N.eqb_spec a1 b1);
    destruct (Z.leb_spec (Z.of_N a2) (Z.of_N b2)); destruct (N.leb_spec a2 b2);
    destruct (Z.ltb_spec (Z.of_N a1) (Z.of_N b1)); cbn [orb andb]; try reflexivity; lia.
Qed.

(* Less(a, b) = not (a >= b): id_geb is the order of the LID table (C02_table_sorted) *)
Lemma gen_Less_refines : forall a b, go_seq_Less (zid a) (zid b) = negb (id_geb a b).
Proof.
  intros [a1 a2] [b1 b2]. unfold go_seq_Less, id_geb, zid. cbn [go_ID_MID go_ID_RID fst snd].
  destruct (Z.eqb_spec (Z.of_N a1) (Z.of_N b1)); destruct (N.ltb_spec b1 a1); destruct (N.eqb_spec a1 b1);
    destruct (Z.ltb_spec (Z.of_N a2) (Z.of_N b2)); destruct (N.leb_spec b2 a2);
    destruct (Z.ltb_spec (Z.of_N a1) (Z.of_N b1)); cbn [orb andb negb]; try reflexivity; lia.
Qed.

(* ------------------------------------------------------------------ sort.Search (extern) = search_loop *)
Lemma half_of_N : forall i j, ((Z.of_N i + Z.of_N j) / 2)%Z = Z.of_N ((i + j) / 2).
Proof. intros. rewrite <- N2Z.inj_add. change 2%Z with (Z.of_N 2). rewrite <- N2Z.inj_div. reflexivity. Qed.

Lemma half_bounds : forall i j, i < j -> i <= (i + j) / 2 < j /\ 2 * ((i + j) / 2) <= i + j < 2 * ((i + j) / 2) + 2.
Proof.
  intros i j H. pose proof (N.div_mod (i + j) 2 ltac:(lia)). pose proof (N.mod_upper_bound (i + j) 2 ltac:(lia)). lia.
Qed.

Lemma sort_Search_loop_N : forall (k : nat) (f : N -> bool) (F : Z -> GoSem.outcome bool) hiB i j v (fuel0 : nat),
  (forall h, h < hiB -> F (Z.of_N h) = Val (f h)) -> j <= hiB ->
  search_loop k f i j = Ok v -> (Z.of_N j - Z.of_N i < 2 ^ Z.of_nat fuel0)%Z ->
  sort_Search_loop (S fuel0) F (Z.of_N i) (Z.of_N j) = Val (Z.of_N v).
Proof.
  induction k as [|k IH]; intros f F hiB i j v fuel0 HF Hhi Hs Hp; cbn [sort_Search_loop]; revert Hs; cbn [search_loop].
  - destruct (N.ltb_spec i j) as [Hlt|Hge]; [discriminate|].
    replace (Z.of_N i <? Z.of_N j)%Z with false by lia. intros Hs; injection Hs as <-. reflexivity.
  - destruct (N.ltb_spec i j) as [Hlt|Hge].
    + replace (Z.of_N i <? Z.of_N j)%Z with true by lia. cbv zeta.
      destruct (half_bounds i j Hlt) as [Hb Hm]. rewrite half_of_N. rewrite HF by lia. cbn [GoSem.bind].
      destruct fuel0 as [|fuel0]; [change (2 ^ Z.of_nat 0)%Z with 1%Z in Hp; lia|].
      rewrite Nat2Z.inj_succ, Z.pow_succ_r in Hp by lia.
      destruct (f ((i + j) / 2)); intros Hs.
      * apply (IH f F hiB); try assumption; lia.
      * replace (Z.of_N ((i + j) / 2) + 1)%Z with (Z.of_N ((i + j) / 2 + 1)) by lia.
        apply (IH f F hiB); try assumption; lia.
    + replace (Z.of_N i <? Z.of_N j)%Z with false by lia. intros Hs; injection Hs as <-. reflexivity.
Qed.

Lemma search_loop_bounds : forall k f i j v, search_loop k f i j = Ok v -> i <= j -> i <= v <= j.
Proof.
  induction k as [|k IH]; intros f i j v Hs Hij; revert Hs; cbn [search_loop].
  - destruct (N.ltb_spec i j); [discriminate|intros Hs; injection Hs as <-; lia].
  - destruct (N.ltb_spec i j) as [Hlt|Hge]; [|intros Hs; injection Hs as <-; lia].
    cbv zeta. destruct (half_bounds i j Hlt) as [Hb Hm].
    destruct (f ((i + j) / 2)); intros Hs; apply IH in Hs; lia.
Qed.

(* the trusted extern sort_Search (65 rounds) agrees with the model's fuelled search on [0, n) *)
Lemma sort_Search_N : forall (f : N -> bool) (F : Z -> GoSem.outcome bool) n v,
  (forall h, h < n -> F (Z.of_N h) = Val (f h)) -> n < 18446744073709551616 ->
  search_loop (S (N.to_nat n)) f 0 n = Ok v -> sort_Search (Z.of_N n) F = Val (Z.of_N v).
Proof.
  intros f F n v HF Hn Hs. unfold sort_Search. change 65%nat with (S 64). change 0%Z with (Z.of_N 0).
  apply (sort_Search_loop_N (S (N.to_nat n)) f F n 0 n v 64%nat HF); try lia; try exact Hs.
  all: change (2 ^ Z.of_nat 64)%Z with 18446744073709551616%Z; lia.
Qed.

(* ------------------------------------------------------------------ util.BinSearchInRange *)
Lemma gen_BinSearchInRange_full : forall from to (f : N -> bool) (F : Z -> GoSem.outcome bool) v,
  from <= to + 1 -> to < 4611686018427387904 ->
  (forall x, from <= x <= to -> F (Z.of_N x) = Val (f x)) ->
  bin_search_in_range from to f = Ok v ->
  go_util_BinSearchInRange (Z.of_N from) (Z.of_N to) F = Val (Z.of_N v) /\ from <= v <= to + 1.
Proof.
  intros from to f F v Hft Hto HF Hs. unfold go_util_BinSearchInRange, bin_search_in_range in *. cbv zeta in *.
  destruct (search_loop (S (N.to_nat (to + 1 - from))) (fun i => f (from + i)) 0 (to + 1 - from)) as [k|] eqn:E;
    [|discriminate].
  cbn [Model.bind] in Hs. injection Hs as <-.
  pose proof (search_loop_bounds _ _ _ _ _ E ltac:(lia)) as Hk.
  rewrite (GoSemFacts.i64_small (Z.of_N to - Z.of_N from)) by lia.
  rewrite (GoSemFacts.i64_small (Z.of_N to - Z.of_N from + 1)) by lia.
  replace (Z.of_N to - Z.of_N from + 1)%Z with (Z.of_N (to + 1 - from)) by lia.
  rewrite (sort_Search_N (fun i => f (from + i)) _ (to + 1 - from) k); try lia; try exact E.
  - cbn [GoSem.bind]. rewrite GoSemFacts.i64_small by lia. split; [f_equal; lia|lia].
  - intros h Hh. rewrite GoSemFacts.i64_small by lia.
    replace (Z.of_N from + Z.of_N h)%Z with (Z.of_N (from + h)) by lia. rewrite HF by lia. reflexivity.
Qed.

Lemma gen_BinSearchInRange_refines : forall from to (f : N -> bool) (F : Z -> GoSem.outcome bool) v,
  from <= to + 1 -> to < 4611686018427387904 ->
  (forall x, from <= x <= to -> F (Z.of_N x) = Val (f x)) ->
  bin_search_in_range from to f = Ok v ->
  go_util_BinSearchInRange (Z.of_N from) (Z.of_N to) F = Val (Z.of_N v).
Proof. intros from to f F v H1 H2 H3 H4. exact (proj1 (gen_BinSearchInRange_full from to f F v H1 H2 H3 H4)). Qed.

Lemma bin_search_bounds : forall from to f v, from <= to + 1 -> bin_search_in_range from to f = Ok v -> from <= v <= to + 1.
Proof.
  intros from to f v Hft Hs. unfold bin_search_in_range in Hs. cbv zeta in Hs.
  destruct (search_loop (S (N.to_nat (to + 1 - from))) (fun i => f (from + i)) 0 (to + 1 - from)) as [k|] eqn:E;
    [|discriminate].
  cbn [Model.bind] in Hs. injection Hs as <-. pose proof (search_loop_bounds _ _ _ _ _ E ltac:(lia)). lia.
Qed.

(* ------------------------------------------------------------------ processor.getLIDsBorders *)
(* the IDs index of a fraction whose LID table is tab: Len() = stored IDs + the virtual LID 0 *)
Definition zix (tab : list doc) : ids_index go_ID :=
  mk_ix go_ID (Z.of_nat (length tab) + 1) (fun lid x => lid_le tab (Z.to_N lid) (nid x)).

Lemma gen_getLIDsBorders_refines : forall tab from to a b,
  N.of_nat (length tab) + 1 < 4294967296 -> from <= max_u64 -> to <= max_u64 ->
  lids_borders from to tab = Ok (a, b) ->
  go_processor_getLIDsBorders (Z.of_N from) (Z.of_N to) (zix tab) = Val (Z.of_N a, Z.of_N b)
  /\ 1 <= a <= N.of_nat (length tab) + 1 /\ a <= b + 1 /\ b <= N.of_nat (length tab).
Proof.
  intros tab from to a b Hlen Hfrom Hto Hs. unfold max_u64 in Hfrom, Hto.
  revert Hs. unfold go_processor_getLIDsBorders, lids_borders. cbv zeta.
  replace (ix_len (zix tab)) with (Z.of_nat (length tab) + 1)%Z by reflexivity.
  replace (Z.of_nat (length tab) + 1 =? 0)%Z with false by lia.
  rewrite (GoSemFacts.i64_small (Z.of_nat (length tab) + 1 - 1)) by lia.
  replace (Z.of_nat (length tab) + 1 - 1)%Z with (Z.of_N (N.of_nat (length tab))) by lia.
  destruct (bin_search_in_range 1 (N.of_nat (length tab)) _) as [lo|] eqn:E1; [|discriminate].
  cbn [Model.bind].
  destruct (bin_search_in_range lo (N.of_nat (length tab)) _) as [x|] eqn:E2; [|discriminate].
  cbn [Model.bind]. intros Hs; injection Hs as <- <-.
  pose proof (bin_search_bounds 1 (N.of_nat (length tab)) _ lo ltac:(lia) E1) as B1.
  pose proof (bin_search_bounds lo (N.of_nat (length tab)) _ x ltac:(lia) E2) as B2.
  change 1%Z with (Z.of_N 1).
  erewrite gen_BinSearchInRange_refines; [ |lia|lia| |exact E1].
  2:{ intros y Hy. cbv beta. unfold ix_le, zix. cbn [ix_le_f]. rewrite GoSemFacts.u32_small by lia. rewrite N2Z.id.
      unfold nid. cbn [go_ID_MID go_ID_RID]. rewrite N2Z.id. reflexivity. }
  cbn [GoSem.bind].
  erewrite gen_BinSearchInRange_refines; [ |lia|lia| |exact E2].
  2:{ intros y Hy. cbv beta. unfold ix_le, zix. cbn [ix_le_f]. rewrite GoSemFacts.u32_small by lia. rewrite N2Z.id.
      unfold nid. destruct (N.ltb_spec 0 from) as [Hp|Hz].
      - replace (0 <? Z.of_N from)%Z with true by lia. cbn [go_ID_MID go_ID_RID].
        rewrite GoSemFacts.u64_small by lia. replace (Z.to_N (Z.of_N from - Z.of_N 1)) with (from - 1) by lia. reflexivity.
      - replace (0 <? Z.of_N from)%Z with false by lia. cbn [go_ID_MID go_ID_RID]. rewrite N2Z.id. reflexivity. }
  cbn [GoSem.bind].
  rewrite GoSemFacts.i64_small by lia. rewrite !GoSemFacts.u32_small by lia.
  split; [do 2 f_equal; lia|lia].
Qed.

(* thm:C02_borders restated over the GENERATED getLIDsBorders: on the LID table of any corpus of ok documents it
   returns (no panic, no fuel exhaustion) exactly the interval of LIDs whose MID lies in [from, to] *)
Lemma borders_gen : forall c from to, Forall ok_doc c -> N.of_nat (length c) + 1 < 4294967296 ->
  from <= max_u64 -> to <= max_u64 ->
  exists lo hi, go_processor_getLIDsBorders (Z.of_N from) (Z.of_N to) (zix (table c)) = Val (Z.of_N lo, Z.of_N hi) /\
    1 <= lo /\ lo <= hi + 1 /\ hi <= N.of_nat (length c) /\
    (forall lid d, nth_error (table c) (N.to_nat (lid - 1)) = Some d -> 1 <= lid ->
       (lo <= lid /\ lid <= hi <-> in_range from to d = true)).
Proof.
  intros c from to Hok Hlen Hfrom Hto.
  destruct (borders_exact_corpus c from to Hok) as (lo & hi & Hb & H1 & H2 & H3 & H4).
  assert (Hl : length (table c) = length c) by (symmetry; apply Permutation_length, table_perm).
  exists lo, hi. split; [|split; [exact H1|split; [exact H2|split; [exact H3|exact H4]]]].
  refine (proj1 (gen_getLIDsBorders_refines (table c) from to lo hi _ Hfrom Hto Hb)). rewrite Hl. exact Hlen.
Qed.

(* ------------------------------------------------------------------ frac.inverser *)
Definition zinv (values inversion : list N) : go_inverser := mk_go_inverser (map Z.of_N values) (map Z.of_N inversion).

Lemma idx_map_N : forall l k, GoSem.idx (map Z.of_N l) (Z.of_N k) = Z.of_N (nth (N.to_nat k) l 0).
Proof. intros. unfold GoSem.idx. replace (Z.to_nat (Z.of_N k)) with (N.to_nat k) by lia. change 0%Z with (Z.of_N 0). apply map_nth. Qed.

Lemma gen_inverser_Len_refines : forall values inversion, N.of_nat (length values) < 4611686018427387904 ->
  go_frac_inverser_Len (zinv values inversion) = Z.of_N (N.of_nat (length values) + 1).
Proof.
  intros values inversion H. unfold go_frac_inverser_Len, zinv, GoSem.len. cbn [go_inverser_values].
  rewrite map_length. rewrite GoSemFacts.i64_small by lia. lia.
Qed.

(* Inverse(k) = the model's inverse (inverse_lids / C02_tx_inverser are about it): (v, true) for Some v,
   (0 or the stored 0, false) for None *)
Lemma gen_inverser_Inverse_refines : forall values inversion k,
  go_frac_inverser_Inverse (zinv values inversion) (Z.of_N k) =
  Val (match inverse inversion k with Some v => (Z.of_N v, true) | None => (0%Z, false) end).
Proof.
  intros values inversion k. unfold go_frac_inverser_Inverse, inverse, zinv, GoSem.len. cbn [go_inverser_inversion].
  rewrite map_length.
  destruct (nth_error inversion (N.to_nat k)) as [v|] eqn:E.
  - assert (Hk : (N.to_nat k < length inversion)%nat) by (apply nth_error_Some; congruence).
    replace ((Z.of_N k <? 0) || (Z.of_nat (length inversion) <=? Z.of_N k))%Z with false by lia.
    replace (Z.of_nat (length inversion) <=? Z.of_N k)%Z with false by lia.
    cbv zeta. rewrite idx_map_N. rewrite (nth_error_nth _ _ 0 E).
    destruct (N.ltb_spec 0 v).
    + replace (0 <? Z.of_N v)%Z with true by lia. reflexivity.
    + replace (0 <? Z.of_N v)%Z with false by lia. f_equal. f_equal. lia.
  - assert (Hk : (length inversion <= N.to_nat k)%nat) by (apply nth_error_None; exact E).
    replace (Z.of_nat (length inversion) <=? Z.of_N k)%Z with true by lia. reflexivity.
Qed.

Lemma gen_inverser_Revert_refines : forall values inversion i, 1 <= i -> i <= N.of_nat (length values) ->
  i < 4294967296 ->
  go_frac_inverser_Revert (zinv values inversion) (Z.of_N i) = Val (Z.of_N (nth (N.to_nat (i - 1)) values 0)).
Proof.
  intros values inversion i H1 H2 H3. unfold go_frac_inverser_Revert, zinv, GoSem.len. cbn [go_inverser_values].
  rewrite map_length. rewrite GoSemFacts.u32_small by lia.
  replace (Z.of_N i - 1)%Z with (Z.of_N (i - 1)) by lia.
  replace ((Z.of_N (i - 1) <? 0) || (Z.of_nat (length values) <=? Z.of_N (i - 1)))%Z with false by lia.
  rewrite idx_map_N. reflexivity.
Qed.
