(* C02 — two-step GetLIDs: nothing is lost under the fresh-queue discipline, for every interleaving. *)
From Coq Require Import List Bool Arith NArith Lia Sorting.Sorted Sorting.Permutation.
From C02 Require Import Model ModelTx ModelTxStep ProofsNodes ProofsTx.
Import ListNotations.
Open Scope N_scope.

Section Step.
  Variables mids rids : list N.
  Let run := run2 Fresh mids rids.

  Definition taken_list (z : tl2) : list N := match z_taken z with Some t => t | None => [] end.

  (* P = the LIDs put so far *)
  Definition Inv2 (P : list N) (z : tl2) : Prop :=
    StronglySorted (kgt mids rids) (z_sorted z) /\
    (forall x, In x P -> x <> max_u32) /\
    (forall x, In x P <-> In x (z_sorted z) \/ In x (z_queue z) \/ In x (taken_list z)).

  Lemma merge_as_get_lids sorted t : t <> [] ->
    merge_sorted (seq_cmp mids rids) sorted (q_sort mids rids t) max_u32 =
    t_sorted (get_lids mids rids {| t_sorted := sorted; t_queue := t |}).
  Proof. intros H. unfold get_lids. cbn [t_queue t_sorted]. destruct t; [congruence|reflexivity]. Qed.

  Lemma merge_nil sorted : merge_sorted (seq_cmp mids rids) sorted (q_sort mids rids []) max_u32 = sorted.
  Proof. simpl. destruct sorted; reflexivity. Qed.

  Lemma step_inv P z s : Inv2 P z ->
    (forall x, In x (match s with ZPut xs => xs | _ => [] end) -> x <> max_u32) ->
    Inv2 (P ++ match s with ZPut xs => xs | _ => [] end) (step2 Fresh mids rids z s).
  Proof.
    intros [S [Nm E]] Hs. assert (H0 : Inv2 P z) by (exact (conj S (conj Nm E))). destruct s as [xs| |]; cbn [step2].
    - unfold Inv2, taken_list. cbn [z_sorted z_queue z_taken]. split; auto. split.
      + intros x Hx. apply in_app_or in Hx. destruct Hx; auto.
      + intros x. rewrite !in_app_iff, E. unfold taken_list. tauto.
    - rewrite app_nil_r. destruct (z_taken z) eqn:T; [exact H0|].
      destruct (z_queue z) as [|q0 q] eqn:Q; [exact H0|].
      unfold Inv2, taken_list. cbn [z_sorted z_queue z_taken]. split; auto. split; auto.
      intros x. rewrite E. unfold taken_list. rewrite T. simpl. tauto.
    - rewrite app_nil_r. destruct (z_taken z) as [t|] eqn:T; [|exact H0].
      destruct t as [|t0 t].
      + rewrite merge_nil. unfold Inv2, taken_list in *. cbn [z_sorted z_queue z_taken]. rewrite T in E.
        split; auto.
      + rewrite merge_as_get_lids by congruence.
        destruct (get_lids_spec mids rids {| t_sorted := z_sorted z; t_queue := t0 :: t |}) as [[S' _] [_ I']].
        { split; auto. cbn [t_sorted t_queue]. intros x Hx. apply Nm. apply E. unfold taken_list. rewrite T. tauto. }
        unfold Inv2, taken_list. cbn [z_sorted z_queue z_taken]. split; auto. split; auto.
        intros x. rewrite I'. cbn [t_sorted t_queue]. rewrite E. unfold taken_list. rewrite T. simpl. tauto.
  Qed.

  Lemma run_inv : forall sched P z, Inv2 P z -> (forall x, In x (puts_of sched) -> x <> max_u32) ->
    Inv2 (P ++ puts_of sched) (run sched z).
  Proof.
    induction sched as [|s sched IH]; intros P z H Hp; cbn [puts_of]; [rewrite app_nil_r; exact H|].
    unfold run, run2. cbn [fold_left]. fold (run2 Fresh mids rids sched). 
    assert (Hs : forall x, In x (match s with ZPut xs => xs | _ => [] end) -> x <> max_u32).
    { intros x Hx. apply Hp. destruct s; cbn [puts_of]; try contradiction. apply in_or_app. auto. }
    pose proof (step_inv P z s H Hs) as H1.
    assert (Hr : forall x, In x (puts_of sched) -> x <> max_u32).
    { intros x Hx. apply Hp. destruct s; cbn [puts_of]; auto. apply in_or_app. auto. }
    pose proof (IH _ _ H1 Hr) as H2.
    destruct s; cbn [puts_of]; rewrite ?app_nil_r, <- ?app_assoc in *; exact H2.
  Qed.

  Lemma settle_closed z : let z' := run settle z in z_taken z' = None /\ z_queue z' = [].
  Proof.
    unfold run, run2, settle. cbn [fold_left].
    set (z1 := step2 Fresh mids rids z ZMerge).
    assert (T1 : z_taken z1 = None) by (unfold z1; cbn [step2]; destruct (z_taken z) eqn:T; [reflexivity|exact T]).
    cbn [step2]. rewrite T1. destruct (z_queue z1) eqn:Q.
    - cbn [step2]. rewrite T1. auto.
    - cbn [step2 z_taken z_queue]. auto.
  Qed.

  Lemma kgt_irrefl a : ~ kgt mids rids a a.
  Proof.
    unfold kgt, seq_cmp. destruct (get mids a <? get mids a) eqn:E1; [apply N.ltb_lt in E1; lia|].
    destruct (get rids a <? get rids a) eqn:E2; [apply N.ltb_lt in E2; lia|].
    rewrite N.ltb_irrefl. discriminate.
  Qed.

  Lemma ss_nodup l : StronglySorted (kgt mids rids) l -> NoDup l.
  Proof.
    induction 1 as [|a l S IH F]; constructor; auto.
    intros Hin. rewrite Forall_forall in F. exact (kgt_irrefl a (F a Hin)).
  Qed.

  Theorem getlids_two_step sched :
    (forall x, In x (puts_of sched) -> x <> max_u32) ->
    let z := run (sched ++ settle) tl2_empty in
    z_taken z = None /\ z_queue z = [] /\
    StronglySorted (kgt mids rids) (z_sorted z) /\ NoDup (z_sorted z) /\
    (forall x, In x (z_sorted z) <-> In x (puts_of sched)).
  Proof.
    intros Hp. cbn zeta. unfold run, run2. rewrite fold_left_app. fold (run2 Fresh mids rids sched tl2_empty).
    fold (run2 Fresh mids rids settle). fold run.
    assert (I0 : Inv2 [] tl2_empty).
    { unfold Inv2, taken_list, tl2_empty. cbn. split; [constructor|]. split; [tauto|]. tauto. }
    pose proof (run_inv sched [] tl2_empty I0 Hp) as I1. cbn [app] in I1.
    assert (Hn : forall x, In x (puts_of settle) -> x <> max_u32) by (cbn; tauto).
    pose proof (run_inv settle _ _ I1 Hn) as I2. cbn [puts_of settle] in I2. rewrite app_nil_r in I2.
    destruct (settle_closed (run sched tl2_empty)) as [T Q]. destruct I2 as [S [_ E]].
    split; auto. split; auto. split; auto. split; [apply ss_nodup; exact S|].
    intros x. rewrite E, Q. unfold taken_list. rewrite T. simpl. tauto.
  Qed.

  (* the one-step GetLIDs of ModelTx.v is take + merge without anything in between *)
  Theorem take_merge_is_get_lids tl :
    run [ZTake; ZMerge] (tl2_of tl) = tl2_of (get_lids mids rids tl).
  Proof.
    unfold run, run2, tl2_of, get_lids. cbn [fold_left step2 z_taken z_queue z_sorted].
    destruct (t_queue tl) as [|q0 q] eqn:Q; cbn [step2 z_taken z_queue z_sorted t_sorted t_queue].
    - rewrite Q. reflexivity.
    - reflexivity.
  Qed.
End Step.

(* the shared-array variant loses a document: take [1;2], put [3] in the window, merge *)
Theorem getlids_shared_refuted :
  exists mids rids sched,
    (forall x, In x (puts_of sched) -> x <> max_u32) /\
    let z := run2 (Shared 4) mids rids (sched ++ settle) tl2_empty in
    In 1 (puts_of sched) /\ ~ In 1 (z_sorted z) /\ z_sorted z = [3; 2].
Proof.
  exists [max_u64; 10; 11; 12], [max_u64; 1; 1; 1], [ZPut [1; 2]; ZTake; ZPut [3]; ZMerge].
  split.
  - cbn [puts_of app]. intros x Hx. simpl in Hx. unfold max_u32. intuition (subst; discriminate).
  - cbn zeta. assert (E : z_sorted (run2 (Shared 4) [max_u64; 10; 11; 12] [max_u64; 1; 1; 1]
                        ([ZPut [1; 2]; ZTake; ZPut [3]; ZMerge] ++ settle) tl2_empty) = [3; 2]) by (vm_compute; reflexivity).
    rewrite E. split; [simpl; auto|]. split; [|reflexivity]. simpl. intuition discriminate.
Qed.
