(* C02 — shape of the generated cases and the two executable verdicts. No proofs. *)
From VLib Require Import CaseLib.
From VLib Require GoSem.
From C02 Require GenCase.
From C02 Require Export Model ModelTx ModelSealed ModelTxStep.
Open Scope N_scope.

(* the executable cases are evaluated with the glob / range matcher *)
#[local] Existing Instance glob_matcher.

Definition resl_eqb (a : res (list N)) (b : list N) : bool :=
  match a with Ok x => list_eqb N.eqb x b | OutOfFuel => false end.

(* ---- one search request with the answer of the real fraction ---- *)
Inductive squery :=
  SQ (src : query)          (* the generated expression (QLeaf/QNot/QAnd/QOr), rendered to SeqQL *)
     (ast : query)          (* the AST the real parser handed to the fraction (after NOT propagation) *)
     (from to : N) (rev : bool) (limit : N) (wt : bool)
     (hist : N)                     (* HistInterval, 0 = none *)
     (ids : list id) (total : N)    (* seq.QPR.IDs, seq.QPR.Total *)
     (himpl : list (N * N)).        (* seq.QPR.Histogram sorted by bucket *)

Definition ids_eqb := list_eqb id_eqb.
Definition hist_eqb := list_eqb (pair_eqb N.eqb N.eqb).

Definition sq_agrees (p : prepared) (s : squery) : bool :=
  let 'SQ _ ast from to rev limit wt hist ids total himpl := s in
  match search_prepared p ast from to rev limit wt hist, hist_prepared p ast from to rev hist with
  | Ok (mi, mt), Ok mh => ids_eqb mi ids && (mt =? total) && hist_eqb mh himpl
  | _, _ => false
  end.

Definition sq_spec_ok (c : list doc) (s : squery) : bool :=
  let 'SQ src _ from to rev limit wt hist ids total himpl := s in
  let '(si, st) := search_spec c src from to rev limit wt in
  ids_eqb si ids && (st =? total) && hist_eqb (hist_spec c src from to hist) himpl.

(* ---- unit level: real TokenLIDs driven by a script of PutLIDsInQueue / GetLIDs ---- *)
(* TWin puts: a GetLIDs with PutLIDsInQueue(puts_k) of other workers executed INSIDE the window between "queue taken"
   and "merged" (ModelTxStep.v, fresh-queue discipline) *)
Inductive tlop := TPut (lids : list N) | TGet | TWin (puts : list (list N)).

(* model: the slices GetLIDs returned, in order *)
Fixpoint tl_run (mids rids : list N) (ops : list tlop) (tl : tlids) : list (list N) :=
  match ops with
  | [] => []
  | TPut lids :: r => tl_run mids rids r (put_lids tl lids)
  | TGet :: r => let tl' := get_lids mids rids tl in t_sorted tl' :: tl_run mids rids r tl'
  | TWin ps :: r =>
      let z := run2 Fresh mids rids (ZTake :: map ZPut ps ++ [ZMerge]) (tl2_of tl) in
      z_sorted z :: tl_run mids rids r {| t_sorted := z_sorted z; t_queue := z_queue z |}
  end.

Fixpoint strictly_desc (mids rids : list N) (l : list N) : bool :=
  match l with
  | a :: ((b :: _) as l') => queue_less mids rids a b && strictly_desc mids rids l'
  | _ => true
  end.

(* spec: every returned slice is strictly ordered by (MID, RID, LID) descending and holds exactly the LIDs
   queued so far, each once *)
Fixpoint tl_spec (mids rids : list N) (ops : list tlop) (sofar : list N) (impl : list (list N)) : bool :=
  match ops, impl with
  | [], [] => true
  | TPut lids :: r, _ => tl_spec mids rids r (sofar ++ lids) impl
  | TGet :: r, out :: impl' =>
      strictly_desc mids rids out && forallb (fun x => memN x sofar) out && forallb (fun x => memN x out) sofar
      && tl_spec mids rids r sofar impl'
  | TWin ps :: r, out :: impl' =>   (* the window's puts are not in this answer, and must be in the next one *)
      strictly_desc mids rids out && forallb (fun x => memN x sofar) out && forallb (fun x => memN x out) sofar
      && tl_spec mids rids r (sofar ++ concat ps) impl'
  | _, _ => false
  end.

(* ---- unit level: real inverser + inverseLIDs ---- *)
Fixpoint index_of (v : N) (l : list N) (i : N) : option N :=
  match l with [] => None | x :: r => if x =? v then Some i else index_of v r (i + 1) end.

Definition inverse_spec (values unmapped : list N) (lo hi : N) : list N :=
  flat_map (fun v => match index_of v values 1 with
                     | Some x => if (lo <=? x) && (x <=? hi) then [x] else []
                     | None => [] end) unmapped.

(* ---- system level: an active fraction fed by bulks with searches in between ---- *)
Inductive sop := SBulk (ds : list doc) | SAsk (s : squery).

(* the provider as transcribed: EmptyDataProvider for a fraction without documents, otherwise [from,to] clamped to
   Info.From/To (= min/max MID of the documents ingested so far), then the transcribed search *)
Definition ask_tx_agrees (st : astate) (c : list doc) (s : squery) : bool :=
  let 'SQ _ ast from to rev limit wt hist ids total himpl := s in
  match c with
  | [] => ids_eqb [] ids && (0 =? total) && hist_eqb [] himpl
  | _ =>
    let '(f, t) := clamp (info_of c) from to in
    match search_tx st ast f t rev limit wt hist, hist_tx st ast f t rev hist with
    | Ok (mi, mt), Ok mh => ids_eqb mi ids && (mt =? total) && hist_eqb mh himpl
    | _, _ => false
    end
  end.
Definition ask_ast (s : squery) : query := let 'SQ _ ast _ _ _ _ _ _ _ _ _ := s in ast.

(* transcribed model (state threaded through the script) and specification-level model, both = real answer *)
Fixpoint script_agrees (ops : list sop) (st : astate) (c : list doc) : bool :=
  match ops with
  | [] => true
  | SBulk ds :: r => script_agrees r (bulk st ds) (c ++ ds)
  | SAsk s :: r => ask_tx_agrees st c s && sq_agrees (prepare c) s && script_agrees r (touch st (ask_ast s)) c
  end.
Fixpoint script_spec_ok (ops : list sop) (c : list doc) : bool :=
  match ops with
  | [] => true
  | SBulk ds :: r => script_spec_ok r (c ++ ds)
  | SAsk s :: r => sq_spec_ok c s && script_spec_ok r c
  end.


(* an ACTIVE fraction answers through the provider: clamp to Info, then the search (specification-level LID table) *)
Definition sq_agrees_active (p : prepared) (inf : N * N) (s : squery) : bool :=
  let 'SQ _ ast from to rev limit wt hist ids total himpl := s in
  let '(f, t) := clamp inf from to in
  match search_prepared p ast f t rev limit wt hist, hist_prepared p ast f t rev hist with
  | Ok (mi, mt), Ok mh => ids_eqb mi ids && (mt =? total) && hist_eqb mh himpl
  | _, _ => false
  end.

(* a SEALED fraction: ID blocks of ipb IDs with the block-minimum shortcuts, LID blocks of capacity cap read by the
   iterators *)
Definition sq_agrees_sealed (sp : sprepared) (s : squery) : bool :=
  let 'SQ _ ast from to rev limit wt hist ids total himpl := s in
  match search_sealed_prepared sp ast from to rev limit wt hist, hist_sealed_prepared sp ast from to rev hist with
  | Ok (mi, mt), Ok mh => ids_eqb mi ids && (mt =? total) && hist_eqb mh himpl
  | _, _ => false
  end.

Inductive case :=
(* a tree of real merge nodes over static posting lists, drained: impl = all values Next() returned *)
| CNode (rev : bool) (t : ntree) (impl : list N)
(* node.BuildORTree over static lists *)
| CFold (rev : bool) (ds : list (list N)) (impl : list N)
(* a real fraction holding documents c (arrival order), and requests answered by DataProvider.Search *)
| CSearch (c : list doc) (qs : list squery)
(* real TokenLIDs over MIDs/RIDs arrays: impl = the slice returned by each GetLIDs *)
| CTokLIDs (mids rids : list N) (ops : list tlop) (impl : list (list N))
(* real newInverser(values, size) + inverseLIDs(unmapped, inv, lo, hi); len = inverser.Len() *)
| CInverser (values : list N) (size : N) (unmapped : list N) (lo hi : N) (impl : list N) (len : N)
(* a real active fraction: bulks and searches interleaved, every answer recorded *)
| CScript (ops : list sop)
(* getLIDsBorders of the real fraction holding c *)
| CBorders (c : list doc) (from to : N) (minLID maxLID : N)
(* a real ACTIVE fraction (non-empty) asked through its data provider: the model clamps [from,to] to Info *)
| CActive (c : list doc) (qs : list squery)
(* a real SEALED fraction (ipb = consts.IDsPerBlock, cap = consts.LIDBlockCap), or the sealed LID path built by the
   real block generator with a SMALL capacity cap (the ID side then is the active index: any ipb may be modelled) *)
| CSealed (ipb cap : N) (c : list doc) (qs : list squery)
(* gen-<func> (validation of the translator go2coq): the REAL Go function number fn (GenCase.gen_eval) was called
   on args and returned impl (or panicked); the GENERATED definition of Gen.v is evaluated on the same arguments *)
| CGo (fn : N) (args : list (list Z)) (impl : GoSem.gres).
Notation GVal := GoSem.GVal (only parsing).
Notation GPanic := GoSem.GPanic (only parsing).

Definition case_agrees (c : case) : bool :=
  match c with
  | CNode rev t impl => resl_eqb (eval_ntree rev t) impl
  | CFold rev ds impl => resl_eqb (bind (build_or_tree (map NStatic ds)) (eval_ntree rev)) impl
  | CSearch c qs => let p := prepare c in forallb (sq_agrees p) qs
  | CTokLIDs mids rids ops impl => list_eqb (list_eqb N.eqb) (tl_run mids rids ops tl_empty) impl
  | CInverser values size unmapped lo hi impl len =>
      list_eqb N.eqb (inverse_lids unmapped (new_inversion values (N.to_nat size)) lo hi) impl
      && (N.of_nat (length values) + 1 =? len)
  | CScript ops => script_agrees ops a_init []
  | CBorders c from to lo hi =>
      match lids_borders from to (table c) with
      | Ok (a, b) => (a =? lo) && (b =? hi)
      | OutOfFuel => false
      end
  | CActive c qs =>
      match c with
      | [] => false                                       (* the harness only reports fractions with documents *)
      | _ => let p := prepare c in let inf := info_of c in forallb (sq_agrees_active p inf) qs
      end
  | CSealed ipb cap c qs =>
      let p := prepare c in let sp := sprepare ipb cap c in
      forallb (fun s => sq_agrees p s && sq_agrees_sealed sp s) qs
  | CGo fn args impl => GoSem.gres_eqb (GenCase.gen_eval fn args) impl
  end.

(* the LIDs selected by [from,to] are exactly lo..hi: positions (from 1) of the table whose MID is in range *)
Fixpoint range_positions (from to : N) (lid : N) (tab : list doc) : list N :=
  match tab with
  | [] => []
  | d :: tab' => if in_range from to d then lid :: range_positions from to (lid + 1) tab'
                 else range_positions from to (lid + 1) tab'
  end.

Definition case_spec_ok (c : case) : bool :=
  match c with
  | CNode rev t impl =>
      strictly_sorted rev impl && forallb (nsem t) impl
      && forallb (fun x => memN x impl) (filter (nsem t) (universe t))
  | CFold rev ds impl =>
      strictly_sorted rev impl && forallb (fun x => existsb (memN x) ds) impl
      && forallb (fun x => memN x impl) (concat ds)
  | CSearch c qs => forallb (sq_spec_ok c) qs
  | CTokLIDs mids rids ops impl => tl_spec mids rids ops [] impl
  | CInverser values size unmapped lo hi impl len =>
      list_eqb N.eqb (inverse_spec values unmapped lo hi) impl && (N.of_nat (length values) + 1 =? len)
  | CScript ops => script_spec_ok ops []
  | CBorders c from to lo hi =>
      list_eqb N.eqb (range_positions from to 1 (table c)) (iota lo (N.to_nat (hi + 1 - lo)))
  | CActive c qs => forallb (sq_spec_ok c) qs
  | CSealed _ _ c qs => forallb (sq_spec_ok c) qs
  | CGo _ _ _ => true   (* translator validation: correspondence only *)
  end.

Definition diff_indices (l : list case) : list nat := bad_indices (fun c => negb (case_agrees c)) l.
Definition specfail_indices (l : list case) : list nat := bad_indices (fun c => negb (case_spec_ok c)) l.
