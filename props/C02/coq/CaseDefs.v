(* C02 — shape of the generated cases and the two executable verdicts. No proofs. *)
From VLib Require Import CaseLib.
From C02 Require Import Model.
Open Scope N_scope.

Definition resl_eqb (a : res (list N)) (b : list N) : bool :=
  match a with Ok x => list_eqb N.eqb x b | OutOfFuel => false end.

(* ---- one search request with the answer of the real fraction ---- *)
Inductive squery :=
  SQ (src : query)          (* the generated expression (QLeaf/QNot/QAnd/QOr), rendered to SeqQL *)
     (ast : query)          (* the AST the real parser handed to the fraction (after NOT propagation) *)
     (from to : N) (rev : bool) (limit : N) (wt : bool)
     (hist : N)                     (* HistInterval, 0 = none *)
     (ids : list id) (total : N)    (* seq.QPR.IDs, seq.QPR.Total *)
     (himpl : list (N * N)).        (* seq.QPR.Histogram sorted by bucket *)

Definition ids_eqb := list_eqb id_eqb.
Definition hist_eqb := list_eqb (pair_eqb N.eqb N.eqb).

Definition sq_agrees (p : prepared) (s : squery) : bool :=
  let 'SQ _ ast from to rev limit wt hist ids total himpl := s in
  match search_prepared p ast from to rev limit wt hist, hist_prepared p ast from to rev hist with
  | Ok (mi, mt), Ok mh => ids_eqb mi ids && (mt =? total) && hist_eqb mh himpl
  | _, _ => false
  end.

Definition sq_spec_ok (c : list doc) (s : squery) : bool :=
  let 'SQ src _ from to rev limit wt hist ids total himpl := s in
  let '(si, st) := search_spec c src from to rev limit wt in
  ids_eqb si ids && (st =? total) && hist_eqb (hist_spec c src from to hist) himpl.

Inductive case :=
(* a tree of real merge nodes over static posting lists, drained: impl = all values Next() returned *)
| CNode (rev : bool) (t : ntree) (impl : list N)
(* node.BuildORTree over static lists *)
| CFold (rev : bool) (ds : list (list N)) (impl : list N)
(* a real fraction holding documents c (arrival order), and requests answered by DataProvider.Search *)
| CSearch (c : list doc) (qs : list squery)
(* getLIDsBorders of the real fraction holding c *)
| CBorders (c : list doc) (from to : N) (minLID maxLID : N).

Definition case_agrees (c : case) : bool :=
  match c with
  | CNode rev t impl => resl_eqb (eval_ntree rev t) impl
  | CFold rev ds impl => resl_eqb (bind (build_or_tree (map NStatic ds)) (eval_ntree rev)) impl
  | CSearch c qs => let p := prepare c in forallb (sq_agrees p) qs
  | CBorders c from to lo hi =>
      match lids_borders from to (table c) with
      | Ok (a, b) => (a =? lo) && (b =? hi)
      | OutOfFuel => false
      end
  end.

(* the LIDs selected by [from,to] are exactly lo..hi: positions (from 1) of the table whose MID is in range *)
Fixpoint range_positions (from to : N) (lid : N) (tab : list doc) : list N :=
  match tab with
  | [] => []
  | d :: tab' => if in_range from to d then lid :: range_positions from to (lid + 1) tab'
                 else range_positions from to (lid + 1) tab'
  end.

Definition case_spec_ok (c : case) : bool :=
  match c with
  | CNode rev t impl =>
      strictly_sorted rev impl && forallb (nsem t) impl
      && forallb (fun x => memN x impl) (filter (nsem t) (universe t))
  | CFold rev ds impl =>
      strictly_sorted rev impl && forallb (fun x => existsb (memN x) ds) impl
      && forallb (fun x => memN x impl) (concat ds)
  | CSearch c qs => forallb (sq_spec_ok c) qs
  | CBorders c from to lo hi =>
      list_eqb N.eqb (range_positions from to 1 (table c)) (iota lo (N.to_nat (hi + 1 - lo)))
  end.

Definition diff_indices (l : list case) : list nat := bad_indices (fun c => negb (case_agrees c)) l.
Definition specfail_indices (l : list case) : list nat := bad_indices (fun c => negb (case_spec_ok c)) l.
