(* C02 — dispatch of the gen-* correspondence cases (validation of the translator go2coq): evaluates the
   GENERATED definitions of Gen.v on the arguments the harness passed to the real Go functions. NO proofs.
   The predicate handed to BinSearchInRange by the harness is `func(i int) bool { return bits[i-from] != 0 }`
   (it panics outside the table); the index handed to getLIDsBorders is a table of (MID, RID) pairs compared with
   the generated seq.LessOrEqual, Len() = its length (a LID outside the table reads (0, 0)); an inverser is
   (values, inversion). *)
From Coq Require Import ZArith List Bool.
From VLib Require Import GoSem.
From C02 Require Import GenPrelude Gen.
Import ListNotations.
Open Scope Z_scope.

Definition gen_pred (from : Z) (bits : list Z) : Z -> outcome bool :=
  fun x => if (x - from <? 0) || (len bits <=? x - from) then Panic else Val (negb (idx bits (x - from) =? 0)).
Definition gen_index (mids rids : list Z) : ids_index go_ID :=
  mk_ix go_ID (len mids) (fun lid x => go_seq_LessOrEqual (mk_go_ID (idx mids lid) (idx rids lid)) x).
Definition enc_zb (p : Z * bool) : list Z := [fst p; b2z (snd p)].

Definition gen_eval (fn : N) (a : list (list Z)) : gres :=
  match fn with
  | 1%N => gres_of enc_b (go_seq_LessOrEqual_run (mk_go_ID (arg a 0) (arg a 1)) (mk_go_ID (arg a 2) (arg a 3)))
  | 2%N => gres_of enc_b (go_seq_Less_run (mk_go_ID (arg a 0) (arg a 1)) (mk_go_ID (arg a 2) (arg a 3)))
  | 3%N => gres_of enc_z (go_util_BinSearchInRange_run (arg a 0) (arg a 1) (gen_pred (arg a 0) (argl a 2)))
  | 4%N => gres_of enc_zz (go_processor_getLIDsBorders_run (arg a 0) (arg a 1) (gen_index (argl a 2) (argl a 3)))
  | 5%N => gres_of enc_z (go_frac_inverser_Len_run (mk_go_inverser (argl a 0) (argl a 1)))
  | 6%N => gres_of enc_zb (go_frac_inverser_Inverse_run (mk_go_inverser (argl a 0) (argl a 1)) (arg a 2))
  | 7%N => gres_of enc_z (go_frac_inverser_Revert_run (mk_go_inverser (argl a 0) (argl a 1)) (arg a 2))
  | _ => GFuel
  end.
