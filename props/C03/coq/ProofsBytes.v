(* C03 — proofs about the byte-level codecs of ModelBytes.v: varints, little endian words, Chunks on bytes,
   ID blocks, positions block, token blocks, token table blocks, index block headers and the registry. *)
From Coq Require Import List Bool Arith NArith ZArith Lia.
From Coq Require Import ZifyN ZifyNat ZifyBool.
Import ListNotations.
From C03 Require Import Model ModelBytes ProofsCodec.

Ltac Zify.zify_post_hook ::= Z.div_mod_to_equations.

(* ---------------------------------------------------------------- bytes *)
Fixpoint N_upto (n : nat) : list N := match n with 0 => [] | S k => N.of_nat k :: N_upto k end.
Lemma N_upto_in n : forall x, (x < N.of_nat n)%N -> In x (N_upto n).
Proof.
  induction n as [|k IH]; intros x H; [lia|].
  cbn [N_upto]. destruct (N.eq_dec x (N.of_nat k)) as [->|Hne]; [left; reflexivity|right; apply IH; lia].
Qed.
Lemma byte_cases (P : N -> bool) : forallb P (N_upto 256) = true -> forall b, (b < 256)%N -> P b = true.
Proof. intros H b Hb. rewrite forallb_forall in H. apply H, N_upto_in. exact Hb. Qed.

Lemma land255 x : N.land x 255 = (x mod 256)%N.
Proof. change 255%N with (N.ones 8). rewrite N.land_ones. reflexivity. Qed.
Lemma land127 x : N.land x 127 = (x mod 128)%N.
Proof. change 127%N with (N.ones 7). rewrite N.land_ones. reflexivity. Qed.
Lemma or128 x : N.lor (N.land x 255) 128 = (128 + x mod 128)%N.
Proof.
  rewrite land255.
  assert (H : (x mod 128 = (x mod 256) mod 128)%N) by lia.
  rewrite H. set (y := (x mod 256)%N). assert (Hy : (y < 256)%N) by (subst y; lia).
  apply N.eqb_eq. revert y Hy. apply (byte_cases (fun y => N.lor y 128 =? 128 + y mod 128)%N).
  vm_compute. reflexivity.
Qed.

Lemma lor_shift x b s : (x < 2 ^ s)%N -> N.lor x (N.shiftl b s) = (x + b * 2 ^ s)%N.
Proof.
  intros Hx. rewrite N.shiftl_mul_pow2.
  assert (Hl : N.land x (b * 2 ^ s) = 0%N).
  { apply N.bits_inj. intros n. rewrite N.land_spec, N.bits_0.
    destruct (N.lt_ge_cases n s) as [Hn|Hn].
    - rewrite (N.mul_pow2_bits_low b s n Hn). apply andb_false_r.
    - rewrite <- (N.mod_small x (2 ^ s) Hx). rewrite N.mod_pow2_bits_high by exact Hn. reflexivity. }
  rewrite <- (N.lxor_lor _ _ Hl). symmetry. apply N.add_nocarry_lxor. exact Hl.
Qed.

Lemma shiftr7 x : N.shiftr x 7 = (x / 128)%N.
Proof. rewrite N.shiftr_div_pow2. reflexivity. Qed.
Lemma shiftr1 x : N.shiftr x 1 = (x / 2)%N.
Proof. rewrite N.shiftr_div_pow2. reflexivity. Qed.

Lemma uv_put_eq f x :
  uv_put f x = if (x <? 128)%N then [x] else
               match f with 0 => [] | S g => N.lor (N.land x 255) 128 :: uv_put g (N.shiftr x 7) end.
Proof. destruct f; reflexivity. Qed.

Definition p7 (i : nat) : N := (2 ^ (7 * N.of_nat i))%N.
Lemma p7_S i : p7 (S i) = (128 * p7 i)%N.
Proof. unfold p7. replace (7 * N.of_nat (S i))%N with (7 * N.of_nat i + 7)%N by lia. rewrite N.pow_add_r. change (2^7)%N with 128%N. lia. Qed.
Lemma p7_pos i : (0 < p7 i)%N.
Proof. unfold p7. apply N.neq_0_lt_0. apply N.pow_nonzero. lia. Qed.
Lemma p7_9 : p7 9 = (2 ^ 63)%N. Proof. reflexivity. Qed.

(* Uvarint reads back what PutUvarint wrote, from any position i with accumulator acc *)
Lemma uv_rt : forall f x i acc rest,
  i + f = 9 -> (acc < p7 i)%N -> (x * p7 i + acc < 2 ^ 64)%N ->
  uv_get (uv_put f x ++ rest) i (7 * N.of_nat i) acc
  = ((x * p7 i + acc)%N, Z.of_nat (i + length (uv_put f x))) /\ 1 <= length (uv_put f x) <= S f.
Proof.
  induction f as [|f IH]; intros x i acc rest Hi Hacc Hx; rewrite uv_put_eq.
  - assert (i = 9) by lia. subst i. rewrite p7_9 in *.
    assert (Hx2 : (x < 2)%N).
    { destruct (N.lt_ge_cases x 2) as [|Hge]; [assumption|].
      assert ((2 * 2^63 <= x * 2^63)%N) by (apply N.mul_le_mono_r; exact Hge).
      change (2 * 2^63)%N with (2^64)%N in H. lia. }
    destruct (N.ltb_spec x 128); [|lia].
    cbn [app uv_get length]. cbn [Nat.eqb].
    destruct (N.ltb_spec x 128); [|lia].
    destruct (N.ltb_spec 1 x); [lia|]. cbn [andb].
    change (7 * N.of_nat 9)%N with 63%N.
    rewrite lor_shift by exact Hacc. split; [|lia]. f_equal. lia.
  - destruct (N.ltb_spec x 128) as [Hlt|Hge].
    + cbn [app uv_get length].
      destruct (Nat.eqb_spec i 10); [lia|].
      destruct (N.ltb_spec x 128); [|lia].
      assert (Hb : Nat.eqb i 9 && (1 <? x)%N = false).
      { destruct (Nat.eqb_spec i 9); [lia|reflexivity]. }
      rewrite Hb. fold (p7 i). unfold p7 at 1. rewrite lor_shift by exact Hacc.
      split; [|lia]. f_equal. unfold p7. lia.
    + cbn [app uv_get length].
      destruct (Nat.eqb_spec i 10); [lia|].
      rewrite or128.
      destruct (N.ltb_spec (128 + x mod 128) 128); [lia|].
      rewrite land127.
      assert (Hm : ((128 + x mod 128) mod 128 = x mod 128)%N) by lia. rewrite Hm.
      rewrite lor_shift by exact Hacc. fold (p7 i). rewrite shiftr7.
      replace (7 * N.of_nat i + 7)%N with (7 * N.of_nat (S i))%N by lia.
      pose proof (p7_pos i) as Hp. pose proof (p7_S i) as HS.
      assert (Hdm : (x = 128 * (x / 128) + x mod 128)%N) by (apply N.div_mod'; lia).
      assert (Hmm : (x mod 128 < 128)%N) by lia.
      assert (Hacc' : (acc + x mod 128 * p7 i < p7 (S i))%N).
      { rewrite HS. nia. }
      assert (Heq : (x / 128 * p7 (S i) + (acc + x mod 128 * p7 i) = x * p7 i + acc)%N).
      { rewrite HS. rewrite Hdm at 3. ring. }
      destruct (IH (x / 128)%N (S i) (acc + x mod 128 * p7 i)%N rest) as [E L]; [lia|exact Hacc'|rewrite Heq; exact Hx|].
      rewrite E. split; [|lia]. rewrite Heq. f_equal. lia.
Qed.

(* ---------------------------------------------------------------- PutVarint / Varint *)
Definition i64 (x : Z) : Prop := (- two63 <= x < two63)%Z.

Lemma zigzag_simple x : i64 x -> zigzag x = Z.to_N (if (x <? 0)%Z then (-2 * x - 1)%Z else (2 * x)%Z).
Proof.
  unfold i64, zigzag, u64, two64, two63. intros H. f_equal.
  destruct (Z.ltb_spec x 0); lia.
Qed.

Lemma p7_0 : p7 0 = 1%N. Proof. reflexivity. Qed.

Lemma uvarint_rt x rest : (x < 2 ^ 64)%N ->
  uvarint (put_uvarint x ++ rest) = (x, Z.of_nat (length (put_uvarint x))) /\ 1 <= length (put_uvarint x) <= 10.
Proof.
  intros Hx. unfold uvarint, put_uvarint.
  destruct (uv_rt 9 x 0 0%N rest) as [E L]; [reflexivity|rewrite p7_0; lia|rewrite p7_0; lia|].
  change (7 * N.of_nat 0)%N with 0%N in E. rewrite E. rewrite p7_0. split; [|lia]. f_equal. lia.
Qed.

(* PutUvarint never writes beyond the 10 byte scratch buffer of BytesPacker *)
Lemma uv_put_fits x : (x < 2 ^ 64)%N -> 1 <= length (put_uvarint x) <= 10.
Proof. intros H. apply (uvarint_rt x [] H). Qed.

Lemma varint_rt x rest : i64 x ->
  varint (put_varint x ++ rest) = (x, Z.of_nat (length (put_varint x))) /\ 1 <= length (put_varint x) <= 10.
Proof.
  intros Hx. unfold varint, put_varint.
  assert (Hz : (zigzag x < 2 ^ 64)%N).
  { rewrite zigzag_simple by exact Hx. unfold i64, two63 in Hx. change (2^64)%N with 18446744073709551616%N.
    destruct (Z.ltb_spec x 0); lia. }
  destruct (uvarint_rt (zigzag x) rest Hz) as [E L]. rewrite E. split; [|exact L]. f_equal.
  rewrite shiftr1. rewrite zigzag_simple by exact Hx. unfold i64, two63 in Hx.
  destruct (Z.ltb_spec x 0).
  - replace (N.odd (Z.to_N (-2 * x - 1))) with true.
    2:{ symmetry. rewrite <- N.negb_even. apply negb_true_iff. 
        destruct (N.even (Z.to_N (-2 * x - 1))) eqn:Ev; [|reflexivity].
        apply N.even_spec in Ev. destruct Ev as [k Hk]. lia. }
    lia.
  - replace (N.odd (Z.to_N (2 * x))) with false.
    2:{ symmetry. rewrite <- N.negb_even. apply negb_false_iff. apply N.even_spec. exists (Z.to_N x). lia. }
    lia.
Qed.

Lemma skipn_app_len {A} (l r : list A) : skipn (length l) (l ++ r) = r.
Proof. induction l; simpl; auto. Qed.

Theorem varint_roundtrip x rest : i64 x -> get_varint (put_varint x ++ rest) = DOk (x, rest).
Proof.
  intros Hx. unfold get_varint. destruct (varint_rt x rest Hx) as [E L]. rewrite E.
  destruct (Z.leb_spec (Z.of_nat (length (put_varint x))) 0); [lia|].
  rewrite Nat2Z.id, skipn_app_len. reflexivity.
Qed.

(* ---- totality of the decoder: on ANY list it returns a value (within range, having consumed 1..10 bytes
   of the buffer) or n <= 0 *)
Lemma p7_le9 i : i <= 9 -> (p7 i <= 2 ^ 63)%N.
Proof. intros H. unfold p7. apply N.pow_le_mono_r; lia. Qed.

Lemma uv_get_total : forall buf i acc, i <= 10 -> (acc < p7 i)%N ->
  forall v n, uv_get buf i (7 * N.of_nat i) acc = (v, n) ->
  (n <= 0)%Z \/ ((v < 2 ^ 64)%N /\ (Z.of_nat i < n <= Z.of_nat (i + length buf))%Z /\ (n <= 10)%Z).
Proof.
  induction buf as [|b r IH]; intros i acc Hi Hacc v n; remember (7 * N.of_nat i)%N as s eqn:Hs; intros E;
    cbn [uv_get] in E.
  - inversion E; subst. left; lia.
  - destruct (Nat.eqb_spec i 10).
    + inversion E; subst. left; lia.
    + destruct (N.ltb_spec b 128) as [Hb|Hb].
      * destruct (Nat.eqb_spec i 9) as [->|Hne]; cbn [andb] in E.
        -- destruct (N.ltb_spec 1 b).
           ++ inversion E; subst. left; lia.
           ++ injection E as Ev En; subst v n s. right. change (7 * N.of_nat 9)%N with 63%N. rewrite p7_9 in Hacc.
              rewrite lor_shift by exact Hacc. cbn [length]. split; [|lia].
              change (2^64)%N with (2 * 2^63)%N. nia.
        -- injection E as Ev En; subst v n s. right. rewrite lor_shift by exact Hacc. fold (p7 i).
           cbn [length]. split; [|lia].
           assert (H9 : (p7 (S i) <= 2 ^ 63)%N) by (apply p7_le9; lia). rewrite p7_S in H9.
           assert (b * p7 i <= 127 * p7 i)%N by (apply N.mul_le_mono_r; lia).
           change (2^64)%N with (2 * 2^63)%N. lia.
      * subst s. rewrite land127 in E. rewrite lor_shift in E by exact Hacc. fold (p7 i) in E.
        replace (7 * N.of_nat i + 7)%N with (7 * N.of_nat (S i))%N in E by lia.
        assert (Hacc' : (acc + b mod 128 * p7 i < p7 (S i))%N).
        { rewrite p7_S. assert (b mod 128 < 128)%N by lia. nia. }
        destruct (IH (S i) _ ltac:(lia) Hacc' v n E) as [Hn|[Hv [Hn1 Hn2]]]; [left; exact Hn|right].
        cbn [length]. split; [exact Hv|lia].
Qed.

Theorem get_varint_total buf :
  match get_varint buf with
  | DOk (v, rest) => i64 v /\ exists pre, buf = pre ++ rest /\ 1 <= length pre <= 10
  | DErr => True
  | _ => False
  end.
Proof.
  unfold get_varint, varint, uvarint.
  destruct (uv_get buf 0 0%N 0%N) as [ux n] eqn:E.
  destruct (Z.leb_spec n 0); [exact I|].
  destruct (uv_get_total buf 0 0%N ltac:(lia) ltac:(rewrite p7_0; lia) ux n E) as [Hn|[Hv [Hn1 Hn2]]]; [lia|].
  split.
  - unfold i64, two63. rewrite shiftr1. change (2^64)%N with 18446744073709551616%N in Hv.
    destruct (N.odd ux); lia.
  - exists (firstn (Z.to_nat n) buf). split; [symmetry; apply firstn_skipn|].
    rewrite firstn_length. lia.
Qed.

(* ---------------------------------------------------------------- little endian, buffer helpers *)
Lemma put_le_length n : forall x, length (put_le n x) = n.
Proof. induction n; intros; simpl; auto. Qed.

Lemma get_put_le n : forall x rest, get_le n (put_le n x ++ rest) = (x mod 256 ^ N.of_nat n)%N.
Proof.
  induction n as [|k IH]; intros x rest.
  - cbn. symmetry. apply N.mod_1_r.
  - cbn [put_le app get_le]. rewrite IH.
    replace (256 ^ N.of_nat (S k))%N with (256 * 256 ^ N.of_nat k)%N.
    2:{ replace (N.of_nat (S k)) with (N.succ (N.of_nat k)) by lia. rewrite N.pow_succ_r'. reflexivity. }
    rewrite N.mod_mul_r; [reflexivity|lia|apply N.pow_nonzero; lia].
Qed.

Definition u32ok (x : N) : Prop := (x < 4294967296)%N.
Definition u64ok (x : N) : Prop := (x < 18446744073709551616)%N.

Lemma get_put_u32 x rest : u32ok x -> get_le 4 (put_le 4 x ++ rest) = x.
Proof. intros H. rewrite get_put_le. apply N.mod_small. exact H. Qed.
Lemma get_put_u64 x rest : u64ok x -> get_le 8 (put_le 8 x ++ rest) = x.
Proof. intros H. rewrite get_put_le. apply N.mod_small. exact H. Qed.

Lemma get_u32_put x rest : u32ok x -> get_u32 (put_u32 x ++ rest) = DOk (x, rest).
Proof.
  intros H. unfold get_u32. pose proof (get_put_u32 x rest H) as E. unfold put_u32.
  cbn [put_le app] in *. rewrite E. reflexivity.
Qed.

Lemma len_ge_app {A} (l r : list A) : len_ge (l ++ r) (N.of_nat (length l)) = true.
Proof.
  induction l as [|a l IH]; [destruct r; reflexivity|].
  cbn [app length len_ge]. destruct (N.eqb_spec (N.of_nat (S (length l))) 0); [reflexivity|].
  replace (N.pred (N.of_nat (S (length l)))) with (N.of_nat (length l)) by lia. exact IH.
Qed.
Lemma takeN_app {A} (l r : list A) : takeN (l ++ r) (N.of_nat (length l)) = l.
Proof.
  induction l as [|a l IH]; [destruct r; reflexivity|].
  cbn [app length takeN]. destruct (N.eqb_spec (N.of_nat (S (length l))) 0); [lia|].
  replace (N.pred (N.of_nat (S (length l)))) with (N.of_nat (length l)) by lia. rewrite IH. reflexivity.
Qed.
Lemma dropN_app {A} (l r : list A) : dropN (l ++ r) (N.of_nat (length l)) = r.
Proof.
  induction l as [|a l IH]; [destruct r; reflexivity|].
  cbn [app length dropN]. destruct (N.eqb_spec (N.of_nat (S (length l))) 0); [lia|].
  replace (N.pred (N.of_nat (S (length l)))) with (N.of_nat (length l)) by lia. exact IH.
Qed.

Definition str_ok (s : list N) : Prop := (N.of_nat (length s) < 4294967296)%N.

Lemma get_bin_put s rest : str_ok s -> get_bin (put_str s ++ rest) = DOk (s, rest).
Proof.
  intros H. unfold get_bin, put_str. rewrite <- app_assoc. rewrite get_u32_put by exact H.
  cbn [dbind]. rewrite len_ge_app, takeN_app, dropN_app. reflexivity.
Qed.

(* ---------------------------------------------------------------- Chunks on bytes *)
Lemma put_varint_nonnil x : i64 x -> put_varint x <> [].
Proof. intros H E. destruct (varint_rt x [] H) as [_ L]. rewrite E in L. simpl in L. lia. Qed.

Lemma unpack_bytes_go_eq f buf lid cur done : buf <> [] ->
  unpack_bytes_go (S f) buf lid cur done =
  match get_varint buf with
  | DOk (d, rest) =>
      let lid' := u32 (lid + u32 d) in
      if (lid' =? maxu32)%Z
      then unpack_bytes_go f rest (u32 (lid' - u32 d)) [] (rev cur :: done)
      else unpack_bytes_go f rest lid' (Z.to_N lid' :: cur) done
  | DErr => DErr | DPanic => DPanic | DFuel => DFuel
  end.
Proof. destruct buf; [congruence|reflexivity]. Qed.

Lemma unpack_bytes_vals : forall vals fuel lid cur done,
  Forall i64 vals -> length (flat_map put_varint vals) <= fuel ->
  unpack_bytes_go fuel (flat_map put_varint vals) lid cur done = DOk (unpack_go vals lid cur done).
Proof.
  induction vals as [|d r IH]; intros fuel lid cur done Hf Hl.
  - cbn [flat_map]. destruct fuel; cbn [unpack_bytes_go unpack_go unpack_finish]; destruct cur; reflexivity.
  - inversion Hf as [|? ? Hd Hr]; subst. cbn [flat_map] in *.
    destruct (varint_rt d [] Hd) as [_ L]. rewrite app_length in Hl.
    destruct fuel as [|f]; [lia|].
    rewrite unpack_bytes_go_eq.
    2:{ intros E. apply app_eq_nil in E. destruct E as [E _]. exact (put_varint_nonnil d Hd E). }
    rewrite varint_roundtrip by exact Hd. cbn [unpack_go]. cbv zeta.
    destruct (u32 (lid + u32 d) =? maxu32)%Z; apply IH; auto; lia.
Qed.

Definition lid32 (x : N) : Prop := (x < 4294967296)%N.

Lemma pack_chunk_i64 l : forall last, (0 <= last < two32)%Z -> Forall lid32 l ->
  Forall i64 (pack_chunk last l) /\ (0 <= last_lid last l < two32)%Z.
Proof.
  induction l as [|x r IH]; intros last Hl Hf; cbn [pack_chunk last_lid]; [split; [constructor|exact Hl]|].
  inversion Hf as [|? ? Hx Hr]; subst. unfold lid32 in Hx.
  destruct (IH (Z.of_N x)) as [A B]; [unfold two32; lia|exact Hr|].
  split; [|exact B]. constructor; [|exact A]. unfold i64, two63, two32 in *. lia.
Qed.

Lemma pack_from_i64 cs : forall last isLast, (0 <= last < two32)%Z -> Forall (Forall lid32) cs ->
  Forall i64 (pack_from last cs isLast).
Proof.
  induction cs as [|c rest IH]; intros last isLast Hl Hf; cbn [pack_from]; [constructor|].
  inversion Hf as [|? ? Hc Hr]; subst.
  destruct (pack_chunk_i64 c last Hl Hc) as [A B].
  apply Forall_app. split; [exact A|]. apply Forall_app. split.
  - destruct (negb (is_nil rest) || isLast); constructor; [|constructor].
    unfold i64, two63, two32 in *. lia.
  - apply IH; auto.
Qed.

Lemma lid_ok_32 x : lid_ok x -> lid32 x.
Proof. unfold lid_ok, lid32. lia. Qed.

(* Chunks.unpack on the bytes Chunks.Pack wrote = Model.unpack on the values Model.pack produced *)
Lemma unpack_bytes_pack c : Forall (Forall lid32) (c_list c) -> unpack_bytes (pack_bytes c) = DOk (unpack (pack c)).
Proof.
  intros H. unfold unpack_bytes, pack_bytes, unpack. apply unpack_bytes_vals; [|lia].
  apply pack_from_i64; [unfold two32; lia|exact H].
Qed.

Theorem chunks_bytes_roundtrip c : chunks_wf c -> unpack_bytes (pack_bytes c) = DOk c.
Proof.
  intros H. rewrite unpack_bytes_pack.
  - rewrite chunks_codec by exact H. reflexivity.
  - destruct H as [Hf _]. eapply Forall_impl; [|exact Hf]. intros l Hl.
    eapply Forall_impl; [|exact Hl]. exact lid_ok_32.
Qed.

(* Chunks.unpack is total on arbitrary bytes: chunks or an error, never a panic, never out of fuel *)
Lemma unpack_bytes_go_total : forall fuel buf lid cur done, length buf <= fuel ->
  match unpack_bytes_go fuel buf lid cur done with DOk _ | DErr => True | _ => False end.
Proof.
  induction fuel as [|f IH]; intros buf lid cur done Hl.
  - destruct buf; [exact I|simpl in Hl; lia].
  - destruct buf as [|b r]; [exact I|].
    rewrite unpack_bytes_go_eq by congruence.
    pose proof (get_varint_total (b :: r)) as T.
    destruct (get_varint (b :: r)) as [[d rest]| | |]; try exact I; try contradiction.
    destruct T as [_ [pre [E Lp]]].
    assert (length rest <= f).
    { apply (f_equal (@length N)) in E. rewrite app_length in E. simpl in E, Hl. lia. }
    cbv zeta. destruct (u32 (lid + u32 d) =? maxu32)%Z; apply IH; assumption.
Qed.
Theorem unpack_bytes_total buf : match unpack_bytes buf with DOk _ | DErr => True | _ => False end.
Proof. apply unpack_bytes_go_total. lia. Qed.

(* ---------------------------------------------------------------- ID blocks on bytes *)
Lemma delta_rt x prev : (0 <= x < two64)%Z -> (0 <= prev < two64)%Z ->
  i64 (to_i64 (u64 (x - prev))) /\ u64 (prev + u64 (to_i64 (u64 (x - prev)))) = x.
Proof.
  intros Hx Hp. unfold i64, to_i64, u64, two63, two64 in *.
  destruct (Z.ltb_spec ((x - prev) mod 18446744073709551616) 9223372036854775808); split; lia.
Qed.

Lemma u64ok_Z x : u64ok x -> (0 <= Z.of_N x < two64)%Z.
Proof. unfold u64ok, two64. lia. Qed.

Lemma unpack_ids_varint_go_eq f src id : src <> [] ->
  unpack_ids_varint_go (S f) src id =
  let '(delta, n) := varint src in
  if (n <=? 0)%Z then DPanic else
  let id' := u64 (id + u64 delta) in
  dbind (unpack_ids_varint_go f (skipn (Z.to_nat n) src) id') (fun l => DOk (Z.to_N id' :: l)).
Proof. destruct src; [congruence|reflexivity]. Qed.

Lemma unpack_ids_varint_rt : forall xs fuel prev,
  Forall u64ok xs -> (0 <= prev < two64)%Z -> length (pack_deltas prev xs) <= fuel ->
  unpack_ids_varint_go fuel (pack_deltas prev xs) prev = DOk xs.
Proof.
  induction xs as [|x r IH]; intros fuel prev Hf Hp Hl.
  - destruct fuel; reflexivity.
  - inversion Hf as [|? ? Hx Hr]; subst. cbn [pack_deltas] in *.
    destruct (delta_rt (Z.of_N x) prev (u64ok_Z x Hx) Hp) as [Hd Hid].
    destruct (varint_rt (to_i64 (u64 (Z.of_N x - prev))) (pack_deltas (Z.of_N x) r) Hd) as [E L].
    rewrite app_length in Hl. destruct fuel as [|f]; [lia|].
    rewrite unpack_ids_varint_go_eq.
    2:{ intros En. apply app_eq_nil in En. destruct En as [En _]. exact (put_varint_nonnil _ Hd En). }
    rewrite E. destruct (Z.leb_spec (Z.of_nat (length (put_varint (to_i64 (u64 (Z.of_N x - prev)))))) 0); [lia|].
    cbv zeta. rewrite Hid. rewrite Nat2Z.id, skipn_app_len.
    rewrite IH; [|exact Hr|apply u64ok_Z; exact Hx|lia]. cbn [dbind]. rewrite N2Z.id. reflexivity.
Qed.

Theorem mids_roundtrip xs : Forall u64ok xs -> unpack_ids_varint (pack_mids xs) = DOk xs.
Proof. intros H. apply unpack_ids_varint_rt; [exact H|unfold two64; lia|unfold pack_mids; lia]. Qed.

Lemma unpack_ids_raw_step x rest :
  unpack_ids_raw (put_u64 x ++ rest) = dbind (unpack_ids_raw rest) (fun l => DOk (get_le 8 (put_u64 x ++ rest) :: l)).
Proof. unfold put_u64. cbn [put_le app]. reflexivity. Qed.

Theorem rids_raw_roundtrip xs : Forall u64ok xs -> unpack_ids_raw (pack_rids xs) = DOk xs.
Proof.
  induction xs as [|x r IH]; intros H; [reflexivity|].
  inversion H as [|? ? Hx Hr]; subst. unfold pack_rids. cbn [flat_map].
  rewrite unpack_ids_raw_step. fold (pack_rids r). rewrite (IH Hr). cbn [dbind].
  unfold put_u64. rewrite (get_put_u64 x _ Hx). reflexivity.
Qed.

(* positions block *)
Lemma load_offsets_go_eq f src off : src <> [] ->
  load_offsets_go (S f) src off =
  let '(delta, n) := varint src in
  if (n =? 0)%Z then DErr else
  if (n <? 0)%Z then DPanic else
  let off' := u64 (off + u64 delta) in
  dbind (load_offsets_go f (skipn (Z.to_nat n) src) off') (fun l => DOk (Z.to_N off' :: l)).
Proof. destruct src; [congruence|reflexivity]. Qed.

Lemma load_offsets_rt : forall xs fuel prev,
  Forall u64ok xs -> (0 <= prev < two64)%Z -> length (pack_deltas prev xs) <= fuel ->
  load_offsets_go fuel (pack_deltas prev xs) prev = DOk xs.
Proof.
  induction xs as [|x r IH]; intros fuel prev Hf Hp Hl.
  - destruct fuel; reflexivity.
  - inversion Hf as [|? ? Hx Hr]; subst. cbn [pack_deltas] in *.
    destruct (delta_rt (Z.of_N x) prev (u64ok_Z x Hx) Hp) as [Hd Hid].
    destruct (varint_rt (to_i64 (u64 (Z.of_N x - prev))) (pack_deltas (Z.of_N x) r) Hd) as [E L].
    rewrite app_length in Hl. destruct fuel as [|f]; [lia|].
    rewrite load_offsets_go_eq.
    2:{ intros En. apply app_eq_nil in En. destruct En as [En _]. exact (put_varint_nonnil _ Hd En). }
    rewrite E.
    destruct (Z.eqb_spec (Z.of_nat (length (put_varint (to_i64 (u64 (Z.of_N x - prev)))))) 0); [lia|].
    destruct (Z.ltb_spec (Z.of_nat (length (put_varint (to_i64 (u64 (Z.of_N x - prev)))))) 0); [lia|].
    cbv zeta. rewrite Hid. rewrite Nat2Z.id, skipn_app_len.
    rewrite IH; [|exact Hr|apply u64ok_Z; exact Hx|lia]. cbn [dbind]. rewrite N2Z.id. reflexivity.
Qed.

Theorem positions_roundtrip total blocks :
  u32ok total -> u32ok (N.of_nat (length blocks)) -> Forall u64ok blocks ->
  load_positions (pack_positions total blocks) = DOk (N.of_nat (length blocks), total, blocks).
Proof.
  intros Ht Hn Hb. unfold load_positions, pack_positions.
  rewrite get_u32_put by exact Hn. cbn [dbind]. rewrite get_u32_put by exact Ht. cbn [dbind].
  rewrite load_offsets_rt; [reflexivity|exact Hb|unfold two64; lia|lia].
Qed.

(* decoders of ID blocks never run out of fuel *)
Lemma unpack_ids_varint_go_fuel : forall fuel src id, length src <= fuel -> unpack_ids_varint_go fuel src id <> DFuel.
Proof.
  induction fuel as [|f IH]; intros src id Hl.
  - destruct src; [discriminate|simpl in Hl; lia].
  - destruct src as [|b r]; [discriminate|]. rewrite unpack_ids_varint_go_eq by congruence.
    pose proof (get_varint_total (b :: r)) as T. unfold get_varint in T.
    destruct (varint (b :: r)) as [d n]. destruct (Z.leb_spec n 0); [discriminate|].
    destruct T as [_ [pre [E Lp]]]. cbv zeta.
    assert (Hr : length (skipn (Z.to_nat n) (b :: r)) <= f).
    { apply (f_equal (@length N)) in E. rewrite app_length in E. simpl in E, Hl. lia. }
    specialize (IH (skipn (Z.to_nat n) (b :: r)) (u64 (id + u64 d)) Hr).
    destruct (unpack_ids_varint_go f (skipn (Z.to_nat n) (b :: r)) (u64 (id + u64 d))); cbn [dbind]; congruence.
Qed.

(* ---------------------------------------------------------------- token blocks on bytes *)
Definition item := option (list N).
Definition item_bytes (it : item) : list N := match it with Some t => put_str t | None => put_u32 sep32 end.
Definition items_bytes (its : list item) : list N := flat_map item_bytes its.
Fixpoint item_positions (its : list item) (off : N) : list N :=
  match its with
  | [] => []
  | Some t :: r => off :: item_positions r (off + 4 + N.of_nat (length t))%N
  | None :: r => item_positions r (off + 4)%N
  end.
Fixpoint item_tokens (its : list item) : list (list N) :=
  match its with [] => [] | Some t :: r => t :: item_tokens r | None :: r => item_tokens r end.
Definition tok_ok (t : list N) : Prop := (N.of_nat (length t) < 4294967295)%N.
Definition item_ok (it : item) : Prop := match it with Some t => tok_ok t | None => True end.
Definition flatten (groups : list (list (list N))) : list item := flat_map (fun g => map Some g ++ [None]) groups.

Lemma items_bytes_app a b : items_bytes (a ++ b) = items_bytes a ++ items_bytes b.
Proof. unfold items_bytes. apply flat_map_app. Qed.
Lemma items_bytes_some g : items_bytes (map Some g) = flat_map put_str g.
Proof. induction g as [|t r IH]; [reflexivity|]. cbn [map]. unfold items_bytes in *. cbn [flat_map item_bytes]. rewrite IH. reflexivity. Qed.
Lemma flatten_bytes groups : items_bytes (flatten groups) = pack_phys groups.
Proof.
  induction groups as [|g r IH]; [reflexivity|].
  unfold flatten, pack_phys in *. cbn [flat_map]. rewrite !items_bytes_app, items_bytes_some. fold (flatten r).
  unfold flatten. rewrite IH. unfold pack_tokens. cbn [items_bytes flat_map item_bytes]. rewrite app_nil_r. reflexivity.
Qed.
Lemma item_tokens_app a b : item_tokens (a ++ b) = item_tokens a ++ item_tokens b.
Proof. induction a as [|[t|] r IH]; cbn [app item_tokens]; [reflexivity|rewrite IH; reflexivity|exact IH]. Qed.
Lemma item_tokens_some g : item_tokens (map Some g) = g.
Proof. induction g as [|t r IH]; [reflexivity|]. cbn [map item_tokens]. rewrite IH. reflexivity. Qed.
Lemma flatten_tokens groups : item_tokens (flatten groups) = concat groups.
Proof.
  induction groups as [|g r IH]; [reflexivity|].
  unfold flatten in *. cbn [flat_map concat]. rewrite !item_tokens_app, item_tokens_some, IH. cbn [item_tokens]. rewrite app_nil_r. reflexivity.
Qed.
Lemma flatten_ok groups : Forall (Forall tok_ok) groups -> Forall item_ok (flatten groups).
Proof.
  induction 1 as [|g r Hg Hr IH]; [constructor|].
  unfold flatten in *. cbn [flat_map]. apply Forall_app. split; [|exact IH].
  apply Forall_app. split; [|repeat constructor].
  induction Hg; cbn [map]; constructor; auto.
Qed.

Lemma put_u32_nonnil x r : put_u32 x ++ r <> [].
Proof. unfold put_u32. cbn [put_le app]. discriminate. Qed.
Lemma put_u32_length x : length (put_u32 x) = 4.
Proof. reflexivity. Qed.
Lemma put_str_length s : length (put_str s) = 4 + length s.
Proof. unfold put_str. rewrite app_length. reflexivity. Qed.

Lemma blk_unpack_go_eq f data offset offs : data <> [] ->
  blk_unpack_go (S f) data offset offs =
  match get_u32 data with
  | DOk (l, data1) =>
      let offset1 := (offset + 4)%N in
      if (l =? sep32)%N then blk_unpack_go f data1 offset1 offs
      else if len_ge data1 l
           then blk_unpack_go f (dropN data1 l) (offset1 + l)%N (offs ++ put_u32 (offset1 - 4)%N)
           else DErr
  | DErr => DErr | DPanic => DPanic | DFuel => DFuel
  end.
Proof. destruct data; [congruence|reflexivity]. Qed.

Lemma tok_ok_u32 t : tok_ok t -> u32ok (N.of_nat (length t)).
Proof. unfold tok_ok, u32ok. lia. Qed.

Lemma blk_unpack_items : forall its fuel off acc,
  Forall item_ok its -> length (items_bytes its) <= fuel ->
  blk_unpack_go fuel (items_bytes its) off acc = DOk (acc ++ flat_map put_u32 (item_positions its off)).
Proof.
  induction its as [|it r IH]; intros fuel off acc Hok Hl.
  - cbn. rewrite app_nil_r. destruct fuel; reflexivity.
  - inversion Hok as [|? ? Hit Hr]; subst. unfold items_bytes in *. cbn [flat_map] in *. fold (items_bytes r) in *.
    rewrite app_length in Hl. destruct it as [t|]; cbn [item_bytes item_positions] in *.
    + rewrite put_str_length in Hl. destruct fuel as [|f]; [lia|].
      unfold put_str. rewrite <- app_assoc. rewrite blk_unpack_go_eq by apply put_u32_nonnil.
      rewrite get_u32_put by (apply tok_ok_u32; exact Hit). cbv zeta.
      destruct (N.eqb_spec (N.of_nat (length t)) sep32) as [E|_]; [unfold item_ok, tok_ok, sep32 in *; lia|].
      rewrite len_ge_app, dropN_app.
      rewrite IH by (auto; lia).
      replace (off + 4 - 4)%N with off by lia. cbn [flat_map]. rewrite <- app_assoc. reflexivity.
    + rewrite put_u32_length in Hl. destruct fuel as [|f]; [lia|].
      rewrite blk_unpack_go_eq by apply put_u32_nonnil.
      rewrite get_u32_put by (unfold u32ok, sep32; lia). cbv zeta. rewrite N.eqb_refl.
      apply IH; auto; lia.
Qed.

Lemma item_positions_length its : forall off, length (item_positions its off) = length (item_tokens its).
Proof. induction its as [|[t|] r IH]; intros off; cbn [item_positions item_tokens length]; auto. Qed.

Lemma item_positions_bound its : forall off p, In p (item_positions its off) ->
  (p + 4 <= off + N.of_nat (length (items_bytes its)))%N.
Proof.
  induction its as [|[t|] r IH]; intros off p Hin; cbn [item_positions] in Hin; [contradiction| |];
    unfold items_bytes in *; cbn [flat_map item_bytes]; rewrite app_length.
  - rewrite put_str_length. destruct Hin as [<-|Hin]; [lia|]. specialize (IH _ _ Hin). lia.
  - rewrite put_u32_length. specialize (IH _ _ Hin). lia.
Qed.

Lemma dropN_0 {A} (l : list A) : dropN l 0 = l.
Proof. destruct l; reflexivity. Qed.
Lemma len_ge_0 {A} (l : list A) : len_ge l 0 = true.
Proof. destruct l; reflexivity. Qed.
Lemma dropN_add {A} (l r : list A) m : dropN (l ++ r) (N.of_nat (length l) + m) = dropN r m.
Proof.
  induction l as [|a l IH]; [cbn [app length]; f_equal; lia|].
  cbn [app length dropN]. destruct (N.eqb_spec (N.of_nat (S (length l)) + m) 0); [lia|].
  replace (N.pred (N.of_nat (S (length l)) + m)) with (N.of_nat (length l) + m)%N by lia. exact IH.
Qed.
Lemma len_ge_add {A} (l r : list A) m : len_ge (l ++ r) (N.of_nat (length l) + m) = len_ge r m.
Proof.
  induction l as [|a l IH]; [cbn [app length]; f_equal; lia|].
  cbn [app length len_ge]. destruct (N.eqb_spec (N.of_nat (S (length l)) + m) 0); [lia|].
  replace (N.pred (N.of_nat (S (length l)) + m)) with (N.of_nat (length l) + m)%N by lia. exact IH.
Qed.
Lemma dropN_nonnil_len_ge {A} (l : list A) : forall n, dropN l n <> [] -> len_ge l n = true.
Proof.
  induction l as [|a l IH]; intros n H; [cbn in H; congruence|].
  cbn [dropN len_ge] in *. destruct (n =? 0)%N; [reflexivity|]. apply IH. exact H.
Qed.

(* the payload at the position of token k starts with its length word and its bytes *)
Lemma payload_at : forall its pre k t, nth_error (item_tokens its) k = Some t ->
  exists rest, dropN (pre ++ items_bytes its) (nth k (item_positions its (N.of_nat (length pre))) 0%N) = put_str t ++ rest.
Proof.
  induction its as [|[t0|] r IH]; intros pre k t Hk.
  - destruct k; discriminate.
  - unfold items_bytes. cbn [flat_map item_bytes item_tokens item_positions] in *. fold (items_bytes r).
    destruct k as [|k]; cbn [nth_error nth] in *.
    + inversion Hk; subst. exists (items_bytes r). apply dropN_app.
    + destruct (IH (pre ++ put_str t0) k t Hk) as [rest E]. exists rest.
      rewrite <- app_assoc in E. rewrite <- E. f_equal. f_equal. f_equal.
      rewrite app_length, put_str_length. lia.
  - unfold items_bytes. cbn [flat_map item_bytes item_tokens item_positions] in *. fold (items_bytes r).
    destruct (IH (pre ++ put_u32 sep32) k t Hk) as [rest E]. exists rest.
    rewrite <- app_assoc in E. rewrite <- E. f_equal. f_equal. f_equal.
    rewrite app_length, put_u32_length. lia.
Qed.

(* the offsets array at index k holds the position of token k *)
Lemma offsets_at : forall ps k, k < length ps ->
  len_ge (flat_map put_u32 ps) (4 * N.of_nat k) = true /\
  exists rest, dropN (flat_map put_u32 ps) (4 * N.of_nat k) = put_u32 (nth k ps 0%N) ++ rest.
Proof.
  induction ps as [|p r IH]; intros k Hk; [simpl in Hk; lia|].
  cbn [flat_map]. destruct k as [|k].
  - cbn [nth]. change (4 * N.of_nat 0)%N with 0%N. rewrite len_ge_0, dropN_0. split; [reflexivity|eexists; reflexivity].
  - cbn [nth length] in *. replace (4 * N.of_nat (S k))%N with (N.of_nat (length (put_u32 p)) + 4 * N.of_nat k)%N
      by (rewrite put_u32_length; lia).
    rewrite len_ge_add, dropN_add. apply IH. lia.
Qed.

Theorem tokens_block_roundtrip groups :
  Forall (Forall tok_ok) groups -> (N.of_nat (length (pack_phys groups)) < 4294967296)%N ->
  exists offs, blk_unpack (pack_phys groups) = DOk offs /\
    forall k t, nth_error (concat groups) k = Some t -> get_val (pack_phys groups) offs (N.of_nat k) = DOk t.
Proof.
  intros Hok Hlen. set (its := flatten groups).
  assert (Hb : items_bytes its = pack_phys groups) by apply flatten_bytes.
  assert (Ht : item_tokens its = concat groups) by apply flatten_tokens.
  exists (flat_map put_u32 (item_positions its 0)). split.
  - unfold blk_unpack. rewrite <- Hb. rewrite blk_unpack_items; [reflexivity|apply flatten_ok; exact Hok|lia].
  - intros k t Hk. rewrite <- Ht in Hk.
    assert (Hkl : k < length (item_positions its 0)).
    { rewrite item_positions_length. apply nth_error_Some. congruence. }
    destruct (offsets_at (item_positions its 0) k Hkl) as [Hge [rest1 Hd]].
    set (p := nth k (item_positions its 0) 0%N) in *.
    assert (Hp : (p + 4 <= N.of_nat (length (pack_phys groups)))%N).
    { rewrite <- Hb. apply (item_positions_bound its 0%N p). apply nth_In. exact Hkl. }
    destruct (payload_at its [] k t Hk) as [rest2 Hpay]. cbn [app length] in Hpay. change (N.of_nat 0) with 0%N in Hpay.
    fold p in Hpay. rewrite Hb in Hpay.
    unfold get_val. rewrite Hge. cbn [negb]. rewrite Hd.
    rewrite get_u32_put by (unfold u32ok; lia). cbn [dbind].
    rewrite (dropN_nonnil_len_ge (pack_phys groups) p).
    2:{ rewrite Hpay. unfold put_str. rewrite <- app_assoc. apply put_u32_nonnil. }
    cbn [negb]. rewrite Hpay. unfold put_str. rewrite <- app_assoc.
    assert (Htk : tok_ok t).
    { assert (Hin : In t (concat groups)) by (rewrite <- Ht; eapply nth_error_In; exact Hk).
      apply in_concat in Hin. destruct Hin as [g [Hg Htg]].
      rewrite Forall_forall in Hok. specialize (Hok g Hg). rewrite Forall_forall in Hok. exact (Hok t Htg). }
    rewrite get_u32_put by (apply tok_ok_u32; exact Htk). cbn [dbind].
    rewrite len_ge_app, takeN_app. reflexivity.
Qed.

(* Block.unpack never runs out of fuel: on any bytes it yields offsets, an error (a length word larger than
   the rest) or a panic (1..3 stray bytes where a length word is expected) *)
Lemma dropN_length {A} (l : list A) : forall n, length (dropN l n) <= length l.
Proof. induction l as [|a l IH]; intros n; cbn [dropN]; [lia|]. destruct (n =? 0)%N; [lia|]. cbn [length]. specialize (IH (N.pred n)). lia. Qed.

Lemma blk_unpack_go_fuel : forall fuel data off offs, length data <= fuel -> blk_unpack_go fuel data off offs <> DFuel.
Proof.
  induction fuel as [|f IH]; intros data off offs Hl.
  - destruct data; [discriminate|simpl in Hl; lia].
  - destruct data as [|b0 r]; [discriminate|]. rewrite blk_unpack_go_eq by congruence.
    unfold get_u32. destruct r as [|b1 [|b2 [|b3 r]]]; try discriminate.
    cbv zeta. cbn [length] in Hl.
    destruct (_ =? sep32)%N; [apply IH; lia|].
    destruct (len_ge r _); [|discriminate]. apply IH. pose proof (dropN_length r (get_le 4 (b0 :: b1 :: b2 :: b3 :: r))). lia.
Qed.
Theorem blk_unpack_total data : blk_unpack data <> DFuel.
Proof. apply blk_unpack_go_fuel. lia. Qed.

(* ---------------------------------------------------------------- token table blocks on bytes *)
Definition entry_ok (e : tentryb) : Prop :=
  u32ok (tb_tid e) /\ u32ok (tb_cnt e) /\ u32ok (tb_sidx e) /\ u32ok (tb_blk e) /\ str_ok (tb_min e) /\ str_ok (tb_max e).
Definition field_ok (f : list N * list tentryb) : Prop :=
  str_ok (fst f) /\ u32ok (N.of_nat (length (snd f))) /\ Forall entry_ok (snd f).

Lemma load_entries_eq fuel cnt first buf minv acc :
  load_entries fuel cnt first buf minv acc =
  if (cnt =? 0)%N then DOk (minv, rev acc, buf) else
  match fuel with
  | 0 => DFuel
  | S f =>
      dbind (get_u32 buf) (fun '(tid, b1) =>
      dbind (get_u32 b1) (fun '(vc, b2) =>
      dbind (get_u32 b2) (fun '(si, b3) =>
      dbind (get_u32 b3) (fun '(bi, b4) =>
      dbind (get_bin b4) (fun '(mn, b5) =>
      dbind (get_bin b5) (fun '(mx, b6) =>
        load_entries f (N.pred cnt) false b6 (if first then mn else minv) ((tid, vc, si, bi, mx) :: acc)))))))
  end.
Proof. destruct fuel; reflexivity. Qed.

Lemma load_entries_rt : forall es fuel first minv acc rest,
  Forall entry_ok es -> length es <= fuel ->
  load_entries fuel (N.of_nat (length es)) first (flat_map pack_entry es ++ rest) minv acc
  = DOk (match es with [] => minv | e :: _ => if first then tb_min e else minv end, rev acc ++ map lentry_of es, rest).
Proof.
  induction es as [|e r IH]; intros fuel first minv acc rest Hok Hl; rewrite load_entries_eq.
  - cbn. rewrite app_nil_r. reflexivity.
  - inversion Hok as [|? ? He Hr]; subst. destruct He as (H1 & H2 & H3 & H4 & H5 & H6).
    cbn [length] in *. destruct (N.eqb_spec (N.of_nat (S (length r))) 0); [lia|].
    destruct fuel as [|f]; [lia|].
    cbn [flat_map]. unfold pack_entry. repeat rewrite <- app_assoc.
    rewrite get_u32_put by exact H1. cbn [dbind].
    rewrite get_u32_put by exact H2. cbn [dbind].
    rewrite get_u32_put by exact H3. cbn [dbind].
    rewrite get_u32_put by exact H4. cbn [dbind].
    rewrite get_bin_put by exact H5. cbn [dbind].
    rewrite get_bin_put by exact H6. cbn [dbind].
    replace (N.pred (N.of_nat (S (length r)))) with (N.of_nat (length r)) by lia.
    rewrite IH by (auto; lia).
    cbn [rev map]. rewrite <- app_assoc. cbn [app]. destruct r; reflexivity.
Qed.

Lemma pack_entry_len e : 1 <= length (pack_entry e).
Proof. unfold pack_entry. rewrite app_length, put_u32_length. lia. Qed.
Lemma entries_len es : length es <= length (flat_map pack_entry es).
Proof.
  induction es as [|e r IH]; [simpl; lia|]. cbn [flat_map length]. rewrite app_length.
  pose proof (pack_entry_len e). lia.
Qed.

Lemma load_table_go_eq f buf : buf <> [] ->
  load_table_go (S f) buf =
  dbind (get_bin buf) (fun '(name, b1) =>
  dbind (get_u32 b1) (fun '(n, b2) =>
  dbind (load_entries (S (length b2)) n true b2 [] []) (fun '(minv, es, b3) =>
  dbind (load_table_go f b3) (fun l => DOk ((name, minv, es) :: l))))).
Proof. destruct buf; [congruence|reflexivity]. Qed.

Lemma load_table_rt : forall fs fuel, Forall field_ok fs -> length (pack_table fs) <= fuel ->
  load_table_go fuel (pack_table fs) = DOk (map lfield_of fs).
Proof.
  induction fs as [|[name es] r IH]; intros fuel Hok Hl.
  - destruct fuel; reflexivity.
  - inversion Hok as [|? ? Hf Hr]; subst. destruct Hf as (Hn & Hc & He). cbn [fst snd] in *.
    unfold pack_table in *. cbn [flat_map] in *. fold (pack_table r) in *.
    unfold pack_field in *. cbn [fst snd] in *. repeat rewrite <- app_assoc in *.
    rewrite !app_length, put_str_length in Hl. destruct fuel as [|f]; [lia|].
    rewrite load_table_go_eq.
    2:{ unfold put_str. rewrite <- app_assoc. apply put_u32_nonnil. }
    rewrite get_bin_put by exact Hn. cbn [dbind].
    rewrite get_u32_put by exact Hc. cbn [dbind].
    rewrite load_entries_rt.
    2: exact He.
    2:{ rewrite app_length. pose proof (entries_len es). lia. }
    cbn [dbind rev app].
    rewrite IH by (auto; lia). cbn [dbind map]. reflexivity.
Qed.

Theorem token_table_roundtrip fs : Forall field_ok fs -> load_table (pack_table fs) = DOk (map lfield_of fs).
Proof. intros H. apply load_table_rt; [exact H|lia]. Qed.

(* ---------------------------------------------------------------- index block header and registry *)
Definition hdr_ok (h : hdrb) : Prop :=
  (hb_codec h < 256)%N /\ u32ok (hb_len h) /\ u32ok (hb_rawlen h) /\ u64ok (hb_ext1 h) /\ u64ok (hb_ext2 h) /\ u64ok (hb_pos h).

Lemma skipn_put_le n x (r : list N) : skipn n (put_le n x ++ r) = r.
Proof. rewrite <- (put_le_length n x) at 1. apply skipn_app_len. Qed.
Lemma skipn_put_le_add n k x (r : list N) : skipn (n + k) (put_le n x ++ r) = skipn k r.
Proof.
  rewrite <- (put_le_length n x) at 1. generalize (put_le n x). intros l.
  induction l; simpl; auto.
Qed.

Lemma pack_hdr_length h : length (pack_hdr h) = 33.
Proof. reflexivity. Qed.

Theorem header_roundtrip h rest : hdr_ok h -> unpack_hdr (pack_hdr h ++ rest) = h.
Proof.
  intros (Hc & Hl & Hr & H1 & H2 & Hp). destruct h as [c l rl e1 e2 p]. cbn [hb_codec hb_len hb_rawlen hb_ext1 hb_ext2 hb_pos] in *.
  unfold unpack_hdr, hdr_codec, hdr_len, hdr_rawlen, hdr_ext1, hdr_ext2, hdr_pos, pack_hdr.
  cbn [hb_codec hb_len hb_rawlen hb_ext1 hb_ext2 hb_pos]. repeat rewrite <- app_assoc. cbn [app nth].
  f_equal.
  - apply N.mod_small. exact Hc.
  - rewrite skipn_cons, skipn_O. apply get_put_u32. exact Hl.
  - rewrite skipn_cons, skipn_put_le. apply get_put_u32. exact Hr.
  - rewrite skipn_cons. change 8 with (4 + 4). rewrite skipn_put_le_add, skipn_put_le. apply get_put_u64. exact H1.
  - rewrite skipn_cons. change 16 with (4 + (4 + 8)). rewrite !skipn_put_le_add, skipn_put_le. apply get_put_u64. exact H2.
  - rewrite skipn_cons. change 24 with (4 + (4 + (8 + 8))). rewrite !skipn_put_le_add, skipn_put_le.
    rewrite <- (app_nil_r (put_le 8 p ++ rest)). rewrite <- app_assoc. apply get_put_u64. exact Hp.
Qed.

Definition hdr3 (h : hdrb) : hdr := (hb_len h, hb_ext1 h, hb_ext2 h).

Lemma firstn_app_len {A} (l r : list A) : firstn (length l) (l ++ r) = l.
Proof. induction l; simpl; [destruct r; reflexivity|f_equal; auto]. Qed.

Lemma split_registry_rt : forall hs fuel, length hs <= fuel ->
  split_registry fuel (pack_registry hs) = map pack_hdr hs.
Proof.
  induction hs as [|h r IH]; intros fuel Hl.
  - destruct fuel; reflexivity.
  - cbn [length] in Hl. destruct fuel as [|f]; [lia|].
    unfold pack_registry. cbn [flat_map]. fold (pack_registry r).
    assert (Hne : pack_hdr h ++ pack_registry r <> []) by (unfold pack_hdr; cbn [app]; discriminate).
    destruct (pack_hdr h ++ pack_registry r) eqn:E; [congruence|]. rewrite <- E.
    cbn [split_registry map]. rewrite E. cbn [split_registry]. rewrite <- E.
    change 33 with (length (pack_hdr h)). rewrite firstn_app_len, skipn_app_len. f_equal. apply IH. lia.
Qed.

Lemma pack_registry_length hs : length (pack_registry hs) = 33 * length hs.
Proof.
  induction hs as [|h r IH]; [reflexivity|]. unfold pack_registry in *. cbn [flat_map length]. rewrite app_length, IH, pack_hdr_length. lia.
Qed.

(* what Loader.Load sees of the registry bytes the writer produced: Len, Ext1, Ext2 of every header *)
Theorem registry_roundtrip hs : Forall hdr_ok hs -> read_registry (pack_registry hs) = map hdr3 hs.
Proof.
  intros Hok. unfold read_registry. rewrite split_registry_rt by (rewrite pack_registry_length; lia).
  rewrite map_map. apply map_ext_in. intros h Hin. rewrite Forall_forall in Hok. specialize (Hok h Hin).
  pose proof (header_roundtrip h [] Hok) as E. rewrite app_nil_r in E.
  assert (El := f_equal hb_len E). assert (E1 := f_equal hb_ext1 E). assert (E2 := f_equal hb_ext2 E).
  unfold unpack_hdr in El, E1, E2. cbn [hb_len hb_ext1 hb_ext2] in El, E1, E2.
  unfold hdr3. rewrite El, E1, E2. reflexivity.
Qed.

Lemma skipn_registry : forall i hs, skipn (i * 33) (pack_registry hs) = pack_registry (skipn i hs).
Proof.
  induction i as [|i IH]; intros hs; [reflexivity|].
  destruct hs as [|h r]; [destruct (S i * 33); reflexivity|].
  unfold pack_registry. cbn [flat_map skipn]. fold (pack_registry r).
  replace (S i * 33) with (length (pack_hdr h) + i * 33) by (rewrite pack_hdr_length; lia).
  generalize (pack_hdr h). intros l. induction l; simpl; auto.
Qed.

(* IndexReader.GetBlockHeader on the written registry: header i, for every i below the count; an error above *)
Theorem get_header_roundtrip hs i h : nth_error hs i = Some h -> get_header (pack_registry hs) i = DOk (pack_hdr h).
Proof.
  intros Hn. unfold get_header. rewrite pack_registry_length.
  assert (Hi : i < length hs) by (apply nth_error_Some; congruence).
  destruct (Nat.ltb_spec (33 * length hs) ((i + 1) * 33)); [lia|].
  rewrite skipn_registry.
  assert (Hs : exists r, skipn i hs = h :: r).
  { clear - Hn. revert hs Hn. induction i as [|i IH]; intros [|a l] Hn; try discriminate; cbn in *.
    - inversion Hn; subst. eexists; reflexivity.
    - apply IH. exact Hn. }
  destruct Hs as [r Hs]. rewrite Hs. unfold pack_registry. cbn [flat_map].
  change 33 with (length (pack_hdr h)). rewrite firstn_app_len. reflexivity.
Qed.
Theorem get_header_beyond hs i : length hs <= i -> get_header (pack_registry hs) i = DErr.
Proof.
  intros H. unfold get_header. rewrite pack_registry_length.
  destruct (Nat.ltb_spec (33 * length hs) ((i + 1) * 33)); [reflexivity|lia].
Qed.
