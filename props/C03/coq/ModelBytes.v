(* C03 — executable model of the BYTE-LEVEL block codecs of a sealed fraction. NO proofs in this file.

   Mirrors, statement by statement:
     encoding/binary (go1.24)       PutUvarint / PutVarint / Uvarint / Varint, LittleEndian.{Put,}Uint32/64
     packer/bytes_packer.go         PutVarint (10 byte scratch buffer), PutUint32, PutUint64, PutBytes, PutStringWithSize
     packer/bytes_unpacker.go       GetVarint (error when n <= 0), GetUint32, GetBinary (panic on short input)
     frac/lids/chunks.go            Chunks.Pack -> bytes, Chunks.unpack on bytes
     frac/disk_blocks.go            DiskIDsBlock.packMIDs / packRIDs / packPos, DiskPositionsBlock.pack,
                                    DiskTokensBlock.pack, DiskTokenTableBlock.pack (+ token.TableEntry.Pack)
     frac/unpack_cache.go           unpackRawIDsVarint, unpackRawIDsNoVarint, unpackRIDs (format by fracVersion)
     frac/sealed_loader.go          loadIDs: the body of the positions block
     frac/token/block_loader.go     Block.unpack (offsets array), Block.GetValByTID
     frac/token/table_loader.go     TableLoader.load: decode of one token table block
     disk/index_block_header.go     header layout C:LLLL:RRRR:E1:E2:P and its accessors
     disk/index_reader.go           GetBlockHeader (slice of the registry)
   A byte is an N below 256; byte strings are [list N]. Machine integers are Z (signed) / N (unsigned) with the
   wrap written out where the code relies on it. zstd is outside: everything here is the block BEFORE compression. *)
From Coq Require Import List Bool Arith NArith ZArith.
Import ListNotations.
From C03 Require Import Model.

(* outcome of a decoder: a value, a returned error, a panic (index out of range, explicit panic), or the
   model's fuel ran out (never on any input: see the adequacy lemmas in ProofsBytes.v) *)
Inductive dres (A : Type) := DOk (a : A) | DErr | DPanic | DFuel.
Arguments DOk {A} a. Arguments DErr {A}. Arguments DPanic {A}. Arguments DFuel {A}.

Definition dbind {A B} (r : dres A) (f : A -> dres B) : dres B :=
  match r with DOk a => f a | DErr => DErr | DPanic => DPanic | DFuel => DFuel end.

Definition two64 : Z := 18446744073709551616.
Definition two63 : Z := 9223372036854775808.
Definition u64 (z : Z) : Z := (z mod two64)%Z.
(* int64(u) for a uint64 u: reinterpretation of the bits *)
Definition to_i64 (u : Z) : Z := if (u <? two63)%Z then u else (u - two64)%Z.

(* ------------------------------------------------------------------ encoding/binary varints *)
(* PutUvarint: for x >= 0x80 { buf[i] = byte(x) | 0x80; x >>= 7; i++ }; buf[i] = byte(x).
   [fuel] = continuation bytes still fitting into BytesPacker.buf (10 bytes: 9 continuation bytes + the
   final one); writing buf[10] would panic — unreachable for a uint64 (uv_put_fits). *)
Fixpoint uv_put (fuel : nat) (x : N) : list N :=
  if (x <? 128)%N then [x] else
  match fuel with
  | 0 => []
  | S f => N.lor (N.land x 255) 128 :: uv_put f (N.shiftr x 7)
  end.
Definition put_uvarint (x : N) : list N := uv_put 9 x.

(* PutVarint: ux := uint64(x) << 1; if x < 0 { ux = ^ux } *)
Definition zigzag (x : Z) : N :=
  let ux := ((u64 x * 2) mod two64)%Z in
  Z.to_N (if (x <? 0)%Z then (two64 - 1 - ux)%Z else ux).
Definition put_varint (x : Z) : list N := put_uvarint (zigzag x).

(* Uvarint: returns (value, n); n = 0: buffer too small, n < 0: overflow at byte -n.
   (x is not cut to 64 bits: whenever a shift would push bits beyond 2^64 — a continuation byte at
   i = 9 — the result is discarded by the next iteration or the end of the buffer.) *)
Fixpoint uv_get (buf : list N) (i : nat) (s x : N) : N * Z :=
  match buf with
  | [] => (0%N, 0%Z)
  | b :: r =>
      if Nat.eqb i 10 then (0%N, (- Z.of_nat (i + 1))%Z)
      else if (b <? 128)%N then
             if Nat.eqb i 9 && (1 <? b)%N then (0%N, (- Z.of_nat (i + 1))%Z)
             else (N.lor x (N.shiftl b s), Z.of_nat (i + 1))
           else uv_get r (S i) (s + 7)%N (N.lor x (N.shiftl (N.land b 127) s))
  end.
Definition uvarint (buf : list N) : N * Z := uv_get buf 0 0%N 0%N.

(* Varint: x := int64(ux >> 1); if ux&1 != 0 { x = ^x } *)
Definition varint (buf : list N) : Z * Z :=
  let '(ux, n) := uvarint buf in
  let x := Z.of_N (N.shiftr ux 1) in
  ((if N.odd ux then (- x - 1)%Z else x), n).

(* BytesUnpacker.GetVarint: value and the rest of the buffer; error when n <= 0 *)
Definition get_varint (buf : list N) : dres (Z * list N) :=
  let '(v, n) := varint buf in
  if (n <=? 0)%Z then DErr else DOk (v, skipn (Z.to_nat n) buf).

(* ------------------------------------------------------------------ little endian fixed width *)
(* LittleEndian.PutUint32/64: b[k] = byte(v >> 8k) *)
Fixpoint put_le (n : nat) (x : N) : list N :=
  match n with 0 => [] | S k => (x mod 256)%N :: put_le k (x / 256)%N end.
(* LittleEndian.Uint32/64: b[0] | b[1]<<8 | ... (bytes below 256: the or is a sum) *)
Fixpoint get_le (n : nat) (buf : list N) : N :=
  match n, buf with
  | S k, b :: r => (b + 256 * get_le k r)%N
  | _, _ => 0%N
  end.
Definition put_u32 := put_le 4.
Definition put_u64 := put_le 8.
(* PutStringWithSize *)
Definition put_str (s : list N) : list N := put_u32 (N.of_nat (length s)) ++ s.

(* GetUint32: panics (index out of range) on fewer than 4 bytes *)
Definition get_u32 (buf : list N) : dres (N * list N) :=
  match buf with
  | _ :: _ :: _ :: _ :: r => DOk (get_le 4 buf, r)
  | _ => DPanic
  end.
(* true iff buf has at least n elements (l <= len(buf)) *)
Fixpoint len_ge {A} (buf : list A) (n : N) : bool :=
  match buf with
  | [] => (n =? 0)%N
  | _ :: r => if (n =? 0)%N then true else len_ge r (N.pred n)
  end.
(* first n elements / the rest, n an N *)
Fixpoint takeN {A} (buf : list A) (n : N) : list A :=
  match buf with
  | [] => []
  | b :: r => if (n =? 0)%N then [] else b :: takeN r (N.pred n)
  end.
Fixpoint dropN {A} (buf : list A) (n : N) : list A :=
  match buf with
  | [] => []
  | _ :: r => if (n =? 0)%N then buf else dropN r (N.pred n)
  end.
(* GetBinary: l := GetUint32(); val := buf[:l]; buf = buf[l:]  (panics when l > len) *)
Definition get_bin (buf : list N) : dres (list N * list N) :=
  dbind (get_u32 buf) (fun '(l, r) => if len_ge r l then DOk (takeN r l, dropN r l) else DPanic).

(* ------------------------------------------------------------------ lids.Chunks on bytes *)
(* Chunks.Pack: every value of Model.pack goes through PutVarint *)
Definition pack_bytes (c : chunks) : list N := flat_map put_varint (pack c).

(* Chunks.unpack: for data.Len() > 0 { delta, err := data.GetVarint(); if err != nil { return err };
   lid += uint32(delta); if lid == MaxUint32 { offsets = append(..); lid -= uint32(delta); continue }; append lid } *)
Definition unpack_finish (cur : list N) (done : list (list N)) : chunks :=
  match cur with
  | [] => mkChunks (rev done) true
  | _ => mkChunks (rev (rev cur :: done)) false
  end.
Fixpoint unpack_bytes_go (fuel : nat) (buf : list N) (lid : Z) (cur : list N) (done : list (list N)) : dres chunks :=
  match buf with
  | [] => DOk (unpack_finish cur done)
  | _ =>
    match fuel with
    | 0 => DFuel
    | S f =>
        match get_varint buf with
        | DOk (d, rest) =>
            let lid' := u32 (lid + u32 d) in
            if (lid' =? maxu32)%Z
            then unpack_bytes_go f rest (u32 (lid' - u32 d)) [] (rev cur :: done)
            else unpack_bytes_go f rest lid' (Z.to_N lid' :: cur) done
        | DErr => DErr | DPanic => DPanic | DFuel => DFuel
        end
    end
  end.
Definition unpack_bytes (buf : list N) : dres chunks := unpack_bytes_go (length buf) buf 0%Z [] [].

(* ------------------------------------------------------------------ ID blocks *)
(* packMIDs / packPos / DiskPositionsBlock.pack: p.PutVarint(int64(v - prev)) with uint64 arithmetic *)
Fixpoint pack_deltas (prev : Z) (xs : list N) : list N :=
  match xs with
  | [] => []
  | x :: r => put_varint (to_i64 (u64 (Z.of_N x - prev))) ++ pack_deltas (Z.of_N x) r
  end.
Definition pack_mids (mids : list N) : list N := pack_deltas 0%Z mids.
Definition pack_pos (pos : list N) : list N := pack_deltas 0%Z pos.
(* packRIDs (BinaryDataV1): PutUint64 each *)
Definition pack_rids (rids : list N) : list N := flat_map put_u64 rids.

(* unpackRawIDsVarint: for len(src) != 0 { delta, n := binary.Varint(src); if n <= 0 { panic };
   src = src[n:]; id += uint64(delta); dst = append(dst, id) } *)
Fixpoint unpack_ids_varint_go (fuel : nat) (src : list N) (id : Z) : dres (list N) :=
  match src with
  | [] => DOk []
  | _ =>
    match fuel with
    | 0 => DFuel
    | S f =>
        let '(delta, n) := varint src in
        if (n <=? 0)%Z then DPanic else
        let id' := u64 (id + u64 delta) in
        dbind (unpack_ids_varint_go f (skipn (Z.to_nat n) src) id') (fun l => DOk (Z.to_N id' :: l))
    end
  end.
Definition unpack_ids_varint (src : list N) : dres (list N) := unpack_ids_varint_go (length src) src 0%Z.

(* unpackRawIDsNoVarint: for len(src) != 0 { append(LittleEndian.Uint64(src)); src = src[8:] } *)
Fixpoint unpack_ids_raw (src : list N) : dres (list N) :=
  match src with
  | [] => DOk []
  | _ :: _ :: _ :: _ :: _ :: _ :: _ :: _ :: r => dbind (unpack_ids_raw r) (fun l => DOk (get_le 8 src :: l))
  | _ => DPanic
  end.
(* UnpackCache.unpackRIDs: fracVersion < BinaryDataV1 -> varint deltas, else raw *)
Definition unpack_rids (fracVersion : N) (src : list N) : dres (list N) :=
  if (fracVersion <? 1)%N then unpack_ids_varint src else unpack_ids_raw src.

(* DiskPositionsBlock.pack: PutUint32(len(blocks)); PutUint32(totalIDs); varint deltas of the block offsets *)
Definition pack_positions (total : N) (blocks : list N) : list N :=
  put_u32 (N.of_nat (length blocks)) ++ put_u32 total ++ pack_deltas 0%Z blocks.

(* Loader.loadIDs, the block body: IDBlocksTotal, IDsTotal (LittleEndian.Uint32 + result[4:], panics when short),
   then delta, n := binary.Varint(result); if n == 0 { return error }; result = result[n:] (n < 0: panic) *)
Fixpoint load_offsets_go (fuel : nat) (src : list N) (off : Z) : dres (list N) :=
  match src with
  | [] => DOk []
  | _ =>
    match fuel with
    | 0 => DFuel
    | S f =>
        let '(delta, n) := varint src in
        if (n =? 0)%Z then DErr else
        if (n <? 0)%Z then DPanic else
        let off' := u64 (off + u64 delta) in
        dbind (load_offsets_go f (skipn (Z.to_nat n) src) off') (fun l => DOk (Z.to_N off' :: l))
    end
  end.
Definition load_positions (buf : list N) : dres (N * N * list N) :=
  dbind (get_u32 buf) (fun '(nblocks, r1) =>
  dbind (get_u32 r1) (fun '(total, r2) =>
  dbind (load_offsets_go (length r2) r2 0%Z) (fun offs => DOk (nblocks, total, offs)))).

(* ------------------------------------------------------------------ token blocks *)
Definition sep32 : N := 4294967295.
(* DiskTokensBlock.pack: [len uint32][bytes] per token, then the 0xFFFFFFFF separator *)
Definition pack_tokens (toks : list (list N)) : list N := flat_map put_str toks ++ put_u32 sep32.
(* a physical token block: the packs of the DiskTokensBlocks it holds, one after the other *)
Definition pack_phys (groups : list (list (list N))) : list N := flat_map pack_tokens groups.

(* Block.unpack: the offsets array (bytes: PutUint32 per token), separators skipped. offset is a uint32 in
   the code; only offset-4 is used, through PutUint32, which cuts to 32 bits as put_u32 does. *)
Fixpoint blk_unpack_go (fuel : nat) (data : list N) (offset : N) (offs : list N) : dres (list N) :=
  match data with
  | [] => DOk offs
  | _ =>
    match fuel with
    | 0 => DFuel
    | S f =>
        match get_u32 data with
        | DOk (l, data1) =>
            let offset1 := (offset + 4)%N in
            if (l =? sep32)%N then blk_unpack_go f data1 offset1 offs
            else if len_ge data1 l
                 then blk_unpack_go f (dropN data1 l) (offset1 + l)%N (offs ++ put_u32 (offset1 - 4)%N)
                 else DErr
        | DErr => DErr | DPanic => DPanic | DFuel => DFuel
        end
    end
  end.
Definition blk_unpack (data : list N) : dres (list N) := blk_unpack_go (length data) data 0%N [].

(* Block.GetValByTID with valIndex = entry.getIndexInTokensBlock(tid):
   offset := Uint32(offsets[valIndex*4:]); l := Uint32(payload[offset:]); payload[offset+4 : offset+4+l] *)
Definition get_val (payload offsets : list N) (valIndex : N) : dres (list N) :=
  if negb (len_ge offsets (4 * valIndex)%N) then DPanic else
  dbind (get_u32 (dropN offsets (4 * valIndex)%N)) (fun '(offset, _) =>
  if negb (len_ge payload offset) then DPanic else
  dbind (get_u32 (dropN payload offset)) (fun '(l, r) =>
  if len_ge r l then DOk (takeN r l) else DPanic)).

(* ------------------------------------------------------------------ token table blocks *)
Record tentryb := mkTEB { tb_tid : N; tb_cnt : N; tb_sidx : N; tb_blk : N; tb_min : list N; tb_max : list N }.
(* TableEntry.Pack *)
Definition pack_entry (e : tentryb) : list N :=
  put_u32 (tb_tid e) ++ put_u32 (tb_cnt e) ++ put_u32 (tb_sidx e) ++ put_u32 (tb_blk e)
  ++ put_str (tb_min e) ++ put_str (tb_max e).
(* DiskTokenTableBlock.pack *)
Definition pack_field (f : list N * list tentryb) : list N :=
  put_str (fst f) ++ put_u32 (N.of_nat (length (snd f))) ++ flat_map pack_entry (snd f).
(* a physical token table block: several fields *)
Definition pack_table (fs : list (list N * list tentryb)) : list N := flat_map pack_field fs.

(* what TableLoader.load keeps of an entry: StartTID, ValCount, StartIndex, BlockIndex, MaxVal; of a field:
   its name, MinVal (the minVal of entry 0) and the entries *)
Definition lentry := (N * N * N * N * list N)%type.
Definition lfield := (list N * list N * list lentry)%type.

(* for i := range field.Entries { 4 x GetUint32; minVal := GetBinary; if i == 0 { field.MinVal = minVal }; MaxVal := GetBinary }
   [cnt] entries are still to read; each needs at least 24 bytes, so fuel = len(buf) is never exhausted first *)
Fixpoint load_entries (fuel : nat) (cnt : N) (first : bool) (buf : list N) (minv : list N) (acc : list lentry)
  : dres (list N * list lentry * list N) :=
  if (cnt =? 0)%N then DOk (minv, rev acc, buf) else
  match fuel with
  | 0 => DFuel
  | S f =>
      dbind (get_u32 buf) (fun '(tid, b1) =>
      dbind (get_u32 b1) (fun '(vc, b2) =>
      dbind (get_u32 b2) (fun '(si, b3) =>
      dbind (get_u32 b3) (fun '(bi, b4) =>
      dbind (get_bin b4) (fun '(mn, b5) =>
      dbind (get_bin b5) (fun '(mx, b6) =>
        load_entries f (N.pred cnt) false b6 (if first then mn else minv) ((tid, vc, si, bi, mx) :: acc)))))))
  end.
(* for unpacker.Len() > 0 { fieldName := GetBinary(); n := GetUint32(); entries...; tokenTable[fieldName] = &field } *)
Fixpoint load_table_go (fuel : nat) (buf : list N) : dres (list lfield) :=
  match buf with
  | [] => DOk []
  | _ =>
    match fuel with
    | 0 => DFuel
    | S f =>
        dbind (get_bin buf) (fun '(name, b1) =>
        dbind (get_u32 b1) (fun '(n, b2) =>
        dbind (load_entries (S (length b2)) n true b2 [] []) (fun '(minv, es, b3) =>
        dbind (load_table_go f b3) (fun l => DOk ((name, minv, es) :: l)))))
    end
  end.
Definition load_table (buf : list N) : dres (list lfield) := load_table_go (length buf) buf.

(* what the loader must return for a written field *)
Definition lentry_of (e : tentryb) : lentry := (tb_tid e, tb_cnt e, tb_sidx e, tb_blk e, tb_max e).
Definition lfield_of (f : list N * list tentryb) : lfield :=
  (fst f, match snd f with [] => [] | e :: _ => tb_min e end, map lentry_of (snd f)).

(* ------------------------------------------------------------------ index block header and registry *)
Record hdrb := mkHdrB { hb_codec : N; hb_len : N; hb_rawlen : N; hb_ext1 : N; hb_ext2 : N; hb_pos : N }.
(* NewIndexBlockHeader: 33 bytes C : LLLL : RRRR : E1 (8) : E2 (8) : P (8) *)
Definition pack_hdr (h : hdrb) : list N :=
  [(hb_codec h mod 256)%N] ++ put_le 4 (hb_len h) ++ put_le 4 (hb_rawlen h)
  ++ put_le 8 (hb_ext1 h) ++ put_le 8 (hb_ext2 h) ++ put_le 8 (hb_pos h).
(* accessors: Codec() = b[0]; Len() = Uint32(b[1:]); RawLen() = Uint32(b[5:]); GetExt1 = Uint64(b[9:]);
   GetExt2 = Uint64(b[17:]); GetPos = Uint64(b[25:]) *)
Definition hdr_codec (b : list N) : N := nth 0 b 0%N.
Definition hdr_len (b : list N) : N := get_le 4 (skipn 1 b).
Definition hdr_rawlen (b : list N) : N := get_le 4 (skipn 5 b).
Definition hdr_ext1 (b : list N) : N := get_le 8 (skipn 9 b).
Definition hdr_ext2 (b : list N) : N := get_le 8 (skipn 17 b).
Definition hdr_pos (b : list N) : N := get_le 8 (skipn 25 b).
Definition unpack_hdr (b : list N) : hdrb :=
  mkHdrB (hdr_codec b) (hdr_len b) (hdr_rawlen b) (hdr_ext1 b) (hdr_ext2 b) (hdr_pos b).

(* BlocksWriter.appendBlocksRegistry *)
Definition pack_registry (hs : list hdrb) : list N := flat_map pack_hdr hs.
(* IndexReader.GetBlockHeader: error when (index+1)*33 > len(registry), else registry[index*33 : index*33+33] *)
Definition get_header (reg : list N) (index : nat) : dres (list N) :=
  if length reg <? (index + 1) * 33 then DErr else DOk (firstn 33 (skipn (index * 33) reg)).
(* readRegistry refuses a length that is not a multiple of 33; all headers in order *)
Fixpoint split_registry (fuel : nat) (reg : list N) : list (list N) :=
  match reg with
  | [] => []
  | _ => match fuel with 0 => [] | S f => firstn 33 reg :: split_registry f (skipn 33 reg) end
  end.
(* the registry as Loader.Load sees it through Len() / GetExt1() / GetExt2() *)
Definition read_registry (reg : list N) : list hdr :=
  map (fun b => (hdr_len b, hdr_ext1 b, hdr_ext2 b)) (split_registry (length reg) reg).
