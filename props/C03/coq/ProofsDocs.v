(* C03 — the sorted-docs rewrite: fetch from the rewritten file = fetch from the active docs file. *)
From Coq Require Import List Bool Arith NArith Lia.
Import ListNotations.
From C03 Require Import Model.

Local Open Scope N_scope.

(* ------------------------------------------------------------------ DocPos *)
Lemma unpack_pack idx off p : idx < 4294967296 -> pack_pos idx off = Some p -> unpack_pos p = (idx, off).
Proof.
  unfold pack_pos, unpack_pos, max_doc_offset. intros Hi H.
  destruct (N.ltb_spec 1073741823 off) as [|Ho]; [discriminate|]. inversion H; subst p; clear H.
  rewrite N.add_1_r, N.pred_succ.
  assert (Ho' : off < 2 ^ 30) by (change (2 ^ 30) with 1073741824; lia).
  f_equal.
  - rewrite N.shiftr_lor. rewrite N.shiftr_shiftl_l by lia. replace (30 - 30) with 0 by lia.
    rewrite N.shiftl_0_r. rewrite (N.shiftr_div_pow2 off), N.div_small by exact Ho'.
    rewrite N.lor_0_r. change 4294967295 with (N.ones 32). rewrite N.land_ones. apply N.mod_small. exact Hi.
  - change 1073741823 with (N.ones 30). rewrite N.land_lor_distr_l, !N.land_ones.
    rewrite N.shiftl_mul_pow2, N.mod_mul by (compute; congruence).
    rewrite N.lor_0_l. apply N.mod_small. exact Ho'.
Qed.

Lemma sid_eq_true a b : sid_eq a b = true <-> a = b.
Proof.
  unfold sid_eq. destruct a as [a1 a2], b as [b1 b2]. cbn. rewrite andb_true_iff, !N.eqb_eq.
  split; [intros [-> ->]; reflexivity|intros E; inversion E; auto].
Qed.

(* ------------------------------------------------------------------ payloads and files *)
Fixpoint psize (p : payload) : N := match p with [] => 0 | d :: r => doc_size d + psize r end.
Fixpoint ftotal (f : dfile) : N := match f with [] => 0 | (l, _) :: r => l + ftotal r end.
Fixpoint starts (s : N) (f : dfile) : list N :=
  match f with [] => [] | (l, _) :: r => s :: starts (s + l) r end.

Lemma doc_size_pos d : 4 <= doc_size d.
Proof. unfold doc_size. lia. Qed.

Lemma doc_at_app p q off d : doc_at p off = Some d -> doc_at (p ++ q) off = Some d.
Proof.
  revert off. induction p as [|x r IH]; intros off H; [discriminate|].
  cbn [doc_at app] in *. destruct (off =? 0); auto. destruct (off <? doc_size x); [discriminate|]. auto.
Qed.

Lemma doc_at_end p d : doc_at (p ++ [d]) (psize p) = Some d.
Proof.
  induction p as [|x r IH]; [reflexivity|].
  cbn [doc_at app psize]. pose proof (doc_size_pos x).
  destruct (N.eqb_spec (doc_size x + psize r) 0); [lia|].
  destruct (N.ltb_spec (doc_size x + psize r) (doc_size x)); [lia|].
  replace (doc_size x + psize r - doc_size x) with (psize r) by lia. exact IH.
Qed.

Lemma psize_app p q : psize (p ++ q) = psize p + psize q.
Proof. induction p; cbn [psize app]; lia. Qed.

Lemma read_block_app f g off pl : read_block f off = Some pl -> read_block (f ++ g) off = Some pl.
Proof.
  revert off. induction f as [|[l p] r IH]; intros off H; [discriminate|].
  cbn [read_block app] in *. destruct (off =? 0); auto. destruct (off <? l); [discriminate|]. auto.
Qed.

Lemma read_block_end f b : Forall (fun x : N * payload => 0 < fst x) f ->
  read_block (f ++ [b]) (ftotal f) = Some (snd b).
Proof.
  induction 1 as [|[l p] r Hl Hr IH]; [destruct b; reflexivity|].
  cbn [read_block app ftotal fst] in *.
  destruct (N.eqb_spec (l + ftotal r) 0); [lia|].
  destruct (N.ltb_spec (l + ftotal r) l); [lia|].
  replace (l + ftotal r - l) with (ftotal r) by lia. exact IH.
Qed.

Lemma starts_app s f g : starts s (f ++ g) = starts s f ++ starts (s + ftotal f) g.
Proof.
  revert s. induction f as [|[l p] r IH]; intros s; cbn [starts app ftotal].
  - rewrite N.add_0_r. reflexivity.
  - f_equal. rewrite IH. f_equal. f_equal. lia.
Qed.
Lemma starts_length s f : length (starts s f) = length f.
Proof. revert s. induction f as [|[l p] r IH]; intros s; cbn; auto. Qed.
Lemma ftotal_app f g : ftotal (f ++ g) = ftotal f + ftotal g.
Proof. induction f as [|[l p] r IH]; cbn [ftotal app]; lia. Qed.

(* ------------------------------------------------------------------ writer invariant *)
(* where the document of a position lives: in a flushed block, or in the block being filled *)
Definition located (F : dfile) (O : list N) (idx : N) (cur : payload) (p : N) (d : doc) : Prop :=
  let '(bi, off) := unpack_pos p in
  (exists bo pl, nth_error O (N.to_nat bi) = Some bo /\ read_block F bo = Some pl /\ doc_at pl off = Some d)
  \/ (bi = idx /\ doc_at cur off = Some d).

Section Rewrite.
  Variable bsz : N.
  Variable lens : list N.
  Variable pa : list (sid * N).
  Variable oa : list N.
  Variable fa : dfile.
  Hypothesis Hlens : Forall (fun l => 0 < l) lens.

  Definition want (id : sid) : option doc := fetch_doc pa oa fa id.
  Definition has (w : wst) (id : sid) : Prop := pos_get (w_pos w) id <> None.

  Record winv (w : wst) : Prop := {
    v_off : rev (w_offsets w) = starts 0 (rev (w_file w));
    v_tot : w_off w = ftotal (rev (w_file w));
    v_idx : w_idx w = N.of_nat (length (w_file w));
    v_pos : Forall (fun x : N * payload => 0 < fst x) (rev (w_file w));
    v_len : w_len w = psize (rev (w_cur w));
    v_loc : forall id p, pos_get (w_pos w) id = Some p ->
              exists d, want id = Some d /\
                        located (rev (w_file w)) (rev (w_offsets w)) (w_idx w) (rev (w_cur w)) p d
  }.

  Lemma nth_lens k : 0 < nth k lens 1.
  Proof.
    destruct (nth_in_or_default k lens 1) as [H|E]; [|rewrite E; lia].
    rewrite Forall_forall in Hlens. apply Hlens; auto.
  Qed.

  Lemma located_grow F O idx cur p d x :
    located F O idx cur p d -> located F O idx (cur ++ [x]) p d.
  Proof.
    unfold located. destruct (unpack_pos p) as [bi off]. intros [H|[E H]]; [left; auto|].
    right. split; auto. apply doc_at_app; auto.
  Qed.

  Lemma located_flush F O idx cur p d len :
    O = starts 0 F -> idx = N.of_nat (length F) -> Forall (fun x : N * payload => 0 < fst x) F ->
    located F O idx cur p d ->
    located (F ++ [(len, cur)]) (O ++ [ftotal F]) (idx + 1) [] p d.
  Proof.
    intros EO Ei Hp. unfold located. destruct (unpack_pos p) as [bi off].
    intros [(bo & pl & H1 & H2 & H3)|[E H]]; left.
    - exists bo, pl. split; [|split; auto].
      + rewrite nth_error_app1; auto. apply nth_error_Some. congruence.
      + apply read_block_app; auto.
    - exists (ftotal F), cur. split; [|split; auto].
      + subst bi idx. rewrite Nat2N.id. rewrite nth_error_app2 by (rewrite EO, starts_length; lia).
        rewrite EO, starts_length, Nat.sub_diag. reflexivity.
      + apply (read_block_end F (len, cur) Hp).
  Qed.

  Lemma flush_inv w : winv w -> winv (w_flush lens w).
  Proof.
    intros [Ho Ht Hi Hp Hl Hloc]. unfold w_flush.
    set (len := nth (w_nflush w) lens 1). pose proof (nth_lens (w_nflush w)) as Hlen. fold len in Hlen.
    constructor; cbn [w_offsets w_file w_off w_idx w_len w_cur w_pos rev].
    - rewrite starts_app, <- Ho. cbn [starts]. rewrite N.add_0_l, <- Ht. reflexivity.
    - rewrite ftotal_app. cbn [ftotal]. lia.
    - cbn [length]. lia.
    - apply Forall_app. split; auto.
    - reflexivity.
    - intros id p Hg. destruct (Hloc id p Hg) as (d & Hw & Hlo). exists d. split; auto.
      rewrite Ht. apply located_flush; auto. rewrite Hi, <- rev_length. reflexivity.
  Qed.

  Lemma pos_get_cons id p m id' :
    pos_get ((id, p) :: m) id' = if sid_eq id id' then Some p else pos_get m id'.
  Proof. reflexivity. Qed.

  Lemma write_inv w id d w' :
    winv w -> w_idx w < 4294967296 -> want id = Some d -> w_write bsz lens w id d = Some w' ->
    winv w' /\ has w' id /\ (forall x, has w x -> has w' x) /\ w_idx w' <= w_idx w + 1.
  Proof.
    intros Hinv Hb Hw Hwr. unfold w_write in Hwr.
    destruct (pack_pos (w_idx w) (w_len w)) as [p|] eqn:Ep; [|discriminate].
    set (w1 := mkW (d :: w_cur w) (w_len w + doc_size d) (w_idx w) (w_off w) (w_offsets w) (w_file w)
                   ((id, p) :: w_pos w) (w_nflush w)) in *.
    assert (Hinv1 : winv w1).
    { destruct Hinv as [Ho Ht Hi Hp Hl Hloc].
      constructor; cbn [w_offsets w_file w_off w_idx w_len w_cur w_pos w1 rev]; auto.
      - rewrite psize_app. cbn [psize]. lia.
      - intros id' p' Hg. rewrite pos_get_cons in Hg. destruct (sid_eq id id') eqn:E.
        + apply sid_eq_true in E. subst id'. inversion Hg; subst p'. exists d. split; auto.
          unfold located. rewrite (unpack_pack _ _ _ Hb Ep). right. split; auto.
          rewrite Hl. apply doc_at_end.
        + destruct (Hloc id' p' Hg) as (d' & Hw' & Hlo). exists d'. split; auto. apply located_grow; auto. }
    assert (Hh1 : has w1 id).
    { unfold has. cbn [w_pos w1]. rewrite pos_get_cons.
      replace (sid_eq id id) with true by (symmetry; apply sid_eq_true; auto). discriminate. }
    assert (Hm1 : forall x, has w x -> has w1 x).
    { intros x Hx. unfold has in *. cbn [w_pos w1]. rewrite pos_get_cons. destruct (sid_eq id x); [discriminate|auto]. }
    inversion Hwr; subst w'; clear Hwr.
    destruct (bsz <? w_len w + doc_size d).
    - split; [apply flush_inv; auto|]. split; [exact Hh1|]. split; [exact Hm1|]. cbn. lia.
    - split; [auto|]. split; [exact Hh1|]. split; [exact Hm1|]. cbn. lia.
  Qed.

  Lemma loop_inv : forall ids prev w w',
    winv w -> (prev = sid0 \/ has w prev) -> w_idx w + N.of_nat (length ids) < 4294967296 ->
    w_loop bsz lens pa oa fa ids prev w = Ok w' ->
    winv w' /\ (forall x, has w x -> has w' x) /\ (forall x, In x ids -> x = sid0 \/ has w' x)
    /\ w_idx w' <= w_idx w + N.of_nat (length ids).
  Proof.
    induction ids as [|id r IH]; intros prev w w' Hinv Hprev Hb Hl.
    - inversion Hl; subst. split; [exact Hinv|]. split; [auto|]. split; [intros x []|]. cbn. lia.
    - cbn [w_loop] in Hl. cbn [length] in Hb. destruct (sid_eq id prev) eqn:E.
      + apply sid_eq_true in E. subst prev.
        destruct (IH id w w' Hinv Hprev ltac:(lia) Hl) as (H1 & H2 & H3 & H4).
        split; auto. split; auto. split; [|cbn [length]; lia].
        intros x [<-|Hx]; auto. destruct Hprev; auto.
      + fold (want id) in Hl. destruct (want id) as [d|] eqn:Ew; [|discriminate].
        destruct (w_write bsz lens w id d) as [w1|] eqn:Ewr; [|discriminate].
        destruct (write_inv w id d w1 Hinv ltac:(lia) Ew Ewr) as (Hi1 & Hh1 & Hm1 & Hx1).
        destruct (IH id w1 w' Hi1 (or_intror Hh1) ltac:(lia) Hl) as (H1 & H2 & H3 & H4).
        split; auto. split; auto. split; [|cbn [length]; lia].
        intros x [<-|Hx]; auto.
  Qed.

  Lemma winv_init : winv w_init.
  Proof. constructor; cbn; auto. intros; discriminate. Qed.

  Lemma cur_nil w : winv w -> w_len w = 0 -> w_cur w = [].
  Proof.
    intros [_ _ _ _ Hl _] H0. rewrite Hl in H0. destruct (w_cur w) as [|d r]; auto.
    cbn [rev] in H0. rewrite psize_app in H0. cbn [psize] in H0. pose proof (doc_size_pos d). lia.
  Qed.

  (* thm:C03_docs_sorted *)
  Theorem docs_sorted : forall ids pn on fn,
    N.of_nat (length ids) + 1 < 4294967296 ->
    write_sorted bsz lens pa oa fa ids = Ok (pn, on, fn) ->
    forall id, In id ids -> id <> sid0 ->
      fetch_doc pn on fn id = fetch_doc pa oa fa id /\ fetch_doc pa oa fa id <> None.
  Proof.
    intros ids pn on fn Hb Hws id Hin Hne. unfold write_sorted in Hws.
    destruct (w_loop bsz lens pa oa fa ids sid0 w_init) as [w| |] eqn:El; try discriminate.
    destruct (loop_inv ids sid0 w_init w winv_init (or_introl eq_refl) ltac:(cbn; lia) El) as (Hi & _ & Hall & Hidx).
    set (w' := if 0 <? w_len w then w_flush lens w else w) in *.
    assert (Hi' : winv w') by (unfold w'; destruct (0 <? w_len w); [apply flush_inv|]; auto).
    assert (Hcur : w_cur w' = []).
    { unfold w'. destruct (N.ltb_spec 0 (w_len w)); [reflexivity|]. apply cur_nil; auto. lia. }
    assert (Hhas : has w' id).
    { destruct (Hall id Hin) as [|H]; [congruence|]. unfold w'. destruct (0 <? w_len w); auto. }
    inversion Hws; subst pn on fn; clear Hws.
    unfold has in Hhas. destruct (pos_get (w_pos w') id) as [p|] eqn:Eg; [|congruence].
    destruct Hi' as [_ _ _ _ _ Hloc]. destruct (Hloc id p Eg) as (d & Hw & Hlo).
    unfold want in Hw. rewrite Hw. split; [|discriminate].
    unfold fetch_doc at 1. rewrite Eg. unfold located in Hlo. destruct (unpack_pos p) as [bi off].
    destruct Hlo as [(bo & pl & H1 & H2 & H3)|[_ H]].
    - rewrite H1, H2. exact H3.
    - rewrite Hcur in H. cbn in H. discriminate.
  Qed.

  (* the rewrite cannot fail on its own: with a block size below the DocPos offset limit, PackDocPos
     never panics, whatever the document sizes *)
  Lemma write_total w id d : winv w -> w_len w <= bsz -> bsz <= max_doc_offset ->
    exists w', w_write bsz lens w id d = Some w' /\ w_len w' <= bsz.
  Proof.
    intros Hinv Hl Hb. unfold w_write, pack_pos.
    destruct (N.ltb_spec max_doc_offset (w_len w)); [lia|].
    eexists. split; [reflexivity|]. cbn [w_len].
    destruct (N.ltb_spec bsz (w_len w + doc_size d)); unfold w_flush; cbn [w_len]; lia.
  Qed.

  Theorem docs_sorted_total : forall ids,
    bsz <= max_doc_offset -> N.of_nat (length ids) + 1 < 4294967296 ->
    (forall id, In id ids -> fetch_doc pa oa fa id <> None) ->
    exists r, write_sorted bsz lens pa oa fa ids = Ok r.
  Proof.
    intros ids Hb Hn Hall. unfold write_sorted.
    assert (H : forall ids prev w, winv w -> w_len w <= bsz ->
              w_idx w + N.of_nat (length ids) < 4294967296 ->
              (forall id, In id ids -> fetch_doc pa oa fa id <> None) ->
              exists w', w_loop bsz lens pa oa fa ids prev w = Ok w').
    { clear ids Hn Hall. induction ids as [|id r IH]; intros prev w Hi Hl Hx Hall; [eexists; reflexivity|].
      cbn [w_loop]. cbn [length] in Hx. destruct (sid_eq id prev).
      - apply IH; auto; try lia. intros x Hin. apply Hall. right; auto.
      - destruct (fetch_doc pa oa fa id) as [d|] eqn:Ef; [|exfalso; apply (Hall id); [left|]; auto].
        destruct (write_total w id d Hi Hl Hb) as (w1 & E1 & Hl1). rewrite E1.
        destruct (write_inv w id d w1 Hi ltac:(lia) Ef E1) as (Hi1 & _ & _ & Hx1).
        apply IH; auto; try lia. intros x Hin. apply Hall. right; auto. }
    destruct (H ids sid0 w_init winv_init ltac:(cbn; lia) ltac:(cbn; lia) Hall) as (w & E).
    rewrite E. eexists. reflexivity.
  Qed.
End Rewrite.
