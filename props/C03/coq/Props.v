(* C03 — property theorems. Only statements closed by `exact <lemma>`, Print Assumptions beneath,
   and the non-vacuity / refutation examples. The functions are those of Model.v, which the
   correspondence run (harness/cmd/hC03) compares with the real code on every check. *)
From Coq Require Import List Bool Arith NArith ZArith.
Import ListNotations.
From C03 Require Import Model ProofsCodec ProofsSearch ProofsNav ProofsGen ProofsLids ProofsBlocks ProofsDocs ProofsTables ProofsTokTab.

(* thm:C03_lids_roundtrip — for ALL posting lists (per field, per token; non-empty, strictly
   increasing, every LID below the end marker 2^32-1), every block capacity > 0, every token tid and
   every [lo,hi]: reading the token from the sealed form — getLIDsBlockGenerator -> Chunks.Pack ->
   Chunks.unpack -> lids.Table rebuilt from the registry ext words -> IteratorDesc / IteratorAsc —
   returns exactly the token's postings inside [lo,hi] (what the active form answers), ascending resp.
   descending; no panic (chunk-count check, index range), no exhausted fuel. Covers IsContinued,
   MinTID > MaxTID blocks, HasTIDInNext/PrevBlock, tokens ending exactly at a block end, field ends. *)
Theorem C03_lids_roundtrip : forall cap fields tid lo hi asc,
  0 < cap -> input_ok fields -> input_sorted fields ->
  (tokens_total fields < 4294967295)%N ->
  (1 <= tid <= tokens_total fields)%N ->
  read_postings asc cap fields tid lo hi = Ok (expected asc fields tid lo hi).
Proof. exact lids_roundtrip. Qed.
Print Assumptions C03_lids_roundtrip.

(* thm:C03_chunks_codec — what Chunks.Pack writes, Chunks.unpack reads back: same chunks, same
   IsLastLID flag, for every chunk list whose LIDs are below the end marker 2^32-1 (no order needed;
   deltas may be negative, the end marker relies on the uint32 wrap). *)
Theorem C03_chunks_codec : forall c, chunks_wf c -> unpack (pack c) = c.
Proof. exact chunks_codec. Qed.
Print Assumptions C03_chunks_codec.

(* the LID block generator terminates for every capacity > 0 *)
Theorem C03_lidblocks_total : forall cap fields, 0 < cap -> input_ok fields -> gen_blocks cap fields <> OutOfFuel.
Proof. exact gen_blocks_total. Qed.
Print Assumptions C03_lidblocks_total.

(* thm:C03_ids_tables (LID table part) — the table a restart rebuilds from the registry ext words
   (ext1 = IsContinued, ext2 = MaxTID<<32 | MinTID) equals the table sealing keeps in memory *)
Theorem C03_lids_tables_equal : forall cap fields bs,
  0 < cap -> input_ok fields -> (tokens_total fields < 4294967295)%N ->
  gen_blocks cap fields = Ok bs -> loaded_table bs = table_of bs.
Proof. exact lids_tables_equal. Qed.
Print Assumptions C03_lids_tables_equal.

(* thm:C03_tokens_total — the repaired token block generator terminates for every list of fields
   (any field size, any number of tokens) and each field's blocks are non-empty, contiguous from the
   field's first TID, cover exactly its tokens, with isStartOfField on the first block only. *)
Theorem C03_tokens_total : forall fields, exists bss, tok_gen fields = Ok bss /\ tbs_ok 1 fields bss.
Proof. exact tok_gen_total. Qed.
Print Assumptions C03_tokens_total.

(* ID blocks (and the registry minima derived from them): the sorted ID list is cut into blocks that
   are all full except the last — what `lid / IDsPerBlock` relies on — none empty, nothing lost. *)
Theorem C03_ids_blocks : forall size (ids : list sid), 1 <= size ->
  exists bs, id_blocks size ids = Some bs /\ concat bs = ids
             /\ Forall (fun b => 1 <= length b <= size) bs
             /\ Forall (fun b => length b = size) (removelast bs).
Proof. exact (@id_blocks_ok sid). Qed.
Print Assumptions C03_ids_blocks.

(* thm:C03_docs_sorted — the sorted-docs rewrite (writeSortedDocs: documents re-read in ID order, re-blocked
   by a docBlocksWriter with block size bsz, new DocPos per ID, new block offsets) keeps every fetch: for
   ANY active docs file / offsets / positions, any ID list (duplicates, any order), any block size and any
   positive compressed block lengths, each stored ID (the zero ID is the sealer's "no previous ID" and cannot
   be stored) reads from the rewritten file exactly the document it reads from the active file. Without the
   rewrite (SkipSortDocs) the sealed fraction uses the active file, offsets and positions unchanged. *)
Theorem C03_docs_sorted : forall bsz lens pa oa fa,
  Forall (fun l => 0 < l)%N lens -> forall ids pn on fn,
  (N.of_nat (length ids) + 1 < 4294967296)%N ->
  write_sorted bsz lens pa oa fa ids = Ok (pn, on, fn) ->
  forall id, In id ids -> id <> sid0 ->
    fetch_doc pn on fn id = fetch_doc pa oa fa id /\ fetch_doc pa oa fa id <> None.
Proof. exact docs_sorted. Qed.
Print Assumptions C03_docs_sorted.

(* ... and the rewrite itself cannot fail: with a block size within the DocPos offset range (30 bits;
   the default is 4 MiB) PackDocPos never panics whatever the document sizes, as long as every ID has a
   document in the active file *)
Theorem C03_docs_sorted_total : forall bsz lens pa oa fa,
  Forall (fun l => 0 < l)%N lens -> forall ids,
  (bsz <= max_doc_offset)%N -> (N.of_nat (length ids) + 1 < 4294967296)%N ->
  (forall id, In id ids -> fetch_doc pa oa fa id <> None) ->
  exists r, write_sorted bsz lens pa oa fa ids = Ok r.
Proof. exact docs_sorted_total. Qed.
Print Assumptions C03_docs_sorted_total.

(* thm:C03_ids_tables — Loader.Load walking the registry of the index file that sealing wrote (sections
   ended by empty blocks; MinBlockIDs from the ext words of the MID blocks; LID table from ext1/ext2;
   DiskStartBlockIndex and the LID StartIndex from the walk) returns exactly the tables sealing kept in
   memory (PreloadedData). Needs: every written block has a non-zero length, LID blocks are not empty. *)
Theorem C03_ids_tables : forall im,
  image_ok im ->
  Forall bok (map snd (im_lids im)) -> Forall chunks_pp (map snd (im_lids im)) ->
  Forall (fun b => (b_min b < 4294967296)%N) (map snd (im_lids im)) ->
  load (registry_of im) = Some (preloaded im).
Proof. exact ids_tables. Qed.
Print Assumptions C03_ids_tables.

(* thm:C03_form_independent (postings and ID/LID tables) — on the layout the generator produces, the
   tables a restart loads are the tables sealing kept, the chunks decoded from the file are the chunks
   sealing held, and a posting read over the loaded tables = over the preloaded tables = the active answer *)
Theorem C03_form_independent : forall cap fields im bs tid lo hi asc,
  0 < cap -> input_ok fields -> input_sorted fields ->
  (tokens_total fields < 4294967295)%N -> (1 <= tid <= tokens_total fields)%N ->
  gen_blocks cap fields = Ok bs -> map snd (im_lids im) = bs -> image_ok im ->
  load (registry_of im) = Some (preloaded im)
  /\ roundtrip_chunks bs = map b_chunks bs
  /\ (forall t, load (registry_of im) = Some t ->
        read_with (tb_lids t) (roundtrip_chunks bs) asc tid lo hi
        = read_with (tb_lids (preloaded im)) (map b_chunks bs) asc tid lo hi)
  /\ read_with (tb_lids (preloaded im)) (map b_chunks bs) asc tid lo hi = Ok (expected asc fields tid lo hi).
Proof. exact form_independent. Qed.
Print Assumptions C03_form_independent.

(* token table of a sealed fraction (writeTokensBlocks over the generator's blocks: entries with StartTID,
   ValCount, StartIndex, BlockIndex; physical blocks cut by FlushForced at the start of a field larger than
   16 KiB and by FlushIfNeeded): for EVERY dictionary (any fields, any token lengths) the table is built, and
   for every TID 1..N Table.GetEntryByTID finds an entry, that entry is the ONLY one covering the TID (so the
   map iteration order does not matter), and Block.GetValByTID at StartIndex + tid - StartTID of that entry's
   physical block is the TID-th token of the (field, value)-sorted dictionary. *)
Theorem C03_token_table_exact : forall fields,
  exists es bl, tok_table fields = Ok (es, bl) /\
    forall tid, (1 <= tid <= N.of_nat (length (concat fields)))%N ->
      (exists e, find_entry es tid = Some e /\ forall e', In e' es -> te_covers e' tid = true -> e' = e)
      /\ val_of_tid es bl tid = Some tid.
Proof. exact tok_table_exact. Qed.
Print Assumptions C03_token_table_exact.

(* ---------------------------------------------------------------- non-vacuity and refutations *)

(* hypotheses of C03_lids_roundtrip are satisfiable, on a layout with a token spanning three blocks
   (middle block has MinTID > MaxTID) and a token ending exactly at a block end *)
Example C03_lids_roundtrip_nonvacuous :
  let fields := [[[1;2;3;4;5;6;7]%N; [2;9]%N]; [[5]%N]] in
  input_ok fields /\ input_sorted fields /\ (tokens_total fields < 4294967295)%N
  /\ gen_blocks 3 fields
     = Ok [mkBlock 1 1 false (mkChunks [[1;2;3]%N] false);
           mkBlock 2 1 true (mkChunks [[4;5;6]%N] false);
           mkBlock 2 2 true (mkChunks [[7]%N; [2;9]%N] true);
           mkBlock 3 3 false (mkChunks [[5]%N] true)]
  /\ read_postings true 3 fields 1 3 6 = Ok [6;5;4;3]%N.
Proof.
  cbv zeta. split; [|split; [|split; [|split]]].
  - repeat constructor; try congruence; unfold lid_ok; reflexivity.
  - unfold input_sorted, sorted. repeat constructor.
  - reflexivity.
  - vm_compute. reflexivity.
  - vm_compute. reflexivity.
Qed.

(* "non-empty" is needed: a token without postings gets no chunk and the reader's chunk-count check fires *)
Example C03_lids_empty_posting_breaks :
  read_postings false 3 [[[1;2]%N; []; [5]%N]] 3 0 10 = Panic.
Proof. vm_compute. reflexivity. Qed.

(* capacity 0 never terminates (the model runs out of fuel) *)
Example C03_lids_cap0_diverges : gen_blocks 0 [[[1]%N]] = OutOfFuel.
Proof. vm_compute. reflexivity. Qed.

Example C03_chunks_codec_nonvacuous :
  chunks_wf (mkChunks [[4294967294%N]; [3%N]] false)
  /\ unpack (pack (mkChunks [[4294967294%N]; [3%N]] false)) = mkChunks [[4294967294%N]; [3%N]] false.
Proof.
  split; [|vm_compute; reflexivity].
  split; cbn.
  - repeat constructor; unfold lid_ok; reflexivity.
  - intros _. split; congruence.
Qed.

(* the bound is needed: LID 2^32-1 is read as an end marker *)
Example C03_chunks_codec_needs_bound :
  unpack (pack (mkChunks [[4294967295%N]] true)) <> mkChunks [[4294967295%N]] true.
Proof. exact chunks_codec_needs_bound. Qed.

(* thm:C03_tokenblocks_refuted for the code BEFORE fix cf53e44 (kept as tok_field_v0): one token of
   20000 bytes -> blocksCount 2 -> blockSize 0 -> an empty block -> tokens[-1] panics while sealing *)
Example C03_tokenblocks_v0_refuted : tok_gen_v0 [(20000%N, 1%N)] = Panic.
Proof. exact tokenblocks_v0_refuted. Qed.
Example C03_tokenblocks_fixed_witness : tok_gen [(20000%N, 1%N)] = Ok [[(1%N, 1%N, true)]].
Proof. exact tokenblocks_fixed_witness. Qed.

(* the sorted-docs rewrite of a two-block active file with block size 6: three new blocks, a nested
   (repeated) ID written once; the hypotheses of C03_docs_sorted hold for it *)
Example C03_docs_sorted_nonvacuous :
  let fa := [(20, [[1;2;3]; [9]]); (31, [[]; [7;7;7;7;7;7;7;7]])]%N in
  let pa := [((5,1), 1); ((4,2), 8); ((3,3), 1073741825); ((2,4), 1073741829)]%N in
  let ids := [(5,1); (4,2); (4,2); (3,3); (2,4)]%N in
  Forall (fun l => 0 < l)%N [17; 13; 21]%N /\ (N.of_nat (length ids) + 1 < 4294967296)%N
  /\ ~ In sid0 ids
  /\ match write_sorted 6 [17; 13; 21]%N pa [0; 20]%N fa ids with
     | Ok (pn, on, fn) => on = [0; 17; 30]%N /\ map snd fn = [[[1;2;3]]; [[9]; []]; [[7;7;7;7;7;7;7;7]]]%N
                          /\ fetch_doc pn on fn (2,4)%N = Some [7;7;7;7;7;7;7;7]%N
                          /\ fetch_doc pn on fn (3,3)%N = Some []
                          /\ fetch_doc pn on fn (4,2)%N = Some [9]%N
     | _ => False
     end.
Proof.
  cbv zeta. split; [repeat constructor|]. split; [reflexivity|]. split.
  - cbn. intros H. repeat (destruct H as [H|H]; [discriminate|]). exact H.
  - vm_compute. repeat split.
Qed.

(* the zero ID is skipped by the rewrite (prevID starts as the zero ID): it would be lost *)
Example C03_docs_zero_id_dropped :
  match write_sorted 10 [17]%N [((0,0), 1)]%N [0]%N [(20, [[1;2;3]])]%N [(0,0)]%N with
  | Ok (pn, on, fn) => fetch_doc pn on fn (0,0)%N = None
  | _ => False
  end.
Proof. vm_compute. reflexivity. Qed.

(* registry walk on the layout of C03_lids_roundtrip_nonvacuous with two ID blocks *)
Example C03_ids_tables_witness :
  let bs := [mkBlock 1 1 false (mkChunks [[1;2;3]%N] false);
             mkBlock 2 1 true (mkChunks [[4;5;6]%N] false);
             mkBlock 2 2 true (mkChunks [[7]%N; [2;9]%N] true);
             mkBlock 3 3 false (mkChunks [[5]%N] true)] in
  let im := mkImage 100 [40; 41]%N [30]%N 12 [((900, 5), (11, 12, 13)); ((100, 7), (14, 15, 16))]%N
                    (combine [21; 22; 23; 24]%N bs) in
  load (registry_of im) = Some (preloaded im)
  /\ preloaded im = mkTables [(900, 5); (100, 7)]%N 7 14 (table_of bs).
Proof. vm_compute. split; reflexivity. Qed.

(* two fields of three 9000-byte tokens: four physical blocks, StartIndex restarts with every block *)
Example C03_token_table_witness :
  tok_table [[9000; 9000; 9000]; [9000; 9000; 9000]]%N
  = Ok ([mkTE 1 1 0 1; mkTE 2 1 1 1; mkTE 3 1 0 2; mkTE 4 1 0 3; mkTE 5 1 1 3; mkTE 6 1 0 4],
        [(1, [1; 2]); (2, [3]); (3, [4; 5]); (4, [6])])%N.
Proof. vm_compute. reflexivity. Qed.

(* ================================================================ byte-level block codecs (ModelBytes.v) *)
From C03 Require Import ModelBytes ProofsBytes ProofsBytesForm.

(* thm:C03_varint_roundtrip — BytesPacker.PutVarint / BytesUnpacker.GetVarint (encoding/binary zig-zag + base-128
   little-endian groups with continuation bit): for EVERY int64 x and every following bytes, GetVarint reads x back
   and leaves exactly the following bytes; PutVarint writes 1..10 bytes (never beyond the 10-byte scratch buffer). *)
Theorem C03_varint_roundtrip : forall x, (-9223372036854775808 <= x < 9223372036854775808)%Z ->
  (forall rest, get_varint (put_varint x ++ rest) = DOk (x, rest)) /\ 1 <= length (put_varint x) <= 10.
Proof. exact varint_roundtrip_full. Qed.
Print Assumptions C03_varint_roundtrip.

(* ... and the decoder is total on EVERY byte string (no hypothesis at all, not even "bytes below 256"): it returns
   an int64 value having consumed 1..10 bytes of the buffer, or the error (truncated input, or overflow beyond 10
   bytes / beyond 64 bits); it never panics and never reads past the buffer. *)
Theorem C03_varint_decode_total : forall buf,
  match get_varint buf with
  | DOk (v, rest) => (-9223372036854775808 <= v < 9223372036854775808)%Z
                     /\ exists pre, buf = pre ++ rest /\ 1 <= length pre <= 10
  | DErr => True
  | _ => False
  end.
Proof. exact varint_decode_total. Qed.
Print Assumptions C03_varint_decode_total.

(* thm:C03_chunks_bytes_roundtrip — Chunks.unpack on the BYTES Chunks.Pack wrote returns the chunks and the IsLastLID
   flag, for every well-formed Chunks (the same chunks_wf as C03_chunks_codec, which this composes with: deltas
   int64(lid)-lastLID, marker -1-lastLID, uint32 wrap of lid += uint32(delta)). *)
Theorem C03_chunks_bytes_roundtrip : forall c, chunks_wf c -> unpack_bytes (pack_bytes c) = DOk c.
Proof. exact chunks_bytes_roundtrip. Qed.
Print Assumptions C03_chunks_bytes_roundtrip.

(* ... and Chunks.unpack is total on arbitrary bytes: chunks or the varint error, never a panic *)
Theorem C03_chunks_bytes_total : forall buf, match unpack_bytes buf with DOk _ | DErr => True | _ => False end.
Proof. exact unpack_bytes_total. Qed.
Print Assumptions C03_chunks_bytes_total.

(* thm:C03_ids_blocks_bytes_roundtrip — DiskIDsBlock.packMIDs / packRIDs / packPos read back by unpackRawIDsVarint /
   unpackRawIDsNoVarint (UnpackCache.unpackMIDs, unpackRIDs with fracVersion >= BinaryDataV1 resp. < BinaryDataV1,
   loadParamsBlock): decode(encode xs) = xs for EVERY list of uint64 — any order, so deltas may be negative or wrap
   around 2^64 (int64(mid - prev) then id += uint64(delta)). The old RID format has no encoder left in the tree:
   its bytes are the delta varints of packMIDs. *)
Theorem C03_ids_blocks_bytes_roundtrip : forall mids rids pos,
  Forall (fun x => x < 18446744073709551616)%N mids -> Forall (fun x => x < 18446744073709551616)%N rids ->
  Forall (fun x => x < 18446744073709551616)%N pos ->
  unpack_ids_varint (pack_mids mids) = DOk mids
  /\ unpack_rids 1 (pack_rids rids) = DOk rids
  /\ unpack_rids 0 (pack_mids rids) = DOk rids
  /\ unpack_ids_varint (pack_pos pos) = DOk pos.
Proof. exact ids_blocks_bytes_roundtrip. Qed.
Print Assumptions C03_ids_blocks_bytes_roundtrip.

(* DiskPositionsBlock.pack read back by Loader.loadIDs: the block count, IDsTotal and every docs block offset *)
Theorem C03_positions_block_roundtrip : forall total offs,
  (total < 4294967296)%N -> (N.of_nat (length offs) < 4294967296)%N -> Forall (fun x => x < 18446744073709551616)%N offs ->
  load_positions (pack_positions total offs) = DOk (N.of_nat (length offs), total, offs).
Proof. exact positions_block_roundtrip. Qed.
Print Assumptions C03_positions_block_roundtrip.

(* the ID block decoders terminate on arbitrary bytes (value or panic — see the examples below — never out of fuel) *)
Theorem C03_ids_decoders_total : forall v src, unpack_rids v src <> DFuel.
Proof. exact ids_decoders_total. Qed.
Print Assumptions C03_ids_decoders_total.

(* thm:C03_tokens_block_bytes_roundtrip — a physical token block = the packs of ANY number of DiskTokensBlocks
   (each: [len uint32][bytes] per token, then the 0xFFFFFFFF separator), tokens of any content and any length below
   2^32-1, the block below 4 GiB (offsets are uint32): Block.unpack builds an offsets array such that GetValByTID
   at index k (= StartIndex + tid - StartTID) returns exactly the k-th token of the block, separators skipped. *)
Theorem C03_tokens_block_bytes_roundtrip : forall groups,
  Forall (Forall (fun t => N.of_nat (length t) < 4294967295)%N) groups ->
  (N.of_nat (length (pack_phys groups)) < 4294967296)%N ->
  exists offs, blk_unpack (pack_phys groups) = DOk offs /\
    forall k t, nth_error (concat groups) k = Some t -> get_val (pack_phys groups) offs (N.of_nat k) = DOk t.
Proof. exact tokens_block_bytes_roundtrip. Qed.
Print Assumptions C03_tokens_block_bytes_roundtrip.

(* Block.unpack terminates on arbitrary bytes. The stronger "offsets or error" is REFUTED by the faithful model:
   see C03_tokens_unpack_value_or_error_refuted below (1..3 stray bytes panic in LittleEndian.Uint32). *)
Theorem C03_tokens_block_unpack_total : forall data, blk_unpack data <> DFuel.
Proof. exact blk_unpack_total. Qed.
Print Assumptions C03_tokens_block_unpack_total.

(* thm:C03_token_table_bytes_roundtrip — DiskTokenTableBlock.pack / TableEntry.Pack read back by TableLoader.load:
   for every list of fields (name, entries) with uint32 numbers and strings below 4 GiB the loader returns, per
   field, the name, MinVal = the minVal of entry 0, and StartTID / ValCount / StartIndex / BlockIndex / MaxVal of
   every entry, in order. *)
Theorem C03_token_table_bytes_roundtrip : forall fs, Forall field_ok fs -> load_table (pack_table fs) = DOk (map lfield_of fs).
Proof. exact token_table_bytes_roundtrip. Qed.
Print Assumptions C03_token_table_bytes_roundtrip.

(* thm:C03_index_header_roundtrip — the 33-byte index block header C:LLLL:RRRR:E1:E2:P and the registry: for every
   list of headers within the field widths, what Loader.Load sees (Len, Ext1, Ext2 of every entry) is what was
   written, GetBlockHeader(i) is the i-th header whose six accessors return the six fields, and an index at or
   beyond the count is an error. *)
Theorem C03_index_header_roundtrip : forall hs, Forall hdr_ok hs ->
  read_registry (pack_registry hs) = map hdr3 hs
  /\ (forall i h, nth_error hs i = Some h ->
        get_header (pack_registry hs) i = DOk (pack_hdr h) /\ forall rest, unpack_hdr (pack_hdr h ++ rest) = h)
  /\ (forall i, length hs <= i -> get_header (pack_registry hs) i = DErr).
Proof. exact index_header_roundtrip. Qed.
Print Assumptions C03_index_header_roundtrip.

(* thm:C03_form_independent_bytes — C03_form_independent with the registry, every LID block, every ID block and the
   positions block going through their BYTE encodings: Loader.Load over the registry bytes returns the tables sealing
   kept; every LID block decoded from its bytes is the block sealing held; a posting read over the loaded tables and
   the decoded blocks is the active answer; every ID block and the positions block decode to what was encoded. *)
Theorem C03_form_independent_bytes : forall cap fields im bs tid lo hi asc hs,
  0 < cap -> input_ok fields -> input_sorted fields ->
  (tokens_total fields < 4294967295)%N -> (1 <= tid <= tokens_total fields)%N ->
  gen_blocks cap fields = Ok bs -> map snd (im_lids im) = bs -> image_ok im ->
  map hdr3 hs = registry_of im -> Forall hdr_ok hs ->
  load (read_registry (pack_registry hs)) = Some (preloaded im)
  /\ map (fun b => unpack_bytes (pack_bytes (b_chunks b))) bs = map (fun b => DOk (b_chunks b)) bs
  /\ (forall t cs, load (read_registry (pack_registry hs)) = Some t ->
        map (fun b => unpack_bytes (pack_bytes (b_chunks b))) bs = map DOk cs ->
        read_with (tb_lids t) cs asc tid lo hi = Ok (expected asc fields tid lo hi))
  /\ (forall mids rids pos, Forall u64ok mids -> Forall u64ok rids -> Forall u64ok pos ->
        unpack_ids_varint (pack_mids mids) = DOk mids
        /\ unpack_rids 1 (pack_rids rids) = DOk rids /\ unpack_rids 0 (pack_mids rids) = DOk rids
        /\ unpack_ids_varint (pack_pos pos) = DOk pos)
  /\ (forall total offs, u32ok total -> u32ok (N.of_nat (length offs)) -> Forall u64ok offs ->
        load_positions (pack_positions total offs) = DOk (N.of_nat (length offs), total, offs)).
Proof. exact form_independent_bytes. Qed.
Print Assumptions C03_form_independent_bytes.

(* ... and the token dictionary through bytes: with the table of C03_token_table_exact, for EVERY assignment of byte
   strings to the TIDs and EVERY cut of a physical block into DiskTokensBlock packs, Block.unpack on the block's
   bytes succeeds and GetValByTID at StartIndex + tid - StartTID of the TID's entry is the TID's byte string. *)
Theorem C03_form_independent_bytes_tokens : forall fields es bl (tokv : N -> list N),
  tok_table fields = Ok (es, bl) -> (forall t, tok_ok (tokv t)) ->
  forall tid, (1 <= tid <= N.of_nat (length (concat fields)))%N ->
  exists e b, find_entry es tid = Some e /\ blk_get bl (te_blk e) = Some b /\
    forall groups, concat groups = map tokv b -> (N.of_nat (length (pack_phys groups)) < 4294967296)%N ->
      exists offs, blk_unpack (pack_phys groups) = DOk offs /\
        get_val (pack_phys groups) offs (te_sidx e + tid - te_tid e) = DOk (tokv tid).
Proof. exact form_independent_bytes_tokens. Qed.
Print Assumptions C03_form_independent_bytes_tokens.

(* ---------------------------------------------------------------- byte codecs: non-vacuity, boundaries, refutations *)

(* boundary values of the task: 0, 2^7-1, 2^7, 2^14, 2^32-1, 2^63-1, -2^63 (uint64 2^63 and 2^64-1 as deltas) *)
Example C03_varint_boundaries :
  map put_varint [0; 63; 64; 8192; 4294967295; 9223372036854775807; -9223372036854775808; -1]%Z
  = [[0]; [126]; [128; 1]; [128; 128; 1]; [254; 255; 255; 255; 31];
     [254; 255; 255; 255; 255; 255; 255; 255; 255; 1]; [255; 255; 255; 255; 255; 255; 255; 255; 255; 1]; [1]]%N
  /\ get_varint (put_varint (-9223372036854775808) ++ [7]%N) = DOk ((-9223372036854775808)%Z, [7]%N).
Proof. split; vm_compute; reflexivity. Qed.

(* the error cases of GetVarint: empty / truncated input, an 11th byte, a 10th byte above 1 *)
Example C03_varint_errors :
  get_varint [] = DErr /\ get_varint [128; 128]%N = DErr
  /\ get_varint [128;128;128;128;128;128;128;128;128;128;1]%N = DErr
  /\ get_varint [128;128;128;128;128;128;128;128;128;2]%N = DErr.
Proof. repeat split; vm_compute; reflexivity. Qed.

(* decreasing IDs, a delta of 2^63 and the wrap around 2^64: all hypotheses of C03_ids_blocks_bytes_roundtrip hold *)
Example C03_ids_blocks_nonvacuous :
  let xs := [5; 3; 18446744073709551615; 0; 9223372036854775808; 127; 128; 16384; 4294967295]%N in
  Forall (fun x => x < 18446744073709551616)%N xs
  /\ unpack_ids_varint (pack_mids xs) = DOk xs /\ unpack_rids 1 (pack_rids xs) = DOk xs
  /\ unpack_rids 0 (pack_mids xs) = DOk xs
  /\ unpack_ids_varint (pack_mids []) = DOk [] /\ unpack_rids 1 (pack_rids [7%N]) = DOk [7%N].
Proof. cbv zeta. split; [repeat constructor|]. repeat split; vm_compute; reflexivity. Qed.

(* malformed ID blocks PANIC in the real code (explicit panic of unpackRawIDsVarint; index out of range in
   LittleEndian.Uint64 for a tail shorter than 8 bytes); Loader.loadIDs returns an error for a truncated varint
   but panics on an overflowing one (it only tests n == 0, then slices result[n:] with n < 0) *)
Example C03_ids_malformed_panics :
  unpack_ids_varint [128]%N = DPanic /\ unpack_rids 1 [1;2;3]%N = DPanic
  /\ load_positions [1;0;0;0; 9;0;0;0; 128]%N = DErr
  /\ load_positions [1;0;0;0; 9;0;0;0; 128;128;128;128;128;128;128;128;128;128;1]%N = DPanic
  /\ load_positions [1;0;0]%N = DPanic.
Proof. repeat split; vm_compute; reflexivity. Qed.

Example C03_positions_nonvacuous :
  load_positions (pack_positions 4097 [0; 300; 170; 18446744073709551615]%N)
  = DOk (4%N, 4097%N, [0; 300; 170; 18446744073709551615]%N).
Proof. vm_compute. reflexivity. Qed.

(* two DiskTokensBlocks in one physical block, an empty token, a single-token block *)
Example C03_tokens_block_nonvacuous :
  let groups := [[[1;2;3]; []]; [[9]]]%N in
  Forall (Forall (fun t => N.of_nat (length t) < 4294967295)%N) groups
  /\ (N.of_nat (length (pack_phys groups)) < 4294967296)%N
  /\ blk_unpack (pack_phys groups) = DOk [0;0;0;0; 7;0;0;0; 15;0;0;0]%N
  /\ get_val (pack_phys groups) [0;0;0;0; 7;0;0;0; 15;0;0;0]%N 2 = DOk [9]%N
  /\ get_val (pack_phys groups) [0;0;0;0; 7;0;0;0; 15;0;0;0]%N 3 = DPanic.
Proof. cbv zeta. split; [repeat constructor|]. repeat split; vm_compute; reflexivity. Qed.

(* REFUTATION of "Block.unpack is total on arbitrary bytes: offsets or error": frac/token/block_loader.go
   Block.unpack reads binary.LittleEndian.Uint32(data) whenever len(data) != 0, so 1..3 stray bytes (alone, or
   after a well-formed prefix) panic with an index out of range instead of returning the error. A length word
   larger than the rest does return the error. (Its only caller BlockLoader.read turns the error into logger.Panic
   anyway; well-formed blocks are never affected: C03_tokens_block_bytes_roundtrip.) *)
Example C03_tokens_unpack_value_or_error_refuted :
  exists data, blk_unpack data = DPanic.
Proof. exists [1]%N. vm_compute. reflexivity. Qed.
Example C03_tokens_unpack_malformed :
  blk_unpack [1;2;3]%N = DPanic
  /\ blk_unpack (pack_phys [[[5;6]]] ++ [0;0])%N = DPanic
  /\ blk_unpack [9;0;0;0; 1;2]%N = DErr.
Proof. repeat split; vm_compute; reflexivity. Qed.

Example C03_token_table_nonvacuous :
  let fs := [([102;1], [mkTEB 1 2 0 1 [7] [8;9]; mkTEB 3 1 2 1 [] [5]]); ([103], [])]%N in
  Forall field_ok fs
  /\ load_table (pack_table fs)
     = DOk [([102;1], [7], [(1, 2, 0, 1, [8;9]); (3, 1, 2, 1, [5])]); ([103], [], [])]%N.
Proof. cbv zeta. split; [repeat constructor|vm_compute; reflexivity]. Qed.

Example C03_index_header_nonvacuous :
  let hs := [mkHdrB 1 4294967295 16384 18446744073709551615 9223372036854775808 16; mkHdrB 0 0 0 0 0 0]%N in
  Forall hdr_ok hs /\ length (pack_registry hs) = 66
  /\ read_registry (pack_registry hs) = [(4294967295, 18446744073709551615, 9223372036854775808); (0, 0, 0)]%N
  /\ get_header (pack_registry hs) 2 = DErr.
Proof. cbv zeta. split; [repeat constructor|]. repeat split; vm_compute; reflexivity. Qed.

(* the hypotheses of C03_form_independent_bytes are satisfiable: the image of C03_ids_tables_witness with full
   headers (codec, raw length, position) around its registry entries *)
Example C03_form_independent_bytes_nonvacuous :
  let fields := [[[1;2;3;4;5;6;7]%N; [2;9]%N]; [[5]%N]] in
  let bs := [mkBlock 1 1 false (mkChunks [[1;2;3]%N] false);
             mkBlock 2 1 true (mkChunks [[4;5;6]%N] false);
             mkBlock 2 2 true (mkChunks [[7]%N; [2;9]%N] true);
             mkBlock 3 3 false (mkChunks [[5]%N] true)] in
  let im := mkImage 100 [40; 41]%N [30]%N 12 [((900, 5), (11, 12, 13)); ((100, 7), (14, 15, 16))]%N
                    (combine [21; 22; 23; 24]%N bs) in
  let hs := map (fun h : hdr => mkHdrB 1 (h_len h) (h_len h + 5) (h_ext1 h) (h_ext2 h) 77) (registry_of im) in
  gen_blocks 3 fields = Ok bs /\ map snd (im_lids im) = bs
  /\ map hdr3 hs = registry_of im /\ Forall hdr_ok hs
  /\ load (read_registry (pack_registry hs)) = Some (preloaded im)
  /\ map (fun b => unpack_bytes (pack_bytes (b_chunks b))) bs = map (fun b => DOk (b_chunks b)) bs.
Proof.
  cbv zeta. split; [vm_compute; reflexivity|]. split; [vm_compute; reflexivity|]. split; [vm_compute; reflexivity|].
  split; [match goal with |- Forall hdr_ok ?l => let x := eval vm_compute in l in change l with x end; repeat constructor|].
  split; vm_compute; reflexivity.
Qed.

(* ------------------------------------------------------------------ generated definitions (Gen.v)
   Gen.v is regenerated from the Go sources on every run by harness/cmd/go2coq (spec: props/C03/gen.json,
   trusted extern: sort.Search -> GenPrelude.sort_Search). The theorems below tie the GENERATED definitions of
   lids.Table (all accessors), narrowLIDsRange of both LID iterators and the token.TableEntry arithmetic to the
   hand-written model functions the theorems above are about (adj_min, chunks_count, first_block, last_block,
   has_prev, has_next, narrow_asc, narrow_desc: C03_lids_roundtrip, C03_lids_tables_equal, C03_form_independent;
   te_covers and the index read by val_of_tid: C03_token_table_exact): a change of one of these Go functions
   changes Gen.v and the corresponding theorem stops compiling. *)
From VLib Require GoSem.
From C03 Require Import GenPrelude Gen ProofsGenT.
Local Open Scope Z_scope.

(* the trusted extern sort_Search (65 rounds) computes exactly the model's transcription of sort.Search on every
   predicate that does not panic below n, for every n < 2^64: in particular it never runs out of fuel *)
Theorem C03_gen_sort_Search_adequate : forall (f : nat -> bool) (F : Z -> GoSem.outcome bool) (n : nat),
  (forall h, (h < n)%nat -> F (Z.of_nat h) = GoSem.Val (f h)) -> Z.of_nat n < 18446744073709551616 ->
  sort_Search (Z.of_nat n) F = GoSem.Val (Z.of_nat (sort_search n f)).
Proof. exact sort_Search_nat. Qed.
Print Assumptions C03_gen_sort_Search_adequate.

Theorem C03_gen_GetAdjustedMinTID_refines : forall t i, tbl_ok t -> (i < length (t_min t))%nat ->
  go_lids_Table_GetAdjustedMinTID (ztable t) (Z.of_nat i) = GoSem.Val (Z.of_N (adj_min t i)).
Proof. exact gen_GetAdjustedMinTID_refines. Qed.
Print Assumptions C03_gen_GetAdjustedMinTID_refines.

Theorem C03_gen_GetChunksCount_refines : forall t i, tbl_ok t -> (i < length (t_min t))%nat ->
  (adj_min t i <= nthN (t_max t) i)%N -> (nthN (t_max t) i - adj_min t i + 1 < 4294967296)%N ->
  go_lids_Table_GetChunksCount (ztable t) (Z.of_nat i) = GoSem.Val (Z.of_N (chunks_count t i)).
Proof. exact gen_GetChunksCount_refines. Qed.
Print Assumptions C03_gen_GetChunksCount_refines.

Theorem C03_gen_GetChunkIndex_refines : forall t i tid, tbl_ok t -> (i < length (t_min t))%nat ->
  (adj_min t i <= tid)%N -> (tid < 4294967296)%N ->
  go_lids_Table_GetChunkIndex (ztable t) (Z.of_nat i) (Z.of_N tid) = GoSem.Val (Z.of_N (tid - adj_min t i)).
Proof. exact gen_GetChunkIndex_refines. Qed.
Print Assumptions C03_gen_GetChunkIndex_refines.

Theorem C03_gen_HasTIDInPrevBlock_refines : forall t bi tid, tbl_ok t -> (bi <= length (t_max t))%nat ->
  go_lids_Table_HasTIDInPrevBlock (ztable t) (Z.of_nat bi) (Z.of_N tid) = GoSem.Val (has_prev t bi tid).
Proof. exact gen_HasTIDInPrevBlock_refines. Qed.
Print Assumptions C03_gen_HasTIDInPrevBlock_refines.

Theorem C03_gen_HasTIDInNextBlock_refines : forall t bi tid, tbl_ok t -> (bi < length (t_min t))%nat ->
  go_lids_Table_HasTIDInNextBlock (ztable t) (Z.of_nat bi) (Z.of_N tid) = GoSem.Val (has_next t bi tid).
Proof. exact gen_HasTIDInNextBlock_refines. Qed.
Print Assumptions C03_gen_HasTIDInNextBlock_refines.

(* the block where iter_desc / iter_asc start (C03_lids_roundtrip): same value, same panics *)
Theorem C03_gen_GetFirstBlockIndexForTID_refines : forall t tid, tbl_ok t ->
  go_lids_Table_GetFirstBlockIndexForTID (ztable t) (Z.of_N tid) = res_out Z.of_nat (first_block t tid).
Proof. exact gen_GetFirstBlockIndexForTID_refines. Qed.
Print Assumptions C03_gen_GetFirstBlockIndexForTID_refines.

Theorem C03_gen_GetLastBlockIndexForTID_refines : forall t tid, tbl_ok t ->
  go_lids_Table_GetLastBlockIndexForTID (ztable t) (Z.of_N tid) = res_out Z.of_nat (last_block t tid).
Proof. exact gen_GetLastBlockIndexForTID_refines. Qed.
Print Assumptions C03_gen_GetLastBlockIndexForTID_refines.

(* narrowLIDsRange of both iterators as generated (two sort.Search closures, two re-slicings, nil results) =
   narrow_asc / narrow_desc on every chunk (an empty chunk panics in both) *)
Theorem C03_gen_narrowLIDsRange_asc_refines : forall lo hi l try, Z.of_nat (length l) < two32z ->
  go_lids_IteratorAsc_narrowLIDsRange (mk_go_IteratorAsc (Z.of_N lo) (Z.of_N hi)) (zl l) try = narrow_out (narrow_asc lo hi l try).
Proof. exact gen_narrowLIDsRange_asc_refines. Qed.
Print Assumptions C03_gen_narrowLIDsRange_asc_refines.

Theorem C03_gen_narrowLIDsRange_desc_refines : forall lo hi l try, Z.of_nat (length l) < two32z ->
  go_lids_IteratorDesc_narrowLIDsRange (mk_go_IteratorDesc (Z.of_N lo) (Z.of_N hi)) (zl l) try = narrow_out (narrow_desc lo hi l try).
Proof. exact gen_narrowLIDsRange_desc_refines. Qed.
Print Assumptions C03_gen_narrowLIDsRange_desc_refines.

Theorem C03_gen_getLastTID_refines : forall e, entry_ok e ->
  go_token_TableEntry_getLastTID (zentry e) = Z.of_N (te_tid e + te_cnt e - 1).
Proof. exact gen_getLastTID_refines. Qed.
Print Assumptions C03_gen_getLastTID_refines.

(* checkTIDInBlock as generated = te_covers, the test find_entry / GetEntryByTID uses (C03_token_table_exact) *)
Theorem C03_gen_checkTIDInBlock_refines : forall e tid, entry_ok e -> (tid < 4294967296)%N ->
  go_token_TableEntry_checkTIDInBlock (zentry e) (Z.of_N tid) = te_covers e tid.
Proof. exact gen_checkTIDInBlock_refines. Qed.
Print Assumptions C03_gen_checkTIDInBlock_refines.

(* getIndexInTokensBlock as generated = the position val_of_tid reads in the physical block *)
Theorem C03_gen_getIndexInTokensBlock_refines : forall e tid, (te_tid e <= tid)%N -> (tid < 4294967296)%N ->
  (te_sidx e + tid - te_tid e < 4294967296)%N ->
  go_token_TableEntry_getIndexInTokensBlock (zentry e) (Z.of_N tid) = Z.of_N (te_sidx e + tid - te_tid e).
Proof. exact gen_getIndexInTokensBlock_refines. Qed.
Print Assumptions C03_gen_getIndexInTokensBlock_refines.

(* non-vacuity: a two-block table with a continued second block; the generated functions compute *)
Example C03_gen_witness :
  let t := mk_go_Table 0 [3; 7] [1; 4] [false; true] in
  go_lids_Table_GetAdjustedMinTID t 1 = GoSem.Val 3 /\
  go_lids_Table_GetChunksCount t 1 = GoSem.Val 5 /\
  go_lids_Table_GetFirstBlockIndexForTID t 3 = GoSem.Val 0 /\
  go_lids_Table_GetLastBlockIndexForTID t 3 = GoSem.Val 1 /\
  go_lids_Table_GetFirstBlockIndexForTID t 8 = GoSem.Panic /\
  go_lids_Table_HasTIDInNextBlock t 0 3 = GoSem.Val true /\
  go_lids_IteratorAsc_narrowLIDsRange (mk_go_IteratorAsc 4 8) [2; 4; 6; 8; 10] true = GoSem.Val ([4; 6; 8], false) /\
  go_lids_IteratorDesc_narrowLIDsRange (mk_go_IteratorDesc 4 8) [] true = GoSem.Panic /\
  tbl_ok (mkTable [1; 4]%N [3; 7]%N [false; true]).
Proof.
  cbv zeta.
  do 8 (split; [vm_compute; reflexivity|]).
  unfold tbl_ok. split; [reflexivity|]. split; [reflexivity|]. split; [vm_compute; reflexivity|].
  split; intros i; destruct i as [|[|[|i]]]; vm_compute; try (split; reflexivity); intros H; try discriminate H; reflexivity.
Qed.
