(* C03 — property theorems. Only statements closed by `exact <lemma>`, Print Assumptions beneath,
   and the non-vacuity / refutation examples. *)
From Coq Require Import List Bool Arith NArith ZArith.
Import ListNotations.
From C03 Require Import Model ProofsCodec.

(* thm:C03_chunks_codec — what Chunks.Pack writes, Chunks.unpack reads back: same chunks, same
   IsLastLID flag, for every chunk list whose LIDs are below the end marker 2^32-1 (no order needed;
   deltas may be negative, the end marker relies on the uint32 wrap). *)
Theorem C03_chunks_codec : forall c, chunks_wf c -> unpack (pack c) = c.
Proof. exact chunks_codec. Qed.
Print Assumptions C03_chunks_codec.

Example C03_chunks_codec_nonvacuous :
  chunks_wf (mkChunks [[4294967294%N]; [3%N]] false)
  /\ unpack (pack (mkChunks [[4294967294%N]; [3%N]] false)) = mkChunks [[4294967294%N]; [3%N]] false.
Proof.
  split; [|vm_compute; reflexivity].
  split; cbn.
  - repeat constructor; unfold lid_ok; reflexivity.
  - intros _. split; congruence.
Qed.
