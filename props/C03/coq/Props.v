(* C03 — property theorems. Only statements closed by `exact <lemma>`, Print Assumptions beneath,
   and the non-vacuity / refutation examples. The functions are those of Model.v, which the
   correspondence run (harness/cmd/hC03) compares with the real code on every check. *)
From Coq Require Import List Bool Arith NArith ZArith.
Import ListNotations.
From C03 Require Import Model ProofsCodec ProofsSearch ProofsNav ProofsGen ProofsLids ProofsBlocks ProofsDocs ProofsTables ProofsTokTab.

(* thm:C03_lids_roundtrip — for ALL posting lists (per field, per token; non-empty, strictly
   increasing, every LID below the end marker 2^32-1), every block capacity > 0, every token tid and
   every [lo,hi]: reading the token from the sealed form — getLIDsBlockGenerator -> Chunks.Pack ->
   Chunks.unpack -> lids.Table rebuilt from the registry ext words -> IteratorDesc / IteratorAsc —
   returns exactly the token's postings inside [lo,hi] (what the active form answers), ascending resp.
   descending; no panic (chunk-count check, index range), no exhausted fuel. Covers IsContinued,
   MinTID > MaxTID blocks, HasTIDInNext/PrevBlock, tokens ending exactly at a block end, field ends. *)
Theorem C03_lids_roundtrip : forall cap fields tid lo hi asc,
  0 < cap -> input_ok fields -> input_sorted fields ->
  (tokens_total fields < 4294967295)%N ->
  (1 <= tid <= tokens_total fields)%N ->
  read_postings asc cap fields tid lo hi = Ok (expected asc fields tid lo hi).
Proof. exact lids_roundtrip. Qed.
Print Assumptions C03_lids_roundtrip.

(* thm:C03_chunks_codec — what Chunks.Pack writes, Chunks.unpack reads back: same chunks, same
   IsLastLID flag, for every chunk list whose LIDs are below the end marker 2^32-1 (no order needed;
   deltas may be negative, the end marker relies on the uint32 wrap). *)
Theorem C03_chunks_codec : forall c, chunks_wf c -> unpack (pack c) = c.
Proof. exact chunks_codec. Qed.
Print Assumptions C03_chunks_codec.

(* the LID block generator terminates for every capacity > 0 *)
Theorem C03_lidblocks_total : forall cap fields, 0 < cap -> input_ok fields -> gen_blocks cap fields <> OutOfFuel.
Proof. exact gen_blocks_total. Qed.
Print Assumptions C03_lidblocks_total.

(* thm:C03_ids_tables (LID table part) — the table a restart rebuilds from the registry ext words
   (ext1 = IsContinued, ext2 = MaxTID<<32 | MinTID) equals the table sealing keeps in memory *)
Theorem C03_lids_tables_equal : forall cap fields bs,
  0 < cap -> input_ok fields -> (tokens_total fields < 4294967295)%N ->
  gen_blocks cap fields = Ok bs -> loaded_table bs = table_of bs.
Proof. exact lids_tables_equal. Qed.
Print Assumptions C03_lids_tables_equal.

(* thm:C03_tokens_total — the repaired token block generator terminates for every list of fields
   (any field size, any number of tokens) and each field's blocks are non-empty, contiguous from the
   field's first TID, cover exactly its tokens, with isStartOfField on the first block only. *)
Theorem C03_tokens_total : forall fields, exists bss, tok_gen fields = Ok bss /\ tbs_ok 1 fields bss.
Proof. exact tok_gen_total. Qed.
Print Assumptions C03_tokens_total.

(* ID blocks (and the registry minima derived from them): the sorted ID list is cut into blocks that
   are all full except the last — what `lid / IDsPerBlock` relies on — none empty, nothing lost. *)
Theorem C03_ids_blocks : forall size (ids : list sid), 1 <= size ->
  exists bs, id_blocks size ids = Some bs /\ concat bs = ids
             /\ Forall (fun b => 1 <= length b <= size) bs
             /\ Forall (fun b => length b = size) (removelast bs).
Proof. exact (@id_blocks_ok sid). Qed.
Print Assumptions C03_ids_blocks.

(* thm:C03_docs_sorted — the sorted-docs rewrite (writeSortedDocs: documents re-read in ID order, re-blocked
   by a docBlocksWriter with block size bsz, new DocPos per ID, new block offsets) keeps every fetch: for
   ANY active docs file / offsets / positions, any ID list (duplicates, any order), any block size and any
   positive compressed block lengths, each stored ID (the zero ID is the sealer's "no previous ID" and cannot
   be stored) reads from the rewritten file exactly the document it reads from the active file. Without the
   rewrite (SkipSortDocs) the sealed fraction uses the active file, offsets and positions unchanged. *)
Theorem C03_docs_sorted : forall bsz lens pa oa fa,
  Forall (fun l => 0 < l)%N lens -> forall ids pn on fn,
  (N.of_nat (length ids) + 1 < 4294967296)%N ->
  write_sorted bsz lens pa oa fa ids = Ok (pn, on, fn) ->
  forall id, In id ids -> id <> sid0 ->
    fetch_doc pn on fn id = fetch_doc pa oa fa id /\ fetch_doc pa oa fa id <> None.
Proof. exact docs_sorted. Qed.
Print Assumptions C03_docs_sorted.

(* ... and the rewrite itself cannot fail: with a block size within the DocPos offset range (30 bits;
   the default is 4 MiB) PackDocPos never panics whatever the document sizes, as long as every ID has a
   document in the active file *)
Theorem C03_docs_sorted_total : forall bsz lens pa oa fa,
  Forall (fun l => 0 < l)%N lens -> forall ids,
  (bsz <= max_doc_offset)%N -> (N.of_nat (length ids) + 1 < 4294967296)%N ->
  (forall id, In id ids -> fetch_doc pa oa fa id <> None) ->
  exists r, write_sorted bsz lens pa oa fa ids = Ok r.
Proof. exact docs_sorted_total. Qed.
Print Assumptions C03_docs_sorted_total.

(* thm:C03_ids_tables — Loader.Load walking the registry of the index file that sealing wrote (sections
   ended by empty blocks; MinBlockIDs from the ext words of the MID blocks; LID table from ext1/ext2;
   DiskStartBlockIndex and the LID StartIndex from the walk) returns exactly the tables sealing kept in
   memory (PreloadedData). Needs: every written block has a non-zero length, LID blocks are not empty. *)
Theorem C03_ids_tables : forall im,
  image_ok im ->
  Forall bok (map snd (im_lids im)) -> Forall chunks_pp (map snd (im_lids im)) ->
  Forall (fun b => (b_min b < 4294967296)%N) (map snd (im_lids im)) ->
  load (registry_of im) = Some (preloaded im).
Proof. exact ids_tables. Qed.
Print Assumptions C03_ids_tables.

(* thm:C03_form_independent (postings and ID/LID tables) — on the layout the generator produces, the
   tables a restart loads are the tables sealing kept, the chunks decoded from the file are the chunks
   sealing held, and a posting read over the loaded tables = over the preloaded tables = the active answer *)
Theorem C03_form_independent : forall cap fields im bs tid lo hi asc,
  0 < cap -> input_ok fields -> input_sorted fields ->
  (tokens_total fields < 4294967295)%N -> (1 <= tid <= tokens_total fields)%N ->
  gen_blocks cap fields = Ok bs -> map snd (im_lids im) = bs -> image_ok im ->
  load (registry_of im) = Some (preloaded im)
  /\ roundtrip_chunks bs = map b_chunks bs
  /\ (forall t, load (registry_of im) = Some t ->
        read_with (tb_lids t) (roundtrip_chunks bs) asc tid lo hi
        = read_with (tb_lids (preloaded im)) (map b_chunks bs) asc tid lo hi)
  /\ read_with (tb_lids (preloaded im)) (map b_chunks bs) asc tid lo hi = Ok (expected asc fields tid lo hi).
Proof. exact form_independent. Qed.
Print Assumptions C03_form_independent.

(* token table of a sealed fraction (writeTokensBlocks over the generator's blocks: entries with StartTID,
   ValCount, StartIndex, BlockIndex; physical blocks cut by FlushForced at the start of a field larger than
   16 KiB and by FlushIfNeeded): for EVERY dictionary (any fields, any token lengths) the table is built, and
   for every TID 1..N Table.GetEntryByTID finds an entry, that entry is the ONLY one covering the TID (so the
   map iteration order does not matter), and Block.GetValByTID at StartIndex + tid - StartTID of that entry's
   physical block is the TID-th token of the (field, value)-sorted dictionary. *)
Theorem C03_token_table_exact : forall fields,
  exists es bl, tok_table fields = Ok (es, bl) /\
    forall tid, (1 <= tid <= N.of_nat (length (concat fields)))%N ->
      (exists e, find_entry es tid = Some e /\ forall e', In e' es -> te_covers e' tid = true -> e' = e)
      /\ val_of_tid es bl tid = Some tid.
Proof. exact tok_table_exact. Qed.
Print Assumptions C03_token_table_exact.

(* ---------------------------------------------------------------- non-vacuity and refutations *)

(* hypotheses of C03_lids_roundtrip are satisfiable, on a layout with a token spanning three blocks
   (middle block has MinTID > MaxTID) and a token ending exactly at a block end *)
Example C03_lids_roundtrip_nonvacuous :
  let fields := [[[1;2;3;4;5;6;7]%N; [2;9]%N]; [[5]%N]] in
  input_ok fields /\ input_sorted fields /\ (tokens_total fields < 4294967295)%N
  /\ gen_blocks 3 fields
     = Ok [mkBlock 1 1 false (mkChunks [[1;2;3]%N] false);
           mkBlock 2 1 true (mkChunks [[4;5;6]%N] false);
           mkBlock 2 2 true (mkChunks [[7]%N; [2;9]%N] true);
           mkBlock 3 3 false (mkChunks [[5]%N] true)]
  /\ read_postings true 3 fields 1 3 6 = Ok [6;5;4;3]%N.
Proof.
  cbv zeta. split; [|split; [|split; [|split]]].
  - repeat constructor; try congruence; unfold lid_ok; reflexivity.
  - unfold input_sorted, sorted. repeat constructor.
  - reflexivity.
  - vm_compute. reflexivity.
  - vm_compute. reflexivity.
Qed.

(* "non-empty" is needed: a token without postings gets no chunk and the reader's chunk-count check fires *)
Example C03_lids_empty_posting_breaks :
  read_postings false 3 [[[1;2]%N; []; [5]%N]] 3 0 10 = Panic.
Proof. vm_compute. reflexivity. Qed.

(* capacity 0 never terminates (the model runs out of fuel) *)
Example C03_lids_cap0_diverges : gen_blocks 0 [[[1]%N]] = OutOfFuel.
Proof. vm_compute. reflexivity. Qed.

Example C03_chunks_codec_nonvacuous :
  chunks_wf (mkChunks [[4294967294%N]; [3%N]] false)
  /\ unpack (pack (mkChunks [[4294967294%N]; [3%N]] false)) = mkChunks [[4294967294%N]; [3%N]] false.
Proof.
  split; [|vm_compute; reflexivity].
  split; cbn.
  - repeat constructor; unfold lid_ok; reflexivity.
  - intros _. split; congruence.
Qed.

(* the bound is needed: LID 2^32-1 is read as an end marker *)
Example C03_chunks_codec_needs_bound :
  unpack (pack (mkChunks [[4294967295%N]] true)) <> mkChunks [[4294967295%N]] true.
Proof. exact chunks_codec_needs_bound. Qed.

(* thm:C03_tokenblocks_refuted for the code BEFORE fix cf53e44 (kept as tok_field_v0): one token of
   20000 bytes -> blocksCount 2 -> blockSize 0 -> an empty block -> tokens[-1] panics while sealing *)
Example C03_tokenblocks_v0_refuted : tok_gen_v0 [(20000%N, 1%N)] = Panic.
Proof. exact tokenblocks_v0_refuted. Qed.
Example C03_tokenblocks_fixed_witness : tok_gen [(20000%N, 1%N)] = Ok [[(1%N, 1%N, true)]].
Proof. exact tokenblocks_fixed_witness. Qed.

(* the sorted-docs rewrite of a two-block active file with block size 6: three new blocks, a nested
   (repeated) ID written once; the hypotheses of C03_docs_sorted hold for it *)
Example C03_docs_sorted_nonvacuous :
  let fa := [(20, [[1;2;3]; [9]]); (31, [[]; [7;7;7;7;7;7;7;7]])]%N in
  let pa := [((5,1), 1); ((4,2), 8); ((3,3), 1073741825); ((2,4), 1073741829)]%N in
  let ids := [(5,1); (4,2); (4,2); (3,3); (2,4)]%N in
  Forall (fun l => 0 < l)%N [17; 13; 21]%N /\ (N.of_nat (length ids) + 1 < 4294967296)%N
  /\ ~ In sid0 ids
  /\ match write_sorted 6 [17; 13; 21]%N pa [0; 20]%N fa ids with
     | Ok (pn, on, fn) => on = [0; 17; 30]%N /\ map snd fn = [[[1;2;3]]; [[9]; []]; [[7;7;7;7;7;7;7;7]]]%N
                          /\ fetch_doc pn on fn (2,4)%N = Some [7;7;7;7;7;7;7;7]%N
                          /\ fetch_doc pn on fn (3,3)%N = Some []
                          /\ fetch_doc pn on fn (4,2)%N = Some [9]%N
     | _ => False
     end.
Proof.
  cbv zeta. split; [repeat constructor|]. split; [reflexivity|]. split.
  - cbn. intros H. repeat (destruct H as [H|H]; [discriminate|]). exact H.
  - vm_compute. repeat split.
Qed.

(* the zero ID is skipped by the rewrite (prevID starts as the zero ID): it would be lost *)
Example C03_docs_zero_id_dropped :
  match write_sorted 10 [17]%N [((0,0), 1)]%N [0]%N [(20, [[1;2;3]])]%N [(0,0)]%N with
  | Ok (pn, on, fn) => fetch_doc pn on fn (0,0)%N = None
  | _ => False
  end.
Proof. vm_compute. reflexivity. Qed.

(* registry walk on the layout of C03_lids_roundtrip_nonvacuous with two ID blocks *)
Example C03_ids_tables_witness :
  let bs := [mkBlock 1 1 false (mkChunks [[1;2;3]%N] false);
             mkBlock 2 1 true (mkChunks [[4;5;6]%N] false);
             mkBlock 2 2 true (mkChunks [[7]%N; [2;9]%N] true);
             mkBlock 3 3 false (mkChunks [[5]%N] true)] in
  let im := mkImage 100 [40; 41]%N [30]%N 12 [((900, 5), (11, 12, 13)); ((100, 7), (14, 15, 16))]%N
                    (combine [21; 22; 23; 24]%N bs) in
  load (registry_of im) = Some (preloaded im)
  /\ preloaded im = mkTables [(900, 5); (100, 7)]%N 7 14 (table_of bs).
Proof. vm_compute. split; reflexivity. Qed.

(* two fields of three 9000-byte tokens: four physical blocks, StartIndex restarts with every block *)
Example C03_token_table_witness :
  tok_table [[9000; 9000; 9000]; [9000; 9000; 9000]]%N
  = Ok ([mkTE 1 1 0 1; mkTE 2 1 1 1; mkTE 3 1 0 2; mkTE 4 1 0 3; mkTE 5 1 1 3; mkTE 6 1 0 4],
        [(1, [1; 2]); (2, [3]); (3, [4; 5]); (4, [6])])%N.
Proof. vm_compute. reflexivity. Qed.
