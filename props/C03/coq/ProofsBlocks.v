(* C03 — token block generator (repaired, and the pre-fix version) and ID block generator. *)
From Coq Require Import List Bool Arith NArith Lia.
Import ListNotations.
From C03 Require Import Model.

(* blocks of one field: contiguous from [cur], none empty, isStartOfField exactly on the first *)
Fixpoint tb_ok (cur : N) (bs : list tblock) (first : bool) : Prop :=
  match bs with
  | [] => True
  | (s, n, f) :: r => s = cur /\ (1 <= n)%N /\ f = first /\ tb_ok (cur + n) r false
  end.
Definition tb_sum (bs : list tblock) : N := fold_right (fun b a => (snd (fst b) + a)%N) 0%N bs.

Lemma tok_loop_S f bsz n first cur :
  tok_loop (S f) bsz n first cur =
  if (n =? 0)%N then Ok ([], cur) else
  let right := N.min bsz n in
  if (right =? 0)%N then Panic else
  match tok_loop f bsz (n - right) false (cur + right) with
  | Ok (bs, c) => Ok ((cur, right, first) :: bs, c)
  | e => e
  end.
Proof. reflexivity. Qed.

Lemma tok_loop_ok bsz : (1 <= bsz)%N -> forall fuel n first cur,
  N.to_nat n < fuel ->
  exists bs, tok_loop fuel bsz n first cur = Ok (bs, (cur + n)%N)
             /\ tb_ok cur bs first /\ tb_sum bs = n
             /\ Forall (fun b : tblock => (snd (fst b) <= bsz)%N) bs.
Proof.
  intros Hb. induction fuel as [|f IH]; intros n first cur Hf; [lia|].
  rewrite tok_loop_S. destruct (N.eqb_spec n 0) as [E|E].
  - subst. exists []. rewrite N.add_0_r. repeat split; constructor.
  - cbv zeta. set (right := N.min bsz n).
    assert (Hr : (1 <= right <= n)%N) by (unfold right; lia).
    destruct (N.eqb_spec right 0); [lia|].
    destruct (IH (n - right)%N false (cur + right)%N) as (bs & Eb & Hok & Hsum & Hle); [lia|].
    rewrite Eb. exists ((cur, right, first) :: bs).
    replace (cur + right + (n - right))%N with (cur + n)%N by lia.
    split; [reflexivity|]. split; [|split].
    + cbn [tb_ok]. repeat split; auto; lia.
    + cbn [tb_sum fold_right fst snd]. fold (tb_sum bs). rewrite Hsum. lia.
    + constructor; auto. cbn. unfold right. lia.
Qed.

(* every field: its blocks cover exactly its tokens, starting at the field's first TID *)
Fixpoint tbs_ok (cur : N) (fields : list (N * N)) (bss : list (list tblock)) : Prop :=
  match fields, bss with
  | [], [] => True
  | (_, n) :: fr, bs :: br => tb_ok cur bs true /\ tb_sum bs = n /\ tbs_ok (cur + n) fr br
  | _, _ => False
  end.

Lemma tok_field_ok size n cur :
  exists bs, tok_field size n cur = Ok (bs, (cur + n)%N) /\ tb_ok cur bs true /\ tb_sum bs = n.
Proof.
  unfold tok_field.
  destruct (tok_loop_ok (N.max 1 (n / blocks_count size)) ltac:(lia) (S (N.to_nat n)) n true cur ltac:(lia))
    as (bs & E & H1 & H2 & _).
  exists bs. auto.
Qed.

Theorem tok_gen_total : forall fields, exists bss, tok_gen fields = Ok bss /\ tbs_ok 1 fields bss.
Proof.
  intros fields. unfold tok_gen. generalize 1%N as cur.
  induction fields as [|[size n] r IH]; intros cur.
  - exists []. split; [reflexivity|exact I].
  - cbn [tok_gen_from]. destruct (tok_field_ok size n cur) as (bs & E & H1 & H2). rewrite E.
    destruct (IH (cur + n)%N) as (bss & E2 & H3). rewrite E2.
    exists (bs :: bss). split; [reflexivity|]. cbn [tbs_ok]. auto.
Qed.

(* the pre-fix generator: a field whose only token is larger than a 16 KiB block *)
Example tokenblocks_v0_refuted : tok_gen_v0 [(20000%N, 1%N)] = Panic.
Proof. vm_compute. reflexivity. Qed.
Example tokenblocks_fixed_witness : tok_gen [(20000%N, 1%N)] = Ok [[(1%N, 1%N, true)]].
Proof. vm_compute. reflexivity. Qed.

(* ------------------------------------------------------------------ ID blocks *)
Lemma chop_ok {A} size : 1 <= size -> forall fuel (l : list A),
  length l < fuel ->
  exists bs, chop fuel size l = Some bs /\ concat bs = l
             /\ Forall (fun b => 1 <= length b <= size) bs
             /\ Forall (fun b => length b = size) (removelast bs).
Proof.
  intros Hs. induction fuel as [|f IH]; intros l Hf; [lia|].
  destruct l as [|x t].
  - exists []. repeat split; constructor.
  - cbn [chop]. set (l := x :: t) in *. set (right := Nat.min size (length l)).
    assert (Hr : 1 <= right <= length l) by (unfold right, l; simpl length; lia).
    destruct (IH (skipn right l)) as (bs & E & Hc & Hb & Hfull).
    { rewrite skipn_length. lia. }
    rewrite E. exists (firstn right l :: bs). split; [reflexivity|]. split; [|split].
    + cbn [concat]. rewrite Hc. apply firstn_skipn.
    + constructor; auto. rewrite firstn_length. lia.
    + destruct bs as [|b2 bs']; [constructor|].
      change (removelast (firstn right l :: b2 :: bs')) with (firstn right l :: removelast (b2 :: bs')).
      constructor; auto. rewrite firstn_length.
      (* a following block exists, so this one is full *)
      assert (Hne : skipn right l <> []).
      { intros E0. rewrite E0 in E. destruct f; simpl in E; [discriminate|inversion E]. }
      assert (length (skipn right l) <> 0) by (destruct (skipn right l); simpl; congruence).
      rewrite skipn_length in H. unfold right in *. lia.
Qed.

Theorem id_blocks_ok {A} : forall size (ids : list A), 1 <= size ->
  exists bs, id_blocks size ids = Some bs /\ concat bs = ids
             /\ Forall (fun b => 1 <= length b <= size) bs
             /\ Forall (fun b => length b = size) (removelast bs).
Proof. intros size ids Hs. unfold id_blocks. apply chop_ok; auto. Qed.
