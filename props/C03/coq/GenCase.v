(* C03 — dispatch of the gen-* correspondence cases (validation of the translator go2coq): evaluates the
   GENERATED definitions of Gen.v on the arguments the harness passed to the real Go functions. NO proofs.
   Argument encoding: a lids.Table is (MaxTIDs, MinTIDs, IsContinued as 0/1); a TableEntry is
   (StartIndex, StartTID, BlockIndex, ValCount); an iterator is (minLID, maxLID). A slice result is
   rendered as its length followed by its elements. *)
From Coq Require Import ZArith List.
From VLib Require Import GoSem.
From C03 Require Import GenPrelude Gen.
Import ListNotations.
Open Scope Z_scope.

Definition gen_tbl (a : list (list Z)) : go_Table :=
  mk_go_Table 0 (argl a 0) (argl a 1) (map (fun x => negb (x =? 0)) (argl a 2)).
Definition gen_entry (a : list (list Z)) : go_TableEntry :=
  mk_go_TableEntry (arg a 0) (arg a 1) (arg a 2) (arg a 3).
Definition enc_lb (p : list Z * bool) : list Z := b2z (snd p) :: len (fst p) :: fst p.

Definition gen_eval (fn : N) (a : list (list Z)) : gres :=
  match fn with
  | 1%N => gres_of enc_z (go_lids_Table_GetAdjustedMinTID_run (gen_tbl a) (arg a 3))
  | 2%N => gres_of enc_z (go_lids_Table_GetChunksCount_run (gen_tbl a) (arg a 3))
  | 3%N => gres_of enc_z (go_lids_Table_GetFirstBlockIndexForTID_run (gen_tbl a) (arg a 3))
  | 4%N => gres_of enc_z (go_lids_Table_GetLastBlockIndexForTID_run (gen_tbl a) (arg a 3))
  | 5%N => gres_of enc_b (go_lids_Table_HasTIDInPrevBlock_run (gen_tbl a) (arg a 3) (arg a 4))
  | 6%N => gres_of enc_b (go_lids_Table_HasTIDInNextBlock_run (gen_tbl a) (arg a 3) (arg a 4))
  | 7%N => gres_of enc_z (go_lids_Table_GetChunkIndex_run (gen_tbl a) (arg a 3) (arg a 4))
  | 8%N => gres_of enc_lb (go_lids_IteratorAsc_narrowLIDsRange_run (mk_go_IteratorAsc (arg a 0) (arg a 1)) (argl a 2) (negb (arg a 3 =? 0)))
  | 9%N => gres_of enc_lb (go_lids_IteratorDesc_narrowLIDsRange_run (mk_go_IteratorDesc (arg a 0) (arg a 1)) (argl a 2) (negb (arg a 3 =? 0)))
  | 10%N => gres_of enc_z (go_token_TableEntry_getIndexInTokensBlock_run (gen_entry a) (arg a 4))
  | 11%N => gres_of enc_z (go_token_TableEntry_getLastTID_run (gen_entry a))
  | 12%N => gres_of enc_b (go_token_TableEntry_checkTIDInBlock_run (gen_entry a) (arg a 4))
  | _ => GFuel
  end.
