(* C03 — HAND-WRITTEN, TRUSTED prelude of the generated definitions (Gen.v): the externs of
   props/C03/gen.json. Each definition stands for a standard-library operation that go2coq does not
   translate; it is part of the trusted base and listed in evidence. NO proofs.

   sort.Search(n, f) of the Go standard library:
       i, j := 0, n
       for i < j { h := int(uint(i+j) >> 1); if !f(h) { i = h + 1 } else { j = h } }
       return i
   For 0 <= i <= j < 2^63 the midpoint int(uint(i+j) >> 1) is (i + j) / 2 (the sum fits uint64). The predicate
   is a translated function literal, i.e. a function into `outcome bool`: when it panics (index out of range
   inside the literal) the search panics. The interval at least halves in every round, so 65 rounds suffice
   for every n < 2^63 (proved, not assumed: ProofsGenT.v shows the result is never OutOfFuel for such n). *)
From Coq Require Import ZArith.
From VLib Require Import GoSem.
Open Scope Z_scope.

Fixpoint sort_Search_loop (fuel : nat) (f : Z -> outcome bool) (i j : Z) : outcome Z :=
  match fuel with
  | O => OutOfFuel
  | S k =>
      if i <? j then
        let h := (i + j) / 2 in
        bind (f h) (fun b => if b then sort_Search_loop k f i h else sort_Search_loop k f (h + 1) j)
      else Val i
  end.

Definition sort_Search (n : Z) (f : Z -> outcome bool) : outcome Z := sort_Search_loop 65 f 0 n.
