(* C03 — composition: thm:C03_form_independent restated with tables and blocks going through their bytes. *)
From Coq Require Import List Bool Arith NArith ZArith Lia.
Import ListNotations.
From C03 Require Import Model ModelBytes ProofsCodec ProofsSearch ProofsNav ProofsGen ProofsLids ProofsBlocks ProofsTables ProofsTokTab ProofsBytes.

(* ---------------------------------------------------------------- composition: the sealed form through bytes *)
(* thm:C03_form_independent with the registry, every LID block, every ID block and the positions block going
   through their byte encodings *)
Theorem form_independent_bytes : forall cap fields im bs tid lo hi asc hs,
  0 < cap -> input_ok fields -> input_sorted fields ->
  (tokens_total fields < 4294967295)%N -> (1 <= tid <= tokens_total fields)%N ->
  gen_blocks cap fields = Ok bs -> map snd (im_lids im) = bs -> image_ok im ->
  map hdr3 hs = registry_of im -> Forall hdr_ok hs ->
  (* Loader.Load over the registry BYTES returns the tables sealing kept *)
  load (read_registry (pack_registry hs)) = Some (preloaded im)
  (* every LID block read back from its BYTES is the block sealing held *)
  /\ map (fun b => unpack_bytes (pack_bytes (b_chunks b))) bs = map (fun b => DOk (b_chunks b)) bs
  (* a posting read over the loaded tables and the decoded blocks = the active answer *)
  /\ (forall t cs, load (read_registry (pack_registry hs)) = Some t ->
        map (fun b => unpack_bytes (pack_bytes (b_chunks b))) bs = map DOk cs ->
        read_with (tb_lids t) cs asc tid lo hi = Ok (expected asc fields tid lo hi))
  (* every ID block (MIDs, RIDs in both formats, positions) and the positions block read back from their BYTES *)
  /\ (forall mids rids pos, Forall u64ok mids -> Forall u64ok rids -> Forall u64ok pos ->
        unpack_ids_varint (pack_mids mids) = DOk mids
        /\ unpack_rids 1 (pack_rids rids) = DOk rids /\ unpack_rids 0 (pack_mids rids) = DOk rids
        /\ unpack_ids_varint (pack_pos pos) = DOk pos)
  /\ (forall total offs, u32ok total -> u32ok (N.of_nat (length offs)) -> Forall u64ok offs ->
        load_positions (pack_positions total offs) = DOk (N.of_nat (length offs), total, offs)).
Proof.
  intros cap fields im bs tid lo hi asc hs Hcap Hok Hs Htot Htid Eg Eim Himg Ehs Hhs.
  destruct (form_independent cap fields im bs tid lo hi asc Hcap Hok Hs Htot Htid Eg Eim Himg) as (Hload & Hrt & _ & Hread).
  assert (Hreg : read_registry (pack_registry hs) = registry_of im).
  { rewrite registry_roundtrip by exact Hhs. exact Ehs. }
  assert (Hwf : Forall (fun b => chunks_wf (b_chunks b)) bs).
  { destruct (gen_blocks_ok cap fields Hcap Hok) as (bs' & Eg' & Hc & _ & _ & Hpp).
    rewrite Eg in Eg'. inversion Eg'; subst bs'.
    pose proof (chain_all_ok 0 bs Hc) as Hbok.
    rewrite Forall_forall in *. intros b Hb. apply chunks_wf_of; [apply Hbok; exact Hb|apply Hpp; exact Hb]. }
  assert (Hbytes : map (fun b => unpack_bytes (pack_bytes (b_chunks b))) bs = map (fun b => DOk (b_chunks b)) bs).
  { apply map_ext_in. intros b Hb. rewrite Forall_forall in Hwf. apply chunks_bytes_roundtrip. apply Hwf. exact Hb. }
  split; [rewrite Hreg; exact Hload|]. split; [exact Hbytes|]. split; [|split].
  - intros t cs Ht Hcs. rewrite Hreg, Hload in Ht. inversion Ht; subst t.
    rewrite Hbytes in Hcs. rewrite <- (map_map b_chunks DOk) in Hcs.
    assert (Ecs : map b_chunks bs = cs).
    { revert Hcs. generalize (map b_chunks bs). intros l. revert cs.
      induction l as [|a l IH]; intros [|c cs] H; try discriminate; [reflexivity|].
      cbn [map] in H. inversion H; subst. f_equal. apply IH. assumption. }
    rewrite <- Ecs. exact Hread.
  - intros mids rids pos Hm Hr Hp. split; [apply mids_roundtrip; exact Hm|]. split; [|split].
    + unfold unpack_rids. cbn. apply rids_raw_roundtrip. exact Hr.
    + unfold unpack_rids. cbn. apply mids_roundtrip. exact Hr.
    + apply mids_roundtrip. exact Hp.
  - intros total offs Ht Hn Ho. apply positions_roundtrip; assumption.
Qed.

(* the token dictionary of a sealed fraction through bytes: with the table of C03_token_table_exact, for EVERY
   assignment of byte strings to the TIDs and EVERY way the physical block of a TID's entry is cut into
   DiskTokensBlock packs, Block.unpack on the block's bytes succeeds and GetValByTID at
   StartIndex + tid - StartTID returns exactly the TID's byte string *)
Theorem form_independent_bytes_tokens : forall fields es bl (tokv : N -> list N),
  tok_table fields = Ok (es, bl) -> (forall t, tok_ok (tokv t)) ->
  forall tid, (1 <= tid <= N.of_nat (length (concat fields)))%N ->
  exists e b, find_entry es tid = Some e /\ blk_get bl (te_blk e) = Some b /\
    forall groups, concat groups = map tokv b -> (N.of_nat (length (pack_phys groups)) < 4294967296)%N ->
      exists offs, blk_unpack (pack_phys groups) = DOk offs /\
        get_val (pack_phys groups) offs (te_sidx e + tid - te_tid e) = DOk (tokv tid).
Proof.
  intros fields es bl tokv Et Hv tid Htid.
  destruct (tok_table_exact fields) as (es' & bl' & Et' & Hall). rewrite Et in Et'. inversion Et'; subst es' bl'.
  destruct (Hall tid Htid) as [_ Hval]. unfold val_of_tid in Hval.
  destruct (find_entry es tid) as [e|] eqn:Ee; [|discriminate].
  destruct (blk_get bl (te_blk e)) as [b|] eqn:Eb; [|discriminate].
  exists e, b. split; [reflexivity|]. split; [exact Eb|].
  intros groups Hg Hlen.
  assert (Hok : Forall (Forall tok_ok) groups).
  { rewrite Forall_forall. intros g Hgin. rewrite Forall_forall. intros t Ht.
    assert (Hin : In t (concat groups)) by (apply in_concat; exists g; split; assumption).
    rewrite Hg in Hin. apply in_map_iff in Hin. destruct Hin as [x [<- _]]. apply Hv. }
  destruct (tokens_block_roundtrip groups Hok Hlen) as (offs & Hu & Hget). exists offs. split; [exact Hu|].
  specialize (Hget (N.to_nat (te_sidx e + tid - te_tid e)) (tokv tid)).
  rewrite N2Nat.id in Hget. apply Hget. rewrite Hg. rewrite nth_error_map, Hval. reflexivity.
Qed.
