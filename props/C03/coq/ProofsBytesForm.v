(* C03 — composition: thm:C03_form_independent restated with tables and blocks going through their bytes. *)
From Coq Require Import List Bool Arith NArith ZArith Lia.
Import ListNotations.
From C03 Require Import Model ModelBytes ProofsCodec ProofsSearch ProofsNav ProofsGen ProofsLids ProofsBlocks ProofsTables ProofsTokTab ProofsBytes.

(* ---------------------------------------------------------------- composition: the sealed form through bytes *)
(* thm:C03_form_independent with the registry, every LID block, every ID block and the positions block going
   through their byte encodings *)
Theorem form_independent_bytes : forall cap fields im bs tid lo hi asc hs,
  0 < cap -> input_ok fields -> input_sorted fields ->
  (tokens_total fields < 4294967295)%N -> (1 <= tid <= tokens_total fields)%N ->
  gen_blocks cap fields = Ok bs -> map snd (im_lids im) = bs -> image_ok im ->
  map hdr3 hs = registry_of im -> Forall hdr_ok hs ->
  (* Loader.Load over the registry BYTES returns the tables sealing kept *)
  load (read_registry (pack_registry hs)) = Some (preloaded im)
  (* every LID block read back from its BYTES is the block sealing held *)
  /\ map (fun b => unpack_bytes (pack_bytes (b_chunks b))) bs = map (fun b => DOk (b_chunks b)) bs
  (* a posting read over the loaded tables and the decoded blocks = the active answer *)
  /\ (forall t cs, load (read_registry (pack_registry hs)) = Some t ->
        map (fun b => unpack_bytes (pack_bytes (b_chunks b))) bs = map DOk cs ->
        read_with (tb_lids t) cs asc tid lo hi = Ok (expected asc fields tid lo hi))
  (* every ID block (MIDs, RIDs in both formats, positions) and the positions block read back from their BYTES *)
  /\ (forall mids rids pos, Forall u64ok mids -> Forall u64ok rids -> Forall u64ok pos ->
        unpack_ids_varint (pack_mids mids) = DOk mids
        /\ unpack_rids 1 (pack_rids rids) = DOk rids /\ unpack_rids 0 (pack_mids rids) = DOk rids
        /\ unpack_ids_varint (pack_pos pos) = DOk pos)
  /\ (forall total offs, u32ok total -> u32ok (N.of_nat (length offs)) -> Forall u64ok offs ->
        load_positions (pack_positions total offs) = DOk (N.of_nat (length offs), total, offs)).
Proof.
  intros cap fields im bs tid lo hi asc hs Hcap Hok Hs Htot Htid Eg Eim Himg Ehs Hhs.
  destruct (form_independent cap fields im bs tid lo hi asc Hcap Hok Hs Htot Htid Eg Eim Himg) as (Hload & Hrt & _ & Hread).
  assert (Hreg : read_registry (pack_registry hs) = registry_of im).
  { rewrite registry_roundtrip by exact Hhs. exact Ehs. }
  assert (Hwf : Forall (fun b => chunks_wf (b_chunks b)) bs).
  { destruct (gen_blocks_ok cap fields Hcap Hok) as (bs' & Eg' & Hc & _ & _ & Hpp).
    rewrite Eg in Eg'. inversion Eg'; subst bs'.
    pose proof (chain_all_ok 0 bs Hc) as Hbok.
    rewrite Forall_forall in *. intros b Hb. apply chunks_wf_of; [apply Hbok; exact Hb|apply Hpp; exact Hb]. }
  assert (Hbytes : map (fun b => unpack_bytes (pack_bytes (b_chunks b))) bs = map (fun b => DOk (b_chunks b)) bs).
  { apply map_ext_in. intros b Hb. rewrite Forall_forall in Hwf. apply chunks_bytes_roundtrip. apply Hwf. exact Hb. }
  split; [rewrite Hreg; exact Hload|]. split; [exact Hbytes|]. split; [|split].
  - intros t cs Ht Hcs. rewrite Hreg, Hload in Ht. inversion Ht; subst t.
    rewrite Hbytes in Hcs. rewrite <- (map_map b_chunks DOk) in Hcs.
    assert (Ecs : map b_chunks bs = cs).
    { revert Hcs. generalize (map b_chunks bs). intros l. revert cs.
      induction l as [|a l IH]; intros [|c cs] H; try discriminate; [reflexivity|].
      cbn [map] in H. inversion H; subst. f_equal. apply IH. assumption. }
    rewrite <- Ecs. exact Hread.
  - intros mids rids pos Hm Hr Hp. split; [apply mids_roundtrip; exact Hm|]. split; [|split].
    + unfold unpack_rids. cbn. apply rids_raw_roundtrip. exact Hr.
    + unfold unpack_rids. cbn. apply mids_roundtrip. exact Hr.
    + apply mids_roundtrip. exact Hp.
  - intros total offs Ht Hn Ho. apply positions_roundtrip; assumption.
Qed.

(* the token dictionary of a sealed fraction through bytes: with the table of C03_token_table_exact, for EVERY
   assignment of byte strings to the TIDs and EVERY way the physical block of a TID's entry is cut into
   DiskTokensBlock packs, Block.unpack on the block's bytes succeeds and GetValByTID at
   StartIndex + tid - StartTID returns exactly the TID's byte string *)
Theorem form_independent_bytes_tokens : forall fields es bl (tokv : N -> list N),
  tok_table fields = Ok (es, bl) -> (forall t, tok_ok (tokv t)) ->
  forall tid, (1 <= tid <= N.of_nat (length (concat fields)))%N ->
  exists e b, find_entry es tid = Some e /\ blk_get bl (te_blk e) = Some b /\
    forall groups, concat groups = map tokv b -> (N.of_nat (length (pack_phys groups)) < 4294967296)%N ->
      exists offs, blk_unpack (pack_phys groups) = DOk offs /\
        get_val (pack_phys groups) offs (te_sidx e + tid - te_tid e) = DOk (tokv tid).
Proof.
  intros fields es bl tokv Et Hv tid Htid.
  destruct (tok_table_exact fields) as (es' & bl' & Et' & Hall). rewrite Et in Et'. inversion Et'; subst es' bl'.
  destruct (Hall tid Htid) as [_ Hval]. unfold val_of_tid in Hval.
  destruct (find_entry es tid) as [e|] eqn:Ee; [|discriminate].
  destruct (blk_get bl (te_blk e)) as [b|] eqn:Eb; [|discriminate].
  exists e, b. split; [reflexivity|]. split; [exact Eb|].
  intros groups Hg Hlen.
  assert (Hok : Forall (Forall tok_ok) groups).
  { rewrite Forall_forall. intros g Hgin. rewrite Forall_forall. intros t Ht.
    assert (Hin : In t (concat groups)) by (apply in_concat; exists g; split; assumption).
    rewrite Hg in Hin. apply in_map_iff in Hin. destruct Hin as [x [<- _]]. apply Hv. }
  destruct (tokens_block_roundtrip groups Hok Hlen) as (offs & Hu & Hget). exists offs. split; [exact Hu|].
  specialize (Hget (N.to_nat (te_sidx e + tid - te_tid e)) (tokv tid)).
  rewrite N2Nat.id in Hget. apply Hget. rewrite Hg. rewrite nth_error_map, Hval. reflexivity.
Qed.

(* ---------------------------------------------------------------- statements in the shape Props.v exports *)
Theorem varint_roundtrip_full : forall x, (-9223372036854775808 <= x < 9223372036854775808)%Z ->
  (forall rest, get_varint (put_varint x ++ rest) = DOk (x, rest)) /\ 1 <= length (put_varint x) <= 10.
Proof.
  intros x Hx. assert (H : i64 x) by exact Hx. split; [intros rest; apply varint_roundtrip; exact H|].
  apply (varint_rt x [] H).
Qed.

Theorem varint_decode_total : forall buf,
  match get_varint buf with
  | DOk (v, rest) => (-9223372036854775808 <= v < 9223372036854775808)%Z
                     /\ exists pre, buf = pre ++ rest /\ 1 <= length pre <= 10
  | DErr => True
  | _ => False
  end.
Proof. exact get_varint_total. Qed.

Theorem ids_blocks_bytes_roundtrip : forall mids rids pos,
  Forall (fun x => x < 18446744073709551616)%N mids -> Forall (fun x => x < 18446744073709551616)%N rids ->
  Forall (fun x => x < 18446744073709551616)%N pos ->
  unpack_ids_varint (pack_mids mids) = DOk mids
  /\ unpack_rids 1 (pack_rids rids) = DOk rids
  /\ unpack_rids 0 (pack_mids rids) = DOk rids
  /\ unpack_ids_varint (pack_pos pos) = DOk pos.
Proof.
  intros mids rids pos Hm Hr Hp. split; [apply mids_roundtrip; exact Hm|]. split; [|split].
  - apply rids_raw_roundtrip. exact Hr.
  - apply mids_roundtrip. exact Hr.
  - apply mids_roundtrip. exact Hp.
Qed.

Theorem positions_block_roundtrip : forall total offs,
  (total < 4294967296)%N -> (N.of_nat (length offs) < 4294967296)%N -> Forall (fun x => x < 18446744073709551616)%N offs ->
  load_positions (pack_positions total offs) = DOk (N.of_nat (length offs), total, offs).
Proof. exact positions_roundtrip. Qed.

(* ID block decoders on arbitrary bytes: never out of fuel (value, or the explicit panic of unpackRawIDsVarint /
   the index panic of Uint64 on a short tail) *)
Theorem ids_decoders_total : forall v src, unpack_rids v src <> DFuel.
Proof.
  intros v src. unfold unpack_rids. destruct (v <? 1)%N.
  - apply unpack_ids_varint_go_fuel. lia.
  - assert (H : forall n l, length l <= n -> unpack_ids_raw l <> DFuel).
    { induction n as [|n IH]; intros l Hl.
      - destruct l; [discriminate|simpl in Hl; lia].
      - destruct l as [|b0 [|b1 [|b2 [|b3 [|b4 [|b5 [|b6 [|b7 r]]]]]]]]; try discriminate.
        cbn [unpack_ids_raw]. simpl in Hl. specialize (IH r ltac:(lia)).
        destruct (unpack_ids_raw r); cbn [dbind]; congruence. }
    apply (H (length src)). lia.
Qed.

Theorem tokens_block_bytes_roundtrip : forall groups,
  Forall (Forall (fun t => N.of_nat (length t) < 4294967295)%N) groups ->
  (N.of_nat (length (pack_phys groups)) < 4294967296)%N ->
  exists offs, blk_unpack (pack_phys groups) = DOk offs /\
    forall k t, nth_error (concat groups) k = Some t -> get_val (pack_phys groups) offs (N.of_nat k) = DOk t.
Proof. exact tokens_block_roundtrip. Qed.

Theorem token_table_bytes_roundtrip : forall fs, Forall field_ok fs -> load_table (pack_table fs) = DOk (map lfield_of fs).
Proof. exact token_table_roundtrip. Qed.

Theorem index_header_roundtrip : forall hs, Forall hdr_ok hs ->
  read_registry (pack_registry hs) = map hdr3 hs
  /\ (forall i h, nth_error hs i = Some h ->
        get_header (pack_registry hs) i = DOk (pack_hdr h) /\ forall rest, unpack_hdr (pack_hdr h ++ rest) = h)
  /\ (forall i, length hs <= i -> get_header (pack_registry hs) i = DErr).
Proof.
  intros hs Hok. split; [apply registry_roundtrip; exact Hok|]. split.
  - intros i h Hn. split; [apply get_header_roundtrip; exact Hn|].
    intros rest. apply header_roundtrip. rewrite Forall_forall in Hok. apply Hok. eapply nth_error_In. exact Hn.
  - intros i Hi. apply get_header_beyond. exact Hi.
Qed.
