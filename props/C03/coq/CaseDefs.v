(* C03 — shape of the generated cases and the two executable verdicts. NO proofs. *)
From VLib Require Import CaseLib.
From C03 Require Import Model ModelBytes.
From Coq Require Import ZArith.
From VLib Require GoSem.
From C03 Require GenCase.

Definition lN_eqb := list_eqb N.eqb.
Definition llN_eqb := list_eqb lN_eqb.
Definition chunks_eqb (a b : chunks) : bool :=
  llN_eqb (c_list a) (c_list b) && Bool.eqb (c_last a) (c_last b).
Definition block_eqb (a b : block) : bool :=
  N.eqb (b_min a) (b_min b) && N.eqb (b_max a) (b_max b) && Bool.eqb (b_cont a) (b_cont b)
  && chunks_eqb (b_chunks a) (b_chunks b).
Definition res_eqb {A} (eqb : A -> A -> bool) (a b : res A) : bool :=
  match a, b with
  | Ok x, Ok y => eqb x y
  | Panic, Panic => true
  | OutOfFuel, OutOfFuel => true
  | _, _ => false
  end.
Definition tblock_eqb (a b : tblock) : bool :=
  let '(s1, n1, f1) := a in let '(s2, n2, f2) := b in N.eqb s1 s2 && N.eqb n1 n2 && Bool.eqb f1 f2.
Definition sid_eqb (a b : sid) : bool := N.eqb (fst a) (fst b) && N.eqb (snd a) (snd b).

Definition tentry_eqb (a b : tentry) : bool :=
  N.eqb (te_tid a) (te_tid b) && N.eqb (te_cnt a) (te_cnt b) && N.eqb (te_sidx a) (te_sidx b)
  && N.eqb (te_blk a) (te_blk b).
Fixpoint N_seq (start : N) (len : nat) : list N :=
  match len with 0 => [] | S k => start :: N_seq (start + 1) k end.


(* ---------------------------------------------------------------- byte-level helpers *)
Definition dres_eqb {A} (eqb : A -> A -> bool) (a b : dres A) : bool :=
  match a, b with
  | DOk x, DOk y => eqb x y
  | DErr, DErr => true
  | DPanic, DPanic => true
  | _, _ => false
  end.
Definition dmap {A B} (f : A -> B) (r : dres A) : dres B :=
  match r with DOk a => DOk (f a) | DErr => DErr | DPanic => DPanic | DFuel => DFuel end.
Definition pair_eqb {A B} (ea : A -> A -> bool) (eb : B -> B -> bool) (a b : A * B) : bool :=
  ea (fst a) (fst b) && eb (snd a) (snd b).
Definition zn_eqb := pair_eqb Z.eqb Nat.eqb.
Definition rest_len {A} (r : dres (A * list N)) : dres (A * nat) := dmap (fun p => (fst p, length (snd p))) r.
Definition pos_eqb (a b : N * N * list N) : bool :=
  N.eqb (fst (fst a)) (fst (fst b)) && N.eqb (snd (fst a)) (snd (fst b)) && lN_eqb (snd a) (snd b).
Definition lentry_eqb (a b : lentry) : bool :=
  let '(t1, c1, s1, b1, m1) := a in let '(t2, c2, s2, b2, m2) := b in
  N.eqb t1 t2 && N.eqb c1 c2 && N.eqb s1 s2 && N.eqb b1 b2 && lN_eqb m1 m2.
Definition lfield_eqb (a b : lfield) : bool :=
  let '(n1, m1, e1) := a in let '(n2, m2, e2) := b in lN_eqb n1 n2 && lN_eqb m1 m2 && list_eqb lentry_eqb e1 e2.
Definition hdrb_eqb (a b : hdrb) : bool :=
  N.eqb (hb_codec a) (hb_codec b) && N.eqb (hb_len a) (hb_len b) && N.eqb (hb_rawlen a) (hb_rawlen b)
  && N.eqb (hb_ext1 a) (hb_ext1 b) && N.eqb (hb_ext2 a) (hb_ext2 b) && N.eqb (hb_pos a) (hb_pos b).
Definition hdr_eqb (a b : hdr) : bool :=
  N.eqb (fst (fst a)) (fst (fst b)) && N.eqb (snd (fst a)) (snd (fst b)) && N.eqb (snd a) (snd b).
Definition is_ok {A} (r : dres A) : bool := match r with DOk _ => true | _ => false end.
Definition ok_or_err {A} (r : dres A) : bool := match r with DOk _ | DErr => true | _ => false end.
Definition i64b (v : Z) : bool := ((-9223372036854775808 <=? v) && (v <? 9223372036854775808))%Z.
Definition unpack_ids_fmt (fmt : N) (buf : list N) : dres (list N) :=
  if (fmt =? 0)%N then unpack_ids_varint buf else if (fmt =? 1)%N then unpack_rids 1 buf else unpack_rids 0 buf.
Definition tok_get (payload : list N) (offs : dres (list N)) (k : N) : dres (list N) :=
  match offs with DOk o => get_val payload o k | _ => DPanic end.
Definition hdr3c (h : hdrb) : hdr := (hb_len h, hb_ext1 h, hb_ext2 h).

(* one read of a posting list: tid, [lo,hi], direction, what the real iterator returned *)
Record query := mkQ { q_tid : N; q_lo : N; q_hi : N; q_asc : bool; q_impl : res (list N) }.

Inductive case :=
(* Chunks.Pack on (cs, isLast): the varint values written; Chunks.unpack of those bytes (None = error) *)
| CChunks (cs : list (list N)) (isLast : bool) (vals : list Z) (back : option chunks)
(* getLIDsBlockGenerator with block capacity cap on fields (old LIDs) and oldToNew: pushed blocks *)
| CGen (cap : nat) (o2n : list N) (fields : list (list (list N))) (impl : res (list block))
(* real generator -> real Pack -> real unpack -> real Table (Add) and (ext words) -> real iterators *)
| CIter (cap : nat) (fields : list (list (list N))) (qs : list query)
(* getTokensBlocksGenerator: fields (fieldSize, #tokens) in sorted order; pushed blocks in order;
   ranks = for every block the ranks (position in the global (field, value) order, from 0) of its tokens *)
| CTok (fields : list (N * N)) (impl : res (list tblock)) (ranks : list (list N))
(* getIDsBlocksGenerator with block size [size]: blocks and registry minima *)
| CIds (size : nat) (ids : list sid) (impl : option (list (list sid))) (mins : list sid)
(* writeDocsInOrder through a real docBlocksWriter (block size bsz; lens = on-disk lengths of the blocks it
   wrote) over an active docs file fa / offsets oa / positions pa, for the ID list ids. impl: pn = new
   positions of the IDs of ids, on = new block offsets; got_a / got_s = every ID of ids read through a
   real DocsReader from the active resp. rewritten file; truth = the document stored for that ID *)
| CDocs (bsz : N) (lens : list N) (pa : list (sid * N)) (oa : list N) (fa : dfile) (ids : list sid)
        (pn : list (sid * N)) (on : list N) (got_a got_s : list (option doc)) (truth : list doc)
(* real writeTokensBlocks + writeTokenTableBlocks into an index file, real TableLoader / BlockLoader:
   fields = byte lengths of the tokens per field (dictionary order); pre / loaded = table entries
   (StartTID, ValCount, StartIndex, BlockIndex) kept by sealing / read from the file; vals_* = for every TID
   1..N the token found by GetEntryByTID + GetValByTID, as its TID (None = panic or nothing) *)
| CTokTab (fields : list (list N)) (pre loaded : list tentry) (vals_pre vals_loaded : list (option N))
(* ---- byte-level codecs (ModelBytes.v); "dec"/"out" are what the REAL decoder did: value / error / panic ---- *)
(* BytesPacker.PutVarint x -> enc; BytesUnpacker.GetVarint on enc ++ tail -> (value, Len() afterwards) *)
| CVarint (x : Z) (enc tail : list N) (dec : dres (Z * nat))
(* GetVarint on arbitrary (malformed / truncated) bytes *)
| CVarintDec (buf : list N) (dec : dres (Z * nat))
(* PutUint32 (w = 4) / PutUint64 (w = 8) of x; back = LittleEndian read of the real bytes *)
| CFixed (w : nat) (x : N) (enc : list N)
(* GetUint32 and GetBinary on arbitrary bytes: (value, Len() afterwards) *)
| CGetBin (buf : list N) (u : dres (N * nat)) (b : dres (list N * nat))
(* Chunks.Pack -> bytes; Chunks.unpack on those bytes *)
| CChunksB (cs : list (list N)) (isLast : bool) (bytes : list N) (back : dres chunks)
| CChunksDec (buf : list N) (out : dres chunks)
(* one ID block: packMIDs / packRIDs / packPos bytes (br0 = the RIDs in the old varint format); dm dr dp = read back
   from a real index file through loadMIDBlock/loadRIDBlock/loadParamsBlock + UnpackCache; dr0 = unpackRIDs(V0, br0) *)
| CIdsB (mids rids pos : list N) (bm br bp br0 : list N) (dm dr dp dr0 : dres (list N))
(* fmt 0: unpackMIDs, 1: unpackRIDs V1, 2: unpackRIDs V0 on arbitrary bytes *)
| CIdsDec (fmt : N) (buf : list N) (out : dres (list N))
(* DiskPositionsBlock.pack -> bytes; Loader.loadIDs on them (from a real file): IDBlocksTotal, IDsTotal, offsets *)
| CPosB (total : N) (offs : list N) (bytes : list N) (dec : dres (N * N * list N))
| CPosDec (buf : list N) (out : dres (N * N * list N))
(* DiskTokensBlock.pack of every group into one packer -> bytes; Block.unpack -> offsets; GetValByTID at 0..n *)
| CTokB (groups : list (list (list N))) (bytes : list N) (offs : dres (list N)) (vals : list (dres (list N)))
(* Block.unpack on arbitrary bytes; when it succeeds GetValByTID at index k *)
| CTokDec (buf : list N) (offs : dres (list N)) (k : N) (val : dres (list N))
(* DiskTokenTableBlock.pack of every field -> bytes; TableLoader.load on a real file holding them *)
| CTabB (fs : list (list N * list tentryb)) (bytes : list N) (dec : dres (list lfield))
| CTabDec (buf : list N) (out : dres (list lfield))
(* index block header built with the real setters: bytes, and what the six real accessors return *)
| CHdr (h : hdrb) (bytes : list N) (got : hdrb)
(* registry written by a real BlocksWriter (hs = what it must hold), read through IndexReader.GetBlockHeader:
   seen = (Len, Ext1, Ext2) of headers 0..n-1, beyond = GetBlockHeader(n) *)
| CReg (hs : list hdrb) (reg : list N) (seen : list hdr) (beyond : dres (list N))
(* one request sent to the three forms of one fraction + brute-force oracle; canonical answers *)
| CForm (kind : N) (active sealed reloaded oracle : list N)
(* gen-<func> (validation of the translator go2coq): the REAL Go function number fn (GenCase.gen_eval) was called
   on args and returned impl (or panicked); the GENERATED definition of Gen.v is evaluated on the same arguments *)
| CGo (fn : N) (args : list (list Z)) (impl : GoSem.gres).
Notation GVal := GoSem.GVal (only parsing).
Notation GPanic := GoSem.GPanic (only parsing).

(* ---------------------------------------------------------------- model = implementation *)
Definition run_query (t : table) (cs : list chunks) (q : query) : res (list N) :=
  (if q_asc q then iter_asc else iter_desc) t cs (q_tid q) (q_lo q) (q_hi q).

Definition case_agrees (c : case) : bool :=
  match c with
  | CChunks cs isLast vals back =>
      list_eqb Z.eqb (pack (mkChunks cs isLast)) vals
      && option_eqb chunks_eqb (Some (unpack vals)) back
  | CGen cap o2n fields impl => res_eqb (list_eqb block_eqb) (gen_blocks cap (reassign o2n fields)) impl
  | CIter cap fields qs =>
      match sealed_blocks cap fields with
      | Ok bs => let t := loaded_table bs in let cs := roundtrip_chunks bs in
                 forallb (fun q => res_eqb lN_eqb (run_query t cs q) (q_impl q)) qs
      | _ => false
      end
  | CTok fields impl _ =>
      res_eqb (list_eqb tblock_eqb)
              (match tok_gen fields with Ok l => Ok (concat l) | Panic => Panic | OutOfFuel => OutOfFuel end) impl
  | CIds size ids impl mins =>
      option_eqb (list_eqb (list_eqb sid_eqb)) (id_blocks size ids) impl
      && match impl with Some bs => list_eqb sid_eqb (min_ids bs) mins | None => true end
  | CTokTab fields pre loaded vals_pre vals_loaded =>
      match tok_table fields with
      | Ok (es, bl) =>
          let n := length (concat fields) in
          list_eqb tentry_eqb es pre && list_eqb tentry_eqb es loaded
          && list_eqb (option_eqb N.eqb) (map (val_of_tid es bl) (N_seq 1 n)) vals_pre
          && list_eqb (option_eqb N.eqb) (map (val_of_tid es bl) (N_seq 1 n)) vals_loaded
      | _ => false
      end
  | CDocs bsz lens pa oa fa ids pn on got_a got_s _ =>
      match write_sorted bsz lens pa oa fa ids with
      | Ok (pm, om, fm) =>
          lN_eqb om on
          && forallb (fun id => option_eqb N.eqb (pos_get pm id) (pos_get pn id)) ids
          && list_eqb (option_eqb lN_eqb) (map (fetch_doc pm om fm) ids) got_s
          && list_eqb (option_eqb lN_eqb) (map (fetch_doc pa oa fa) ids) got_a
      | _ => false
      end
  | CVarint x enc tail dec =>
      lN_eqb (put_varint x) enc && dres_eqb zn_eqb (rest_len (get_varint (enc ++ tail))) dec
  | CVarintDec buf dec => dres_eqb zn_eqb (rest_len (get_varint buf)) dec
  | CFixed w x enc => lN_eqb (put_le w x) enc
  | CGetBin buf u b =>
      dres_eqb (pair_eqb N.eqb Nat.eqb) (rest_len (get_u32 buf)) u
      && dres_eqb (pair_eqb lN_eqb Nat.eqb) (rest_len (get_bin buf)) b
  | CChunksB cs isLast bytes back =>
      lN_eqb (pack_bytes (mkChunks cs isLast)) bytes && dres_eqb chunks_eqb (unpack_bytes bytes) back
  | CChunksDec buf out => dres_eqb chunks_eqb (unpack_bytes buf) out
  | CIdsB mids rids pos bm br bp br0 dm dr dp dr0 =>
      lN_eqb (pack_mids mids) bm && lN_eqb (pack_rids rids) br && lN_eqb (pack_pos pos) bp && lN_eqb (pack_mids rids) br0
      && dres_eqb lN_eqb (unpack_ids_varint bm) dm && dres_eqb lN_eqb (unpack_rids 1 br) dr
      && dres_eqb lN_eqb (unpack_ids_varint bp) dp && dres_eqb lN_eqb (unpack_rids 0 br0) dr0
  | CIdsDec fmt buf out => dres_eqb lN_eqb (unpack_ids_fmt fmt buf) out
  | CPosB total offs bytes dec =>
      lN_eqb (pack_positions total offs) bytes && dres_eqb pos_eqb (load_positions bytes) dec
  | CPosDec buf out => dres_eqb pos_eqb (load_positions buf) out
  | CTokB groups bytes offs vals =>
      lN_eqb (pack_phys groups) bytes && dres_eqb lN_eqb (blk_unpack bytes) offs
      && list_eqb (dres_eqb lN_eqb) (map (tok_get bytes (blk_unpack bytes)) (N_seq 0 (length vals))) vals
  | CTokDec buf offs k val =>
      dres_eqb lN_eqb (blk_unpack buf) offs
      && (if is_ok offs then dres_eqb lN_eqb (tok_get buf (blk_unpack buf) k) val else true)
  | CTabB fs bytes dec =>
      lN_eqb (pack_table fs) bytes && dres_eqb (list_eqb lfield_eqb) (load_table bytes) dec
  | CTabDec buf out => dres_eqb (list_eqb lfield_eqb) (load_table buf) out
  | CHdr h bytes got => lN_eqb (pack_hdr h) bytes && hdrb_eqb (unpack_hdr bytes) got
  | CReg hs reg seen beyond =>
      lN_eqb (pack_registry hs) reg && list_eqb hdr_eqb (read_registry reg) seen
      && dres_eqb lN_eqb (get_header reg (length hs)) beyond
  | CForm _ _ _ _ _ => true
  | CGo fn args impl => GoSem.gres_eqb (GenCase.gen_eval fn args) impl
  end.

(* ---------------------------------------------------------------- the property on the implementation's output *)

(* all (tid, lid) pairs a reader can find in the blocks: chunk j of a block belongs to tid adj+j *)
Fixpoint tag_chunks (tid : N) (cs : list (list N)) : list (N * N) :=
  match cs with
  | [] => []
  | c :: r => map (fun l => (tid, l)) c ++ tag_chunks (tid + 1) r
  end.
Definition block_adj (b : block) : N := if b_cont b then N.pred (b_min b) else b_min b.
Definition block_pairs (b : block) : list (N * N) := tag_chunks (block_adj b) (c_list (b_chunks b)).
Definition want_pairs (fields : list (list (list N))) : list (N * N) := tag_chunks 1 (concat fields).
Definition pairNN_eqb (a b : N * N) := N.eqb (fst a) (fst b) && N.eqb (snd a) (snd b).
Definition block_count_ok (b : block) : bool :=
  N.eqb (N.of_nat (length (c_list (b_chunks b)))) (b_max b - block_adj b + 1)
  && (block_adj b <=? b_max b)%N.

(* token blocks: contiguous from TID 1, none empty, counts = number of ranks *)
Fixpoint tok_contig (cur : N) (bs : list tblock) (ranks : list (list N)) : option N :=
  match bs, ranks with
  | [], [] => Some cur
  | (s, n, _) :: r, rk :: rr =>
      if N.eqb s cur && (1 <=? n)%N && N.eqb (N.of_nat (length rk)) n then tok_contig (cur + n) r rr else None
  | _, _ => None
  end.
Fixpoint field_starts (cur : N) (fields : list (N * N)) : list N :=
  match fields with
  | [] => []
  | (_, n) :: r => (if (n =? 0)%N then [] else [cur]) ++ field_starts (cur + n) r
  end.
Definition total_tokens (fields : list (N * N)) : N := fold_left (fun a f => (a + snd f)%N) fields 0%N.

Definition all_eq4 (a s r o : list N) : bool := lN_eqb a s && lN_eqb s r && lN_eqb a o.

Definition case_spec_ok (c : case) : bool :=
  match c with
  | CChunks cs isLast _ back =>
      (* what was packed comes back (for chunk lists the generator can produce: see chunks_wf) *)
      match back with
      | Some b => chunks_eqb b (mkChunks cs isLast)
      | None => false
      end
  | CGen cap o2n fields impl =>
      match impl with
      | Ok bs => list_eqb pairNN_eqb (flat_map block_pairs bs) (want_pairs (reassign o2n fields))
                 && forallb block_count_ok bs
                 && forallb (fun b => length (concat (c_list (b_chunks b))) <=? cap) bs
      | _ => false
      end
  | CIter cap fields qs =>
      forallb (fun q => res_eqb lN_eqb (q_impl q) (Ok (expected (q_asc q) fields (q_tid q) (q_lo q) (q_hi q)))) qs
  | CTok fields impl ranks =>
      match impl with
      | Ok bs =>
          option_eqb N.eqb (tok_contig 1 bs ranks) (Some (1 + total_tokens fields)%N)
          && lN_eqb (map (fun b => fst (fst b)) (filter (fun b : tblock => snd b) bs)) (field_starts 1 fields)
          && lN_eqb (concat ranks) (N_seq 0 (N.to_nat (total_tokens fields)))
      | _ => false
      end
  | CIds size ids impl mins =>
      match impl with
      | Some bs =>
          list_eqb sid_eqb (concat bs) ids
          && forallb (fun b => negb (is_nil b)) bs
          && forallb (fun b => length b =? size) (removelast bs)
          && forallb (fun b => length b <=? size) bs
          && list_eqb sid_eqb mins (map (fun b => last b sid0) bs)
      | None => false
      end
  | CTokTab fields _ _ vals_pre vals_loaded =>
      (* every TID maps back to its own token, over the preloaded and over the loaded table *)
      let want := map Some (N_seq 1 (length (concat fields))) in
      list_eqb (option_eqb N.eqb) vals_pre want && list_eqb (option_eqb N.eqb) vals_loaded want
  | CDocs _ _ _ _ _ ids _ _ got_a got_s truth =>
      (* every stored ID (the zero ID cannot be stored) reads the same document from both files *)
      (length got_a =? length ids) && (length got_s =? length ids) && (length truth =? length ids)
      && forallb (fun x => let '(id, (a, (s, t))) := x in
                           sid_eqb id sid0 || (option_eqb lN_eqb a (Some t) && option_eqb lN_eqb s (Some t)))
                 (combine ids (combine got_a (combine got_s truth)))
  (* ---- byte-level codecs: decode(REAL bytes) = original, evaluated on the implementation's outputs only ---- *)
  | CVarint x _ tail dec => dres_eqb zn_eqb dec (DOk (x, length tail))
  | CVarintDec buf dec =>
      match dec with
      | DOk (v, n) => i64b v && (n <? length buf) && (length buf <=? n + 10)
      | DErr => true
      | _ => false                                 (* GetVarint never panics *)
      end
  | CFixed w x enc => (length enc =? w) && N.eqb (get_le w enc) x
  | CGetBin buf u b =>
      match u with DOk (_, n) => n + 4 =? length buf | DPanic => length buf <? 4 | _ => false end
      && match b with DOk (s, n) => n + 4 + length s =? length buf | DPanic => true | _ => false end
  | CChunksB cs isLast _ back => dres_eqb chunks_eqb back (DOk (mkChunks cs isLast))
  | CChunksDec _ out => ok_or_err out             (* Chunks.unpack never panics *)
  | CIdsB mids rids pos _ _ _ _ dm dr dp dr0 =>
      dres_eqb lN_eqb dm (DOk mids) && dres_eqb lN_eqb dr (DOk rids) && dres_eqb lN_eqb dp (DOk pos)
      && dres_eqb lN_eqb dr0 (DOk rids)
  | CIdsDec _ _ out => match out with DOk _ | DPanic => true | _ => false end
  | CPosB total offs _ dec => dres_eqb pos_eqb dec (DOk (N.of_nat (length offs), total, offs))
  | CPosDec _ out => match out with DFuel => false | _ => true end
  | CTokB groups _ offs vals =>
      is_ok offs && (length vals =? S (length (concat groups)))
      && list_eqb (dres_eqb lN_eqb) (firstn (length (concat groups)) vals) (map DOk (concat groups))
  | CTokDec _ offs _ _ => match offs with DFuel => false | _ => true end
  | CTabB fs _ dec => dres_eqb (list_eqb lfield_eqb) dec (DOk (map lfield_of fs))
  | CTabDec _ out => match out with DOk _ | DPanic => true | _ => false end
  | CHdr h _ got => hdrb_eqb got h
  | CReg hs _ seen beyond => list_eqb hdr_eqb seen (map hdr3c hs) && dres_eqb lN_eqb beyond DErr
  | CForm _ a s r o => all_eq4 a s r o
  | CGo _ _ _ => true   (* translator validation: correspondence only *)
  end.

Definition diff_indices (l : list case) : list nat := bad_indices (fun c => negb (case_agrees c)) l.
Definition specfail_indices (l : list case) : list nat := bad_indices (fun c => negb (case_spec_ok c)) l.
