(* C03 — shape of the generated cases and the two executable verdicts. NO proofs. *)
From VLib Require Import CaseLib.
From C03 Require Import Model.
From Coq Require Import ZArith.

Definition lN_eqb := list_eqb N.eqb.
Definition llN_eqb := list_eqb lN_eqb.
Definition chunks_eqb (a b : chunks) : bool :=
  llN_eqb (c_list a) (c_list b) && Bool.eqb (c_last a) (c_last b).
Definition block_eqb (a b : block) : bool :=
  N.eqb (b_min a) (b_min b) && N.eqb (b_max a) (b_max b) && Bool.eqb (b_cont a) (b_cont b)
  && chunks_eqb (b_chunks a) (b_chunks b).
Definition res_eqb {A} (eqb : A -> A -> bool) (a b : res A) : bool :=
  match a, b with
  | Ok x, Ok y => eqb x y
  | Panic, Panic => true
  | OutOfFuel, OutOfFuel => true
  | _, _ => false
  end.
Definition tblock_eqb (a b : tblock) : bool :=
  let '(s1, n1, f1) := a in let '(s2, n2, f2) := b in N.eqb s1 s2 && N.eqb n1 n2 && Bool.eqb f1 f2.
Definition sid_eqb (a b : sid) : bool := N.eqb (fst a) (fst b) && N.eqb (snd a) (snd b).

Definition tentry_eqb (a b : tentry) : bool :=
  N.eqb (te_tid a) (te_tid b) && N.eqb (te_cnt a) (te_cnt b) && N.eqb (te_sidx a) (te_sidx b)
  && N.eqb (te_blk a) (te_blk b).
Fixpoint N_seq (start : N) (len : nat) : list N :=
  match len with 0 => [] | S k => start :: N_seq (start + 1) k end.

(* one read of a posting list: tid, [lo,hi], direction, what the real iterator returned *)
Record query := mkQ { q_tid : N; q_lo : N; q_hi : N; q_asc : bool; q_impl : res (list N) }.

Inductive case :=
(* Chunks.Pack on (cs, isLast): the varint values written; Chunks.unpack of those bytes (None = error) *)
| CChunks (cs : list (list N)) (isLast : bool) (vals : list Z) (back : option chunks)
(* getLIDsBlockGenerator with block capacity cap on fields (old LIDs) and oldToNew: pushed blocks *)
| CGen (cap : nat) (o2n : list N) (fields : list (list (list N))) (impl : res (list block))
(* real generator -> real Pack -> real unpack -> real Table (Add) and (ext words) -> real iterators *)
| CIter (cap : nat) (fields : list (list (list N))) (qs : list query)
(* getTokensBlocksGenerator: fields (fieldSize, #tokens) in sorted order; pushed blocks in order;
   ranks = for every block the ranks (position in the global (field, value) order, from 0) of its tokens *)
| CTok (fields : list (N * N)) (impl : res (list tblock)) (ranks : list (list N))
(* getIDsBlocksGenerator with block size [size]: blocks and registry minima *)
| CIds (size : nat) (ids : list sid) (impl : option (list (list sid))) (mins : list sid)
(* writeDocsInOrder through a real docBlocksWriter (block size bsz; lens = on-disk lengths of the blocks it
   wrote) over an active docs file fa / offsets oa / positions pa, for the ID list ids. impl: pn = new
   positions of the IDs of ids, on = new block offsets; got_a / got_s = every ID of ids read through a
   real DocsReader from the active resp. rewritten file; truth = the document stored for that ID *)
| CDocs (bsz : N) (lens : list N) (pa : list (sid * N)) (oa : list N) (fa : dfile) (ids : list sid)
        (pn : list (sid * N)) (on : list N) (got_a got_s : list (option doc)) (truth : list doc)
(* real writeTokensBlocks + writeTokenTableBlocks into an index file, real TableLoader / BlockLoader:
   fields = byte lengths of the tokens per field (dictionary order); pre / loaded = table entries
   (StartTID, ValCount, StartIndex, BlockIndex) kept by sealing / read from the file; vals_* = for every TID
   1..N the token found by GetEntryByTID + GetValByTID, as its TID (None = panic or nothing) *)
| CTokTab (fields : list (list N)) (pre loaded : list tentry) (vals_pre vals_loaded : list (option N))
(* one request sent to the three forms of one fraction + brute-force oracle; canonical answers *)
| CForm (kind : N) (active sealed reloaded oracle : list N).

(* ---------------------------------------------------------------- model = implementation *)
Definition run_query (t : table) (cs : list chunks) (q : query) : res (list N) :=
  (if q_asc q then iter_asc else iter_desc) t cs (q_tid q) (q_lo q) (q_hi q).

Definition case_agrees (c : case) : bool :=
  match c with
  | CChunks cs isLast vals back =>
      list_eqb Z.eqb (pack (mkChunks cs isLast)) vals
      && option_eqb chunks_eqb (Some (unpack vals)) back
  | CGen cap o2n fields impl => res_eqb (list_eqb block_eqb) (gen_blocks cap (reassign o2n fields)) impl
  | CIter cap fields qs =>
      match sealed_blocks cap fields with
      | Ok bs => let t := loaded_table bs in let cs := roundtrip_chunks bs in
                 forallb (fun q => res_eqb lN_eqb (run_query t cs q) (q_impl q)) qs
      | _ => false
      end
  | CTok fields impl _ =>
      res_eqb (list_eqb tblock_eqb)
              (match tok_gen fields with Ok l => Ok (concat l) | Panic => Panic | OutOfFuel => OutOfFuel end) impl
  | CIds size ids impl mins =>
      option_eqb (list_eqb (list_eqb sid_eqb)) (id_blocks size ids) impl
      && match impl with Some bs => list_eqb sid_eqb (min_ids bs) mins | None => true end
  | CTokTab fields pre loaded vals_pre vals_loaded =>
      match tok_table fields with
      | Ok (es, bl) =>
          let n := length (concat fields) in
          list_eqb tentry_eqb es pre && list_eqb tentry_eqb es loaded
          && list_eqb (option_eqb N.eqb) (map (val_of_tid es bl) (N_seq 1 n)) vals_pre
          && list_eqb (option_eqb N.eqb) (map (val_of_tid es bl) (N_seq 1 n)) vals_loaded
      | _ => false
      end
  | CDocs bsz lens pa oa fa ids pn on got_a got_s _ =>
      match write_sorted bsz lens pa oa fa ids with
      | Ok (pm, om, fm) =>
          lN_eqb om on
          && forallb (fun id => option_eqb N.eqb (pos_get pm id) (pos_get pn id)) ids
          && list_eqb (option_eqb lN_eqb) (map (fetch_doc pm om fm) ids) got_s
          && list_eqb (option_eqb lN_eqb) (map (fetch_doc pa oa fa) ids) got_a
      | _ => false
      end
  | CForm _ _ _ _ _ => true
  end.

(* ---------------------------------------------------------------- the property on the implementation's output *)

(* all (tid, lid) pairs a reader can find in the blocks: chunk j of a block belongs to tid adj+j *)
Fixpoint tag_chunks (tid : N) (cs : list (list N)) : list (N * N) :=
  match cs with
  | [] => []
  | c :: r => map (fun l => (tid, l)) c ++ tag_chunks (tid + 1) r
  end.
Definition block_adj (b : block) : N := if b_cont b then N.pred (b_min b) else b_min b.
Definition block_pairs (b : block) : list (N * N) := tag_chunks (block_adj b) (c_list (b_chunks b)).
Definition want_pairs (fields : list (list (list N))) : list (N * N) := tag_chunks 1 (concat fields).
Definition pairNN_eqb (a b : N * N) := N.eqb (fst a) (fst b) && N.eqb (snd a) (snd b).
Definition block_count_ok (b : block) : bool :=
  N.eqb (N.of_nat (length (c_list (b_chunks b)))) (b_max b - block_adj b + 1)
  && (block_adj b <=? b_max b)%N.

(* token blocks: contiguous from TID 1, none empty, counts = number of ranks *)
Fixpoint tok_contig (cur : N) (bs : list tblock) (ranks : list (list N)) : option N :=
  match bs, ranks with
  | [], [] => Some cur
  | (s, n, _) :: r, rk :: rr =>
      if N.eqb s cur && (1 <=? n)%N && N.eqb (N.of_nat (length rk)) n then tok_contig (cur + n) r rr else None
  | _, _ => None
  end.
Fixpoint field_starts (cur : N) (fields : list (N * N)) : list N :=
  match fields with
  | [] => []
  | (_, n) :: r => (if (n =? 0)%N then [] else [cur]) ++ field_starts (cur + n) r
  end.
Definition total_tokens (fields : list (N * N)) : N := fold_left (fun a f => (a + snd f)%N) fields 0%N.

Definition all_eq4 (a s r o : list N) : bool := lN_eqb a s && lN_eqb s r && lN_eqb a o.

Definition case_spec_ok (c : case) : bool :=
  match c with
  | CChunks cs isLast _ back =>
      (* what was packed comes back (for chunk lists the generator can produce: see chunks_wf) *)
      match back with
      | Some b => chunks_eqb b (mkChunks cs isLast)
      | None => false
      end
  | CGen cap o2n fields impl =>
      match impl with
      | Ok bs => list_eqb pairNN_eqb (flat_map block_pairs bs) (want_pairs (reassign o2n fields))
                 && forallb block_count_ok bs
                 && forallb (fun b => length (concat (c_list (b_chunks b))) <=? cap) bs
      | _ => false
      end
  | CIter cap fields qs =>
      forallb (fun q => res_eqb lN_eqb (q_impl q) (Ok (expected (q_asc q) fields (q_tid q) (q_lo q) (q_hi q)))) qs
  | CTok fields impl ranks =>
      match impl with
      | Ok bs =>
          option_eqb N.eqb (tok_contig 1 bs ranks) (Some (1 + total_tokens fields)%N)
          && lN_eqb (map (fun b => fst (fst b)) (filter (fun b : tblock => snd b) bs)) (field_starts 1 fields)
          && lN_eqb (concat ranks) (N_seq 0 (N.to_nat (total_tokens fields)))
      | _ => false
      end
  | CIds size ids impl mins =>
      match impl with
      | Some bs =>
          list_eqb sid_eqb (concat bs) ids
          && forallb (fun b => negb (is_nil b)) bs
          && forallb (fun b => length b =? size) (removelast bs)
          && forallb (fun b => length b <=? size) bs
          && list_eqb sid_eqb mins (map (fun b => last b sid0) bs)
      | None => false
      end
  | CTokTab fields _ _ vals_pre vals_loaded =>
      (* every TID maps back to its own token, over the preloaded and over the loaded table *)
      let want := map Some (N_seq 1 (length (concat fields))) in
      list_eqb (option_eqb N.eqb) vals_pre want && list_eqb (option_eqb N.eqb) vals_loaded want
  | CDocs _ _ _ _ _ ids _ _ got_a got_s truth =>
      (* every stored ID (the zero ID cannot be stored) reads the same document from both files *)
      (length got_a =? length ids) && (length got_s =? length ids) && (length truth =? length ids)
      && forallb (fun x => let '(id, (a, (s, t))) := x in
                           sid_eqb id sid0 || (option_eqb lN_eqb a (Some t) && option_eqb lN_eqb s (Some t)))
                 (combine ids (combine got_a (combine got_s truth)))
  | CForm _ a s r o => all_eq4 a s r o
  end.

Definition diff_indices (l : list case) : list nat := bad_indices (fun c => negb (case_agrees c)) l.
Definition specfail_indices (l : list case) : list nat := bad_indices (fun c => negb (case_spec_ok c)) l.
