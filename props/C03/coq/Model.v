(* C03 — executable model of the sealed-fraction layout logic. NO proofs in this file.

   Mirrors (as the code is NOW, after fix cf53e44):
     frac/lids/chunks.go            Chunks.Pack / Chunks.unpack   (on varint VALUES; the byte encoding of
                                    encoding/binary varints is outside the model)
     frac/disk_blocks_producer.go   getLIDsBlockGenerator, getTokensBlocksGenerator (+ the pre-fix
                                    version as tok_field_v0), getIDsBlocksGenerator
     frac/lids/block.go             GetExtForRegistry  /  frac/sealed_loader.go loadLIDsBlocksTable
     frac/lids/table.go             Table (all functions)
     frac/lids/iterator_desc.go, iterator_asc.go   (a drained iterator = list of all Next() results)
     sort.Search                    transcribed literally (binary search with fuel)
   Data are N (uint32 / uint64 values), positions and lengths are nat. *)
From Coq Require Import List Bool Arith NArith ZArith.
Import ListNotations.

Inductive res (A : Type) := Ok (a : A) | Panic | OutOfFuel.
Arguments Ok {A} a. Arguments Panic {A}. Arguments OutOfFuel {A}.

Definition is_nil {A} (l : list A) : bool := match l with [] => true | _ => false end.

(* ------------------------------------------------------------------ sort.Search *)
(* func Search(n, f): i, j := 0, n; for i < j { h := (i+j)/2; if !f(h) { i = h+1 } else { j = h } }; return i *)
Fixpoint bsearch (fuel : nat) (f : nat -> bool) (i j : nat) : nat :=
  match fuel with
  | 0 => i
  | S k => if i <? j then let h := (i + j) / 2 in
                          if f h then bsearch k f i h else bsearch k f (S h) j
           else i
  end.
Definition sort_search (n : nat) (f : nat -> bool) : nat := bsearch n f 0 n.

Definition nthN (l : list N) (i : nat) : N := nth i l 0%N.

(* ------------------------------------------------------------------ lids.Chunks *)
Record chunks := mkChunks { c_list : list (list N); c_last : bool }.

Definition two32 : Z := 4294967296.
Definition maxu32 : Z := 4294967295.
Definition u32 (z : Z) : Z := (z mod two32)%Z.

(* the deltas of one chunk; [last] is lastLID *)
Fixpoint pack_chunk (last : Z) (l : list N) : list Z :=
  match l with
  | [] => []
  | x :: r => (Z.of_N x - last)%Z :: pack_chunk (Z.of_N x) r
  end.
Fixpoint last_lid (last : Z) (l : list N) : Z :=
  match l with [] => last | x :: r => last_lid (Z.of_N x) r end.

(* Chunks.Pack: after chunk i an end marker (-1 - lastLID) is written iff i < last || IsLastLID *)
Fixpoint pack_from (last : Z) (cs : list (list N)) (isLast : bool) : list Z :=
  match cs with
  | [] => []
  | c :: rest =>
      let last' := last_lid last c in
      pack_chunk last c
        ++ (if negb (is_nil rest) || isLast then [(-1 - last')%Z] else [])
        ++ pack_from last' rest isLast
  end.
Definition pack (c : chunks) : list Z := pack_from 0%Z (c_list c) (c_last c).

(* Chunks.unpack: lid is a uint32; [cur] = LIDs read since the last end marker (reversed),
   [done] = finished chunks (reversed). `int(offset) < len(buf.lids)` <=> cur is not empty. *)
Fixpoint unpack_go (vals : list Z) (lid : Z) (cur : list N) (done : list (list N)) : chunks :=
  match vals with
  | [] => match cur with
          | [] => mkChunks (rev done) true
          | _ => mkChunks (rev (rev cur :: done)) false
          end
  | d :: r =>
      let lid' := u32 (lid + u32 d) in                       (* lid += uint32(delta) *)
      if (lid' =? maxu32)%Z
      then unpack_go r (u32 (lid' - u32 d)) [] (rev cur :: done)   (* lid -= uint32(delta) *)
      else unpack_go r lid' (Z.to_N lid' :: cur) done
  end.
Definition unpack (vals : list Z) : chunks := unpack_go vals 0%Z [] [].

(* ------------------------------------------------------------------ LID block generator *)
Record block := mkBlock { b_min : N; b_max : N; b_cont : bool; b_chunks : chunks }.

Record gst := mkG {
  g_maxTID : N; g_lastMax : N; g_cont : bool;
  g_cur : list (list N);      (* chunks of the block being filled, REVERSED (offsets) *)
  g_len : nat;                (* len(blockLIDs) *)
  g_out : list block          (* pushed blocks, REVERSED *)
}.
Definition g_init : gst := mkG 0 0 false [] 0 [].

(* newBlockFn(isLastLID) + push *)
Definition new_block (s : gst) (isLast : bool) : gst :=
  mkG (g_maxTID s) (g_maxTID s) (negb isLast) [] 0
      (mkBlock (g_lastMax s + 1) (g_maxTID s) (g_cont s) (mkChunks (rev (g_cur s)) isLast) :: g_out s).

(* for len(tokenLIDs) > 0 { right := min(cap-len(blockLIDs), len(tokenLIDs)); append; offsets; cut;
                            if len(blockLIDs) == cap { push(newBlockFn(len(tokenLIDs) == 0)) } } *)
Fixpoint gen_token (fuel : nat) (cap : nat) (s : gst) (lids : list N) : option gst :=
  match lids with
  | [] => Some s
  | _ =>
    match fuel with
    | 0 => None
    | S f =>
        let right := Nat.min (cap - g_len s) (length lids) in
        let rest := skipn right lids in
        let s1 := mkG (g_maxTID s) (g_lastMax s) (g_cont s) (firstn right lids :: g_cur s)
                      (g_len s + right) (g_out s) in
        let s2 := if g_len s1 =? cap then new_block s1 (is_nil rest) else s1 in
        gen_token f cap s2 rest
    end
  end.

Definition bump (s : gst) : gst :=
  mkG (g_maxTID s + 1) (g_lastMax s) (g_cont s) (g_cur s) (g_len s) (g_out s).

(* one tid: maxTID++ ; the loop. The fuel is generous: every iteration consumes >= 1 LID when cap > 0 *)
Definition gen_tid (cap : nat) (os : option gst) (lids : list N) : option gst :=
  match os with
  | None => None
  | Some s => gen_token (S (length lids)) cap (bump s) lids
  end.

(* one field: its tokens in dictionary order; `if len(blockLIDs) > 0 { push(newBlockFn(true)) }` *)
Definition gen_field (cap : nat) (os : option gst) (toks : list (list N)) : option gst :=
  match fold_left (gen_tid cap) toks os with
  | None => None
  | Some s => Some (if 0 <? g_len s then new_block s true else s)
  end.

(* fields in sorted order, each a list of posting lists (new LIDs: reassignLIDs is a map over the
   block's LIDs and commutes with the slicing, the harness passes old LIDs + oldToNew, see reassign) *)
Definition gen_blocks (cap : nat) (fields : list (list (list N))) : res (list block) :=
  match fold_left (gen_field cap) fields (Some g_init) with
  | None => OutOfFuel
  | Some s => Ok (rev (g_out s))
  end.

Definition reassign (o2n : list N) (fields : list (list (list N))) : list (list (list N)) :=
  map (map (map (fun l => nthN o2n (N.to_nat l)))) fields.

(* ------------------------------------------------------------------ registry ext words + lids.Table *)
Record table := mkTable { t_min : list N; t_max : list N; t_cont : list bool }.

(* DiskBlocksWriter.writeLIDsBlocks: lidsTable.Add(block) — the PRELOADED table *)
Definition table_of (bs : list block) : table :=
  mkTable (map b_min bs) (map b_max bs) (map b_cont bs).

(* Block.GetExtForRegistry / Loader.loadLIDsBlocksTable — the LOADED table *)
Definition ext_of (b : block) : N * N :=
  ((if b_cont b then 1 else 0)%N, N.lor (N.shiftl (b_max b) 32) (b_min b)).
Definition table_of_ext (exts : list (N * N)) : table :=
  mkTable (map (fun e => N.land (snd e) 4294967295) exts)
          (map (fun e => N.shiftr (snd e) 32) exts)
          (map (fun e => N.eqb (fst e) 1) exts).

Definition adj_min (t : table) (i : nat) : N :=
  if nth i (t_cont t) false then N.pred (nthN (t_min t) i) else nthN (t_min t) i.
Definition chunks_count (t : table) (i : nat) : N := (nthN (t_max t) i - adj_min t i + 1)%N.

Definition first_block (t : table) (tid : N) : res nat :=
  let n := length (t_max t) in
  if n =? 0 then Panic else
  let i := sort_search n (fun i => (tid <=? nthN (t_max t) i)%N) in
  if i =? n then Panic else Ok i.

Definition last_block (t : table) (tid : N) : res nat :=
  if length (t_max t) =? 0 then Panic else
  let n := length (t_min t) in
  match sort_search n (fun i => (tid <? adj_min t i)%N) with
  | 0 => Panic                                           (* index -1 *)
  | S i => if (nthN (t_max t) i <? tid)%N then Panic else Ok i
  end.

Definition has_prev (t : table) (bi : nat) (tid : N) : bool :=
  match bi with 0 => false | S p => (nthN (t_max t) p =? tid)%N end.
Definition has_next (t : table) (bi : nat) (tid : N) : bool :=
  if length (t_min t) =? S bi then false else (adj_min t (S bi) =? tid)%N.

(* ------------------------------------------------------------------ iterators *)
Definition lastN (l : list N) : N := last l 0%N.

Definition cut_left (lo : N) (l : list N) : list N :=
  skipn (sort_search (length l) (fun i => (lo <=? nthN l i)%N)) l.
Definition cut_right (hi : N) (l : list N) : list N :=
  firstn (sort_search (length l) (fun i => (hi <? nthN l i)%N)) l.

(* IteratorDesc.narrowLIDsRange; None = index out of range on an empty chunk *)
Definition narrow_desc (lo hi : N) (l : list N) (try : bool) : option (list N * bool) :=
  match l with
  | [] => None
  | first :: _ =>
      if (hi <? first)%N then Some ([], false) else
      let lst := lastN l in
      if (lst <? lo)%N then Some ([], try) else
      let l1 := if (first <? lo)%N then cut_left lo l else l in
      if (hi <=? lst)%N then Some (cut_right hi l1, false) else Some (l1, try)
  end.

(* IteratorAsc.narrowLIDsRange *)
Definition narrow_asc (lo hi : N) (l : list N) (try : bool) : option (list N * bool) :=
  match l with
  | [] => None
  | first :: _ =>
      if (hi <? first)%N then Some ([], try) else
      let lst := lastN l in
      if (lst <? lo)%N then Some ([], false) else
      let '(l1, try1) := if (first <? lo)%N then (cut_left lo l, false) else (l, try) in
      let l2 := if (hi <=? lst)%N then cut_right hi l1 else l1 in
      Some (l2, try1)
  end.

(* loadNextLIDsChunk: the chunk of [tid] in block [bi]; checks as in the code *)
Definition load_chunk (t : table) (bs : list chunks) (tid : N) (bi : nat) : option (list N) :=
  match nth_error bs bi with
  | None => None                                                   (* block cannot be loaded *)
  | Some ch =>
      if negb (N.of_nat (length (c_list ch)) =? chunks_count t bi)%N then None   (* unexpected LIDs count *)
      else if (tid <? adj_min t bi)%N then None                     (* uint32 wrap of the chunk index *)
      else nth_error (c_list ch) (N.to_nat (tid - adj_min t bi))
  end.

(* all results of IteratorDesc.Next() until it returns false *)
Fixpoint desc_loop (fuel : nat) (t : table) (bs : list chunks) (tid lo hi : N) (bi : nat) : res (list N) :=
  match fuel with
  | 0 => OutOfFuel
  | S f =>
      match load_chunk t bs tid bi with
      | None => Panic
      | Some l =>
          match narrow_desc lo hi l (has_next t bi tid) with
          | None => Panic
          | Some (l', try') =>
              if try' then match desc_loop f t bs tid lo hi (S bi) with
                           | Ok r => Ok (l' ++ r) | e => e end
              else Ok l'
          end
      end
  end.
Definition iter_desc (t : table) (bs : list chunks) (tid lo hi : N) : res (list N) :=
  match first_block t tid with
  | Ok bi => desc_loop (S (length bs)) t bs tid lo hi bi
  | Panic => Panic | OutOfFuel => OutOfFuel
  end.

(* all results of IteratorAsc.Next(): every chunk is consumed from its end *)
Fixpoint asc_loop (fuel : nat) (t : table) (bs : list chunks) (tid lo hi : N) (bi : nat) : res (list N) :=
  match fuel with
  | 0 => OutOfFuel
  | S f =>
      match load_chunk t bs tid bi with
      | None => Panic
      | Some l =>
          match narrow_asc lo hi l (has_prev t bi tid) with
          | None => Panic
          | Some (l', try') =>
              if try' then match bi with
                           | 0 => Panic                              (* blockIndex-- wrapped *)
                           | S p => match asc_loop f t bs tid lo hi p with
                                    | Ok r => Ok (rev l' ++ r) | e => e end
                           end
              else Ok (rev l')
          end
      end
  end.
Definition iter_asc (t : table) (bs : list chunks) (tid lo hi : N) : res (list N) :=
  match last_block t tid with
  | Ok bi => asc_loop (S (length bs)) t bs tid lo hi bi
  | Panic => Panic | OutOfFuel => OutOfFuel
  end.

(* the whole path of one posting-list read on a sealed fraction:
   generate -> Pack -> (file) -> unpack, table from the registry ext words *)
Definition sealed_blocks (cap : nat) (fields : list (list (list N))) : res (list block) := gen_blocks cap fields.
Definition roundtrip_chunks (bs : list block) : list chunks := map (fun b => unpack (pack (b_chunks b))) bs.
Definition loaded_table (bs : list block) : table := table_of_ext (map ext_of bs).

Definition read_postings (asc : bool) (cap : nat) (fields : list (list (list N))) (tid lo hi : N) : res (list N) :=
  match sealed_blocks cap fields with
  | Ok bs => (if asc then iter_asc else iter_desc) (loaded_table bs) (roundtrip_chunks bs) tid lo hi
  | Panic => Panic | OutOfFuel => OutOfFuel
  end.

(* what the active fraction answers for the same read: the token's postings cut to [lo,hi] *)
Definition in_range (lo hi x : N) : bool := ((lo <=? x) && (x <=? hi))%N.
Definition postings (fields : list (list (list N))) (tid : N) : list N :=
  match tid with 0%N => [] | _ => nth (N.to_nat (tid - 1)) (concat fields) [] end.
Definition expected (asc : bool) (fields : list (list (list N))) (tid lo hi : N) : list N :=
  let l := filter (in_range lo hi) (postings fields tid) in if asc then rev l else l.

(* ------------------------------------------------------------------ token block generator *)
Definition regular_block_size : N := 16384.

(* one pushed DiskTokensBlock: startTID, number of tokens, isStartOfField *)
Definition tblock := (N * N * bool)%type.

(* for len(tids) > 0 { right := min(blockSize, len(tids)); ...; push; first = false; cur += right }
   the consumer (createTokenTableEntry) reads tokens[len-1]: an empty block panics *)
Fixpoint tok_loop (fuel : nat) (blockSize n : N) (first : bool) (cur : N) : res (list tblock * N) :=
  if (n =? 0)%N then Ok ([], cur) else
  match fuel with
  | 0 => OutOfFuel
  | S f =>
      let right := N.min blockSize n in
      if (right =? 0)%N then Panic else
      match tok_loop f blockSize (n - right) false (cur + right) with
      | Ok (bs, c) => Ok ((cur, right, first) :: bs, c)
      | e => e
      end
  end.

Definition blocks_count (fieldSize : N) : N := (fieldSize / regular_block_size + 1)%N.
(* repaired (cf53e44): blockSize := max(1, len(tids)/blocksCount) *)
Definition tok_field (fieldSize n cur : N) : res (list tblock * N) :=
  tok_loop (S (N.to_nat n)) (N.max 1 (n / blocks_count fieldSize)) n true cur.
(* before the fix: blockSize := len(tids)/blocksCount *)
Definition tok_field_v0 (fieldSize n cur : N) : res (list tblock * N) :=
  tok_loop (S (N.to_nat n)) (n / blocks_count fieldSize) n true cur.

Fixpoint tok_gen_from (field : N -> N -> N -> res (list tblock * N)) (fields : list (N * N)) (cur : N)
  : res (list (list tblock)) :=
  match fields with
  | [] => Ok []
  | (size, n) :: r =>
      match field size n cur with
      | Ok (bs, c) => match tok_gen_from field r c with Ok l => Ok (bs :: l) | e => e end
      | Panic => Panic | OutOfFuel => OutOfFuel
      end
  end.
(* fields in sorted order, each (fieldSizes[field], number of tokens); var cur uint32 = 1 *)
Definition tok_gen (fields : list (N * N)) := tok_gen_from tok_field fields 1.
Definition tok_gen_v0 (fields : list (N * N)) := tok_gen_from tok_field_v0 fields 1.

(* ------------------------------------------------------------------ ID block generator *)
(* for len(ids) > 0 { right := min(size, len(ids)); block = ids[:right]; ids = ids[right:]; push } *)
Fixpoint chop {A} (fuel : nat) (size : nat) (l : list A) : option (list (list A)) :=
  match l with
  | [] => Some []
  | _ => match fuel with
         | 0 => None
         | S f => let right := Nat.min size (length l) in
                  match chop f size (skipn right l) with
                  | Some r => Some (firstn right l :: r)
                  | None => None
                  end
         end
  end.
Definition id_blocks {A} (size : nat) (ids : list A) : option (list (list A)) := chop (S (length ids)) size ids.

(* seq.ID = (MID, RID) *)
Definition sid := (N * N)%type.
Definition sid0 : sid := (0%N, 0%N).
(* DiskIDsBlock.getMinID: the last ID of the block (IDs are sorted descending) -> registry ext words *)
Definition min_ids (blocks : list (list sid)) : list sid := map (fun b => last b sid0) blocks.

(* ------------------------------------------------------------------ docs files and the sorted-docs rewrite *)
(* frac/active_sealer.go: writeSortedDocs / writeDocBlocksInOrder / docBlocksWriter; seq/doc_pos.go;
   disk/docs_reader.go: extractDocsFromBlockFunc. A block payload is the sequence of its documents, each
   stored as [len uint32][bytes]; the little-endian length bytes and the compression are outside the
   model: a file is the list of its blocks (compressed length on disk, payload). *)
Definition doc := list N.
Definition payload := list doc.
Definition dfile := list (N * payload).

Definition doc_size (d : doc) : N := (4 + N.of_nat (length d))%N.

(* the document that starts at byte offset [off] of the payload *)
Fixpoint doc_at (p : payload) (off : N) : option doc :=
  match p with
  | [] => None
  | d :: r => if (off =? 0)%N then Some d
              else if (off <? doc_size d)%N then None
              else doc_at r (off - doc_size d)
  end.

(* the block that starts at byte offset [off] of the file *)
Fixpoint read_block (f : dfile) (off : N) : option payload :=
  match f with
  | [] => None
  | (len, p) :: r => if (off =? 0)%N then Some p
                     else if (off <? len)%N then None
                     else read_block r (off - len)
  end.

Definition max_doc_offset : N := 1073741823.   (* 1<<30 - 1 *)
(* PackDocPos: None = logger.Panic("block offset too big") *)
Definition pack_pos (idx off : N) : option N :=
  if (max_doc_offset <? off)%N then None
  else Some (N.lor (N.shiftl idx 30) off + 1)%N.
(* DocPos.Unpack: blockIndex is a uint32 *)
Definition unpack_pos (pos : N) : N * N :=
  let p := N.pred pos in (N.land (N.shiftr p 30) 4294967295, N.land p max_doc_offset).

Definition sid_eq (a b : sid) : bool := (fst a =? fst b)%N && (snd a =? snd b)%N.
Fixpoint pos_get (m : list (sid * N)) (id : sid) : option N :=
  match m with
  | [] => None
  | (k, v) :: r => if sid_eq k id then Some v else pos_get r id
  end.

(* fetch of one ID: positions (map), block offsets, docs file *)
Definition fetch_doc (pos : list (sid * N)) (offsets : list N) (f : dfile) (id : sid) : option doc :=
  match pos_get pos id with
  | None => None
  | Some p => let '(bi, off) := unpack_pos p in
              match nth_error offsets (N.to_nat bi) with
              | None => None
              | Some bo => match read_block f bo with
                           | None => None
                           | Some pl => doc_at pl off
                           end
              end
  end.

(* docBlocksWriter *)
Record wst := mkW {
  w_cur : payload;            (* documents of the block being filled, REVERSED *)
  w_len : N;                  (* len(w.docs) *)
  w_idx : N;                  (* curBlockIndex *)
  w_off : N;                  (* currentBlockOffset *)
  w_offsets : list N;         (* BlockOffsets, REVERSED *)
  w_file : dfile;             (* blocks written, REVERSED *)
  w_pos : list (sid * N);     (* Positions: the head shadows older entries of the same ID *)
  w_nflush : nat
}.
Definition w_init : wst := mkW [] 0 0 0 [] [] [] 0.

(* flushBlock; the compressed length of the k-th block comes from [lens] (zstd is outside) *)
Definition w_flush (lens : list N) (w : wst) : wst :=
  let len := nth (w_nflush w) lens 1%N in
  mkW [] 0 (w_idx w + 1) (w_off w + len) (w_off w :: w_offsets w) ((len, rev (w_cur w)) :: w_file w)
      (w_pos w) (S (w_nflush w)).

(* WriteDoc *)
Definition w_write (bsz : N) (lens : list N) (w : wst) (id : sid) (d : doc) : option wst :=
  match pack_pos (w_idx w) (w_len w) with
  | None => None
  | Some p =>
      let w1 := mkW (d :: w_cur w) (w_len w + doc_size d) (w_idx w) (w_off w) (w_offsets w) (w_file w)
                    ((id, p) :: w_pos w) (w_nflush w) in
      Some (if (bsz <? w_len w1)%N then w_flush lens w1 else w1)
  end.

(* writeDocBlocksInOrder: consecutive duplicates are written once (prevID starts as the zero ID);
   Panic = position not found / read error / offset too big *)
Fixpoint w_loop (bsz : N) (lens : list N) (pa : list (sid * N)) (oa : list N) (fa : dfile)
         (ids : list sid) (prev : sid) (w : wst) : res wst :=
  match ids with
  | [] => Ok w
  | id :: r =>
      if sid_eq id prev then w_loop bsz lens pa oa fa r prev w
      else match fetch_doc pa oa fa id with
           | None => Panic
           | Some d => match w_write bsz lens w id d with
                       | None => Panic
                       | Some w' => w_loop bsz lens pa oa fa r id w'
                       end
           end
  end.

(* writeSortedDocs (blockSize <= 0 means 4 MiB in getDocBlocksWriter: the caller passes the effective
   size): new positions, new block offsets, new file *)
Definition write_sorted (bsz : N) (lens : list N) (pa : list (sid * N)) (oa : list N) (fa : dfile)
           (ids : list sid) : res (list (sid * N) * list N * dfile) :=
  match w_loop bsz lens pa oa fa ids sid0 w_init with
  | Ok w => let w' := if (0 <? w_len w)%N then w_flush lens w else w in
            Ok (w_pos w', rev (w_offsets w'), rev (w_file w'))
  | Panic => Panic
  | OutOfFuel => OutOfFuel
  end.

(* ------------------------------------------------------------------ index file registry: write and load *)
(* frac/active_sealer.go writeSealedFraction + frac/disk_blocks_writer.go (sections, WriteEmptyBlock,
   BlockFormer.FlushForced writes nothing for empty data) and frac/sealed_loader.go Loader.Load.
   A registry entry is (on-disk length, ext1, ext2); an entry of length 0 ends a section. Block contents,
   compression and the positions block's body (IDsTotal as a little-endian uint32) are outside. *)
Definition hdr := (N * N * N)%type.
Definition h_len (h : hdr) : N := fst (fst h).
Definition h_ext1 (h : hdr) : N := snd (fst h).
Definition h_ext2 (h : hdr) : N := snd h.
Definition empty_hdr : hdr := (0, 0, 0)%N.

Record image := mkImage {
  im_info : N;                          (* length of the info block *)
  im_tok : list N;                      (* lengths of the token blocks *)
  im_tab : list N;                      (* lengths of the token table blocks *)
  im_pos : N;                           (* length of the positions block *)
  im_ids : list (sid * (N * N * N));    (* per ID block: its minimal ID, lengths of the MID / RID / Pos blocks *)
  im_lids : list (N * block)            (* per LID block: on-disk length, the block *)
}.

Definition plain (l : N) : hdr := (l, 0, 0)%N.
Definition registry_of (im : image) : list hdr :=
  plain (im_info im) :: map plain (im_tok im) ++ [empty_hdr]
  ++ map plain (im_tab im) ++ [empty_hdr]
  ++ [plain (im_pos im)]
  ++ flat_map (fun x => let '(id, (a, b, c)) := x in [(a, fst id, snd id); plain b; plain c]) (im_ids im)
  ++ [empty_hdr]
  ++ flat_map (fun x => let '(l, b) := x in
                        if is_nil (pack (b_chunks b)) then [] (* FlushForced: nothing to write *)
                        else [(l, fst (ext_of b), snd (ext_of b))]) (im_lids im)
  ++ [empty_hdr].

(* what sealing keeps in memory (PreloadedData): MinBlockIDs, DiskStartBlockIndex, lids.Table with StartIndex *)
Record tables := mkTables { tb_mins : list sid; tb_ids_start : nat; tb_lids_start : nat; tb_lids : table }.

Definition preloaded (im : image) : tables :=
  let ids_start := 1 + length (im_tok im) + 1 + length (im_tab im) + 1 + 1 in
  mkTables (map fst (im_ids im)) ids_start (ids_start + 3 * length (im_ids im) + 1)
           (table_of (map snd (im_lids im))).

(* skipBlock until an empty header: rest of the registry and the index after it; None = read past the end *)
Fixpoint skip_sec (l : list hdr) (n : nat) : option (list hdr * nat) :=
  match l with
  | [] => None
  | h :: r => if (h_len h =? 0)%N then Some (r, S n) else skip_sec r (S n)
  end.
(* loadIDs loop: MIDs header carries the block's minimal ID; RIDs and Pos blocks are skipped *)
Fixpoint read_ids (l : list hdr) (n : nat) (acc : list sid) : option (list sid * list hdr * nat) :=
  match l with
  | [] => None
  | h :: r => if (h_len h =? 0)%N then Some (rev acc, r, S n)
              else match r with
                   | _ :: _ :: r2 => read_ids r2 (S (S (S n))) ((h_ext1 h, h_ext2 h) :: acc)
                   | _ => None
                   end
  end.
(* loadLIDsBlocksTable loop *)
Fixpoint read_lids (l : list hdr) (acc : list (N * N)) : option (list (N * N)) :=
  match l with
  | [] => None
  | h :: r => if (h_len h =? 0)%N then Some (rev acc) else read_lids r ((h_ext1 h, h_ext2 h) :: acc)
  end.

(* Loader.Load: blockIndex = 1 (info already read); skipTokens; loadIDs; loadLIDsBlocksTable *)
Definition load (reg : list hdr) : option tables :=
  match reg with
  | [] => None
  | _ :: l1 =>
      match skip_sec l1 1 with None => None | Some (l2, n2) =>
      match skip_sec l2 n2 with None => None | Some (l3, n3) =>
      match l3 with [] => None | _ :: l4 =>
      match read_ids l4 (S n3) [] with None => None | Some (mins, l5, n5) =>
      match read_lids l5 [] with None => None | Some exts =>
        Some (mkTables mins (S n3) n5 (table_of_ext exts))
      end end end end end
  end.

(* ------------------------------------------------------------------ token table: physical blocks and entries *)
(* frac/disk_blocks_writer.go writeTokensBlocks (table entries, StartIndex, BlockIndex, FlushForced at the
   start of a field larger than a block, FlushIfNeeded above 16 KiB) over the blocks of
   getTokensBlocksGenerator; frac/token/table.go GetEntryByTID; frac/token/block_loader.go GetValByTID.
   A token is identified by its TID (its rank in the (field, value) order + 1); a field is the list of the
   byte lengths of its tokens in dictionary order. *)
Record tentry := mkTE { te_tid : N; te_cnt : N; te_sidx : N; te_blk : N }.
Record twst := mkTW {
  tw_buf : list N;                 (* TIDs packed into the physical block being formed *)
  tw_bytes : N;                    (* len(former.Packer().Data) *)
  tw_sidx : N;                     (* startIndex *)
  tw_blk : N;                      (* writer.GetBlockIndex() *)
  tw_blocks : list (N * list N);   (* written physical blocks (index, TIDs), REVERSED *)
  tw_entries : list tentry         (* REVERSED *)
}.
Definition tw_init : twst := mkTW [] 0 0 1 [] [].   (* block 0 is the info block *)

(* BlockFormer.FlushForced *)
Definition tw_flush (w : twst) : twst :=
  if (tw_bytes w =? 0)%N then w
  else mkTW [] 0 (tw_sidx w) (tw_blk w + 1) ((tw_blk w, tw_buf w) :: tw_blocks w) (tw_entries w).
Definition tw_reset (w : twst) : twst :=
  mkTW (tw_buf w) (tw_bytes w) 0 (tw_blk w) (tw_blocks w) (tw_entries w).

Fixpoint tid_seq (s : N) (n : nat) : list N :=
  match n with 0 => [] | S k => s :: tid_seq (s + 1) k end.
Definition tok_len (lens : list N) (tid : N) : N := nth (N.to_nat (tid - 1)) lens 0%N.
(* DiskTokensBlock.pack: [len uint32][bytes] per token, then the 0xFFFFFFFF terminator *)
Definition tblock_bytes (lens : list N) (s : N) (n : N) : N :=
  (fold_left (fun a t => a + 4 + tok_len lens t) (tid_seq s (N.to_nat n)) 0 + 4)%N.

(* push of writeTokensBlocks *)
Definition tw_push (lens : list N) (total : N) (w : twst) (b : tblock) : twst :=
  let '(s, n, first) := b in
  let w1 := if first && (regular_block_size <? total)%N then tw_reset (tw_flush w) else w in
  let e := mkTE s n (tw_sidx w1) (tw_blk w1) in
  let w2 := mkTW (tw_buf w1 ++ tid_seq s (N.to_nat n)) (tw_bytes w1 + tblock_bytes lens s n)
                 (tw_sidx w1 + n) (tw_blk w1) (tw_blocks w1) (e :: tw_entries w1) in
  if (regular_block_size <? tw_bytes w2)%N then tw_reset (tw_flush w2) else w2.

Definition field_size (f : list N) : N := fold_left N.add f 0%N.

Fixpoint tw_fields (lens : list N) (fields : list (list N)) (bss : list (list tblock)) (w : twst) : twst :=
  match fields, bss with
  | f :: fr, bs :: br => tw_fields lens fr br (fold_left (tw_push lens (field_size f)) bs w)
  | _, _ => w
  end.

(* the token table (entries in file order) and the physical token blocks of a dictionary *)
Definition tok_table (fields : list (list N)) : res (list tentry * list (N * list N)) :=
  match tok_gen (map (fun f => (field_size f, N.of_nat (length f))) fields) with
  | Ok bss => let w := tw_flush (tw_fields (concat fields) fields bss tw_init) in
              Ok (rev (tw_entries w), rev (tw_blocks w))
  | Panic => Panic
  | OutOfFuel => OutOfFuel
  end.

(* Table.GetEntryByTID *)
Definition te_covers (e : tentry) (tid : N) : bool := ((te_tid e <=? tid) && (tid <? te_tid e + te_cnt e))%N.
Definition find_entry (es : list tentry) (tid : N) : option tentry := find (fun e => te_covers e tid) es.
Fixpoint blk_get (bl : list (N * list N)) (i : N) : option (list N) :=
  match bl with [] => None | (k, b) :: r => if (k =? i)%N then Some b else blk_get r i end.
(* sealedTokenIndex.GetValByTID: the token (as its TID) found for tid *)
Definition val_of_tid (es : list tentry) (bl : list (N * list N)) (tid : N) : option N :=
  match find_entry es tid with
  | None => None
  | Some e => match blk_get bl (te_blk e) with
              | None => None
              | Some b => nth_error b (N.to_nat (te_sidx e + tid - te_tid e))
              end
  end.
