(* C03 — token table: every TID belongs to exactly one entry and reads back its own token. *)
From Coq Require Import List Bool Arith NArith Lia.
Import ListNotations.
From C03 Require Import Model ProofsBlocks.

Local Open Scope N_scope.

(* ------------------------------------------------------------------ entries in TID order *)
Fixpoint econtig (cur : N) (es : list tentry) : Prop :=
  match es with
  | [] => True
  | e :: r => te_tid e = cur /\ 1 <= te_cnt e /\ econtig (cur + te_cnt e) r
  end.
Fixpoint eend (cur : N) (es : list tentry) : N :=
  match es with [] => cur | e :: r => eend (cur + te_cnt e) r end.

Lemma econtig_app c l e : econtig c (l ++ [e]) <-> econtig c l /\ te_tid e = eend c l /\ 1 <= te_cnt e.
Proof.
  revert c. induction l as [|x r IH]; intros c; cbn [econtig eend app].
  - tauto.
  - rewrite IH. tauto.
Qed.
Lemma eend_app c l e : eend c (l ++ [e]) = eend c l + te_cnt e.
Proof. revert c. induction l as [|x r IH]; intros c; cbn [eend app]; auto. Qed.

Lemma econtig_ge c es : econtig c es -> forall e, In e es -> c <= te_tid e.
Proof.
  revert c. induction es as [|x r IH]; intros c H e Hin; [inversion Hin|].
  cbn in H. destruct H as (H1 & H2 & H3). destruct Hin as [<-|Hin]; [lia|].
  specialize (IH _ H3 e Hin). lia.
Qed.

(* GetEntryByTID: total and exact on a contiguous table, whatever the iteration order *)
Lemma find_exact es : forall c tid, econtig c es -> c <= tid < eend c es ->
  exists e, find_entry es tid = Some e /\ In e es /\ te_covers e tid = true
            /\ forall e', In e' es -> te_covers e' tid = true -> e' = e.
Proof.
  induction es as [|x r IH]; intros c tid H Ht; [cbn in Ht; lia|].
  cbn in H. destruct H as (H1 & H2 & H3). cbn [eend] in Ht.
  unfold find_entry. cbn [find]. destruct (te_covers x tid) eqn:E.
  - exists x. split; [reflexivity|]. split; [left; auto|]. split; auto.
    intros e' [<-|Hin] Hc; auto. exfalso.
    pose proof (econtig_ge _ _ H3 e' Hin). unfold te_covers in E, Hc.
    apply andb_true_iff in E. apply andb_true_iff in Hc. rewrite N.leb_le, N.ltb_lt in *. lia.
  - assert (Hge : c + te_cnt x <= tid).
    { unfold te_covers in E. apply andb_false_iff in E. rewrite N.leb_gt, N.ltb_ge in E. lia. }
    destruct (IH (c + te_cnt x) tid H3 ltac:(lia)) as (e & Hf & Hin & Hc & Hu).
    exists e. split; [exact Hf|]. split; [right; auto|]. split; auto.
    intros e' [<-|Hin'] Hc'; [congruence|auto].
Qed.

(* ------------------------------------------------------------------ physical blocks *)
Lemma blk_get_In l k b : blk_get l k = Some b -> In (k, b) l.
Proof.
  induction l as [|[k' b'] r IH]; cbn; [discriminate|].
  destruct (N.eqb_spec k' k); intros H; [inversion H; subst; left; auto|right; auto].
Qed.
Lemma blk_In l k b : NoDup (map fst l) -> In (k, b) l -> blk_get l k = Some b.
Proof.
  induction l as [|[k' b'] r IH]; intros Hn Hin; [inversion Hin|].
  cbn in Hn. inversion Hn as [|? ? Hni Hn']; subst. cbn.
  destruct Hin as [E|Hin].
  - inversion E; subst. rewrite N.eqb_refl. reflexivity.
  - destruct (N.eqb_spec k' k); [|auto]. subst. exfalso. apply Hni.
    apply in_map_iff. exists (k, b). auto.
Qed.
Lemma blk_get_rev l k b : NoDup (map fst l) -> blk_get l k = Some b -> blk_get (rev l) k = Some b.
Proof.
  intros Hn H. apply blk_In.
  - rewrite map_rev. apply NoDup_rev. exact Hn.
  - apply in_rev. rewrite rev_involutive. apply blk_get_In. exact H.
Qed.

Lemma tid_seq_nth s n : forall j, (j < n)%nat -> nth_error (tid_seq s n) j = Some (s + N.of_nat j).
Proof.
  revert s. induction n as [|n IH]; intros s j H; [lia|].
  destruct j; cbn [tid_seq nth_error]; [f_equal; lia|].
  rewrite IH by lia. f_equal. lia.
Qed.
Lemma tid_seq_length s n : length (tid_seq s n) = n.
Proof. revert s. induction n; intros; cbn; auto. Qed.

(* ------------------------------------------------------------------ writer invariant *)
Definition content (w : twst) (b : N) : option (list N) :=
  if b =? tw_blk w then Some (tw_buf w) else blk_get (tw_blocks w) b.

Definition holds (w : twst) (e : tentry) : Prop :=
  exists c, content w (te_blk e) = Some c /\
            forall j, (j < N.to_nat (te_cnt e))%nat ->
                      nth_error c (N.to_nat (te_sidx e) + j) = Some (te_tid e + N.of_nat j).

Record tinv0 (w : twst) (T : N) : Prop := {
  t_bytes : tw_buf w <> [] -> 0 < tw_bytes w;
  t_keys : Forall (fun kb : N * list N => fst kb < tw_blk w) (tw_blocks w);
  t_nodup : NoDup (map fst (tw_blocks w));
  t_contig : econtig 1 (rev (tw_entries w));
  t_end : eend 1 (rev (tw_entries w)) = T;
  t_holds : forall e, In e (tw_entries w) -> holds w e
}.
Definition tinv (w : twst) (T : N) : Prop := tinv0 w T /\ tw_sidx w = N.of_nat (length (tw_buf w)).

Lemma holds_flush w e : Forall (fun kb : N * list N => fst kb < tw_blk w) (tw_blocks w) ->
  holds w e -> holds (tw_flush w) e.
Proof.
  intros Hk (c & Hc & Hn). unfold tw_flush. destruct (tw_bytes w =? 0); [exists c; auto|].
  exists c. split; auto. unfold content in *. cbn [tw_blk tw_buf tw_blocks blk_get].
  destruct (N.eqb_spec (te_blk e) (tw_blk w)) as [E|E].
  - destruct (N.eqb_spec (te_blk e) (tw_blk w + 1)); [lia|].
    destruct (N.eqb_spec (tw_blk w) (te_blk e)); [auto|congruence].
  - destruct (N.eqb_spec (te_blk e) (tw_blk w + 1)) as [E2|E2].
    + exfalso. apply blk_get_In in Hc. rewrite Forall_forall in Hk. specialize (Hk _ Hc). cbn [fst] in Hk. lia.
    + destruct (N.eqb_spec (tw_blk w) (te_blk e)); [congruence|auto].
Qed.

Lemma flush_inv w T : tinv0 w T -> tinv0 (tw_flush w) T /\ tw_buf (tw_flush w) = [].
Proof.
  intros Hi. pose proof Hi as [Hb Hk Hn Hc He Hh].
  split.
  - constructor; try (intros e Hin; apply holds_flush; auto; apply Hh;
                      unfold tw_flush in Hin; destruct (tw_bytes w =? 0); auto);
      unfold tw_flush; destruct (N.eqb_spec (tw_bytes w) 0) as [E|E]; auto;
      cbn [tw_sidx tw_buf tw_bytes tw_blk tw_blocks tw_entries length]; auto.
    + congruence.
    + constructor; [cbn; lia|]. rewrite Forall_forall in *. intros x Hx. specialize (Hk x Hx). lia.
    + cbn [map fst]. constructor; auto. intros Hin. apply in_map_iff in Hin. destruct Hin as (x & Ex & Hx).
      rewrite Forall_forall in Hk. specialize (Hk x Hx). lia.
  - unfold tw_flush. destruct (N.eqb_spec (tw_bytes w) 0) as [E|E]; [|reflexivity].
    destruct (tw_buf w); auto. specialize (Hb ltac:(congruence)). lia.
Qed.

Lemma reset_inv w T : tinv0 w T -> tw_buf w = [] -> tinv (tw_reset w) T.
Proof.
  intros [Hb Hk Hn Hc He Hh] Hbuf. split.
  - constructor; cbn [tw_reset tw_sidx tw_buf tw_bytes tw_blk tw_blocks tw_entries]; auto.
  - cbn [tw_reset tw_sidx tw_buf]. rewrite Hbuf. reflexivity.
Qed.

Lemma tblock_bytes_pos lens s n : 0 < tblock_bytes lens s n.
Proof. unfold tblock_bytes. lia. Qed.

(* one push of writeTokensBlocks: the block (T, n, first) of the generator *)
Lemma push_inv lens total w T n first : tinv w T -> 1 <= n ->
  tinv (tw_push lens total w (T, n, first)) (T + n).
Proof.
  intros Hi Hn. unfold tw_push.
  set (w1 := if first && (regular_block_size <? total) then tw_reset (tw_flush w) else w).
  assert (Hi1 : tinv w1 T).
  { unfold w1. destruct (first && (regular_block_size <? total)); auto.
    destruct (flush_inv w T (proj1 Hi)) as [H1 H2]. apply reset_inv; auto. }
  clearbody w1. clear Hi w.
  set (e := mkTE T n (tw_sidx w1) (tw_blk w1)).
  set (w2 := mkTW (tw_buf w1 ++ tid_seq T (N.to_nat n)) (tw_bytes w1 + tblock_bytes lens T n)
                  (tw_sidx w1 + n) (tw_blk w1) (tw_blocks w1) (e :: tw_entries w1)).
  assert (Hi2 : tinv w2 (T + n)).
  { destruct Hi1 as [[Hb Hk Hnd Hc He Hh] Hs].
    split; [|cbn [w2 tw_sidx tw_buf]; rewrite app_length, tid_seq_length, Hs; lia].
    constructor; cbn [w2 tw_sidx tw_buf tw_bytes tw_blk tw_blocks tw_entries]; auto.
    - intros _. pose proof (tblock_bytes_pos lens T n). lia.
    - cbn [rev]. apply econtig_app. repeat split; auto; try (cbn; congruence).
    - cbn [rev]. rewrite eend_app, He. reflexivity.
    - intros x [<-|Hin].
      + exists (tw_buf w1 ++ tid_seq T (N.to_nat n)). split.
        * unfold content. cbn [e te_blk w2 tw_blk tw_buf]. rewrite N.eqb_refl. reflexivity.
        * intros j Hj. cbn [e te_sidx te_tid te_cnt] in *. rewrite Hs, Nat2N.id.
          rewrite nth_error_app2 by lia. replace (length (tw_buf w1) + j - length (tw_buf w1))%nat with j by lia.
          apply tid_seq_nth. exact Hj.
      + destruct (Hh x Hin) as (c & Hcont & Hnth). unfold content in Hcont.
        destruct (N.eqb_spec (te_blk x) (tw_blk w1)) as [E|E].
        * inversion Hcont; subst c. exists (tw_buf w1 ++ tid_seq T (N.to_nat n)). split.
          -- unfold content. cbn [w2 tw_blk tw_buf]. rewrite E, N.eqb_refl. reflexivity.
          -- intros j Hj. specialize (Hnth j Hj). rewrite nth_error_app1; auto.
             apply nth_error_Some. congruence.
        * exists c. split; auto. unfold content. cbn [w2 tw_blk tw_blocks].
          destruct (N.eqb_spec (te_blk x) (tw_blk w1)); [congruence|auto]. }
  destruct (regular_block_size <? tw_bytes w2); auto.
  destruct (flush_inv w2 _ (proj1 Hi2)) as [H1 H2]. apply reset_inv; auto.
Qed.

Lemma pushes_inv lens total : forall bs w T first, tinv w T -> tb_ok T bs first ->
  tinv (fold_left (tw_push lens total) bs w) (T + tb_sum bs).
Proof.
  induction bs as [|[[s n] f] r IH]; intros w T first Hi Hok.
  - cbn. rewrite N.add_0_r. exact Hi.
  - cbn [tb_ok] in Hok. destruct Hok as (-> & Hn & -> & Hr). cbn [fold_left].
    pose proof (push_inv lens total w T n first Hi Hn) as Hi'.
    specialize (IH _ _ false Hi' Hr).
    cbn [tb_sum fold_right fst snd]. fold (tb_sum r). rewrite N.add_assoc. exact IH.
Qed.

Lemma fields_inv lens : forall fields bss w T,
  tinv w T -> tbs_ok T (map (fun f => (field_size f, N.of_nat (length f))) fields) bss ->
  tinv (tw_fields lens fields bss w) (T + N.of_nat (length (concat fields))).
Proof.
  induction fields as [|f fr IH]; intros bss w T Hi Hok.
  - destruct bss; cbn in *; rewrite N.add_0_r; auto.
  - destruct bss as [|bs br]; [cbn in Hok; tauto|].
    cbn [map tbs_ok] in Hok. destruct Hok as (H1 & H2 & H3). cbn [tw_fields].
    pose proof (pushes_inv lens (field_size f) bs w T true Hi H1) as Hi'. rewrite H2 in Hi'.
    specialize (IH br _ _ Hi' H3). cbn [concat]. rewrite app_length, Nat2N.inj_add, N.add_assoc. exact IH.
Qed.

Lemma tinv_init : tinv tw_init 1.
Proof.
  split; [|reflexivity]. constructor; cbn; auto; try constructor. intros; congruence. intros e [].
Qed.

(* thm: entry selection by TID is total and exact, and the value read is the TID-th token *)
Theorem tok_table_exact : forall fields,
  exists es bl, tok_table fields = Ok (es, bl) /\
    forall tid, 1 <= tid <= N.of_nat (length (concat fields)) ->
      (exists e, find_entry es tid = Some e /\ forall e', In e' es -> te_covers e' tid = true -> e' = e)
      /\ val_of_tid es bl tid = Some tid.
Proof.
  intros fields. unfold tok_table.
  destruct (tok_gen_total (map (fun f => (field_size f, N.of_nat (length f))) fields)) as (bss & Eg & Hok).
  rewrite Eg.
  pose proof (fields_inv (concat fields) fields bss tw_init 1 tinv_init Hok) as Hi.
  destruct (flush_inv _ _ (proj1 Hi)) as [Hi' Hbuf].
  set (w := tw_flush (tw_fields (concat fields) fields bss tw_init)) in *.
  eexists. eexists. split; [reflexivity|].
  intros tid Ht. destruct Hi' as [Hb Hk Hn Hc He Hh].
  destruct (find_exact (rev (tw_entries w)) 1 tid Hc ltac:(lia)) as (e & Hf & Hin & Hcov & Hu).
  split; [exists e; auto|].
  unfold val_of_tid. rewrite Hf.
  destruct (Hh e (proj2 (in_rev _ _) Hin)) as (c & Hcont & Hnth).
  unfold te_covers in Hcov. apply andb_true_iff in Hcov. rewrite N.leb_le, N.ltb_lt in Hcov.
  assert (Hj : (N.to_nat (tid - te_tid e) < N.to_nat (te_cnt e))%nat) by lia.
  specialize (Hnth _ Hj).
  unfold content in Hcont. destruct (N.eqb_spec (te_blk e) (tw_blk w)) as [E|E].
  - inversion Hcont; subst c. rewrite Hbuf in Hnth. destruct (N.to_nat (te_sidx e) + N.to_nat (tid - te_tid e))%nat; discriminate.
  - rewrite (blk_get_rev _ _ _ Hn Hcont).
    replace (N.to_nat (te_sidx e + tid - te_tid e)) with (N.to_nat (te_sidx e) + N.to_nat (tid - te_tid e))%nat by lia.
    rewrite Hnth. f_equal. lia.
Qed.
