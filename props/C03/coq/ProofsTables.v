(* C03 — tables loaded from the index file registry = tables kept by sealing; composition. *)
From Coq Require Import List Bool Arith NArith ZArith Lia Sorted.
Import ListNotations.
From C03 Require Import Model ProofsCodec ProofsSearch ProofsNav ProofsGen ProofsLids.

Definition real (h : hdr) : Prop := (0 < h_len h)%N.

Lemma skip_sec_app l : forall n rest, Forall real l ->
  skip_sec (l ++ empty_hdr :: rest) n = Some (rest, n + length l + 1).
Proof.
  induction l as [|h r IH]; intros n rest H.
  - cbn. f_equal. f_equal. lia.
  - inversion H as [|? ? Hh Hr]; subst. cbn [app skip_sec].
    destruct (N.eqb_spec (h_len h) 0) as [E|_]; [unfold real in Hh; lia|].
    rewrite IH by auto. cbn [length]. f_equal. f_equal. lia.
Qed.

Definition id_hdrs (x : sid * (N * N * N)) : list hdr :=
  let '(id, (a, b, c)) := x in [(a, fst id, snd id); plain b; plain c].
Definition id_real (x : sid * (N * N * N)) : Prop := (0 < fst (fst (snd x)))%N.

Lemma read_ids_app ids : forall n acc rest, Forall id_real ids ->
  read_ids (flat_map id_hdrs ids ++ empty_hdr :: rest) n acc
  = Some (rev acc ++ map fst ids, rest, n + 3 * length ids + 1).
Proof.
  induction ids as [|[id [[a b] c]] r IH]; intros n acc rest H.
  - cbn. rewrite app_nil_r. f_equal. f_equal. lia.
  - inversion H as [|? ? Hh Hr]; subst. unfold id_real in Hh. cbn in Hh.
    cbn [flat_map id_hdrs app read_ids h_len h_ext1 h_ext2 fst snd].
    destruct (N.eqb_spec a 0); [lia|].
    rewrite IH by auto. cbn [rev map fst length]. rewrite <- app_assoc. cbn [app].
    destruct id. cbn. f_equal. f_equal. lia.
Qed.

Definition lid_hdr (x : N * block) : hdr := (fst x, fst (ext_of (snd x)), snd (ext_of (snd x))).

Lemma read_lids_app l : forall acc, Forall (fun x => (0 < fst x)%N) l ->
  read_lids (map lid_hdr l ++ [empty_hdr]) acc = Some (rev acc ++ map (fun x => ext_of (snd x)) l).
Proof.
  induction l as [|[len b] r IH]; intros acc H.
  - cbn. rewrite app_nil_r. reflexivity.
  - inversion H as [|? ? Hh Hr]; subst. cbn in Hh.
    cbn [map app read_lids lid_hdr h_len h_ext1 h_ext2 fst snd].
    destruct (N.eqb_spec len 0); [lia|].
    rewrite IH by auto. cbn [rev]. rewrite <- app_assoc. cbn [app map snd]. rewrite <- surjective_pairing. reflexivity.
Qed.

(* Pack writes something for every block that has a non-empty chunk first: FlushForced never skips it *)
Lemma pack_nonempty b : bok b -> chunks_pp b -> is_nil (pack (b_chunks b)) = false.
Proof.
  intros [_ Hn] Hp. unfold nchunks in Hn. unfold chunks_pp in Hp. unfold pack.
  destruct (c_list (b_chunks b)) as [|c r]; [simpl in Hn; lia|].
  inversion Hp as [|? ? [Hc _] _]; subst. destruct c as [|x t]; [congruence|]. reflexivity.
Qed.

Definition image_ok (im : image) : Prop :=
  Forall (fun l => 0 < l)%N (im_tok im) /\ Forall (fun l => 0 < l)%N (im_tab im)
  /\ Forall id_real (im_ids im) /\ Forall (fun x => (0 < fst x)%N) (im_lids im).

(* thm:C03_ids_tables — Loader.Load on the registry that sealing wrote gives the tables sealing kept *)
Theorem ids_tables : forall im,
  image_ok im ->
  Forall bok (map snd (im_lids im)) -> Forall chunks_pp (map snd (im_lids im)) ->
  Forall (fun b => (b_min b < 4294967296)%N) (map snd (im_lids im)) ->
  load (registry_of im) = Some (preloaded im).
Proof.
  intros im (Ht & Hb & Hi & Hl) Hok Hpp Hmin. unfold load, registry_of. cbn [app].
  rewrite skip_sec_app by (rewrite Forall_map; exact Ht).
  rewrite skip_sec_app by (rewrite Forall_map; exact Hb).
  cbn [app].
  change (flat_map (fun x => let '(id, (a, b, c)) := x in [(a, fst id, snd id); plain b; plain c]) (im_ids im))
    with (flat_map id_hdrs (im_ids im)).
  rewrite read_ids_app by exact Hi.
  assert (El : flat_map (fun x : N * block => let '(l, b) := x in
                 if is_nil (pack (b_chunks b)) then [] else [(l, fst (ext_of b), snd (ext_of b))]) (im_lids im)
               = map lid_hdr (im_lids im)).
  { clear - Hok Hpp. induction (im_lids im) as [|[l b] r IH]; [reflexivity|].
    cbn [map snd] in Hok, Hpp. inversion Hok; inversion Hpp; subst.
    cbn [flat_map map]. rewrite pack_nonempty by auto. cbn [app]. f_equal. apply IH; auto. }
  rewrite El, read_lids_app by exact Hl.
  unfold preloaded. rewrite !map_length. cbn [rev app].
  f_equal. f_equal.
  - lia.
  - lia.
  - rewrite <- (loaded_table_eq _ Hmin). unfold loaded_table. rewrite map_map. reflexivity.
Qed.

(* ------------------------------------------------------------------ composition *)
Definition read_with (t : table) (cs : list chunks) (asc : bool) (tid lo hi : N) : res (list N) :=
  (if asc then iter_asc else iter_desc) t cs tid lo hi.

(* thm:C03_form_independent (postings + ID tables): on the layout the generator produces, the tables a
   restart loads are the tables sealing kept, the chunks read from the file are the chunks sealing held,
   and a posting read over either equals what the active form answers. *)
Theorem form_independent : forall cap fields im bs tid lo hi asc,
  0 < cap -> input_ok fields -> input_sorted fields ->
  (tokens_total fields < 4294967295)%N -> (1 <= tid <= tokens_total fields)%N ->
  gen_blocks cap fields = Ok bs -> map snd (im_lids im) = bs -> image_ok im ->
  load (registry_of im) = Some (preloaded im)
  /\ roundtrip_chunks bs = map b_chunks bs
  /\ (forall t, load (registry_of im) = Some t ->
        read_with (tb_lids t) (roundtrip_chunks bs) asc tid lo hi
        = read_with (tb_lids (preloaded im)) (map b_chunks bs) asc tid lo hi)
  /\ read_with (tb_lids (preloaded im)) (map b_chunks bs) asc tid lo hi = Ok (expected asc fields tid lo hi).
Proof.
  intros cap fields im bs tid lo hi asc Hcap Hok Hs Htot Htid Eg Eim Himg.
  destruct (gen_blocks_ok cap fields Hcap Hok) as (bs' & Eg' & Hc & Hl & Hlook & Hpp).
  rewrite Eg in Eg'. inversion Eg'; subst bs'.
  pose proof (chain_all_ok 0 bs Hc) as Hbok.
  assert (Hmin : Forall (fun b => (b_min b < 4294967296)%N) bs).
  { rewrite Forall_forall. intros b Hb. pose proof (chain_max_le_last 0 bs Hc b Hb) as Hm.
    rewrite Forall_forall in Hbok. pose proof (bok_le b (Hbok b Hb)). pose proof (bmin_le b).
    unfold tokens_total in *. lia. }
  assert (Hload : load (registry_of im) = Some (preloaded im)).
  { apply ids_tables; auto; rewrite Eim; auto. }
  assert (Hrt : roundtrip_chunks bs = map b_chunks bs) by (apply roundtrip_eq; auto).
  assert (Hread : read_with (tb_lids (preloaded im)) (map b_chunks bs) asc tid lo hi
                  = Ok (expected asc fields tid lo hi)).
  { pose proof (lids_roundtrip cap fields tid lo hi asc Hcap Hok Hs Htot Htid) as H.
    unfold read_postings, sealed_blocks in H. rewrite Eg in H.
    rewrite (loaded_table_eq bs Hmin), Hrt in H.
    unfold read_with, preloaded. cbn [tb_lids]. rewrite Eim. exact H. }
  split; [exact Hload|]. split; [exact Hrt|]. split; [|exact Hread].
  intros t Ht. rewrite Hload in Ht. inversion Ht; subst t. rewrite Hrt. reflexivity.
Qed.
