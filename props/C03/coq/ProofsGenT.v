(* C03 — the definitions GENERATED from the Go sources by harness/cmd/go2coq (Gen.v, regenerated on every run)
   refine the hand-written model functions of Model.v that the property theorems are about (lids.Table,
   narrowLIDsRange of both iterators, token.TableEntry arithmetic), and the trusted extern sort_Search of
   GenPrelude.v agrees with the model's transcription of sort.Search (bsearch) and never runs out of fuel.
   (ProofsGen.v of this project is about the LID block GENERATOR; this file is about the translator.) *)
From Coq Require Import ZArith NArith List Bool Lia Arith ZifyN ZifyNat ZifyBool.
From VLib Require Import GoSem GoSemFacts.
From C03 Require Import Model GenPrelude Gen.
Import ListNotations.
Open Scope Z_scope.

Definition two32z : Z := 4294967296.
Definition zl (l : list N) : list Z := map Z.of_N l.
Definition ztable (t : table) : go_Table := mk_go_Table 0 (zl (t_max t)) (zl (t_min t)) (t_cont t).
Definition zentry (e : tentry) : go_TableEntry :=
  mk_go_TableEntry (Z.of_N (te_sidx e)) (Z.of_N (te_tid e)) (Z.of_N (te_blk e)) (Z.of_N (te_cnt e)).
Definition res_out {A B : Type} (enc : A -> B) (r : res A) : outcome B :=
  match r with Ok a => Val (enc a) | Model.Panic => GoSem.Panic | Model.OutOfFuel => GoSem.OutOfFuel end.

Lemma idx_zl : forall l k, idx (zl l) (Z.of_nat k) = Z.of_N (nthN l k).
Proof. intros. unfold idx, zl, nthN. rewrite Nat2Z.id. change 0 with (Z.of_N 0). apply map_nth. Qed.
Lemma len_zl : forall l, len (zl l) = Z.of_nat (length l).
Proof. intros. unfold len, zl. rewrite map_length. reflexivity. Qed.
Lemma leb_of_N : forall a b, (Z.of_N a <=? Z.of_N b) = (a <=? b)%N.
Proof. intros. destruct (Z.leb_spec (Z.of_N a) (Z.of_N b)); destruct (N.leb_spec a b); try reflexivity; lia. Qed.
Lemma ltb_of_N : forall a b, (Z.of_N a <? Z.of_N b) = (a <? b)%N.
Proof. intros. destruct (Z.ltb_spec (Z.of_N a) (Z.of_N b)); destruct (N.ltb_spec a b); try reflexivity; lia. Qed.
Lemma eqb_of_N : forall a b, (Z.of_N a =? Z.of_N b) = (a =? b)%N.
Proof. intros. destruct (Z.eqb_spec (Z.of_N a) (Z.of_N b)); destruct (N.eqb_spec a b); try reflexivity; lia. Qed.

(* ------------------------------------------------------------------ the extern sort_Search = the model's bsearch *)
Lemma sort_Search_loop_nat : forall (k : nat) (f : nat -> bool) (F : Z -> outcome bool) (n i j fuel0 : nat),
  (forall h, (h < n)%nat -> F (Z.of_nat h) = Val (f h)) ->
  (i <= j)%nat -> (j <= n)%nat -> (j - i <= k)%nat -> Z.of_nat (j - i) < 2 ^ Z.of_nat fuel0 ->
  sort_Search_loop (S fuel0) F (Z.of_nat i) (Z.of_nat j) = Val (Z.of_nat (bsearch k f i j)).
Proof.
  induction k as [|k IH]; intros f F n i j fuel0 HF Hij Hjn Hk Hp; cbn [sort_Search_loop bsearch].
  - replace (Z.of_nat i <? Z.of_nat j) with false by lia. reflexivity.
  - destruct (Nat.ltb_spec i j) as [Hlt|Hge].
    + replace (Z.of_nat i <? Z.of_nat j) with true by lia.
      assert (Hh : (Z.of_nat i + Z.of_nat j) / 2 = Z.of_nat ((i + j) / 2)).
      { rewrite <- Nat2Z.inj_add. change 2 with (Z.of_nat 2). rewrite <- Nat2Z.inj_div. reflexivity. }
      cbv zeta. rewrite Hh.
      assert (Hb : (i <= (i + j) / 2 < j)%nat).
      { pose proof (Nat.div_mod (i + j) 2 ltac:(lia)). pose proof (Nat.mod_upper_bound (i + j) 2 ltac:(lia)). lia. }
      rewrite HF by lia. cbn [bind].
      destruct fuel0 as [|fuel0]; [change (2 ^ Z.of_nat 0) with 1 in Hp; lia|].
      rewrite Nat2Z.inj_succ, Z.pow_succ_r in Hp by lia.
      destruct (f ((i + j) / 2)%nat).
      * apply (IH f F n); try assumption; try lia.
      * replace (Z.of_nat ((i + j) / 2) + 1) with (Z.of_nat (S ((i + j) / 2))) by lia.
        apply (IH f F n); try assumption; try lia.
    + replace (Z.of_nat i <? Z.of_nat j) with false by lia. reflexivity.
Qed.

Lemma sort_Search_nat : forall (f : nat -> bool) (F : Z -> outcome bool) (n : nat),
  (forall h, (h < n)%nat -> F (Z.of_nat h) = Val (f h)) -> Z.of_nat n < 18446744073709551616 ->
  sort_Search (Z.of_nat n) F = Val (Z.of_nat (sort_search n f)).
Proof.
  intros f F n HF Hn. unfold sort_Search, sort_search.
  change 0 with (Z.of_nat 0). change 65%nat with (S 64).
  apply (sort_Search_loop_nat n f F n); try assumption; try lia.
  all: rewrite Nat.sub_0_r; change (2 ^ Z.of_nat 64) with 18446744073709551616; exact Hn.
Qed.

Lemma bsearch_le : forall k f i j, (i <= j)%nat -> (i <= bsearch k f i j <= j)%nat.
Proof.
  induction k as [|k IH]; intros f i j Hij; cbn [bsearch]; [lia|].
  destruct (Nat.ltb_spec i j) as [Hlt|Hge]; [|lia].
  assert (Hb : (i <= (i + j) / 2 < j)%nat).
  { pose proof (Nat.div_mod (i + j) 2 ltac:(lia)). pose proof (Nat.mod_upper_bound (i + j) 2 ltac:(lia)). lia. }
  cbv zeta. destruct (f ((i + j) / 2)%nat); [pose proof (IH f i ((i + j) / 2)%nat ltac:(lia))|pose proof (IH f (S ((i + j) / 2)) j ltac:(lia))]; lia.
Qed.

(* ------------------------------------------------------------------ lids.Table *)
(* tables as the sealer / loader build them: uint32 entries, a continued block has a positive MinTID *)
Definition tbl_ok (t : table) : Prop :=
  length (t_max t) = length (t_min t) /\ length (t_cont t) = length (t_min t) /\
  Z.of_nat (length (t_min t)) < two32z /\
  (forall i, (nthN (t_min t) i < 4294967296)%N /\ (nthN (t_max t) i < 4294967296)%N) /\
  (forall i, nth i (t_cont t) false = true -> (0 < nthN (t_min t) i)%N).

Lemma adj_min_lt : forall t i, tbl_ok t -> (adj_min t i < 4294967296)%N.
Proof.
  intros t i (_ & _ & _ & Hr & _). unfold adj_min. destruct (Hr i) as [H1 _].
  destruct (nth i (t_cont t) false); lia.
Qed.

Lemma gen_GetAdjustedMinTID_refines : forall t i, tbl_ok t -> (i < length (t_min t))%nat ->
  go_lids_Table_GetAdjustedMinTID (ztable t) (Z.of_nat i) = Val (Z.of_N (adj_min t i)).
Proof.
  intros t i (Hl1 & Hl2 & Hn & Hr & Hc) Hi. unfold go_lids_Table_GetAdjustedMinTID, ztable, adj_min.
  cbn [go_Table_IsContinued go_Table_MinTIDs]. rewrite len_zl, idx_zl, Nat2Z.id. unfold len.
  replace ((Z.of_nat i <? 0) || (Z.of_nat (length (t_cont t)) <=? Z.of_nat i)) with false by lia.
  replace ((Z.of_nat i <? 0) || (Z.of_nat (length (t_min t)) <=? Z.of_nat i)) with false by lia.
  destruct (nth i (t_cont t) false) eqn:E; [|reflexivity].
  specialize (Hc i E). destruct (Hr i) as [H1 _]. rewrite u32_small by lia. f_equal. lia.
Qed.

Lemma gen_GetAdjustedMinTID_oob : forall t i, tbl_ok t -> (length (t_min t) <= i)%nat ->
  go_lids_Table_GetAdjustedMinTID (ztable t) (Z.of_nat i) = GoSem.Panic.
Proof.
  intros t i (Hl1 & Hl2 & _) Hi. unfold go_lids_Table_GetAdjustedMinTID, ztable.
  cbn [go_Table_IsContinued]. unfold len.
  replace ((Z.of_nat i <? 0) || (Z.of_nat (length (t_cont t)) <=? Z.of_nat i)) with true by lia. reflexivity.
Qed.

(* GetChunksCount = chunks_count (loadNextLIDsChunk compares it with the number of chunks of the block) when
   the block's adjusted MinTID does not exceed its MaxTID *)
Lemma gen_GetChunksCount_refines : forall t i, tbl_ok t -> (i < length (t_min t))%nat ->
  (adj_min t i <= nthN (t_max t) i)%N -> (nthN (t_max t) i - adj_min t i + 1 < 4294967296)%N ->
  go_lids_Table_GetChunksCount (ztable t) (Z.of_nat i) = Val (Z.of_N (chunks_count t i)).
Proof.
  intros t i Hok Hi Hle Hlt. unfold go_lids_Table_GetChunksCount.
  rewrite gen_GetAdjustedMinTID_refines by assumption. cbn [bind].
  destruct Hok as (Hl1 & Hl2 & Hn & Hr & Hc). unfold ztable. cbn [go_Table_MaxTIDs].
  rewrite len_zl, idx_zl.
  replace ((Z.of_nat i <? 0) || (Z.of_nat (length (t_max t)) <=? Z.of_nat i)) with false by lia.
  unfold chunks_count. rewrite (u32_small (Z.of_N (nthN (t_max t) i) - Z.of_N (adj_min t i))) by lia.
  rewrite u32_small by lia. f_equal. lia.
Qed.

Lemma gen_GetChunkIndex_refines : forall t i tid, tbl_ok t -> (i < length (t_min t))%nat ->
  (adj_min t i <= tid)%N -> (tid < 4294967296)%N ->
  go_lids_Table_GetChunkIndex (ztable t) (Z.of_nat i) (Z.of_N tid) = Val (Z.of_N (tid - adj_min t i)).
Proof.
  intros t i tid Hok Hi Hle Hlt. unfold go_lids_Table_GetChunkIndex.
  rewrite gen_GetAdjustedMinTID_refines by assumption. cbn [bind].
  rewrite u32_small by lia. f_equal. lia.
Qed.

Lemma gen_HasTIDInPrevBlock_refines : forall t bi tid, tbl_ok t -> (bi <= length (t_max t))%nat ->
  go_lids_Table_HasTIDInPrevBlock (ztable t) (Z.of_nat bi) (Z.of_N tid) = Val (has_prev t bi tid).
Proof.
  intros t bi tid (Hl1 & Hl2 & Hn & Hr & Hc) Hb. unfold go_lids_Table_HasTIDInPrevBlock, has_prev, two32z in *.
  destruct bi as [|p]; [reflexivity|].
  replace (Z.of_nat (S p) =? 0) with false by lia.
  replace (GoSem.u32 (Z.of_nat (S p) - 1)) with (Z.of_nat p) by (rewrite u32_small; lia).
  unfold ztable. cbn [go_Table_MaxTIDs]. rewrite len_zl, idx_zl.
  replace ((Z.of_nat p <? 0) || (Z.of_nat (length (t_max t)) <=? Z.of_nat p)) with false by lia.
  rewrite eqb_of_N. destruct (nthN (t_max t) p =? tid)%N; reflexivity.
Qed.

Lemma gen_HasTIDInNextBlock_refines : forall t bi tid, tbl_ok t -> (bi < length (t_min t))%nat ->
  go_lids_Table_HasTIDInNextBlock (ztable t) (Z.of_nat bi) (Z.of_N tid) = Val (has_next t bi tid).
Proof.
  intros t bi tid Hok Hb. unfold go_lids_Table_HasTIDInNextBlock, has_next.
  pose proof Hok as (Hl1 & Hl2 & Hn & Hr & Hc). unfold two32z in *.
  replace (go_Table_MinTIDs (ztable t)) with (zl (t_min t)) by reflexivity. rewrite len_zl.
  rewrite i64_small by lia.
  destruct (Nat.eqb_spec (length (t_min t)) (S bi)) as [E|E].
  - replace (Z.of_nat (length (t_min t)) - 1 =? Z.of_nat bi) with true by lia. reflexivity.
  - replace (Z.of_nat (length (t_min t)) - 1 =? Z.of_nat bi) with false by lia.
    replace (GoSem.u32 (Z.of_nat bi + 1)) with (Z.of_nat (S bi)) by (rewrite u32_small; lia).
    rewrite gen_GetAdjustedMinTID_refines by (assumption || lia). cbn [bind].
    rewrite eqb_of_N. destruct (adj_min t (S bi) =? tid)%N; reflexivity.
Qed.

(* GetFirstBlockIndexForTID = first_block (iter_desc starts there: C03_lids_roundtrip); the panics (no blocks,
   TID above the last MaxTID) coincide *)
Lemma gen_GetFirstBlockIndexForTID_refines : forall t tid, tbl_ok t ->
  go_lids_Table_GetFirstBlockIndexForTID (ztable t) (Z.of_N tid) = res_out Z.of_nat (first_block t tid).
Proof.
  intros t tid (Hl1 & Hl2 & Hn & Hr & Hc). unfold go_lids_Table_GetFirstBlockIndexForTID, first_block, two32z in *.
  replace (go_Table_MaxTIDs (ztable t)) with (zl (t_max t)) by reflexivity. rewrite len_zl. cbv zeta.
  destruct (Nat.eqb_spec (length (t_max t)) 0) as [E|E].
  - replace (Z.of_nat (length (t_max t)) =? 0) with true by lia. reflexivity.
  - replace (Z.of_nat (length (t_max t)) =? 0) with false by lia.
    rewrite (sort_Search_nat (fun i => (tid <=? nthN (t_max t) i)%N)).
    + cbn [bind].
      pose proof (bsearch_le (length (t_max t)) (fun i => (tid <=? nthN (t_max t) i)%N) 0 (length (t_max t)) ltac:(lia)) as Hb.
      fold (sort_search (length (t_max t)) (fun i => (tid <=? nthN (t_max t) i)%N)) in Hb.
      destruct (Nat.eqb_spec (sort_search (length (t_max t)) (fun i => (tid <=? nthN (t_max t) i)%N)) (length (t_max t))) as [E2|E2].
      * rewrite E2. rewrite Z.eqb_refl. reflexivity.
      * match goal with |- (if ?c then _ else _) = _ => replace c with false by lia end.
        cbn [res_out]. rewrite u32_small by lia. reflexivity.
    + intros h Hh. rewrite ?len_zl, idx_zl.
      replace ((Z.of_nat h <? 0) || (Z.of_nat (length (t_max t)) <=? Z.of_nat h)) with false by lia.
      rewrite leb_of_N. reflexivity.
    + lia.
Qed.

(* GetLastBlockIndexForTID = last_block (iter_asc starts there) *)
Lemma gen_GetLastBlockIndexForTID_refines : forall t tid, tbl_ok t ->
  go_lids_Table_GetLastBlockIndexForTID (ztable t) (Z.of_N tid) = res_out Z.of_nat (last_block t tid).
Proof.
  intros t tid Hok. pose proof Hok as (Hl1 & Hl2 & Hn & Hr & Hc).
  unfold go_lids_Table_GetLastBlockIndexForTID, last_block, two32z in *.
  replace (go_Table_MaxTIDs (ztable t)) with (zl (t_max t)) by reflexivity.
  replace (go_Table_MinTIDs (ztable t)) with (zl (t_min t)) by reflexivity. rewrite !len_zl. cbv zeta.
  destruct (Nat.eqb_spec (length (t_max t)) 0) as [E|E].
  - replace (Z.of_nat (length (t_max t)) =? 0) with true by lia. reflexivity.
  - replace (Z.of_nat (length (t_max t)) =? 0) with false by lia.
    rewrite (sort_Search_nat (fun i => (tid <? adj_min t i)%N)).
    + cbn [bind].
      pose proof (bsearch_le (length (t_min t)) (fun i => (tid <? adj_min t i)%N) 0 (length (t_min t)) ltac:(lia)) as Hb.
      fold (sort_search (length (t_min t)) (fun i => (tid <? adj_min t i)%N)) in Hb.
      destruct (sort_search (length (t_min t)) (fun i => (tid <? adj_min t i)%N)) as [|s].
      * reflexivity.
      * rewrite i64_small by lia. replace (Z.of_nat (S s) - 1) with (Z.of_nat s) by lia.
        replace ((Z.of_nat s <? 0) || (Z.of_nat (length (t_max t)) <=? Z.of_nat s)) with false by lia.
        rewrite idx_zl, ltb_of_N. destruct (nthN (t_max t) s <? tid)%N; [reflexivity|].
        cbn [res_out]. rewrite u32_small by lia. reflexivity.
    + intros h Hh. rewrite u32_small by lia.
      rewrite gen_GetAdjustedMinTID_refines by assumption. cbn [bind]. rewrite ltb_of_N. reflexivity.
    + lia.
Qed.

(* ------------------------------------------------------------------ narrowLIDsRange *)
Lemma slice_skipn : forall (l : list Z) (k : nat), (k <= length l)%nat -> slice l (Z.of_nat k) (len l) = skipn k l.
Proof.
  intros l k Hk. unfold slice, len. rewrite Nat2Z.id.
  rewrite firstn_all2; [reflexivity|]. rewrite skipn_length. lia.
Qed.
Lemma slice_firstn : forall (l : list Z) (k : nat), slice l 0 (Z.of_nat k) = firstn k l.
Proof. intros. unfold slice. cbn [Z.to_nat skipn]. rewrite Z.sub_0_r, Nat2Z.id. reflexivity. Qed.
Lemma zl_skipn : forall k l, skipn k (zl l) = zl (skipn k l).
Proof. intros. unfold zl. apply skipn_map. Qed.
Lemma zl_firstn : forall k l, firstn k (zl l) = zl (firstn k l).
Proof. intros. unfold zl. apply firstn_map. Qed.

Lemma search_ge : forall (l : list N) (lo : N), Z.of_nat (length l) < two32z ->
  sort_Search (len (zl l)) (fun i => if (i <? 0) || (len (zl l) <=? i) then GoSem.Panic else Val (Z.of_N lo <=? idx (zl l) i)) =
  Val (Z.of_nat (sort_search (length l) (fun i => (lo <=? nthN l i)%N))).
Proof.
  intros l lo Hn. unfold two32z in Hn. rewrite len_zl. apply sort_Search_nat; [|lia].
  intros h Hh. replace ((Z.of_nat h <? 0) || (Z.of_nat (length l) <=? Z.of_nat h)) with false by lia.
  rewrite idx_zl, leb_of_N. reflexivity.
Qed.
Lemma search_gt : forall (l : list N) (hi : N), Z.of_nat (length l) < two32z ->
  sort_Search (len (zl l)) (fun i => if (i <? 0) || (len (zl l) <=? i) then GoSem.Panic else Val (Z.of_N hi <? idx (zl l) i)) =
  Val (Z.of_nat (sort_search (length l) (fun i => (hi <? nthN l i)%N))).
Proof.
  intros l hi Hn. unfold two32z in Hn. rewrite len_zl. apply sort_Search_nat; [|lia].
  intros h Hh. replace ((Z.of_nat h <? 0) || (Z.of_nat (length l) <=? Z.of_nat h)) with false by lia.
  rewrite idx_zl, ltb_of_N. reflexivity.
Qed.

Lemma sort_search_le : forall n f, (sort_search n f <= n)%nat.
Proof. intros. unfold sort_search. pose proof (bsearch_le n f 0 n ltac:(lia)). lia. Qed.

Definition narrow_out (r : option (list N * bool)) : outcome (list Z * bool) :=
  match r with Some (l, t) => Val (zl l, t) | None => GoSem.Panic end.

Lemma nth_last_N : forall (l : list N) d, nth (length l - 1) l d = last l d.
Proof.
  induction l as [|a [|b r] IH]; intros d; try reflexivity.
  specialize (IH d). cbn [length] in *. replace (S (S (length r)) - 1)%nat with (S (length r)) by lia.
  replace (S (length r) - 1)%nat with (length r) in IH by lia. cbn [nth last] in *. exact IH.
Qed.

Lemma idx_last : forall (l : list N), l <> [] -> idx (zl l) (Z.of_nat (length l) - 1) = Z.of_N (lastN l).
Proof.
  intros l Hl. replace (Z.of_nat (length l) - 1) with (Z.of_nat (length l - 1)) by (destruct l; [contradiction|cbn [length]; lia]).
  rewrite idx_zl. unfold nthN, lastN. f_equal. apply nth_last_N.
Qed.

Lemma cut_left_len : forall lo l, (length (cut_left lo l) <= length l)%nat.
Proof. intros. unfold cut_left. rewrite skipn_length. lia. Qed.

(* the guard of an index / slice expression that the bounds in the context rule out *)
Ltac guard_false :=
  match goal with |- context [if ?c then GoSem.Panic else _] => replace c with false by lia end.
(* left := sort.Search(len(lids), lids[i] >= minLID); lids = lids[left:] *)
Ltac do_cut_left l lo :=
  rewrite (search_ge l lo) by assumption; cbn [bind];
  pose proof (sort_search_le (length l) (fun i => (lo <=? nthN l i)%N));
  rewrite ?(len_zl l); guard_false; rewrite <- ?(len_zl l);
  rewrite slice_skipn by (unfold zl; rewrite map_length; lia); rewrite zl_skipn;
  fold (cut_left lo l); cbn [bind].
(* right := sort.Search(len(lids), lids[i] > maxLID); lids = lids[:right] *)
Ltac do_cut_right l hi :=
  rewrite (search_gt l hi) by (unfold two32z in *; lia); cbn [bind];
  pose proof (sort_search_le (length l) (fun i => (hi <? nthN l i)%N));
  rewrite ?(len_zl l); guard_false;
  rewrite slice_firstn, zl_firstn; fold (cut_right hi l); cbn [bind].

(* IteratorAsc.narrowLIDsRange = narrow_asc (asc_loop / iter_asc: C03_lids_roundtrip), the empty chunk panics *)
Lemma gen_narrowLIDsRange_asc_refines : forall lo hi l try, Z.of_nat (length l) < two32z ->
  go_lids_IteratorAsc_narrowLIDsRange (mk_go_IteratorAsc (Z.of_N lo) (Z.of_N hi)) (zl l) try = narrow_out (narrow_asc lo hi l try).
Proof.
  intros lo hi l try Hn. unfold go_lids_IteratorAsc_narrowLIDsRange, narrow_asc.
  cbn [go_IteratorAsc_minLID go_IteratorAsc_maxLID]. cbv zeta.
  destruct l as [|first r] eqn:El.
  - reflexivity.
  - rewrite <- El in *. assert (Hne : l <> []) by (rewrite El; discriminate).
    assert (Hlen : (0 < length l)%nat) by (rewrite El; cbn [length]; lia).
    pose proof Hn as Hn'. unfold two32z in Hn'. rewrite (len_zl l).
    replace ((0 <? 0) || (Z.of_nat (length l) <=? 0)) with false by lia.
    replace (idx (zl l) 0) with (Z.of_N first) by (rewrite El; reflexivity).
    rewrite ltb_of_N. destruct (hi <? first)%N; [reflexivity|].
    rewrite i64_small by lia.
    replace ((Z.of_nat (length l) - 1 <? 0) || (Z.of_nat (length l) <=? Z.of_nat (length l) - 1)) with false by lia.
    rewrite idx_last by exact Hne. rewrite ltb_of_N. destruct (lastN l <? lo)%N; [reflexivity|].
    rewrite ltb_of_N, leb_of_N. rewrite <- (len_zl l).
    pose proof (cut_left_len lo l) as Hcl.
    destruct (first <? lo)%N; [do_cut_left l lo|cbn [bind]];
      (destruct (hi <=? lastN l)%N; [|reflexivity]).
    + do_cut_right (cut_left lo l) hi. reflexivity.
    + do_cut_right l hi. reflexivity.
Qed.

Lemma gen_narrowLIDsRange_desc_refines : forall lo hi l try, Z.of_nat (length l) < two32z ->
  go_lids_IteratorDesc_narrowLIDsRange (mk_go_IteratorDesc (Z.of_N lo) (Z.of_N hi)) (zl l) try = narrow_out (narrow_desc lo hi l try).
Proof.
  intros lo hi l try Hn. unfold go_lids_IteratorDesc_narrowLIDsRange, narrow_desc.
  cbn [go_IteratorDesc_minLID go_IteratorDesc_maxLID]. cbv zeta.
  destruct l as [|first r] eqn:El.
  - reflexivity.
  - rewrite <- El in *. assert (Hne : l <> []) by (rewrite El; discriminate).
    assert (Hlen : (0 < length l)%nat) by (rewrite El; cbn [length]; lia).
    pose proof Hn as Hn'. unfold two32z in Hn'. rewrite (len_zl l).
    replace ((0 <? 0) || (Z.of_nat (length l) <=? 0)) with false by lia.
    replace (idx (zl l) 0) with (Z.of_N first) by (rewrite El; reflexivity).
    rewrite ltb_of_N. destruct (hi <? first)%N; [reflexivity|].
    rewrite i64_small by lia.
    replace ((Z.of_nat (length l) - 1 <? 0) || (Z.of_nat (length l) <=? Z.of_nat (length l) - 1)) with false by lia.
    rewrite idx_last by exact Hne. rewrite ltb_of_N. destruct (lastN l <? lo)%N; [reflexivity|].
    rewrite ltb_of_N, leb_of_N. rewrite <- (len_zl l).
    pose proof (cut_left_len lo l) as Hcl.
    destruct (first <? lo)%N; [do_cut_left l lo|cbn [bind]];
      (destruct (hi <=? lastN l)%N; [|reflexivity]).
    + do_cut_right (cut_left lo l) hi. reflexivity.
    + do_cut_right l hi. reflexivity.
Qed.

(* ------------------------------------------------------------------ token.TableEntry *)
Definition entry_ok (e : tentry) : Prop :=
  (te_tid e < 4294967296)%N /\ (te_sidx e < 4294967296)%N /\ (0 < te_cnt e)%N /\ (te_tid e + te_cnt e <= 4294967296)%N.

Lemma gen_getLastTID_refines : forall e, entry_ok e ->
  go_token_TableEntry_getLastTID (zentry e) = Z.of_N (te_tid e + te_cnt e - 1).
Proof.
  intros e (H1 & H2 & H3 & H4). unfold go_token_TableEntry_getLastTID, zentry, GoSem.u32.
  cbn [go_TableEntry_StartTID go_TableEntry_ValCount].
  destruct (Z.eq_dec (Z.of_N (te_tid e) + Z.of_N (te_cnt e)) 4294967296) as [E|E].
  - rewrite E. change (4294967296 mod 4294967296) with 0. change ((0 - 1) mod 4294967296) with 4294967295. lia.
  - rewrite (Z.mod_small (Z.of_N (te_tid e) + Z.of_N (te_cnt e))) by lia. rewrite Z.mod_small by lia. lia.
Qed.

(* checkTIDInBlock = te_covers (Table.GetEntryByTID / find_entry: C03_token_table_exact) *)
Lemma gen_checkTIDInBlock_refines : forall e tid, entry_ok e -> (tid < 4294967296)%N ->
  go_token_TableEntry_checkTIDInBlock (zentry e) (Z.of_N tid) = te_covers e tid.
Proof.
  intros e tid Hok Ht. unfold go_token_TableEntry_checkTIDInBlock. rewrite gen_getLastTID_refines by exact Hok.
  destruct Hok as (H1 & H2 & H3 & H4). unfold zentry, te_covers. cbn [go_TableEntry_StartTID].
  rewrite !ltb_of_N.
  destruct (N.ltb_spec tid (te_tid e)); destruct (N.ltb_spec (te_tid e + te_cnt e - 1) tid);
    destruct (N.leb_spec (te_tid e) tid); destruct (N.ltb_spec tid (te_tid e + te_cnt e)); try reflexivity; lia.
Qed.

(* getIndexInTokensBlock = the position val_of_tid reads (te_sidx + tid - te_tid) for a covered TID *)
Lemma gen_getIndexInTokensBlock_refines : forall e tid, (te_tid e <= tid)%N -> (tid < 4294967296)%N ->
  (te_sidx e + tid - te_tid e < 4294967296)%N ->
  go_token_TableEntry_getIndexInTokensBlock (zentry e) (Z.of_N tid) = Z.of_N (te_sidx e + tid - te_tid e).
Proof.
  intros e tid H1 H2 H3. unfold go_token_TableEntry_getIndexInTokensBlock, zentry, GoSem.u32.
  cbn [go_TableEntry_StartIndex go_TableEntry_StartTID].
  rewrite Zminus_mod_idemp_l. rewrite Z.mod_small by lia. lia.
Qed.
