"""C03 — answers do not depend on the fraction form (DESIGN.md section 7, C03)."""
import vcheck

PROP = "C03"

TRUSTED = [
    "go2coq translator (harness/cmd/go2coq, semantics coq/lib/GoSem.v): props/C03/coq/Gen.v is regenerated from the Go source of lids.Table.GetAdjustedMinTID/GetChunksCount/GetFirstBlockIndexForTID/GetLastBlockIndexForTID/HasTIDInPrevBlock/HasTIDInNextBlock/GetChunkIndex, lids.IteratorAsc.narrowLIDsRange, lids.IteratorDesc.narrowLIDsRange, token.TableEntry.getIndexInTokensBlock/getLastTID/checkTIDInBlock on every run (subset as in C14 plus: slices of bool, nil as the empty slice, function literals as `fun x => <monadic body>`, monadic externs); logger.Panic = panic (its arguments are not evaluated). extern (props/C03/coq/GenPrelude.v, hand-written): sort.Search -> sort_Search, the binary search loop of the Go standard library with the midpoint (i+j)/2 (exact for i <= j < 2^63), 65 rounds of fuel (theorem C03_gen_sort_Search_adequate: equal to the model's sort.Search, never OutOfFuel), a panic of the predicate propagates. Validated on every run by the gen-* correspondence classes (real function vs generated definition on boundary and random arguments)",
    "Coq 8.16.1 kernel (coqc), vm_compute for case evaluation; no native_compute",
    "hand-written model props/C03/coq/Model.v of Chunks.Pack/unpack (on varint values; on BYTES in ModelBytes.v), getLIDsBlockGenerator, "
    "lids.Table, IteratorAsc/IteratorDesc, sort.Search, the registry ext words, getTokensBlocksGenerator, "
    "getIDsBlocksGenerator, writeDocsInOrder/docBlocksWriter/DocPos/extractDocs (sorted-docs rewrite), registry "
    "write + Loader.Load section walk, writeTokensBlocks table entries / physical blocks + GetEntryByTID / GetValByTID (tied to /repo by the correspondence run, not verified code; the registry walk "
    "only end to end through the reloaded form)",
    "hand-written byte-level model props/C03/coq/ModelBytes.v of encoding/binary varints + little-endian words, packer.BytesPacker / "
    "BytesUnpacker, Chunks.Pack/unpack on bytes, DiskIDsBlock.pack{MIDs,RIDs,Pos}, DiskPositionsBlock.pack + the body of Loader.loadIDs, "
    "unpackRawIDsVarint / unpackRawIDsNoVarint / unpackRIDs, DiskTokensBlock.pack + Block.unpack + GetValByTID, DiskTokenTableBlock.pack + "
    "TableLoader.load, IndexBlockHeader layout + registry + GetBlockHeader (tied to /repo by the byte-level correspondence classes)",
    "Go harness harness/cmd/hC03 (generators, canonical forms of answers, brute-force oracle of the end-to-end part)",
    "outside the model: zstd/lz4 (the bytes BEFORE compression are modelled; real index files exercise compression as an oracle), "
    "DiskInfoBlock (opaque JSON bytes), file I/O, caches (identity on their loader: C18), search "
    "evaluation (C02), pattern matching (C13): covered end-to-end by comparing the three real forms only",
]
ASSUME = [
    "posting lists are non-empty, strictly increasing, every LID < 2^32-1 (the end marker); block capacity > 0",
    "TIDs / block counts stay below 2^32 (registry ext word packs two uint32)",
    "stored IDs are not the zero ID (the sealer's 'no previous ID'); compressed blocks have non-zero length",
    "byte level: token / string lengths below 2^32-1 and a physical token block below 4 GiB (uint32 length words and offsets); values "
    "are uint64 / int64 / uint32 as in the code; the BinaryDataV0 RID format (no encoder left in the tree) is packMIDs' delta varints; "
    "malformed blocks may panic in the real decoders (unpackRawIDsVarint by design, Uint32/Uint64 on short tails, loadIDs on an "
    "overflowing varint, Block.unpack on 1..3 stray bytes): modelled and compared as outcome classes, not a C03 violation",
    "end-to-end form equality of whole answers (search evaluation, hist/agg, token dictionary, caches) and stability "
    "of a preloaded fraction under later seals/reloads are tested, not proved (PARTIAL)",
]
RULE = ("unit level with SMALL block capacities (1..8) so that every run has tokens ending exactly at a block end, "
        "tokens spanning 2..4 blocks, blocks with MinTID > MaxTID, uint32-edge LIDs: real generator -> real Pack -> real "
        "unpack -> real Table -> real iterators vs model and vs the posting list cut to [lo,hi]; token block generator on "
        "dictionaries at k*16KiB +-1, tokens larger than a block; ID blocks at multiples of the block size. End to end: "
        "corpora with 65536/65537/131072 postings per token, 4096*k IDs, dictionaries at the 16 KiB threshold, three forms "
        "x cache sizes x sort-docs on/off. non-trivial = a token spans two blocks / >= 2 blocks / answer non-empty on a "
        "block-straddling corpus; distinct by input. Sorted-docs rewrite: real writeDocsInOrder + docBlocksWriter + DocsReader on "
        "small files with block sizes 1..200 (several blocks, nested IDs). Chains of 3..5 seals in one manager: every preloaded "
        "fraction re-asked after each later seal and after a reload. Token table: real writeTokensBlocks + TableLoader + BlockLoader on "
        "dictionaries with several physical blocks, EVERY TID looked up through GetEntryByTID/GetValByTID; end to end: count and sum "
        "aggregations grouped by the multi-block dictionary fields over all documents. Byte level: real PutVarint/GetVarint, "
        "PutUint32/64, GetUint32/GetBinary, Chunks.Pack/unpack, pack{MIDs,RIDs,Pos} + UnpackCache, a real index file written by "
        "writePositionsBlock/writeIDsBlocks and read by loadIDs + load{MID,RID,Params}Block, DiskTokensBlock.pack + Block.unpack + "
        "GetValByTID at every index and one beyond, DiskTokenTableBlock.pack + TableLoader.load, header setters/accessors and a "
        "BlocksWriter registry read through GetBlockHeader: values 0, 2^7-1, 2^7, 2^14, 2^32-1, 2^63, 2^64-1 and every bit width, "
        "decreasing / wrapping ID sequences, empty and single-element blocks; per decoder a malformed stream (truncated, bit flip, "
        "stray tail, continuation run, random) compared as value / error / panic. non-trivial there = multi-byte varint, >= 2 "
        "chunks / IDs / groups / fields / registry entries, or a decoder outcome other than a value")


def harness_args(tier, seed, outdir):
    return ["-seed", str(seed), "-tier", tier, "-out", outdir]


def main(argv):
    return vcheck.standard_check(PROP, argv, harness_args, TRUSTED, ASSUME, RULE, coqchk=True, gen=True)
