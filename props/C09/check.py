"""C09 — a bulk is acknowledged only when a full replica set holds it in every tier (DESIGN.md section 7, C09)."""
import vcheck

PROP = "C09"

TRUSTED = [
    "Coq 8.16.1 kernel (coqc), vm_compute for case evaluation; no native_compute",
    "hand-written models props/C09/coq/Model.v (StoreDocuments/storeDocs/sendBulkToStores/shard.Bulk, write-status matrix),"
    " ModelIlv.v (one shard visit as an interleaving of per-replica steps check / call start / call return / record with the"
    " request context expiring between any two steps or inside a call; the run of StoreDocuments on such visits) and"
    " ModelFlat.v (the flat status array of ragged tiers) — tied to /repo by the correspondence run, not verified code",
    "Go harness harness/cmd/hC09: scripted fake StoreApiClient replicas (instant ones; gated ones held by a controller that"
    " lets each call begin / return and cancels the request context at scripted points and records the schedule it really"
    " produced; each fake keeps its own accept log), a RunMetrics collector appended to each shard's circuit (observes every"
    " shard.Bulk, forces the scripted open/closed state), log canonicalisation (calls of a visit as a multiset: sorted by replica)",
    "the circuit library (cep21/circuit) itself: only 'open => callback not run, error returned', 'closed => callback's"
    " result returned' and 'Execute does not look at the context before running the callback' are used; when it opens by"
    " itself is not modelled (forced by the script)",
    "of an interleaving only the steps visible at the replica stub are observed and controlled (a call begins = it looks at"
    " the context, a call returns); the loop's bit check and the goroutine's record step are not observable from outside —"
    " the model performs them as late as the observed steps allow, and its theorem says their position does not matter;"
    " the shard order of util.IdxShuffle is observed and fed to the model as an oracle",
    "a replica call that begins on a done context returns the context's error without reaching the store, and a call in"
    " flight when the context expires returns the context's error at once (gRPC client behaviour, reproduced by the gated"
    " fakes; a stub that ignores the context is scripted separately as OSlowOk)",
]
ASSUME = [
    "every shard of a tier has at most as many replicas as the LAST shard of the tier (true of every uniform tier, the only"
    " kind stores.NewStoresFromString builds); a wider shard makes shard.Bulk panic (index out of range: replicasCnt is the"
    " last shard's count) and a last shard without replicas makes the first successful call kill the process — both are"
    " modelled (ModelFlat.v), proved to be exactly the excluded cases, and the panic is reproduced by the class ragged:*; they"
    " are outside the property's quantifier (uniform 1..3 x 1..3) and never produce an acknowledgement",
    "BulkMaxTries >= 1 (theorem hypothesis; the harness passes the constant of /repo/consts into every case)",
    "liveness (the retries are really used) is claimed only when the request context never expires",
]
RULE = ("exhaustive {ok,err} call scripts for hot 1x1 (x all circuit scripts), hot 1x2, hot 2x1, cold 1x1 + hot 1x1 "
        "(thorough: three more families); random scripts over 1..3 x 1..3 shards x replicas per tier, cold tier in "
        "half of them, four hostility profiles, outcomes ok / error / timeout-after-accept / timeout-before, scripted "
        "open circuits; in 15% of them the request context expires (cancelled after the k-th visit, k = 0.., or through a "
        "replica call hanging until the caller's deadline and failing / accepting just after it); exhaustive {ok,err} "
        "scripts x every expiry point for hot 1x1 and cold 1x1 + hot 1x1; real 50 ms request deadlines falling into the "
        "100 ms back-off; sequences of 2-4 bulks through ONE client object (bulks that exhaust their tries after partial "
        "success, healthy ones, random ones, ones whose context expires; every {ok,err} first bulk followed by a healthy "
        "one for hot 1x2 and cold 1x1 + hot 1x1), each bulk with its own payload so that calls are attributed to bulks; "
        "shard order as shuffled by the real code (seeded). non-trivial = at least one shard visit "
        "failed or was short-circuited (fail-over or retry happened); distinct by script. "
        "Interleaving classes (ilv:*, gated replicas on the real client): hot 1x2 and 1x3 with every start order x every "
        "return order; hot 1x1..1x3 with the request context cancelled while k of r calls are in flight after j of them "
        "returned (every k, j; accepting, failing and context-ignoring stubs; also in the visit after a failed one); random "
        "1..3 shards x 1..5 replicas per tier (cold tier in 40%) with a random linearisation per visit and the context "
        "cancelled inside a random visit / at a visit boundary (= in the back-off) / before the call / never, plus malformed "
        "plans (steps of absent replicas, returns before starts, repeats); non-trivial there = calls returned out of replica "
        "order, or the context expired inside a visit, or a call failed. Ragged classes: tiers whose shards have 0..3 "
        "replicas with the widest last (narrow: must behave as the matrix model), a last shard without replicas and only "
        "failing calls, and tiers with a shard wider than the last one (the panic predicted by ModelFlat.v, or the matrix "
        "behaviour if it has been repaired)")


def harness_args(tier, seed, outdir):
    return ["-seed", str(seed), "-tier", tier, "-out", outdir]


def main(argv):
    return vcheck.standard_check(PROP, argv, harness_args, TRUSTED, ASSUME, RULE, coqchk=True)
