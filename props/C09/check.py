"""C09 — a bulk is acknowledged only when a full replica set holds it in every tier (DESIGN.md section 7, C09)."""
import vcheck

PROP = "C09"

TRUSTED = [
    "Coq 8.16.1 kernel (coqc), vm_compute for case evaluation; no native_compute",
    "hand-written model props/C09/coq/Model.v of StoreDocuments/storeDocs/sendBulkToStores/shard.Bulk and the"
    " write-status matrix (tied to /repo by the correspondence run, not verified code)",
    "Go harness harness/cmd/hC09: scripted fake StoreApiClient replicas, a RunMetrics collector appended to each"
    " shard's circuit (observes every shard.Bulk, forces the scripted open/closed state), log canonicalisation",
    "the circuit library (cep21/circuit) itself: only 'open => callback not run, error returned' and 'closed =>"
    " callback's result returned' are used; when it opens by itself is not modelled (forced by the script)",
    "replica calls of one shard visit run in parallel in the code and in replica order in the model (they touch"
    " disjoint state); the shard order of util.IdxShuffle is observed and fed to the model as an oracle",
]
ASSUME = [
    "uniform topology per tier (every shard of a tier has the same number of replicas), 1..3 x 1..3, cold tier optional",
    "BulkMaxTries >= 1 (theorem hypothesis; the harness passes the constant of /repo/consts into every case)",
    "the caller's request context expires only at shard-visit boundaries (a call hanging until the deadline is a "
    "timeout call of the visit after which the context is done); liveness is claimed only when it never expires",
]
RULE = ("exhaustive {ok,err} call scripts for hot 1x1 (x all circuit scripts), hot 1x2, hot 2x1, cold 1x1 + hot 1x1 "
        "(thorough: three more families); random scripts over 1..3 x 1..3 shards x replicas per tier, cold tier in "
        "half of them, four hostility profiles, outcomes ok / error / timeout-after-accept / timeout-before, scripted "
        "open circuits; in 15% of them the request context expires (cancelled after the k-th visit, k = 0.., or through a "
        "replica call hanging until the caller's deadline and failing / accepting just after it); exhaustive {ok,err} "
        "scripts x every expiry point for hot 1x1 and cold 1x1 + hot 1x1; real 50 ms request deadlines falling into the "
        "100 ms back-off; sequences of 2-4 bulks through ONE client object (bulks that exhaust their tries after partial "
        "success, healthy ones, random ones, ones whose context expires; every {ok,err} first bulk followed by a healthy "
        "one for hot 1x2 and cold 1x1 + hot 1x1), each bulk with its own payload so that calls are attributed to bulks; "
        "shard order as shuffled by the real code (seeded). non-trivial = at least one shard visit "
        "failed or was short-circuited (fail-over or retry happened); distinct by script")


def harness_args(tier, seed, outdir):
    return ["-seed", str(seed), "-tier", tier, "-out", outdir]


def main(argv):
    return vcheck.standard_check(PROP, argv, harness_args, TRUSTED, ASSUME, RULE, coqchk=True)
