(* C09 — lemmas about the interleaved shard visit (ModelIlv.v). Part 1: one visit. *)
From Coq Require Import List Bool Arith NArith Lia.
Import ListNotations.
From VLib Require Import CaseLib.
From C09 Require Import Model CaseDefs Proofs ModelIlv.

(* ------------------------------------------------------------------ the slot invariant:
   [J r g]: slot g is a consistent continuation of the replica whose cell was r when the visit
   began — nothing but r and the slot's own phase determines it *)
Definition J (r : rep) (g : gor) : Prop :=
  match g_slot g with
  | SNew => g_rep g = r /\ g_acc g = false
  | SSkip => g_rep g = r /\ r_written r = true /\ g_acc g = false
  | SSpawn => g_rep g = r /\ r_written r = false /\ g_acc g = false
  | SFly ph => g_rep g = r /\ r_written r = false /\ g_acc g = stored_of ph (head_out r)
  | SRet ph o => g_rep g = r /\ r_written r = false /\ g_acc g = stored_of ph (head_out r)
                 /\ o = ret_of ph (head_out r)
  | SDone ph o => g_rep g = mkRep (accepted o) (tail_out r) /\ r_written r = false
                  /\ g_acc g = stored_of ph (head_out r) /\ o = ret_of ph (head_out r)
  end.

Ltac jtac :=
  unfold J, do_record, do_return, do_start, do_expire, do_check;
  intros;
  match goal with g : gor |- _ => destruct g as [rp [| | |ph|ph o|ph o] ac] end; simpl in *;
  repeat match goal with H : _ /\ _ |- _ => destruct H end; subst; simpl in *;
  try (match goal with |- context [r_written ?x] => destruct (r_written x) eqn:?; simpl end);
  try (match goal with d : bool |- _ => destruct d; simpl end);
  try (match goal with ph : phase |- _ => destruct ph; simpl end);
  repeat split; auto; try congruence.

Lemma J_check : forall r g, J r g -> J r (do_check g).
Proof. jtac. Qed.
Lemma J_start : forall d r g, J r g -> J r (do_start d g).
Proof. jtac. Qed.
Lemma J_expire : forall r g, J r g -> J r (do_expire g).
Proof. jtac. Qed.
Lemma J_return : forall d r g, J r g -> J r (do_return d g).
Proof. jtac. Qed.
Lemma J_record : forall d r g, J r g -> J r (do_record d g).
Proof. jtac. Qed.

Definition final (g : gor) : Prop :=
  match g_slot g with SSkip | SDone _ _ => True | _ => False end.
Lemma record_final : forall d r g, J r g -> final (do_record d g).
Proof. unfold final. jtac. Qed.

(* ------------------------------------------------------------------ lists of slots *)
Lemma F2_at : forall (P : rep -> gor -> Prop) f, (forall r g, P r g -> P r (f g)) ->
  forall rs gs i, Forall2 P rs gs -> Forall2 P rs (at_ i f gs).
Proof.
  intros P f Hf rs gs i H. revert i. induction H; intros i; destruct i; simpl; constructor; auto.
Qed.
Lemma F2_map : forall (P Q : rep -> gor -> Prop) f, (forall r g, P r g -> Q r (f g)) ->
  forall rs gs, Forall2 P rs gs -> Forall2 Q rs (map f gs).
Proof. intros P Q f Hf rs gs H. induction H; simpl; constructor; auto. Qed.
Lemma F2_check_first : forall (P : rep -> gor -> Prop), (forall r g, P r g -> P r (do_check g)) ->
  forall rs gs, Forall2 P rs gs -> Forall2 P rs (check_first gs).
Proof.
  intros P Hf rs gs H. induction H; simpl; [constructor|].
  destruct (g_slot y); constructor; auto.
Qed.
Lemma F2_init : forall rs, Forall2 J rs (init_gs rs).
Proof. induction rs; simpl; constructor; auto. unfold J; simpl; auto. Qed.

Lemma step_J : forall rs s e, Forall2 J rs (snd s) -> Forall2 J rs (snd (step s e)).
Proof.
  intros rs [d gs] e H. simpl in H. destruct e; simpl.
  - apply F2_check_first; auto. apply J_check.
  - apply F2_at; auto. apply J_start.
  - apply F2_at; auto. apply J_return.
  - apply F2_at; auto. apply J_record.
  - eapply F2_map; eauto. apply J_expire.
Qed.
Lemma run_J : forall rs sg s, Forall2 J rs (snd s) -> Forall2 J rs (snd (run_evs sg s)).
Proof.
  unfold run_evs. induction sg; simpl; intros; auto. apply IHsg. apply step_J. auto.
Qed.
Lemma final_J : forall d sg rs,
  Forall2 (fun r g => J r g /\ final g) rs (snd (final_gs d sg rs)).
Proof.
  intros. unfold final_gs. pose proof (run_J rs sg (d, init_gs rs) (F2_init rs)) as H.
  destruct (run_evs sg (d, init_gs rs)) as [d' gs]. simpl in *.
  eapply F2_map; eauto. intros r g Hj. split. apply J_record; auto. eapply record_final; eauto.
Qed.

(* ------------------------------------------------------------------ the characterisation *)
Lemma next_cons : forall o l, next_outcome (o :: l) = (o, l).
Proof. reflexivity. Qed.

Lemma final_char : forall pay rs gs,
  Forall2 (fun r g => J r g /\ final g) rs gs ->
  forall i, (map g_rep gs, calls_of pay i gs, forallb g_ok gs)
            = send_reps pay false i (adj_reps (map g_phase gs) rs)
            /\ accs_of i gs = accs_ph (map g_phase gs) i rs.
Proof.
  intros pay rs gs H. induction H as [|r g rs gs [Hj Hf] _ IH]; intros i; [split; reflexivity|].
  destruct (IH (S i)) as [IH1 IH2]. simpl. rewrite <- IH1, <- IH2. clear IH IH1 IH2.
  unfold J in Hj. unfold final in Hf. unfold g_calls, g_ok, g_phase, adj.
  destruct g as [rp sl ac]. simpl in *.
  destruct sl as [| | |ph|ph o|ph o]; try contradiction.
  - destruct Hj as (-> & Hw & ->). rewrite ?Hw. simpl. rewrite ?Hw. simpl. split; reflexivity.
  - destruct Hj as (-> & Hw & -> & ->). rewrite ?Hw. simpl. rewrite ?Hw. simpl. split; reflexivity.
Qed.

(* what an interleaved visit computes = the sequential loop on the scripts adjusted by each
   call's phase; the store-side accept log likewise *)
Lemma reps_ilv_char : forall pay d sg rs,
  let '(rs', calls, ok, accs, _) := reps_ilv pay d sg rs in
  (rs', calls, ok) = send_reps pay false 0 (adj_reps (phases d sg rs) rs)
  /\ accs = accs_ph (phases d sg rs) 0 rs.
Proof.
  intros. unfold reps_ilv, phases. pose proof (final_J d sg rs) as H.
  destruct (final_gs d sg rs) as [d' gs]. simpl in *.
  apply final_char; auto.
Qed.

Definition res4 (x : list rep * list call * bool * list nat * bool) :=
  let '(rs', calls, ok, accs, _) := x in (rs', calls, ok, accs).

(* the outcome of a visit (written bits, call log, verdict, store-side accepts) depends on the
   schedule ONLY through the phase each replica's call went through *)
Lemma reps_ilv_independent : forall pay d sg1 sg2 rs,
  phases d sg1 rs = phases d sg2 rs ->
  res4 (reps_ilv pay d sg1 rs) = res4 (reps_ilv pay d sg2 rs).
Proof.
  intros pay d sg1 sg2 rs H.
  pose proof (reps_ilv_char pay d sg1 rs) as H1. pose proof (reps_ilv_char pay d sg2 rs) as H2.
  destruct (reps_ilv pay d sg1 rs) as [[[[a1 b1] c1] e1] f1].
  destruct (reps_ilv pay d sg2 rs) as [[[[a2 b2] c2] e2] f2]. simpl.
  destruct H1 as [H1 H1']. destruct H2 as [H2 H2']. rewrite H in H1, H1'.
  rewrite <- H2 in H1. inversion H1; subst. reflexivity.
Qed.

(* ------------------------------------------------------------------ schedules during which the
   context does not change state: done on entry (EExpire changes nothing) or no EExpire *)
Definition ph0 (d : bool) : phase := if d then PDead else PLive.
Definition PhOk (d : bool) (g : gor) : Prop :=
  match g_slot g with
  | SFly ph | SRet ph _ | SDone ph _ => ph = ph0 d
  | _ => True
  end.
Ltac ptac :=
  unfold PhOk, ph0, do_record, do_return, do_start, do_expire, do_check;
  intros;
  match goal with g : gor |- _ => destruct g as [rp [| | |ph|ph o|ph o] ac] end; simpl in *; subst; simpl;
  try (match goal with |- context [r_written ?x] => destruct (r_written x) eqn:?; simpl end);
  repeat (match goal with d : bool |- _ => destruct d; simpl in * end); auto.
Lemma P_check : forall d g, PhOk d g -> PhOk d (do_check g). Proof. ptac. Qed.
Lemma P_start : forall d g, PhOk d g -> PhOk d (do_start d g). Proof. ptac. Qed.
Lemma P_return : forall d g, PhOk d g -> PhOk d (do_return d g). Proof. ptac. Qed.
Lemma P_record : forall d g, PhOk d g -> PhOk d (do_record d g). Proof. ptac. Qed.
Lemma P_expire : forall g, PhOk true g -> PhOk true (do_expire g). Proof. ptac. Qed.

Definition quiet (d : bool) (sg : list ev) : Prop := d = true \/ has_expire sg = false.

Lemma F_at : forall (P : gor -> Prop) f, (forall g, P g -> P (f g)) ->
  forall gs i, Forall P gs -> Forall P (at_ i f gs).
Proof.
  intros P f Hf gs i H. revert i. induction H; intros i; destruct i; simpl; constructor; auto.
Qed.
Lemma F_map : forall (P : gor -> Prop) f, (forall g, P g -> P (f g)) ->
  forall gs, Forall P gs -> Forall P (map f gs).
Proof. intros P f Hf gs H. induction H; simpl; constructor; auto. Qed.
Lemma F_check_first : forall (P : gor -> Prop), (forall g, P g -> P (do_check g)) ->
  forall gs, Forall P gs -> Forall P (check_first gs).
Proof.
  intros P Hf gs H. induction H; simpl; [constructor|]. destruct (g_slot x); constructor; auto.
Qed.

Lemma run_quiet : forall d sg gs, quiet d sg -> Forall (PhOk d) gs ->
  exists gs', run_evs sg (d, gs) = (d, gs') /\ Forall (PhOk d) gs'.
Proof.
  unfold run_evs. induction sg as [|e sg IH]; simpl; intros gs Hq H; [eauto|].
  assert (Hq' : quiet d sg).
  { destruct Hq as [Hq|Hq]; [left; auto|right]. simpl in Hq. apply orb_false_iff in Hq. tauto. }
  destruct e; simpl.
  - apply IH; auto. apply F_check_first; auto. apply P_check.
  - apply IH; auto. apply F_at; auto. apply P_start.
  - apply IH; auto. apply F_at; auto. apply P_return.
  - apply IH; auto. apply F_at; auto. apply P_record.
  - destruct Hq as [->|Hq]; [|simpl in Hq; discriminate].
    apply IH; auto. apply F_map; auto. apply P_expire.
Qed.

Lemma adj_ph0 : forall pay d rs i,
  send_reps pay false i (map (adj (ph0 d)) rs) = send_reps pay d i rs.
Proof.
  induction rs as [|r rest IH]; intros i; simpl; [reflexivity|].
  rewrite IH. destruct (send_reps pay d (S i) rest) as [[rest' calls] ok].
  unfold adj. destruct (r_written r) eqn:W; simpl; rewrite ?W; [reflexivity|]. simpl.
  unfold head_out, tail_out. destruct (next_outcome (r_script r)) as [o0 sc]. simpl.
  destruct d; reflexivity.
Qed.

Lemma adj_reps_const : forall d rs gs,
  Forall2 (fun r g => J r g /\ final g) rs gs -> Forall (PhOk d) gs ->
  adj_reps (map g_phase gs) rs = map (adj (ph0 d)) rs
  /\ forall i, accs_ph (map g_phase gs) i rs = accs_ph (map (fun _ => ph0 d) rs) i rs.
Proof.
  intros d rs gs H. induction H as [|r g rs gs [Hj Hf] _ IH]; intros HP; [split; reflexivity|].
  inversion HP as [|? ? Hp HP']; subst. destruct (IH HP') as [IH1 IH2]. simpl.
  rewrite IH1. split.
  - f_equal. unfold J in Hj. unfold final in Hf. unfold PhOk in Hp. unfold g_phase, adj.
    destruct (g_slot g); try contradiction.
    + destruct Hj as (_ & -> & _). reflexivity.
    + subst. reflexivity.
  - intros i. rewrite IH2. f_equal. unfold J in Hj. unfold final in Hf. unfold PhOk in Hp. unfold g_phase.
    destruct (g_slot g); try contradiction.
    + destruct Hj as (_ & -> & _). reflexivity.
    + subst. reflexivity.
Qed.

(* every interleaving of a visit during which the context does not change state gives exactly the
   sequential replica-order loop of Model.v *)
Lemma reps_ilv_quiet : forall pay d sg rs, quiet d sg ->
  reps_ilv pay d sg rs =
  (send_reps pay d 0 rs, accs_ph (map (fun _ => ph0 d) rs) 0 rs, d).
Proof.
  intros pay d sg rs Hq. unfold reps_ilv.
  pose proof (final_J d sg rs) as HJ. unfold final_gs in *.
  assert (H0 : Forall (PhOk d) (init_gs rs)).
  { unfold init_gs. apply Forall_forall. intros g Hg. apply in_map_iff in Hg as (r & <- & _). exact I. }
  destruct (run_quiet d sg _ Hq H0) as (gs' & E & HP). rewrite E in *. simpl in *.
  assert (HP' : Forall (PhOk d) (map (do_record d) gs')) by (apply F_map; auto; apply P_record).
  destruct (final_char pay _ _ HJ 0) as [C1 C2].
  destruct (adj_reps_const d _ _ HJ HP') as [A1 A2].
  rewrite C2, A2. rewrite A1, adj_ph0 in C1.
  destruct (send_reps pay d 0 rs) as [[a b] c]. inversion C1; subst. reflexivity.
Qed.

Lemma accs_dead : forall rs i, accs_ph (map (fun _ => PDead) rs) i rs = [].
Proof.
  induction rs; intros; simpl; auto. rewrite IHrs. rewrite andb_false_r. reflexivity.
Qed.

Lemma shard_bulk_ilv_quiet : forall pay d sg sh, quiet d sg ->
  let '(sh', short, calls, ok, _, d') := shard_bulk_ilv pay d sg sh in
  (sh', short, calls, ok) = shard_bulk pay d sh /\ d' = d.
Proof.
  intros pay d sg sh Hq. unfold shard_bulk_ilv, shard_bulk.
  assert (Hd : d || has_expire sg = d).
  { destruct Hq as [Hq1|Hq1]; rewrite Hq1; [reflexivity|apply orb_false_r]. }
  rewrite (reps_ilv_quiet pay d sg (s_reps sh) Hq).
  destruct (s_open sh) as [|[|] fl]; try (split; [reflexivity|auto]);
  destruct (send_reps pay d 0 (s_reps sh)) as [[a b] c]; split; reflexivity.
Qed.

(* ------------------------------------------------------------------ what the run needs to know
   about a visit under ANY schedule *)
Lemma adj_reps_nth : forall phs rs j,
  nth_error (adj_reps phs rs) j = option_map (adj (nth j phs PLive)) (nth_error rs j).
Proof.
  intros phs rs. revert phs. induction rs as [|r rest IH]; intros phs j; simpl.
  - destruct j; reflexivity.
  - destruct j; simpl.
    + destruct phs; reflexivity.
    + rewrite IH. destruct phs; simpl; [destruct j; reflexivity|reflexivity].
Qed.
Lemma adj_reps_length : forall phs rs, length (adj_reps phs rs) = length rs.
Proof. intros phs rs. revert phs. induction rs; intros; simpl; auto. Qed.
Lemma adj_written : forall ph r, r_written (adj ph r) = r_written r.
Proof. intros. unfold adj. destruct (r_written r) eqn:E; simpl; auto. Qed.

Lemma calls_stored : forall pay rs gs,
  Forall2 (fun r g => J r g /\ final g) rs gs ->
  forall i c, In c (calls_of pay i gs) -> accepted (c_out c) = true -> In (c_rep c) (accs_of i gs).
Proof.
  intros pay rs gs H. induction H as [|r g rs gs [Hj Hf] _ IH]; intros i c Hin Ha; simpl in *; [contradiction|].
  apply in_app_or in Hin as [Hin|Hin]; apply in_or_app; [left|right; eauto].
  unfold g_calls in Hin. unfold J in Hj. destruct (g_slot g) as [| | |ph|ph o|ph o]; simpl in Hin; try contradiction.
  destruct Hin as [<-|[]]. simpl in *. destruct Hj as (_ & _ & -> & ->).
  assert (HS : stored_of ph (head_out r) = true).
  { destruct ph; simpl in *; auto; try discriminate. destruct (head_out r); simpl in *; auto; discriminate. }
  rewrite HS. left; reflexivity.
Qed.

Lemma send_reps_dead : forall pay rs i rs' calls ok,
  send_reps pay true i rs = (rs', calls, ok) ->
  map r_written rs' = map r_written rs /\ (forall c, In c calls -> c_out c = OCtx)
  /\ (ok = true -> forallb r_written rs = true).
Proof.
  induction rs as [|r rest IH]; simpl; intros i rs' calls ok H.
  - inversion H; subst. repeat split; auto. intros c [].
  - destruct (send_reps pay true (S i) rest) as [[rest' calls0] ok0] eqn:E.
    destruct (IH _ _ _ _ E) as (A & B & C).
    destruct (r_written r) eqn:W.
    + inversion H; subst. simpl. rewrite A, ?W. repeat split; auto.
    + destruct (next_outcome (r_script r)) as [o0 sc]. simpl in H. inversion H; subst. simpl.
      rewrite A, ?W. repeat split; auto; try discriminate; try (intros c [<-|Hc]; auto).
Qed.

Definition bits_sh (sh : shard) : list bool := map r_written (s_reps sh).

Lemma shard_bulk_ilv_spec : forall pay d sg sh sh' short calls ok accs d',
  shard_bulk_ilv pay d sg sh = (sh', short, calls, ok, accs, d') ->
  (length (s_reps sh') = length (s_reps sh) /\
   (forall j rp', nth_error (s_reps sh') j = Some rp' -> r_written rp' = true ->
      (exists rp, nth_error (s_reps sh) j = Some rp /\ r_written rp = true) \/
      (exists c, In c calls /\ c_rep c = j /\ accepted (c_out c) = true /\ c_pay c = pay)) /\
   (ok = true -> all_written sh' = true) /\
   (short = true \/
    forall j rp, nth_error (s_reps sh) j = Some rp -> r_written rp = false ->
      exists c, In c calls /\ c_rep c = j)) /\
  (forall c, In c calls -> accepted (c_out c) = true -> In (c_rep c) accs) /\
  (d = true -> d' = true /\ bits_sh sh' = bits_sh sh /\ (forall c, In c calls -> c_out c = OCtx)
               /\ accs = [] /\ (ok = true -> all_written sh = true)).
Proof.
  intros pay d sg sh sh' short calls ok accs d' H. split; [|split].
  - (* the four facts of shard_bulk_spec, through the adjusted scripts *)
    unfold shard_bulk_ilv in H.
    pose proof (reps_ilv_char pay d sg (s_reps sh)) as HC.
    set (rsA := adj_reps (phases d sg (s_reps sh)) (s_reps sh)) in *.
    assert (HL : length rsA = length (s_reps sh)) by apply adj_reps_length.
    assert (G : forall fl0 rs' ,
      (rs', calls, ok) = send_reps pay false 0 rsA -> sh' = mkShard fl0 rs' -> short = false ->
      length (s_reps sh') = length (s_reps sh) /\
      (forall j rp', nth_error (s_reps sh') j = Some rp' -> r_written rp' = true ->
        (exists rp, nth_error (s_reps sh) j = Some rp /\ r_written rp = true) \/
        (exists c, In c calls /\ c_rep c = j /\ accepted (c_out c) = true /\ c_pay c = pay)) /\
      (ok = true -> all_written sh' = true) /\
      (short = true \/
       forall j rp, nth_error (s_reps sh) j = Some rp -> r_written rp = false ->
         exists c, In c calls /\ c_rep c = j)).
    { intros fl0 rs' E -> ->. symmetry in E.
      destruct (send_reps_spec _ _ _ _ _ _ _ E) as (A & B & C & D). simpl.
      split; [congruence|]. split; [|split].
      - intros j rp' Hn Hw. destruct (B _ _ Hn Hw) as [(rp & Hr & Hrw)|Hc]; [left|right; exact Hc].
        unfold rsA in Hr. rewrite adj_reps_nth in Hr.
        destruct (nth_error (s_reps sh) j) as [rp0|] eqn:E0; simpl in Hr; [|discriminate].
        inversion Hr; subst. rewrite adj_written in Hrw. eauto.
      - intros Hok. apply all_written_nth. simpl. intros. eapply C; eauto.
      - right. intros j rp Hn Hw. apply (D j (adj (nth j (phases d sg (s_reps sh)) PLive) rp)).
        + unfold rsA. rewrite adj_reps_nth, Hn. reflexivity.
        + rewrite adj_written. exact Hw. }
    destruct (s_open sh) as [|[|] fl] eqn:EO.
    + destruct (reps_ilv pay d sg (s_reps sh)) as [[[[a b] c] e] f]. destruct HC as [HC _].
      inversion H; subst. eapply G; eauto.
    + inversion H; subst. simpl. repeat split; auto.
      * intros j rp' Hn Hw. left. eauto.
      * discriminate.
    + destruct (reps_ilv pay d sg (s_reps sh)) as [[[[a b] c] e] f]. destruct HC as [HC _].
      inversion H; subst. eapply G; eauto.
  - (* returned success => the store accepted *)
    unfold shard_bulk_ilv, reps_ilv in H. pose proof (final_J d sg (s_reps sh)) as HJ.
    destruct (final_gs d sg (s_reps sh)) as [df gs]. simpl in HJ.
    destruct (s_open sh) as [|[|] fl]; inversion H; subst; try (intros c []);
      intros c Hc Ha; eapply calls_stored; eauto.
  - (* the context was done on entry *)
    intros ->. pose proof (shard_bulk_ilv_quiet pay true sg sh (or_introl eq_refl)) as Q.
    unfold shard_bulk_ilv in H, Q. rewrite (reps_ilv_quiet pay true sg _ (or_introl eq_refl)) in *.
    unfold shard_bulk in Q. simpl ph0 in *. rewrite accs_dead in *.
    destruct (s_open sh) as [|[|] fl] eqn:EO.
    + destruct (send_reps pay true 0 (s_reps sh)) as [[a b] c] eqn:E. inversion H; subst.
      destruct (send_reps_dead _ _ _ _ _ _ E) as (A & B & C). unfold bits_sh, all_written. simpl. auto.
    + inversion H; subst. unfold bits_sh. simpl. repeat split; auto. intros c []. discriminate.
    + destruct (send_reps pay true 0 (s_reps sh)) as [[a b] c] eqn:E. inversion H; subst.
      destruct (send_reps_dead _ _ _ _ _ _ E) as (A & B & C). unfold bits_sh, all_written. simpl. auto.
Qed.
