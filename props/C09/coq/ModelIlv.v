(* C09 — executable model of ONE SHARD VISIT AS AN INTERLEAVING of its replicas' steps, with the
   request context able to expire between any two steps and inside a call, and the run of
   StoreDocuments built on such visits.  NO proofs in this file.

   Code modelled (proxy/bulk/seqdb_client.go, shard.Bulk):

       s.breaker.Execute(ctx, func(ctx) error {            -- circuit admits ONCE per visit
           hostErrors := make([]error, len(s.replicas))
           for i, replica := range s.replicas {             -- main goroutine, replica order
               if len(written) > 0 && written[i] { continue }        -- [check]  reads cell i
               wg.Add(1)
               go func() {                                  -- one goroutine per unwritten replica
                   hostErr := sendBulkToHost(ctx, replica, req)      -- [start] ... [return]
                   if hostErr != nil { hostErrors[i] = hostErr }     -- [record] writes cell i of
                   else if written != nil { written[i] = true }      --          ONE of two arrays
                   wg.Done()
               }()
           }
           wg.Wait()
           return multierr.Combine(hostErrors...)
       })

   What the goroutines share: the request (read only), the context, and the two arrays
   hostErrors / writtenReplicas — every goroutine touches cell [replicaIdx] only, the main loop
   reads writtenReplicas[i] before goroutine i exists.  Nobody looks at the context except the
   replica call itself: not the loop, not the goroutine after the call, not wg.Wait, not
   circuit.Execute before running the callback, not the loops of sendBulkToStores /
   StoreDocuments, not the back-off time.Sleep.  So after the context has expired the client
   goes on visiting shards and STARTING calls; each such call returns the context's error at once
   (gRPC does not send on a done context; the fake replicas check ctx.Err() first).

   Model: one slot per replica (its cell of the two arrays + the state of its goroutine).
   A schedule is a list of events; an event on replica i first performs the steps that must
   have preceded it (so every list of events is a schedule, and after the list the remaining
   steps are performed: [drain] — wg.Wait).  EExpire = the context becomes done.
   * call started with the context done      -> returns OCtx, the store is not reached   (PDead)
   * context expires while the call is in flight -> the call returns the context's error
     (logged OTimeout) ALTHOUGH the store has accepted the payload if the script says it accepts:
     the "accepted-but-late" case caused by the request context; a stub that ignores the
     context (script OSlowOk) still returns success                                      (PLate)
   * otherwise the scripted outcome                                                       (PLive)
   The store-side accept log ([g_acc]) is separate from what the call returns. *)
From Coq Require Import List Bool Arith NArith.
Import ListNotations.
From C09 Require Import Model.

Inductive phase := PLive | PDead | PLate.

Inductive slot :=
| SNew                                (* the main loop has not reached this replica *)
| SSkip                               (* written bit found set: no goroutine *)
| SSpawn                              (* goroutine exists, call not begun *)
| SFly (ph : phase)                   (* call in flight *)
| SRet (ph : phase) (o : outcome)     (* call returned o, not yet recorded *)
| SDone (ph : phase) (o : outcome).   (* hostErrors[i] / writtenReplicas[i] updated, wg.Done *)

(* g_rep = cell i of writtenReplicas + the replica's script; g_acc = the store accepted the
   payload during this visit *)
Record gor := mkG { g_rep : rep; g_slot : slot; g_acc : bool }.

Definition head_out (r : rep) : outcome := fst (next_outcome (r_script r)).
Definition tail_out (r : rep) : list outcome := snd (next_outcome (r_script r)).

Definition late_of (o : outcome) : outcome :=
  match o with OSlowOk => OSlowOk | OCtx => OCtx | _ => OTimeout end.
Definition ret_of (ph : phase) (o : outcome) : outcome :=
  match ph with PLive => o | PDead => OCtx | PLate => late_of o end.
(* does the store hold the payload after a call with this phase and scripted behaviour *)
Definition stored_of (ph : phase) (o : outcome) : bool :=
  match ph with PDead => false | _ => accepted o end.

Definition do_check (g : gor) : gor :=
  match g_slot g with
  | SNew => mkG (g_rep g) (if r_written (g_rep g) then SSkip else SSpawn) (g_acc g)
  | _ => g
  end.
Definition do_start (d : bool) (g : gor) : gor :=
  let g := do_check g in
  match g_slot g with
  | SSpawn => if d then mkG (g_rep g) (SFly PDead) false
              else mkG (g_rep g) (SFly PLive) (accepted (head_out (g_rep g)))
  | _ => g
  end.
Definition do_expire (g : gor) : gor :=
  match g_slot g with
  | SFly PLive => mkG (g_rep g) (SFly PLate) (g_acc g)
  | _ => g
  end.
Definition do_return (d : bool) (g : gor) : gor :=
  let g := do_start d g in
  match g_slot g with
  | SFly ph => mkG (g_rep g) (SRet ph (ret_of ph (head_out (g_rep g)))) (g_acc g)
  | _ => g
  end.
Definition do_record (d : bool) (g : gor) : gor :=
  let g := do_return d g in
  match g_slot g with
  | SRet ph o => mkG (mkRep (accepted o) (tail_out (g_rep g))) (SDone ph o) (g_acc g)
  | _ => g
  end.

Inductive ev :=
| EMain                (* the main loop handles its next replica: check the bit, spawn or skip *)
| EStart (i : nat)     (* goroutine i enters the replica call (the call observes the context) *)
| EReturn (i : nat)    (* the call of goroutine i returns *)
| ERecord (i : nat)    (* goroutine i stores its outcome and calls wg.Done *)
| EExpire.             (* the request context becomes done *)

Fixpoint at_ (i : nat) (f : gor -> gor) (gs : list gor) : list gor :=
  match gs, i with
  | [], _ => []
  | g :: r, 0 => f g :: r
  | g :: r, S j => g :: at_ j f r
  end.
Fixpoint check_first (gs : list gor) : list gor :=
  match gs with
  | [] => []
  | g :: r => match g_slot g with SNew => do_check g :: r | _ => g :: check_first r end
  end.

Definition vstate := (bool * list gor)%type.
Definition step (s : vstate) (e : ev) : vstate :=
  let (d, gs) := s in
  match e with
  | EMain => (d, check_first gs)
  | EStart i => (d, at_ i (do_start d) gs)
  | EReturn i => (d, at_ i (do_return d) gs)
  | ERecord i => (d, at_ i (do_record d) gs)
  | EExpire => (true, map do_expire gs)
  end.
Definition run_evs (sg : list ev) (s : vstate) : vstate := fold_left step sg s.
Definition drain (s : vstate) : vstate := let (d, gs) := s in (d, map (do_record d) gs).
Definition init_gs (rs : list rep) : list gor := map (fun r => mkG r SNew false) rs.
Definition final_gs (d : bool) (sg : list ev) (rs : list rep) : vstate :=
  drain (run_evs sg (d, init_gs rs)).

Definition g_calls (pay : N) (i : nat) (g : gor) : list call :=
  match g_slot g with SDone _ o => [mkCall i o pay] | _ => [] end.
Fixpoint calls_of (pay : N) (i : nat) (gs : list gor) : list call :=
  match gs with [] => [] | g :: r => g_calls pay i g ++ calls_of pay (S i) r end.
Definition g_ok (g : gor) : bool :=
  match g_slot g with SDone _ o => accepted o | SSkip => true | _ => false end.
Fixpoint accs_of (i : nat) (gs : list gor) : list nat :=
  match gs with [] => [] | g :: r => (if g_acc g then [i] else []) ++ accs_of (S i) r end.
Definition g_phase (g : gor) : phase :=
  match g_slot g with SFly ph | SRet ph _ | SDone ph _ => ph | _ => PLive end.

(* body of the callback under schedule sg, context done on entry iff d:
   (replicas, calls in replica order, no call failed, replicas whose store accepted, done after) *)
Definition reps_ilv (pay : N) (d : bool) (sg : list ev) (rs : list rep)
  : list rep * list call * bool * list nat * bool :=
  let (d', gs) := final_gs d sg rs in
  (map g_rep gs, calls_of pay 0 gs, forallb g_ok gs, accs_of 0 gs, d').
(* the phase every replica's call went through (PLive for a replica that was skipped) *)
Definition phases (d : bool) (sg : list ev) (rs : list rep) : list phase :=
  map g_phase (snd (final_gs d sg rs)).

Definition has_expire (sg : list ev) : bool :=
  existsb (fun e => match e with EExpire => true | _ => false end) sg.

(* shard.Bulk under a schedule: an open circuit rejects the visit, nothing is called (an
   EExpire in the schedule of such a visit still makes the context done) *)
Definition shard_bulk_ilv (pay : N) (d : bool) (sg : list ev) (sh : shard)
  : shard * bool * list call * bool * list nat * bool :=
  match s_open sh with
  | true :: fl => (mkShard fl (s_reps sh), true, [], false, [], d || has_expire sg)
  | fl0 => let '(rs', calls, ok, accs, d') := reps_ilv pay d sg (s_reps sh) in
           (mkShard (tl fl0) rs', false, calls, ok, accs, d')
  end.

(* ---- the sequential representative: replica order, each call's outcome adjusted by its phase *)
Definition adj (ph : phase) (r : rep) : rep :=
  if r_written r then r else mkRep false (ret_of ph (head_out r) :: tail_out r).
Fixpoint adj_reps (phs : list phase) (rs : list rep) : list rep :=
  match rs with [] => [] | r :: rest => adj (hd PLive phs) r :: adj_reps (tl phs) rest end.
Fixpoint accs_ph (phs : list phase) (i : nat) (rs : list rep) : list nat :=
  match rs with
  | [] => []
  | r :: rest => (if negb (r_written r) && stored_of (hd PLive phs) (head_out r) then [i] else [])
                 ++ accs_ph (tl phs) (S i) rest
  end.

(* ------------------------------------------------------------------ the run of StoreDocuments on
   interleaved visits.  [sch] = one schedule per shard visit (consumed also by a visit that is
   short-circuited; exhausted = the empty schedule = plain drain); the done flag of the context
   is threaded through (ctx s); [accs] = per visit, the replicas whose store accepted. *)
Definition xctx (d : bool) (c : cx) : cx := mkCx d (S (nvis c)) None.

Fixpoint send_order_x (t : tier) (pay : N) (order : list nat) (c : cx) (sch : list (list ev)) (ts : list shard)
  : list shard * cx * list (list ev) * list visit * list (list nat) * bool :=
  match order with
  | [] => (ts, c, sch, [], [], false)
  | i :: rest =>
      match nth_error ts i with
      | None => send_order_x t pay rest c sch ts
      | Some sh =>
          let '(sh', short, calls, ok, accs, d') := shard_bulk_ilv pay (dead c) (hd [] sch) sh in
          let ts' := update ts i sh' in
          let c' := xctx d' c in
          let v := mkVisit t i short calls in
          if ok then (ts', c', tl sch, [v], [accs], true)
          else let '(ts'', c'', sch'', vs, acs, ok') := send_order_x t pay rest c' (tl sch) ts' in
               (ts'', c'', sch'', v :: vs, accs :: acs, ok')
      end
  end.

Definition send_tier_x (t : tier) (pay : N) (orders : list (list nat)) (c : cx) (sch : list (list ev)) (ts : list shard)
  : list shard * cx * list (list nat) * list (list ev) * list visit * list (list nat) * bool :=
  match ts with
  | [] => (ts, c, orders, sch, [], [], true)
  | _ => let '(o, orders') := pop_order (length ts) orders in
         let '(ts', c', sch', vs, acs, ok) := send_order_x t pay o c sch ts in
         (ts', c', orders', sch', vs, acs, ok)
  end.

Definition store_docs_x (pay : N) (s : st) (sch : list (list ev))
  : st * list (list ev) * list visit * list (list nat) * bool :=
  if cold_w s then
    let '(h', x', ho', sch', vs, acs, ok) := send_tier_x Hot pay (hot_ord s) (ctx s) sch (hot s) in
    (mkSt true (cold s) h' (cold_ord s) ho' x', sch', vs, acs, ok)
  else
    let '(c', x', co', sch', vs, acs, ok) := send_tier_x Cold pay (cold_ord s) (ctx s) sch (cold s) in
    if ok then
      let '(h', x'', ho', sch'', vs2, acs2, ok2) := send_tier_x Hot pay (hot_ord s) x' sch' (hot s) in
      (mkSt true c' h' co' ho' x'', sch'', vs ++ vs2, acs ++ acs2, ok2)
    else (mkSt false c' (hot s) co' (hot_ord s) x', sch', vs, acs, false).

Fixpoint attempts_x (n : nat) (pay : N) (s : st) (sch : list (list ev))
  : st * list (list ev) * list visit * list (list nat) * bool :=
  match n with
  | 0 => (s, sch, [], [], true)
  | S k =>
      let '(s', sch', vs, acs, ok) := store_docs_x pay s sch in
      if ok then (s', sch', vs, acs, true)
      else match k with
           | 0 => (s', sch', vs, acs, false)
           | _ => let '(s'', sch'', vs2, acs2, ok2) := attempts_x k pay s' sch' in
                  (s'', sch'', vs ++ vs2, acs ++ acs2, ok2)
           end
  end.

(* d0 = the context is done before StoreDocuments is entered *)
Definition store_documents_x (tries : nat) (pay : N) (cin hin : list shard_in)
           (cord hord : list (list nat)) (d0 : bool) (sch : list (list ev))
  : st * list (list ev) * list visit * list (list nat) * bool :=
  attempts_x tries pay (init_st cin hin cord hord (if d0 then Some 0 else None)) sch.
