From Coq Require Import List Bool Arith NArith.
Import ListNotations.
From C09 Require Import Model CaseDefs Proofs.
Theorem C09_tmp : forall pay s, attempts 0 pay s = (s, [], true).
Proof. exact attempts_zero. Qed.
Print Assumptions C09_tmp.
