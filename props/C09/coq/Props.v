(* C09 — property theorems. This file contains nothing but the statements, each closed by
   `exact <lemma>` from Proofs*.v, with Print Assumptions beneath, and the non-vacuity examples.

   Vocabulary (definitions in Model.v / CaseDefs.v / Proofs.v / ProofsLive.v):
     store_documents tries pay cin hin cord hord = (s, log, ok)
        the model of SeqDBClient.StoreDocuments run with BulkMaxTries = tries on payload pay;
        cin / hin = scripts of the long-term ("cold", write stores) and of the hot tier: per shard
        the circuit state of its k-th visit and per replica the outcome of its n-th call
        (ok / error / accepted-but-late / timeout); cord / hord = oracle for the random shard
        order, one list per sendBulkToStores invocation; cancel = Some k: the caller's request
        context becomes done (deadline / cancel) when the k-th shard visit ends (0: on entry),
        after which every replica call returns the context error; None: never; s = final write-status state,
        log = shard visits with their replica calls, ok = (result is nil).
     HasOk pay t sd r log   a call to replica r of shard sd of tier t carrying payload pay
                            returned success, and is in the log
     AckT pay t tin log     tier t is not configured, or has a shard ALL of whose replicas HasOk
     FullT ts               tier state ts is empty or has a shard whose written bits are all set
     SkipsOk nr pay [] log  every visit in the log that ran (circuit closed) called each of the
                            shard's nr replicas, except those with an EARLIER HasOk in the log
     Covers n o             order o mentions every shard index below n (any permutation does)
     shard_bud / tier_bud   number of visits of a shard that can still fail according to the
                            script (open-circuit entries + position of the last non-accepting
                            outcome among its replicas); minimum over the tier's shards *)
From Coq Require Import List Bool Arith NArith.
Import ListNotations.
From C09 Require Import Model ModelIlv ModelFlat CaseDefs Proofs ProofsLive ProofsSpec ProofsIlv ProofsIlvRun ProofsIlvSpec ProofsFlat.

(* If the proxy reports the bulk as stored then the hot tier has a shard all of whose replicas
   returned success for a call carrying exactly this payload, and so has the long-term tier when
   one is configured.  For every topology (any number of shards and replicas, even ragged), every
   script of call outcomes and circuit states, EVERY shard order oracle, every tries >= 1, and
   every point at which the caller's request context may expire (cancel). *)
Theorem C09_ack_sound :
  forall tries pay cin hin cord hord cancel s log,
    1 <= tries ->
    store_documents tries pay cin hin cord hord cancel = (s, log, true) ->
    AckT pay Cold cin log /\ AckT pay Hot hin log.
Proof. exact ack_sound. Qed.
Print Assumptions C09_ack_sound.

(* Invariant of the write-status matrix: a bit written[t][sd][r] is set only if a successful call
   to that very replica with this payload is in the log — never on the basis of a failed, a
   skipped or a short-circuited call. *)
Theorem C09_written_only_on_ok :
  forall tries pay cin hin cord hord cancel s log ok,
    store_documents tries pay cin hin cord hord cancel = (s, log, ok) ->
    forall t sd rp sh r,
      nth_error (match t with Cold => cold s | Hot => hot s end) sd = Some sh ->
      nth_error (s_reps sh) r = Some rp -> r_written rp = true ->
      HasOk pay t sd r log.
Proof. exact written_only_on_ok. Qed.
Print Assumptions C09_written_only_on_ok.

(* If after the last attempt some configured tier has no fully written shard, the result is an
   error. *)
Theorem C09_fail_reported :
  forall tries pay cin hin cord hord cancel s log ok,
    1 <= tries ->
    store_documents tries pay cin hin cord hord cancel = (s, log, ok) ->
    (~ FullT (cold s) \/ ~ FullT (hot s)) -> ok = false.
Proof. exact fail_reported. Qed.
Print Assumptions C09_fail_reported.

(* Observable form of "never counted as written on the basis of a failed or skipped call": a
   replica is left out of a shard visit only after an earlier successful call to it. *)
Theorem C09_skip_only_after_ok :
  forall tries pay cin hin cord hord cancel s log ok,
    store_documents tries pay cin hin cord hord cancel = (s, log, ok) ->
    SkipsOk (nr_sh (shc_of cin) (shc_of hin)) pay [] log.
Proof. exact skips_sound. Qed.
Print Assumptions C09_skip_only_after_ok.

(* The bounded retries are really used (so "always fail" is excluded): if the cheapest shard of
   the long-term tier and the cheapest shard of the hot tier can together fail fewer than `tries`
   visits, the bulk is acknowledged — whatever the shard orders, as long as each covers all
   shards, and provided the caller's context does not expire (cancel = None).  (Example C09_live_bound_tight: the bound cannot be improved.) *)
Theorem C09_succeeds_when_possible :
  forall tries pay cin hin cord hord s log ok,
    Forall (Covers (length cin)) cord -> Forall (Covers (length hin)) hord ->
    tier_bud (map mk_shard cin) + tier_bud (map mk_shard hin) < tries ->
    store_documents tries pay cin hin cord hord None = (s, log, ok) -> ok = true.
Proof. exact succeeds_when_possible. Qed.
Print Assumptions C09_succeeds_when_possible.

(* Special case named in the design: some shard of every configured tier has a circuit that is
   never open and replicas that accept every call => acknowledged. *)
Theorem C09_succeeds_on_healthy_shard :
  forall tries pay cin hin cord hord s log ok,
    1 <= tries ->
    Forall (Covers (length cin)) cord -> Forall (Covers (length hin)) hord ->
    (cin = [] \/ exists x, In x cin /\ healthy x = true) ->
    (hin = [] \/ exists x, In x hin /\ healthy x = true) ->
    store_documents tries pay cin hin cord hord None = (s, log, ok) -> ok = true.
Proof. exact succeeds_on_healthy_shard. Qed.
Print Assumptions C09_succeeds_on_healthy_shard.

(* Link to the correspondence run: the executable spec checker that is evaluated on the
   IMPLEMENTATION's result and log (CaseDefs.spec_ok = acknowledgement + skips + liveness) holds
   on the model's own output for every input with legal (permutation) shard orders. *)
Theorem C09_model_satisfies_spec :
  forall tries pay cin hin cord hord cancel,
    1 <= tries ->
    forallb (legal_order (length cin)) cord = true ->
    forallb (legal_order (length hin)) hord = true ->
    let '(_, log, ok) := store_documents tries pay cin hin cord hord cancel in
    spec_ok tries pay cin hin cancel ok log = true.
Proof. exact model_spec_ok. Qed.
Print Assumptions C09_model_satisfies_spec.

(* The executable acknowledgement check means exactly the Prop-level statement. *)
Theorem C09_spec_ack_meaning :
  forall pay t tin log, spec_ack pay t tin log = true <-> AckT pay t tin log.
Proof. exact spec_ack_iff. Qed.
Print Assumptions C09_spec_ack_meaning.

(* A client serves a sequence of bulks: the verdict and the log of each bulk are those of that bulk
   run alone (the write status is fresh per bulk, nothing is carried over) ... *)
Theorem C09_sequence_state_independent :
  forall tries pre b post,
    store_sequence tries (pre ++ b :: post) =
    store_sequence tries pre ++ run_bulk tries b :: store_sequence tries post.
Proof. exact sequence_independent. Qed.
Print Assumptions C09_sequence_state_independent.

(* ... hence acknowledgement is sound for EVERY bulk of EVERY sequence: a nil result means a full
   replica set per configured tier returned success for a call with THAT bulk's payload, among
   the calls made while that bulk ran *)
Theorem C09_ack_sound_sequence :
  forall tries bs i b s log,
    1 <= tries -> nth_error bs i = Some b ->
    nth_error (store_sequence tries bs) i = Some (s, log, true) ->
    AckT (bi_pay b) Cold (bi_cin b) log /\ AckT (bi_pay b) Hot (bi_hin b) log.
Proof. exact ack_sound_sequence. Qed.
Print Assumptions C09_ack_sound_sequence.

Theorem C09_fail_reported_sequence :
  forall tries bs i b s log ok,
    1 <= tries -> nth_error bs i = Some b ->
    nth_error (store_sequence tries bs) i = Some (s, log, ok) ->
    (~ FullT (cold s) \/ ~ FullT (hot s)) -> ok = false.
Proof. exact fail_reported_sequence. Qed.
Print Assumptions C09_fail_reported_sequence.

(* the per-bulk executable spec checker holds on the model for every sequence with legal orders *)
Theorem C09_model_satisfies_spec_sequence :
  forall tries bs,
    1 <= tries ->
    forallb (fun b => forallb (legal_order (length (bi_cin b))) (bi_cord b)
                      && forallb (legal_order (length (bi_hin b))) (bi_hord b)) bs = true ->
    all2 (fun b m => let '(_, log, ok) := m in
                     spec_ok tries (bi_pay b) (bi_cin b) (bi_hin b) (bi_cancel b) ok log)
         bs (store_sequence tries bs) = true.
Proof. exact model_spec_ok_sequence. Qed.
Print Assumptions C09_model_satisfies_spec_sequence.

(* ------------------------------------------------------------------ non-vacuity *)

(* why the status must not be carried over: with a status object reused dirty after a failed bulk
   (store_sequence_v0) the second bulk of v0_seq is acknowledged with only replica 1 written *)
Example C09_status_carried_over_v0_refuted :
  exists s log, nth_error (store_sequence_v0 3 v0_seq) 1 = Some (s, log, true) /\
                log = [mkVisit Hot 0 false [mkCall 1 OOk 1]] /\
                ~ AckT 1 Hot [([], [[OOk]; [OOk]])] log.
Proof. exact status_carried_over_v0_refuted. Qed.
(* the model as built (fresh status) calls both replicas for the second bulk of the same sequence *)
Example C09_status_fresh_on_same_sequence :
  exists s, nth_error (store_sequence 3 v0_seq) 1 =
            Some (s, [mkVisit Hot 0 false [mkCall 0 OOk 1; mkCall 1 OOk 1]], true).
Proof. exact status_fresh_on_same_sequence. Qed.


(* cold 1x2 + hot 2x1; replica cold/0/1 fails its first call, hot shard 1 is short-circuited on
   its first visit and hot shard 0 fails once: acknowledged in the second attempt, with a
   skipped replica (cold/0/0 is not called again) — hypotheses of ack_sound / skip are met *)
Definition ex_cin : list shard_in := [([], [[OOk]; [OErr; OOk]])].
Definition ex_hin : list shard_in := [([], [[OTimeout; OSlowOk]]); ([true], [[OOk]])].
Example C09_nonvacuous_ack :
  exists s, store_documents 3 7%N ex_cin ex_hin [[0]; [0]] [[1; 0]; [0; 1]] None =
    (s, [mkVisit Cold 0 false [mkCall 0 OOk 7; mkCall 1 OErr 7];
         mkVisit Cold 0 false [mkCall 1 OOk 7];
         mkVisit Hot 1 true [];
         mkVisit Hot 0 false [mkCall 0 OTimeout 7];
         mkVisit Hot 0 false [mkCall 0 OSlowOk 7]], true).
Proof. eexists. vm_compute. reflexivity. Qed.

(* a bulk that must fail: the only hot replica never accepts within 3 tries; hypothesis of
   fail_reported (no fully written hot shard) is met and the result is an error *)
Example C09_nonvacuous_fail :
  exists s log, store_documents 3 0%N [] [([], [[OErr; OErr; OTimeout]])] [] [] None = (s, log, false)
                /\ ~ FullT (hot s).
Proof.
  eexists. eexists. split. vm_compute. reflexivity.
  intros [H|(i & sh & Hn & Hw)]. discriminate.
  destruct i as [|[|i]]; simpl in Hn; try discriminate. inversion Hn; subst. discriminate.
Qed.

(* budget 1 (cold) + 1 (hot) = 2 < 3: acknowledged exactly in the third attempt *)
Example C09_nonvacuous_live :
  tier_bud (map mk_shard [([true], [[OOk]])]) + tier_bud (map mk_shard [([], [[OErr]])]) = 2 /\
  exists s log, store_documents 3 0%N [([true], [[OOk]])] [([], [[OErr]])] [] [] None = (s, log, true)
                /\ length log = 4.
Proof. split. reflexivity. eexists. eexists. split. vm_compute. reflexivity. reflexivity. Qed.

(* the bound of C09_succeeds_when_possible is tight: budget 3 with 3 tries fails *)
Example C09_live_bound_tight :
  tier_bud (map mk_shard []) + tier_bud (map mk_shard [([], [[OErr; OErr; OErr; OOk]])]) = 3 /\
  exists s log, store_documents 3 0%N [] [([], [[OErr; OErr; OErr; OOk]])] [] [] None = (s, log, false).
Proof. split. reflexivity. eexists. eexists. vm_compute. reflexivity. Qed.

(* the request context expires at the end of the first visit (the hot replica hung until the
   caller's deadline): the two later attempts only get context errors, the result is an error
   although the script says the replica would have accepted *)
Example C09_nonvacuous_ctx :
  exists s, store_documents 3 0%N [] [([], [[OTimeout; OOk; OOk]])] [] [] (Some 1) =
    (s, [mkVisit Hot 0 false [mkCall 0 OTimeout 0];
         mkVisit Hot 0 false [mkCall 0 OCtx 0];
         mkVisit Hot 0 false [mkCall 0 OCtx 0]], false).
Proof. eexists. vm_compute. reflexivity. Qed.

(* legal orders exist and the spec checker accepts the model on a concrete run *)
Example C09_nonvacuous_spec :
  forallb (legal_order (length ex_hin)) [[1; 0]; [0; 1]] = true /\ Covers 2 [1; 0].
Proof. split. reflexivity. intros i Hi. destruct i as [|[|i]]; simpl; auto. exfalso. inversion Hi as [|? H1]; inversion H1 as [|? H2]; inversion H2. Qed.


(* ================================================================== interleaved visits, expiry at any step
   Vocabulary (ModelIlv.v):
     reps_ilv pay d sg rs = (rs', calls, ok, accs, d')
        the callback of shard.Bulk run on the replicas rs (written bit + script each) under the
        schedule sg: a list of events EMain (the loop checks the next replica's bit and spawns or
        skips) / EStart i (the call of replica i begins: it observes the context) / EReturn i /
        ERecord i (hostErrors[i] or writtenReplicas[i] is stored, wg.Done) / EExpire (the request
        context becomes done); an event first performs the steps that must precede it, the steps left
        after sg are performed at the end (wg.Wait) — so EVERY list of events is a schedule and
        every interleaving of the goroutines is one of them.  d = context done on entry; accs =
        replicas whose STORE accepted; d' = context done afterwards.
     phases d sg rs     per replica, how its call met the context: PLive (scripted outcome), PDead
                        (began after expiry: context error, store not reached), PLate (expiry while
                        in flight: context error although the store accepted if it accepts;
                        a stub that ignores the context, OSlowOk, still returns success)
     shard_bulk_ilv     the same behind the circuit; store_documents_x: StoreDocuments on such
                        visits, one schedule per visit (sch), d0 = done before the call
     quiet d sg         the context does not change state during the visit (done on entry, or no
                        EExpire in sg) *)

(* The written bits after a visit, its call log (per replica), its verdict and the stores' accept
   log are the same for every two interleavings in which each replica's call met the context in
   the same phase: nothing else of the schedule matters (the goroutines share only the context
   and touch one cell of hostErrors / writtenReplicas each). *)
Theorem C09_visit_interleaving_independent :
  forall pay d sg1 sg2 rs,
    phases d sg1 rs = phases d sg2 rs ->
    res4 (reps_ilv pay d sg1 rs) = res4 (reps_ilv pay d sg2 rs).
Proof. exact reps_ilv_independent. Qed.
Print Assumptions C09_visit_interleaving_independent.

(* ... and what every interleaving computes is the sequential replica-order loop of Model.v on
   the scripts whose next outcome is adjusted by the call's phase. *)
Theorem C09_visit_is_sequential_on_phases :
  forall pay d sg rs,
    let '(rs', calls, ok, accs, _) := reps_ilv pay d sg rs in
    (rs', calls, ok) = send_reps pay false 0 (adj_reps (phases d sg rs) rs)
    /\ accs = accs_ph (phases d sg rs) 0 rs.
Proof. exact reps_ilv_char. Qed.
Print Assumptions C09_visit_is_sequential_on_phases.

(* Hence the sequential shard.Bulk of Model.v (used by the theorems above) is a sound
   representative: while the context does not change state, EVERY interleaving of a visit gives
   exactly its result. *)
Theorem C09_visit_sequential_model_sound :
  forall pay d sg sh, quiet d sg ->
    let '(sh', short, calls, ok, _, d') := shard_bulk_ilv pay d sg sh in
    (sh', short, calls, ok) = shard_bulk pay d sh /\ d' = d.
Proof. exact shard_bulk_ilv_quiet. Qed.
Print Assumptions C09_visit_sequential_model_sound.

(* Acknowledgement soundness with the context expiring at ANY step of ANY visit, under EVERY
   interleaving of every visit: an acknowledged bulk has, per configured tier, a shard all of
   whose replicas returned success for a call with this payload (AckT) — and all of whose replicas'
   STORES accepted it (AckS, by the stores' own logs). *)
Theorem C09_ack_sound_any_expiry :
  forall tries pay cin hin cord hord d0 sch s sch' log acs,
    1 <= tries ->
    store_documents_x tries pay cin hin cord hord d0 sch = (s, sch', log, acs, true) ->
    (AckT pay Cold cin log /\ AckT pay Hot hin log) /\
    (AckS Cold cin log acs /\ AckS Hot hin log acs).
Proof. exact ack_sound_x. Qed.
Print Assumptions C09_ack_sound_any_expiry.

(* A written bit is only ever set by a successful call to that replica whose store accepted, and
   a replica is skipped only after such a call — under every interleaving and expiry point. *)
Theorem C09_written_only_on_ok_any_expiry :
  forall tries pay cin hin cord hord d0 sch s sch' log acs ok,
    store_documents_x tries pay cin hin cord hord d0 sch = (s, sch', log, acs, ok) ->
    (forall t sd rp sh r,
      nth_error (match t with Cold => cold s | Hot => hot s end) sd = Some sh ->
      nth_error (s_reps sh) r = Some rp -> r_written rp = true ->
      HasOk pay t sd r log /\ HasAcc t sd r log acs)
    /\ SkipsOk (nr_sh (shc_of cin) (shc_of hin)) pay [] log.
Proof. exact written_only_on_ok_x. Qed.
Print Assumptions C09_written_only_on_ok_any_expiry.

(* What the code really does after expiry: it does NOT stop — the remaining shards and attempts are
   still visited and calls are still started (nobody but the replica call looks at the context,
   and the back-off is a plain sleep); but from the first visit boundary at which the context is
   done (s: any state there, n: attempts left) every call returns the context's error, no store
   accepts anything, no written bit changes — and the bulk is acknowledged only if every tier
   still to be written already had a fully written shard at that moment. *)
Theorem C09_no_ack_after_expiry_without_full_shard :
  forall n pay s sch s' sch' vs acs ok,
    dead (ctx s) = true ->
    attempts_x n pay s sch = (s', sch', vs, acs, ok) ->
    (AllCtx vs /\ NoAcc acs /\ bits (cold s') = bits (cold s) /\ bits (hot s') = bits (hot s)) /\
    (1 <= n -> ((cold_w s = false /\ ~ FullT (cold s)) \/ ~ FullT (hot s)) -> ok = false).
Proof. exact no_ack_after_expiry. Qed.
Print Assumptions C09_no_ack_after_expiry_without_full_shard.

(* Link to the correspondence run of the interleaving cases: the executable checker evaluated on
   the IMPLEMENTATION's result, log and stores' accept logs (CaseDefs.spec_ok_ilv: acknowledgement
   by returned successes AND by the stores' own logs, skips only after success, returned success
   => store accepted, after a visit in which the context expired only context errors and no
   accepts) holds on the model's own output for every input, schedule and expiry point. *)
Theorem C09_model_satisfies_spec_interleaved :
  forall tries pay cin hin cord hord d0 sch,
    1 <= tries ->
    let '(_, _, log, acs, ok) := store_documents_x tries pay cin hin cord hord d0 sch in
    spec_ok_ilv pay cin hin d0 sch ok log acs = true.
Proof. exact model_spec_ok_ilv. Qed.
Print Assumptions C09_model_satisfies_spec_interleaved.

(* ================================================================== ragged tiers (ModelFlat.v)
   The status of a tier is a FLAT array cut into windows of length R = replica count of the LAST
   shard (newBulkStores overwrites replicasCnt per shard).  visit_flat pay d w scs = one executed
   visit of a shard with scripts scs whose window is w. *)

(* the windows getShard cuts out are the rows of a matrix with R columns: disjoint, in order *)
Theorem C09_status_windows_are_rows :
  forall R ws i w,
    Forall (fun x => length x = R) ws -> nth_error ws i = Some w -> window R i (concat ws) = w.
Proof. exact window_concat. Qed.
Print Assumptions C09_status_windows_are_rows.

(* hypothesis under which the theorems above describe the code: every shard has at most as many
   replicas as the last shard of its tier (every uniform tier; replicasCnt is then the common
   count) — such a visit is exactly the matrix model's, cells beyond the shard's replicas stay
   untouched *)
Theorem C09_ragged_narrow_shard_refines_matrix :
  forall pay d scs w,
    length scs <= length w -> (w <> [] \/ scs = []) ->
    visit_flat pay d w scs =
    let '(rs', calls, ok) := send_reps pay d 0 (zipr w scs) in
    FOk (map r_written rs' ++ skipn (length scs) w) (map r_script rs') calls ok.
Proof. exact visit_flat_refines. Qed.
Print Assumptions C09_ragged_narrow_shard_refines_matrix.

Theorem C09_uniform_replicas_cnt :
  forall R hosts, hosts <> [] -> Forall (fun r => r = R) hosts -> replicas_cnt hosts = R.
Proof. exact replicas_cnt_uniform. Qed.
Print Assumptions C09_uniform_replicas_cnt.

(* outside that hypothesis: a shard WIDER than the last one makes every executed visit of it
   panic (index out of range in the loop of shard.Bulk), whatever the scripts — never an
   acknowledgement, but not a reported failure either.  Not reachable through the configuration
   (stores.NewStoresFromString builds uniform tiers), only through a hand-built stores.Stores. *)
Theorem C09_ragged_wide_shard_panics :
  forall pay d scs w,
    w <> [] -> length w < length scs -> exists calls, visit_flat pay d w scs = FPanic calls.
Proof. exact visit_flat_wide. Qed.
Print Assumptions C09_ragged_wide_shard_panics.

(* ------------------------------------------------------------------ non-vacuity of the new statements *)

(* two different interleavings (different start and return orders, one with explicit loop and
   record steps) with the same phases; the hypothesis of ..._independent is met *)
Example C09_nonvacuous_interleavings :
  let rs := [mkRep false [OOk]; mkRep true []; mkRep false [OErr; OOk]] in
  phases false [EStart 2; EStart 0; EReturn 0; EReturn 2] rs
  = phases false [EMain; EMain; EStart 0; EReturn 0; ERecord 0; EMain; EStart 2] rs
  /\ quiet false [EStart 2; EStart 0; EReturn 0; EReturn 2]
  /\ reps_ilv 7 false [EStart 2; EStart 0; EReturn 0; EReturn 2] rs
     = ([mkRep true []; mkRep true []; mkRep false [OOk]], [mkCall 0 OOk 7; mkCall 2 OErr 7], false, [0], false).
Proof. split; [reflexivity|split; [right; reflexivity|reflexivity]]. Qed.

(* accepted-but-late through the request context: the context expires while the call of replica 0
   is in flight — the store has the payload (accs = [0]), the call returns the context's error,
   the written bit stays clear; replica 1 begins after the expiry and does not reach its store *)
Example C09_accepted_but_late_by_expiry :
  reps_ilv 7 false [EStart 0; EExpire; EStart 1] [mkRep false [OOk]; mkRep false [OOk]]
  = ([mkRep false []; mkRep false []], [mkCall 0 OTimeout 7; mkCall 1 OCtx 7], false, [0], true)
  /\ phases false [EStart 0; EExpire; EStart 1] [mkRep false [OOk]; mkRep false [OOk]] = [PLate; PDead].
Proof. split; reflexivity. Qed.

(* an acknowledgement with the context expiring INSIDE the deciding visit (replica 1's stub
   ignores the context and answers success after the expiry): hypotheses of ack_sound_any_expiry *)
Example C09_nonvacuous_ack_any_expiry :
  exists s sch',
    store_documents_x 3 7%N [] [([], [[OOk]; [OSlowOk]])] [] [[0]] false [[EStart 0; EStart 1; EReturn 0; EExpire]]
    = (s, sch', [mkVisit Hot 0 false [mkCall 0 OOk 7; mkCall 1 OSlowOk 7]], [[0; 1]], true).
Proof. eexists. eexists. vm_compute. reflexivity. Qed.

(* the context expires in the first visit while replica 1 is in flight: its store accepted, the
   bulk is NOT acknowledged; the two further attempts are still made, with context errors only *)
Example C09_nonvacuous_no_ack_after_expiry :
  exists s sch',
    store_documents_x 3 7%N [] [([], [[OOk]; [OOk]])] [] [] false [[EStart 0; EStart 1; EReturn 0; EExpire]]
    = (s, sch', [mkVisit Hot 0 false [mkCall 0 OOk 7; mkCall 1 OTimeout 7];
                 mkVisit Hot 0 false [mkCall 1 OCtx 7];
                 mkVisit Hot 0 false [mkCall 1 OCtx 7]], [[0; 1]; []; []], false)
    /\ dead (ctx s) = true /\ ~ FullT (hot s).
Proof.
  eexists. eexists. split; [vm_compute; reflexivity|]. split; [reflexivity|].
  intros [H|(i & sh & Hn & Hw)]; [discriminate|].
  destruct i as [|[|i]]; simpl in Hn; try discriminate. inversion Hn; subst. discriminate.
Qed.

(* ragged: the hypotheses of the narrow-shard theorem are met by a 1-replica shard in a tier whose
   last shard has 2; a 2-replica shard in a tier whose last shard has 1 panics after calling
   replica 0; with a last shard of ZERO replicas the first successful call kills the process,
   and a visit of the zero-replica shard itself "succeeds" without any call *)
Example C09_ragged_examples :
  (length [[OOk]] <= length [false; false] /\ [false; false] <> @nil bool)
  /\ visit_flat 0 false [false; false] [[OErr]] = FOk [false; false] [[]] [mkCall 0 OErr 0] false
  /\ visit_flat 0 false [false] [[OOk]; [OOk]] = FPanic [mkCall 0 OOk 0]
  /\ visit_flat 0 false [] [[OOk]] = FCrash
  /\ visit_flat 0 false [] [[OErr]] = FOk [] [[]] [mkCall 0 OErr 0] false
  /\ (exists s, store_documents 3 0%N [] [([], [])] [] [] None = (s, [mkVisit Hot 0 false []], true)).
Proof.
  split; [split; [simpl; auto|discriminate]|]. repeat (split; [reflexivity|]).
  eexists. vm_compute. reflexivity.
Qed.
