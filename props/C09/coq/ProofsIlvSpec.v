(* C09 — the executable spec checker of the interleaving cases (CaseDefs.spec_ok_ilv) holds on the
   model's own output. *)
From Coq Require Import List Bool Arith NArith Lia.
Import ListNotations.
From VLib Require Import CaseLib.
From C09 Require Import Model ModelIlv CaseDefs Proofs ProofsLive ProofsSpec ProofsIlv ProofsIlvRun.

Lemma has_acc_of : forall t s r log acs, HasAcc t s r log acs -> has_acc t s r log acs = true.
Proof.
  intros t s r log acs (v & a & Hin & Ht & Hs & Hr). unfold has_acc. apply existsb_exists.
  exists (v, a). split; auto. unfold acc_visit; simpl.
  rewrite (proj2 (tier_eqb_eq _ _) Ht), (proj2 (Nat.eqb_eq _ _) Hs). simpl.
  apply existsb_exists. exists r. split; auto. apply Nat.eqb_refl.
Qed.

Lemma spec_acks_of : forall t tin log acs, AckS t tin log acs -> spec_acks t tin log acs = true.
Proof.
  intros t tin log acs [->|(s & x & Hn & Hr)]; [reflexivity|].
  unfold spec_acks. destruct tin as [|x0 tin0] eqn:ET; [destruct s; discriminate|]. rewrite <- ET in *.
  apply existsb_exists. exists s. split.
  - apply in_seq. assert (s < length tin) by (apply nth_error_Some; congruence). lia.
  - unfold full_shard_s. apply forallb_forall. intros r Hin. apply in_seq in Hin.
    unfold nreps in Hin. rewrite Hn in Hin. apply has_acc_of. apply Hr. lia.
Qed.

Lemma stored_ok_of : forall log acs, StoredOk log acs -> stored_ok log acs = true.
Proof.
  unfold StoredOk, stored_ok. intros log acs H. induction H as [|v a log acs Hv _ IH]; simpl; auto.
  rewrite IH, andb_true_r. apply forallb_forall. intros c Hc.
  destruct (accepted (c_out c)) eqn:E; simpl; auto.
  apply existsb_exists. exists (c_rep c). split; [apply Hv; auto|apply Nat.eqb_refl].
Qed.

Lemma run_evs_dead : forall sg d gs, fst (run_evs sg (d, gs)) = d || has_expire sg.
Proof.
  unfold run_evs. induction sg as [|e sg IH]; intros d gs; simpl; [rewrite orb_false_r; auto|].
  destruct e; simpl; rewrite IH; auto. rewrite orb_true_r. reflexivity.
Qed.

Lemma shard_bulk_ilv_dead' : forall pay d sg sh sh' short calls ok accs d',
  shard_bulk_ilv pay d sg sh = (sh', short, calls, ok, accs, d') -> d' = d || has_expire sg.
Proof.
  intros pay d sg sh sh' short calls ok accs d' H. unfold shard_bulk_ilv, reps_ilv, final_gs, drain in H.
  pose proof (run_evs_dead sg d (init_gs (s_reps sh))) as R.
  destruct (run_evs sg (d, init_gs (s_reps sh))) as [df gs]. simpl in R.
  destruct (s_open sh) as [|[|] fl]; inversion H; subst; auto.
Qed.

Lemma post_one : forall d sg v a rl ra sch,
  (d = true -> (forall c, In c (v_calls v) -> c_out c = OCtx) /\ a = []) ->
  post_expiry_ok (d || has_expire (hd [] sch)) (tl sch) rl ra = true ->
  sg = hd [] sch ->
  post_expiry_ok d sch (v :: rl) (a :: ra) = true.
Proof.
  intros d sg v a rl ra sch Hd Hp _. simpl. rewrite Hp, andb_true_r.
  destruct d; auto. destruct (Hd eq_refl) as [Hc ->]. rewrite andb_true_r.
  apply forallb_forall. intros c Hin. rewrite (Hc c Hin). reflexivity.
Qed.

Lemma send_order_x_post : forall t pay order x sch ts ts' x' sch' vs acs ok rl ra,
  send_order_x t pay order x sch ts = (ts', x', sch', vs, acs, ok) ->
  post_expiry_ok (dead x') sch' rl ra = true ->
  post_expiry_ok (dead x) sch (vs ++ rl) (acs ++ ra) = true.
Proof.
  induction order as [|i rest IH]; simpl; intros x sch ts ts' x' sch' vs acs ok rl ra H Hp.
  - inversion H; subst. exact Hp.
  - destruct (nth_error ts i) as [sh|] eqn:En.
    2:{ eapply IH; eauto. }
    destruct (shard_bulk_ilv pay (dead x) (hd [] sch) sh) as [[[[[sh' short] calls] ok0] accs] d'] eqn:Eb.
    pose proof (shard_bulk_ilv_dead' _ _ _ _ _ _ _ _ _ _ Eb) as Hd'.
    destruct (shard_bulk_ilv_spec _ _ _ _ _ _ _ _ _ _ Eb) as (_ & _ & BD).
    assert (Hone : dead x = true -> (forall c, In c calls -> c_out c = OCtx) /\ accs = []).
    { intros Hd. destruct (BD Hd) as (_ & _ & A & B & _). auto. }
    destruct ok0.
    + inversion H; subst. cbn [app].
      apply (post_one (dead x) (hd [] sch) _ _ _ _ sch); [exact Hone|exact Hp|reflexivity].
    + destruct (send_order_x t pay rest (xctx d' x) (tl sch) (update ts i sh')) as [[[[[ts'' x''] sch''] vs0] acs0] ok'] eqn:Er.
      inversion H; subst. cbn [app].
      apply (post_one (dead x) (hd [] sch) _ _ _ _ sch); [exact Hone| |reflexivity].
      apply (IH _ _ _ _ _ _ _ _ _ rl ra Er) in Hp. exact Hp.
Qed.

Lemma send_tier_x_post : forall t pay ords c sch ts ts' c' ords' sch' vs acs ok rl ra,
  send_tier_x t pay ords c sch ts = (ts', c', ords', sch', vs, acs, ok) ->
  post_expiry_ok (dead c') sch' rl ra = true ->
  post_expiry_ok (dead c) sch (vs ++ rl) (acs ++ ra) = true.
Proof.
  intros t pay ords c sch ts ts' c' ords' sch' vs acs ok rl ra H Hp. unfold send_tier_x in H.
  destruct ts as [|sh0 ts0].
  - inversion H; subst. exact Hp.
  - destruct (pop_order (length (sh0 :: ts0)) ords) as [o ords1].
    destruct (send_order_x t pay o c sch (sh0 :: ts0)) as [[[[[ts1 c1] sch1] vs1] acs1] ok1] eqn:E.
    inversion H; subst. eapply send_order_x_post; eauto.
Qed.

Lemma store_docs_x_post : forall pay s sch s' sch' vs acs ok rl ra,
  store_docs_x pay s sch = (s', sch', vs, acs, ok) ->
  post_expiry_ok (dead (ctx s')) sch' rl ra = true ->
  post_expiry_ok (dead (ctx s)) sch (vs ++ rl) (acs ++ ra) = true.
Proof.
  intros pay s sch s' sch' vs acs ok rl ra H Hp. unfold store_docs_x in H.
  destruct (cold_w s).
  - destruct (send_tier_x Hot pay (hot_ord s) (ctx s) sch (hot s)) as [[[[[[h' x'] ho'] sch1] vs1] acs1] ok1] eqn:E.
    inversion H; subst. eapply send_tier_x_post; eauto.
  - destruct (send_tier_x Cold pay (cold_ord s) (ctx s) sch (cold s)) as [[[[[[c' x'] co'] sch1] vs1] acs1] ok1] eqn:E.
    destruct ok1.
    + destruct (send_tier_x Hot pay (hot_ord s) x' sch1 (hot s)) as [[[[[[h' x''] ho'] sch2] vs2] acs2] ok2] eqn:E2.
      inversion H; subst. rewrite <- !app_assoc.
      eapply send_tier_x_post; eauto. eapply send_tier_x_post; eauto.
    + inversion H; subst. eapply send_tier_x_post; eauto.
Qed.

Lemma attempts_x_post : forall n pay s sch s' sch' vs acs ok rl ra,
  attempts_x n pay s sch = (s', sch', vs, acs, ok) ->
  post_expiry_ok (dead (ctx s')) sch' rl ra = true ->
  post_expiry_ok (dead (ctx s)) sch (vs ++ rl) (acs ++ ra) = true.
Proof.
  induction n as [|k IHk]; intros pay s sch s' sch' vs acs ok rl ra H Hp.
  - simpl in H. inversion H; subst. exact Hp.
  - rewrite attempts_x_S in H.
    destruct (store_docs_x pay s sch) as [[[[s1 sch1] vs1] acs1] ok1] eqn:E.
    destruct ok1.
    + inversion H; subst. eapply store_docs_x_post; eauto.
    + destruct k as [|k'].
      * inversion H; subst. eapply store_docs_x_post; eauto.
      * destruct (attempts_x (S k') pay s1 sch1) as [[[[s2 sch2] vs2] acs2] ok2] eqn:E2.
        inversion H; subst. rewrite <- !app_assoc.
        eapply store_docs_x_post; eauto.
Qed.

(* the executable spec of the interleaving cases holds on the model, for all inputs *)
Lemma model_spec_ok_ilv : forall tries pay cin hin cord hord d0 sch,
  1 <= tries ->
  let '(_, _, log, acs, ok) := store_documents_x tries pay cin hin cord hord d0 sch in
  spec_ok_ilv pay cin hin d0 sch ok log acs = true.
Proof.
  intros tries pay cin hin cord hord d0 sch Ht.
  destruct (store_documents_x tries pay cin hin cord hord d0 sch) as [[[[s sch'] log] acs] ok] eqn:E.
  unfold spec_ok_ilv. repeat (apply andb_true_iff; split).
  - destruct ok; auto. destruct (ack_sound_x _ _ _ _ _ _ _ _ _ _ _ _ Ht E) as [[A B] [C D]].
    rewrite (spec_ack_of _ _ _ _ A), (spec_ack_of _ _ _ _ B), (spec_acks_of _ _ _ _ C), (spec_acks_of _ _ _ _ D).
    reflexivity.
  - apply skips_ok_of. destruct (written_only_on_ok_x _ _ _ _ _ _ _ _ _ _ _ _ _ E) as [_ S]. exact S.
  - apply stored_ok_of. unfold store_documents_x in E.
    destruct (init_ok pay cin hin cord hord (if d0 then Some 0 else None)) as [HN HI].
    destruct (attempts_x_spec _ _ _ _ _ _ _ _ _ [] _ _ E HN HI) as (_ & _ & _ & _ & F). exact F.
  - unfold store_documents_x in E.
    pose proof (attempts_x_post _ _ _ _ _ _ _ _ _ [] [] E eq_refl) as P.
    rewrite !app_nil_r in P. destruct d0; exact P.
Qed.
