(* C09 — lemmas. Part 3: the executable spec checker (CaseDefs.spec_ok) holds on the model's own
   output; this links the boolean verdict evaluated on the implementation's output with the
   Prop-level theorems. *)
From Coq Require Import List Bool Arith NArith Lia.
Import ListNotations.
From VLib Require Import CaseLib.
From C09 Require Import Model CaseDefs Proofs ProofsLive.

Lemma spec_ack_of : forall pay t tin log, AckT pay t tin log -> spec_ack pay t tin log = true.
Proof.
  intros pay t tin log [->|(s & x & Hn & Hr)]; [reflexivity|].
  unfold spec_ack. destruct tin as [|x0 tin0] eqn:ET; [destruct s; discriminate|]. rewrite <- ET in *.
  apply existsb_exists. exists s. split.
  - apply in_seq. assert (s < length tin) by (apply nth_error_Some; congruence). lia.
  - unfold full_shard. apply forallb_forall. intros r Hin. apply in_seq in Hin.
    unfold nreps in Hin. rewrite Hn in Hin. apply has_ok_call_iff. apply Hr. lia.
Qed.

Lemma spec_ack_to : forall pay t tin log, spec_ack pay t tin log = true -> AckT pay t tin log.
Proof.
  intros pay t tin log H. unfold spec_ack in H. destruct tin as [|x0 tin0] eqn:ET; [left; auto|].
  rewrite <- ET in *. right. apply existsb_exists in H as (s & Hs & Hf). apply in_seq in Hs.
  destruct (nth_error tin s) as [x|] eqn:En.
  2:{ apply nth_error_None in En. lia. }
  exists s, x. split; auto. intros r Hr. apply has_ok_call_iff.
  unfold full_shard in Hf. rewrite forallb_forall in Hf. apply Hf. apply in_seq.
  unfold nreps. rewrite En. lia.
Qed.

Lemma spec_ack_iff : forall pay t tin log, spec_ack pay t tin log = true <-> AckT pay t tin log.
Proof. intros; split; [apply spec_ack_to | apply spec_ack_of]. Qed.

Lemma visit_ok_of : forall pay cin hin prior v,
  VisitOk (nr_sh (shc_of cin) (shc_of hin) (v_tier v)) pay prior v -> visit_ok pay cin hin prior v = true.
Proof.
  intros pay cin hin prior v [Hs|Hr]; unfold visit_ok.
  - rewrite Hs. reflexivity.
  - apply orb_true_iff. right. apply forallb_forall. intros r Hin. apply in_seq in Hin.
    rewrite <- nr_sh_of in Hin. destruct (Hr r) as [(c & Hc & Hrep)|Hok]; [lia| |].
    + apply orb_true_iff. left. unfold called. apply existsb_exists. exists c. split; auto.
      apply Nat.eqb_eq. auto.
    + apply orb_true_iff. right. apply has_ok_call_iff. auto.
Qed.

Lemma skips_ok_of : forall pay cin hin vs prior,
  SkipsOk (nr_sh (shc_of cin) (shc_of hin)) pay prior vs -> skips_ok pay cin hin prior vs = true.
Proof.
  induction vs as [|v rest IH]; simpl; intros prior H; auto.
  destruct H as [Hv Hr]. rewrite (visit_ok_of _ _ _ _ _ Hv). simpl. auto.
Qed.

Lemma legal_covers : forall n o, legal_order n o = true -> Covers n o.
Proof.
  intros n o H i Hi. unfold legal_order in H. apply andb_true_iff in H as [_ H].
  rewrite forallb_forall in H. specialize (H i). 
  assert (Hin : In i (seq 0 n)) by (apply in_seq; lia). apply H in Hin.
  apply existsb_exists in Hin as (x & Hx & He). apply Nat.eqb_eq in He. subst. auto.
Qed.

Lemma legal_all : forall n ords, forallb (legal_order n) ords = true -> Forall (Covers n) ords.
Proof.
  intros n ords H. apply Forall_forall. intros o Ho. apply legal_covers.
  rewrite forallb_forall in H. auto.
Qed.

(* the model's own output passes the executable spec checker, for all scripts, topologies,
   payloads and legal shard orders *)
Lemma model_spec_ok : forall tries pay cin hin cord hord cancel,
  1 <= tries ->
  forallb (legal_order (length cin)) cord = true ->
  forallb (legal_order (length hin)) hord = true ->
  let '(_, log, ok) := store_documents tries pay cin hin cord hord cancel in
  spec_ok tries pay cin hin cancel ok log = true.
Proof.
  intros tries pay cin hin cord hord cancel Ht HC HH.
  destruct (store_documents tries pay cin hin cord hord cancel) as [[s log] ok] eqn:E.
  unfold spec_ok. apply andb_true_iff. split; [apply andb_true_iff; split|].
  - destruct ok; auto. destruct (ack_sound _ _ _ _ _ _ _ _ _ Ht E) as [A B].
    rewrite (spec_ack_of _ _ _ _ A), (spec_ack_of _ _ _ _ B). reflexivity.
  - apply skips_ok_of. eapply skips_sound; eauto.
  - unfold spec_live. destruct cancel as [k|]; auto.
    destruct (tier_bud (map mk_shard cin) + tier_bud (map mk_shard hin) <? tries) eqn:EB; auto.
    apply Nat.ltb_lt in EB.
    apply (succeeds_when_possible tries pay cin hin cord hord s log ok (legal_all _ _ HC) (legal_all _ _ HH) EB E).
Qed.
