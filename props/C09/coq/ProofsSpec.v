(* C09 — lemmas. Part 3: the executable spec checker (CaseDefs.spec_ok) holds on the model's own
   output; this links the boolean verdict evaluated on the implementation's output with the
   Prop-level theorems. *)
From Coq Require Import List Bool Arith NArith Lia.
Import ListNotations.
From VLib Require Import CaseLib.
From C09 Require Import Model CaseDefs Proofs ProofsLive.

Lemma spec_ack_of : forall pay t tin log, AckT pay t tin log -> spec_ack pay t tin log = true.
Proof.
  intros pay t tin log [->|(s & x & Hn & Hr)]; [reflexivity|].
  unfold spec_ack. destruct tin as [|x0 tin0] eqn:ET; [destruct s; discriminate|]. rewrite <- ET in *.
  apply existsb_exists. exists s. split.
  - apply in_seq. assert (s < length tin) by (apply nth_error_Some; congruence). lia.
  - unfold full_shard. apply forallb_forall. intros r Hin. apply in_seq in Hin.
    unfold nreps in Hin. rewrite Hn in Hin. apply has_ok_call_iff. apply Hr. lia.
Qed.

Lemma spec_ack_to : forall pay t tin log, spec_ack pay t tin log = true -> AckT pay t tin log.
Proof.
  intros pay t tin log H. unfold spec_ack in H. destruct tin as [|x0 tin0] eqn:ET; [left; auto|].
  rewrite <- ET in *. right. apply existsb_exists in H as (s & Hs & Hf). apply in_seq in Hs.
  destruct (nth_error tin s) as [x|] eqn:En.
  2:{ apply nth_error_None in En. lia. }
  exists s, x. split; auto. intros r Hr. apply has_ok_call_iff.
  unfold full_shard in Hf. rewrite forallb_forall in Hf. apply Hf. apply in_seq.
  unfold nreps. rewrite En. lia.
Qed.

Lemma spec_ack_iff : forall pay t tin log, spec_ack pay t tin log = true <-> AckT pay t tin log.
Proof. intros; split; [apply spec_ack_to | apply spec_ack_of]. Qed.

Lemma visit_ok_of : forall pay cin hin prior v,
  VisitOk (nr_sh (shc_of cin) (shc_of hin) (v_tier v)) pay prior v -> visit_ok pay cin hin prior v = true.
Proof.
  intros pay cin hin prior v [Hs|Hr]; unfold visit_ok.
  - rewrite Hs. reflexivity.
  - apply orb_true_iff. right. apply forallb_forall. intros r Hin. apply in_seq in Hin.
    rewrite <- nr_sh_of in Hin. destruct (Hr r) as [(c & Hc & Hrep)|Hok]; [lia| |].
    + apply orb_true_iff. left. unfold called. apply existsb_exists. exists c. split; auto.
      apply Nat.eqb_eq. auto.
    + apply orb_true_iff. right. apply has_ok_call_iff. auto.
Qed.

Lemma skips_ok_of : forall pay cin hin vs prior,
  SkipsOk (nr_sh (shc_of cin) (shc_of hin)) pay prior vs -> skips_ok pay cin hin prior vs = true.
Proof.
  induction vs as [|v rest IH]; simpl; intros prior H; auto.
  destruct H as [Hv Hr]. rewrite (visit_ok_of _ _ _ _ _ Hv). simpl. auto.
Qed.

Lemma legal_covers : forall n o, legal_order n o = true -> Covers n o.
Proof.
  intros n o H i Hi. unfold legal_order in H. apply andb_true_iff in H as [_ H].
  rewrite forallb_forall in H. specialize (H i). 
  assert (Hin : In i (seq 0 n)) by (apply in_seq; lia). apply H in Hin.
  apply existsb_exists in Hin as (x & Hx & He). apply Nat.eqb_eq in He. subst. auto.
Qed.

Lemma legal_all : forall n ords, forallb (legal_order n) ords = true -> Forall (Covers n) ords.
Proof.
  intros n ords H. apply Forall_forall. intros o Ho. apply legal_covers.
  rewrite forallb_forall in H. auto.
Qed.

(* the model's own output passes the executable spec checker, for all scripts, topologies,
   payloads and legal shard orders *)
Lemma model_spec_ok : forall tries pay cin hin cord hord cancel,
  1 <= tries ->
  forallb (legal_order (length cin)) cord = true ->
  forallb (legal_order (length hin)) hord = true ->
  let '(_, log, ok) := store_documents tries pay cin hin cord hord cancel in
  spec_ok tries pay cin hin cancel ok log = true.
Proof.
  intros tries pay cin hin cord hord cancel Ht HC HH.
  destruct (store_documents tries pay cin hin cord hord cancel) as [[s log] ok] eqn:E.
  unfold spec_ok. apply andb_true_iff. split; [apply andb_true_iff; split|].
  - destruct ok; auto. destruct (ack_sound _ _ _ _ _ _ _ _ _ Ht E) as [A B].
    rewrite (spec_ack_of _ _ _ _ A), (spec_ack_of _ _ _ _ B). reflexivity.
  - apply skips_ok_of. eapply skips_sound; eauto.
  - unfold spec_live. destruct cancel as [k|]; auto.
    destruct (tier_bud (map mk_shard cin) + tier_bud (map mk_shard hin) <? tries) eqn:EB; auto.
    apply Nat.ltb_lt in EB.
    apply (succeeds_when_possible tries pay cin hin cord hord s log ok (legal_all _ _ HC) (legal_all _ _ HH) EB E).
Qed.

(* ------------------------------------------------------------------ sequences *)

Lemma sequence_independent : forall tries pre b post,
  store_sequence tries (pre ++ b :: post) =
  store_sequence tries pre ++ run_bulk tries b :: store_sequence tries post.
Proof. intros. unfold store_sequence. rewrite map_app. reflexivity. Qed.

Lemma sequence_nth : forall tries bs i b r,
  nth_error bs i = Some b -> nth_error (store_sequence tries bs) i = Some r -> r = run_bulk tries b.
Proof.
  intros tries bs i b r Hb Hr. unfold store_sequence in Hr.
  rewrite (map_nth_error (run_bulk tries) _ _ Hb) in Hr. congruence.
Qed.

Lemma ack_sound_sequence : forall tries bs i b s log,
  1 <= tries -> nth_error bs i = Some b ->
  nth_error (store_sequence tries bs) i = Some (s, log, true) ->
  AckT (bi_pay b) Cold (bi_cin b) log /\ AckT (bi_pay b) Hot (bi_hin b) log.
Proof.
  intros tries bs i b s log Ht Hb Hr. apply (sequence_nth _ _ _ _ _ Hb) in Hr.
  unfold run_bulk in Hr. symmetry in Hr. eapply ack_sound; eauto.
Qed.

Lemma fail_reported_sequence : forall tries bs i b s log ok,
  1 <= tries -> nth_error bs i = Some b ->
  nth_error (store_sequence tries bs) i = Some (s, log, ok) ->
  (~ FullT (cold s) \/ ~ FullT (hot s)) -> ok = false.
Proof.
  intros tries bs i b s log ok Ht Hb Hr. apply (sequence_nth _ _ _ _ _ Hb) in Hr.
  unfold run_bulk in Hr. symmetry in Hr. eapply fail_reported; eauto.
Qed.

Lemma model_spec_ok_sequence : forall tries bs,
  1 <= tries ->
  forallb (fun b => forallb (legal_order (length (bi_cin b))) (bi_cord b)
                    && forallb (legal_order (length (bi_hin b))) (bi_hord b)) bs = true ->
  all2 (fun b m => let '(_, log, ok) := m in
                   spec_ok tries (bi_pay b) (bi_cin b) (bi_hin b) (bi_cancel b) ok log)
       bs (store_sequence tries bs) = true.
Proof.
  intros tries bs Ht. induction bs as [|b r IH]; simpl; intros H; auto.
  apply andb_true_iff in H as [Hb Hr]. apply andb_true_iff in Hb as [HC HH].
  rewrite (IH Hr), andb_true_r.
  pose proof (model_spec_ok tries (bi_pay b) (bi_cin b) (bi_hin b) (bi_cord b) (bi_hord b) (bi_cancel b) Ht HC HH) as M.
  unfold run_bulk. destruct (store_documents tries (bi_pay b) (bi_cin b) (bi_hin b) (bi_cord b) (bi_hord b) (bi_cancel b)) as [[s log] ok].
  exact M.
Qed.

(* the variant that reuses a failed bulk's status: hot 1x2, bulk 0 — replica 0 accepts, replica 1
   is down for all three tries (fails, correctly, leaving the bit of replica 0 set); bulk 1 — both
   replicas healthy: acknowledged although replica 0 never got payload 1 *)
Definition v0_seq : list bulk_in :=
  [mkBI 0 [] [([], [[OOk]; [OErr; OErr; OErr]])] [] [] None;
   mkBI 1 [] [([], [[OOk]; [OOk]])] [] [] None].

Lemma status_carried_over_v0_refuted :
  exists s log, nth_error (store_sequence_v0 3 v0_seq) 1 = Some (s, log, true) /\
                log = [mkVisit Hot 0 false [mkCall 1 OOk 1]] /\
                ~ AckT 1 Hot [([], [[OOk]; [OOk]])] log.
Proof.
  eexists. eexists. split; [vm_compute; reflexivity|]. split; [reflexivity|].
  intros H. apply spec_ack_iff in H. vm_compute in H. discriminate.
Qed.

Lemma status_fresh_on_same_sequence :
  exists s, nth_error (store_sequence 3 v0_seq) 1 =
            Some (s, [mkVisit Hot 0 false [mkCall 0 OOk 1; mkCall 1 OOk 1]], true).
Proof. eexists. vm_compute. reflexivity. Qed.
