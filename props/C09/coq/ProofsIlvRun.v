(* C09 — lemmas about the run of StoreDocuments on interleaved visits (ModelIlv.v). Part 2. *)
From Coq Require Import List Bool Arith NArith Lia.
Import ListNotations.
From VLib Require Import CaseLib.
From C09 Require Import Model CaseDefs Proofs ModelIlv ProofsIlv.

(* every call that returned success reached a store that accepted: per visit *)
Definition StoredOk (vs : list visit) (acs : list (list nat)) : Prop :=
  Forall2 (fun v a => forall c, In c (v_calls v) -> accepted (c_out c) = true -> In (c_rep c) a) vs acs.
Definition AllCtx (vs : list visit) : Prop := forall v c, In v vs -> In c (v_calls v) -> c_out c = OCtx.
Definition NoAcc (acs : list (list nat)) : Prop := forall a, In a acs -> a = [].
Definition bits (ts : list shard) : list (list bool) := map bits_sh ts.
Definition HasFull (ts : list shard) : Prop := exists i sh, nth_error ts i = Some sh /\ all_written sh = true.

Lemma AllCtx_app : forall a b, AllCtx a -> AllCtx b -> AllCtx (a ++ b).
Proof. unfold AllCtx; intros a b Ha Hb v c Hv Hc. apply in_app_or in Hv as [Hv|Hv]; eauto. Qed.
Lemma NoAcc_app : forall a b, NoAcc a -> NoAcc b -> NoAcc (a ++ b).
Proof. unfold NoAcc; intros a b Ha Hb x Hx. apply in_app_or in Hx as [Hx|Hx]; eauto. Qed.
Lemma AllCtx_nil : AllCtx []. Proof. intros v c []. Qed.
Lemma NoAcc_nil : NoAcc []. Proof. intros a []. Qed.

Lemma bits_update : forall ts i sh sh', nth_error ts i = Some sh -> bits_sh sh' = bits_sh sh ->
  bits (update ts i sh') = bits ts.
Proof.
  unfold bits. induction ts; destruct i; simpl; intros; try discriminate.
  - inversion H; subst. congruence.
  - f_equal. eauto.
Qed.
Lemma all_written_bits : forall sh, all_written sh = forallb (fun b => b) (bits_sh sh).
Proof. intros. unfold all_written, bits_sh. induction (s_reps sh); simpl; congruence. Qed.
Lemma HasFull_bits : forall a b, bits a = bits b -> HasFull a -> HasFull b.
Proof.
  intros a b E (i & sh & Hn & Hw). unfold bits in E.
  assert (H : nth_error (map bits_sh b) i = Some (bits_sh sh)) by (rewrite <- E; apply map_nth_error; auto).
  apply nth_error_map_inv in H as (sh2 & H2 & E2). exists i, sh2. split; auto.
  rewrite all_written_bits in *. congruence.
Qed.
Lemma FullT_bits : forall a b, bits a = bits b -> FullT a -> FullT b.
Proof.
  intros a b E [->|H].
  - left. destruct b; [auto|discriminate].
  - right. eapply HasFull_bits; eauto.
Qed.

(* ------------------------------------------------------------------ send_order_x *)
Lemma send_order_x_spec : forall t pay order x sch ts ts' x' sch' vs acs ok prior nr,
  send_order_x t pay order x sch ts = (ts', x', sch', vs, acs, ok) ->
  (forall s, nr t s = nreps_st ts s) ->
  WInv pay t ts prior ->
  shape ts' = shape ts /\
  WInv pay t ts' (prior ++ vs) /\
  SkipsOk nr pay prior vs /\
  (ok = true -> HasFull ts') /\
  StoredOk vs acs.
Proof.
  induction order as [|i rest IH]; simpl; intros x sch ts ts' x' sch' vs acs ok prior nr H Hnr Hinv.
  - inversion H; subst. rewrite app_nil_r. repeat split; auto; try discriminate. constructor.
  - destruct (nth_error ts i) as [sh|] eqn:En.
    2:{ eapply IH; eauto. }
    destruct (shard_bulk_ilv pay (dead x) (hd [] sch) sh) as [[[[[sh' short] calls] ok0] accs] d'] eqn:Eb.
    destruct (shard_bulk_ilv_spec _ _ _ _ _ _ _ _ _ _ Eb) as ((BL & BW & BO & BC) & BS & _).
    set (v := mkVisit t i short calls) in *.
    assert (Hshape : shape (update ts i sh') = shape ts) by (eapply shape_update; eauto).
    assert (Hv : VisitOk (nr t) pay prior v).
    { destruct BC as [BC|BC]; [left; exact BC|]. right. simpl. intros r Hr.
      rewrite Hnr in Hr. unfold nreps_st in Hr. rewrite En in Hr.
      destruct (nth_error (s_reps sh) r) as [rp|] eqn:Er.
      2:{ apply nth_error_None in Er. lia. }
      destruct (r_written rp) eqn:Ew.
      - right. eapply Hinv; eauto.
      - left. eapply BC; eauto. }
    assert (Hinv' : WInv pay t (update ts i sh') (prior ++ [v])).
    { intros s sh1 r rp Hs Hr Hw. destruct (Nat.eq_dec i s) as [->|Hne].
      - rewrite (update_nth_same _ _ _ _ _ En) in Hs. inversion Hs; subst sh1.
        destruct (BW _ _ Hr Hw) as [(rp0 & A & B) | (c & A & B & C & D)].
        + apply HasOk_app_l. eapply Hinv; eauto.
        + apply HasOk_app_r. exists v, c. simpl. repeat split; auto.
      - rewrite update_nth_other in Hs by auto. apply HasOk_app_l. eapply Hinv; eauto. }
    destruct ok0.
    + inversion H; subst. split; [auto|]. split; [auto|]. split; [simpl; auto|]. split.
      * intros _. exists i, sh'. split; auto. eapply update_nth_same; eauto.
      * constructor; [exact BS|constructor].
    + destruct (send_order_x t pay rest (xctx d' x) (tl sch) (update ts i sh')) as [[[[[ts'' x''] sch''] vs0] acs0] ok'] eqn:Er.
      inversion H; subst.
      assert (Hnr' : forall s, nr t s = nreps_st (update ts i sh') s).
      { intros s. rewrite Hnr. rewrite !nreps_st_shape. rewrite Hshape. reflexivity. }
      destruct (IH _ _ _ _ _ _ _ _ _ _ nr Er Hnr' Hinv') as (A & B & C & D & E).
      split; [congruence|]. split; [rewrite <- app_assoc in B; exact B|].
      split; [simpl; split; auto|]. split; [exact D|]. constructor; auto.
Qed.

Lemma send_order_x_dead : forall t pay order x sch ts ts' x' sch' vs acs ok,
  send_order_x t pay order x sch ts = (ts', x', sch', vs, acs, ok) ->
  dead x = true ->
  dead x' = true /\ bits ts' = bits ts /\ AllCtx vs /\ NoAcc acs /\ (ok = true -> HasFull ts).
Proof.
  induction order as [|i rest IH]; simpl; intros x sch ts ts' x' sch' vs acs ok H Hd.
  - inversion H; subst. repeat split; auto using AllCtx_nil, NoAcc_nil. discriminate.
  - destruct (nth_error ts i) as [sh|] eqn:En.
    2:{ eapply IH; eauto. }
    destruct (shard_bulk_ilv pay (dead x) (hd [] sch) sh) as [[[[[sh' short] calls] ok0] accs] d'] eqn:Eb.
    destruct (shard_bulk_ilv_spec _ _ _ _ _ _ _ _ _ _ Eb) as (_ & _ & BD).
    destruct (BD Hd) as (D1 & D2 & D3 & D4 & D5). subst d' accs.
    assert (Hb : bits (update ts i sh') = bits ts) by (eapply bits_update; eauto).
    assert (Hc : AllCtx [mkVisit t i short calls]).
    { intros v c [<-|[]] Hc. simpl in Hc. auto. }
    assert (Ha : NoAcc [[]]) by (intros a [<-|[]]; auto).
    destruct ok0.
    + inversion H; subst. repeat split; auto. intros _. exists i, sh. auto.
    + destruct (send_order_x t pay rest (xctx true x) (tl sch) (update ts i sh')) as [[[[[ts'' x''] sch''] vs0] acs0] ok'] eqn:Er.
      inversion H; subst.
      destruct (IH _ _ _ _ _ _ _ _ _ Er eq_refl) as (A & B & C & D & E).
      split; [auto|]. split; [congruence|].
      split; [apply (AllCtx_app [_]); auto|]. split; [apply (NoAcc_app [_]); auto|].
      intros Hok. eapply HasFull_bits; eauto.
Qed.

(* ------------------------------------------------------------------ send_tier_x *)
Lemma send_tier_x_spec : forall t pay ords c sch ts ts' c' ords' sch' vs acs ok prior nr,
  send_tier_x t pay ords c sch ts = (ts', c', ords', sch', vs, acs, ok) ->
  (forall s, nr t s = nreps_st ts s) ->
  WInv pay t ts prior ->
  shape ts' = shape ts /\ WInv pay t ts' (prior ++ vs) /\ SkipsOk nr pay prior vs /\
  (ok = true -> FullT ts') /\ StoredOk vs acs.
Proof.
  intros t pay ords c sch ts ts' c' ords' sch' vs acs ok prior nr H Hnr Hinv. unfold send_tier_x in H.
  destruct ts as [|sh0 ts0].
  - inversion H; subst. rewrite app_nil_r.
    split; [auto|]. split; [auto|]. split; [simpl; auto|]. split; [intros _; left; reflexivity|constructor].
  - destruct (pop_order (length (sh0 :: ts0)) ords) as [o ords1].
    destruct (send_order_x t pay o c sch (sh0 :: ts0)) as [[[[[ts1 c1] sch1] vs1] acs1] ok1] eqn:E.
    inversion H; subst.
    destruct (send_order_x_spec _ _ _ _ _ _ _ _ _ _ _ _ prior nr E Hnr Hinv) as (A & B & C & D & F).
    split; [auto|]. split; [auto|]. split; [auto|]. split; [intros Hok; right; apply D; auto|auto].
Qed.

Lemma send_tier_x_dead : forall t pay ords c sch ts ts' c' ords' sch' vs acs ok,
  send_tier_x t pay ords c sch ts = (ts', c', ords', sch', vs, acs, ok) ->
  dead c = true ->
  dead c' = true /\ bits ts' = bits ts /\ AllCtx vs /\ NoAcc acs /\ (ok = true -> FullT ts).
Proof.
  intros t pay ords c sch ts ts' c' ords' sch' vs acs ok H Hd. unfold send_tier_x in H.
  destruct ts as [|sh0 ts0].
  - inversion H; subst. repeat split; auto using AllCtx_nil, NoAcc_nil. intros _. left. reflexivity.
  - destruct (pop_order (length (sh0 :: ts0)) ords) as [o ords1].
    destruct (send_order_x t pay o c sch (sh0 :: ts0)) as [[[[[ts1 c1] sch1] vs1] acs1] ok1] eqn:E.
    inversion H; subst.
    destruct (send_order_x_dead _ _ _ _ _ _ _ _ _ _ _ _ E Hd) as (A & B & C & D & F).
    repeat split; auto. intros Hok. right. apply F; auto.
Qed.

(* ------------------------------------------------------------------ store_docs_x / attempts_x *)
Lemma Forall2_app' : forall A B (P : A -> B -> Prop) a1 b1 a2 b2,
  Forall2 P a1 b1 -> Forall2 P a2 b2 -> Forall2 P (a1 ++ a2) (b1 ++ b2).
Proof. intros. apply Forall2_app; auto. Qed.

Lemma store_docs_x_spec : forall pay s sch s' sch' vs acs ok prior shc shh,
  store_docs_x pay s sch = (s', sch', vs, acs, ok) ->
  ShOk shc shh s -> SInv pay s prior ->
  ShOk shc shh s' /\ SInv pay s' (prior ++ vs) /\ SkipsOk (nr_sh shc shh) pay prior vs /\
  (ok = true -> cold_w s' = true /\ FullT (hot s')) /\ StoredOk vs acs.
Proof.
  intros pay s sch s' sch' vs acs ok prior shc shh H [NC NH] (IC & IH & IW). unfold store_docs_x in H.
  assert (NC' : forall i, nr_sh shc shh Cold i = nreps_st (cold s) i).
  { intros. unfold nr_sh. rewrite nreps_st_shape. congruence. }
  assert (NH' : forall i, nr_sh shc shh Hot i = nreps_st (hot s) i).
  { intros. unfold nr_sh. rewrite nreps_st_shape. congruence. }
  destruct (cold_w s) eqn:CW.
  - destruct (send_tier_x Hot pay (hot_ord s) (ctx s) sch (hot s)) as [[[[[[h' x'] ho'] sch1] vs1] acs1] ok1] eqn:E.
    inversion H; subst.
    destruct (send_tier_x_spec _ _ _ _ _ _ _ _ _ _ _ _ _ prior _ E NH' IH) as (A & B & C & D & F).
    split; [split; simpl; auto|].
    split; [split; [|split]; simpl; auto; apply WInv_app; auto|].
    split; auto.
  - destruct (send_tier_x Cold pay (cold_ord s) (ctx s) sch (cold s)) as [[[[[[c' x'] co'] sch1] vs1] acs1] ok1] eqn:E.
    destruct (send_tier_x_spec _ _ _ _ _ _ _ _ _ _ _ _ _ prior _ E NC' IC) as (A & B & C & D & F).
    destruct ok1.
    + destruct (send_tier_x Hot pay (hot_ord s) x' sch1 (hot s)) as [[[[[[h' x''] ho'] sch2] vs2] acs2] ok2] eqn:E2.
      inversion H; subst.
      assert (IH' : WInv pay Hot (hot s) (prior ++ vs1)) by (apply WInv_app; auto).
      destruct (send_tier_x_spec _ _ _ _ _ _ _ _ _ _ _ _ _ (prior ++ vs1) _ E2 NH' IH') as (A2 & B2 & C2 & D2 & F2).
      split; [split; simpl; congruence|].
      split; [split; [|split]; simpl; auto|].
      * rewrite app_assoc. apply WInv_app; auto.
      * rewrite app_assoc. auto.
      * split; [apply SkipsOk_app; auto|]. split; [intros Hok; simpl; auto|]. apply Forall2_app'; auto.
    + inversion H; subst.
      split; [split; simpl; congruence|].
      split; [split; [|split]; simpl; auto; try discriminate; apply WInv_app; auto|].
      split; auto. split; [discriminate|auto].
Qed.

Lemma store_docs_x_dead : forall pay s sch s' sch' vs acs ok,
  store_docs_x pay s sch = (s', sch', vs, acs, ok) -> dead (ctx s) = true ->
  dead (ctx s') = true /\ bits (cold s') = bits (cold s) /\ bits (hot s') = bits (hot s) /\
  AllCtx vs /\ NoAcc acs /\
  (cold_w s' = true -> cold_w s = true \/ FullT (cold s)) /\
  (ok = true -> (cold_w s = true \/ FullT (cold s)) /\ FullT (hot s)).
Proof.
  intros pay s sch s' sch' vs acs ok H Hd. unfold store_docs_x in H.
  destruct (cold_w s) eqn:CW.
  - destruct (send_tier_x Hot pay (hot_ord s) (ctx s) sch (hot s)) as [[[[[[h' x'] ho'] sch1] vs1] acs1] ok1] eqn:E.
    inversion H; subst.
    destruct (send_tier_x_dead _ _ _ _ _ _ _ _ _ _ _ _ _ E Hd) as (A & B & C & D & F).
    simpl. repeat split; auto.
  - destruct (send_tier_x Cold pay (cold_ord s) (ctx s) sch (cold s)) as [[[[[[c' x'] co'] sch1] vs1] acs1] ok1] eqn:E.
    destruct (send_tier_x_dead _ _ _ _ _ _ _ _ _ _ _ _ _ E Hd) as (A & B & C & D & F).
    destruct ok1.
    + destruct (send_tier_x Hot pay (hot_ord s) x' sch1 (hot s)) as [[[[[[h' x''] ho'] sch2] vs2] acs2] ok2] eqn:E2.
      inversion H; subst.
      destruct (send_tier_x_dead _ _ _ _ _ _ _ _ _ _ _ _ _ E2 A) as (A2 & B2 & C2 & D2 & F2).
      simpl. repeat split; auto using AllCtx_app, NoAcc_app.
    + inversion H; subst. simpl. repeat split; auto; discriminate.
Qed.

Lemma attempts_x_S : forall k pay s sch,
  attempts_x (S k) pay s sch =
  let '(s', sch', vs, acs, ok) := store_docs_x pay s sch in
  if ok then (s', sch', vs, acs, true)
  else match k with
       | 0 => (s', sch', vs, acs, false)
       | S _ => let '(s'', sch'', vs2, acs2, ok2) := attempts_x k pay s' sch' in
                (s'', sch'', vs ++ vs2, acs ++ acs2, ok2)
       end.
Proof. reflexivity. Qed.

Lemma attempts_x_spec : forall n pay s sch s' sch' vs acs ok prior shc shh,
  attempts_x n pay s sch = (s', sch', vs, acs, ok) ->
  ShOk shc shh s -> SInv pay s prior ->
  ShOk shc shh s' /\ SInv pay s' (prior ++ vs) /\ SkipsOk (nr_sh shc shh) pay prior vs /\
  (1 <= n -> ok = true -> cold_w s' = true /\ FullT (hot s')) /\ StoredOk vs acs.
Proof.
  induction n as [|k IHk]; intros pay s sch s' sch' vs acs ok prior shc shh H HN HI.
  - simpl in H. inversion H; subst. rewrite app_nil_r.
    repeat split; simpl; auto; try apply HN; try apply HI; try lia. constructor.
  - rewrite attempts_x_S in H.
    destruct (store_docs_x pay s sch) as [[[[s1 sch1] vs1] acs1] ok1] eqn:E.
    destruct (store_docs_x_spec _ _ _ _ _ _ _ _ prior _ _ E HN HI) as (A & B & C & D & F).
    destruct ok1.
    + inversion H; subst. repeat (split; auto).
    + destruct k as [|k'].
      * inversion H; subst. repeat (split; auto); try (intros; discriminate).
      * destruct (attempts_x (S k') pay s1 sch1) as [[[[s2 sch2] vs2] acs2] ok2] eqn:E2.
        inversion H; subst.
        destruct (IHk _ _ _ _ _ _ _ _ (prior ++ vs1) _ _ E2 A B) as (A2 & B2 & C2 & D2 & F2).
        split; auto. split; [rewrite app_assoc; auto|].
        split; [apply SkipsOk_app; auto|].
        split; [intros _ Hok; apply D2; auto; lia|]. apply Forall2_app'; auto.
Qed.

Lemma attempts_x_dead : forall n pay s sch s' sch' vs acs ok,
  attempts_x n pay s sch = (s', sch', vs, acs, ok) -> dead (ctx s) = true ->
  dead (ctx s') = true /\ bits (cold s') = bits (cold s) /\ bits (hot s') = bits (hot s) /\
  AllCtx vs /\ NoAcc acs /\
  (cold_w s' = true -> cold_w s = true \/ FullT (cold s)) /\
  (1 <= n -> ok = true -> (cold_w s = true \/ FullT (cold s)) /\ FullT (hot s)).
Proof.
  induction n as [|k IHk]; intros pay s sch s' sch' vs acs ok H Hd.
  - simpl in H. inversion H; subst. repeat split; auto using AllCtx_nil, NoAcc_nil; lia.
  - rewrite attempts_x_S in H.
    destruct (store_docs_x pay s sch) as [[[[s1 sch1] vs1] acs1] ok1] eqn:E.
    destruct (store_docs_x_dead _ _ _ _ _ _ _ _ E Hd) as (A & B & C & D & F & G & K).
    destruct ok1.
    + inversion H; subst. repeat split; auto; apply K; auto.
    + destruct k as [|k'].
      * inversion H; subst. repeat split; auto; intros; discriminate.
      * destruct (attempts_x (S k') pay s1 sch1) as [[[[s2 sch2] vs2] acs2] ok2] eqn:E2.
        inversion H; subst.
        destruct (IHk _ _ _ _ _ _ _ _ E2 A) as (A2 & B2 & C2 & D2 & F2 & G2 & K2).
        split; [auto|]. split; [congruence|]. split; [congruence|].
        split; [apply AllCtx_app; auto|]. split; [apply NoAcc_app; auto|].
        split.
        -- intros Hw. destruct (G2 Hw) as [Hw1|Hf]; [auto|]. right. eapply FullT_bits; eauto.
        -- intros _ Hok. destruct (K2 ltac:(lia) Hok) as [[Hw1|Hf] Hh].
           ++ split; [auto|eapply FullT_bits; eauto].
           ++ split; [right; eapply FullT_bits; eauto|eapply FullT_bits; eauto].
Qed.

(* ------------------------------------------------------------------ theorems about the run *)

(* store-side acknowledgement: a configured tier has a shard ALL of whose replicas' stores accepted *)
Definition HasAcc (t : tier) (s r : nat) (log : list visit) (acs : list (list nat)) : Prop :=
  exists v a, In (v, a) (combine log acs) /\ v_tier v = t /\ v_shard v = s /\ In r a.
Definition AckS (t : tier) (tin : list shard_in) (log : list visit) (acs : list (list nat)) : Prop :=
  tin = [] \/ exists s x, nth_error tin s = Some x /\
                          forall r, r < length (snd x) -> HasAcc t s r log acs.

Lemma Forall2_In_combine : forall A B (P : A -> B -> Prop) l l' x,
  Forall2 P l l' -> In x l -> exists y, In (x, y) (combine l l') /\ P x y.
Proof.
  intros A B P l l' x H. induction H; simpl; intros Hin; [contradiction|].
  destruct Hin as [<-|Hin]; [eauto|]. destruct (IHForall2 Hin) as (y0 & H1 & H2). eauto.
Qed.

Lemma HasOk_HasAcc : forall pay t s r log acs, StoredOk log acs -> HasOk pay t s r log -> HasAcc t s r log acs.
Proof.
  intros pay t s r log acs HS (v & c & Hv & Ht & Hs & Hc & Hr & Ha & _).
  destruct (Forall2_In_combine _ _ _ _ _ _ HS Hv) as (a & Hin & Hp).
  exists v, a. repeat split; auto. rewrite <- Hr. auto.
Qed.
Lemma AckT_AckS : forall pay t tin log acs, StoredOk log acs -> AckT pay t tin log -> AckS t tin log acs.
Proof.
  intros pay t tin log acs HS [->|(s & x & Hn & H)]; [left; auto|right].
  exists s, x. split; auto. intros r Hr. eapply HasOk_HasAcc; eauto.
Qed.

Lemma init_ok_x : forall pay cin hin cord hord cancel,
  ShOk (shc_of cin) (shc_of hin) (init_st cin hin cord hord cancel) /\ SInv pay (init_st cin hin cord hord cancel) [].
Proof. intros. apply init_ok. Qed.

(* acknowledgement soundness under EVERY interleaving of every visit and EVERY expiry point *)
Lemma ack_sound_x : forall tries pay cin hin cord hord d0 sch s sch' log acs,
  1 <= tries ->
  store_documents_x tries pay cin hin cord hord d0 sch = (s, sch', log, acs, true) ->
  (AckT pay Cold cin log /\ AckT pay Hot hin log) /\
  (AckS Cold cin log acs /\ AckS Hot hin log acs).
Proof.
  intros tries pay cin hin cord hord d0 sch s sch' log acs Ht H. unfold store_documents_x in H.
  destruct (init_ok pay cin hin cord hord (if d0 then Some 0 else None)) as [HN HI].
  destruct (attempts_x_spec _ _ _ _ _ _ _ _ _ [] _ _ H HN HI) as ([SC SH] & (BC & BH & BW) & C & D & F).
  destruct (D Ht eq_refl) as [Hcw Hh]. simpl in *.
  assert (A1 : AckT pay Cold cin log) by (eapply FullT_AckT; eauto).
  assert (A2 : AckT pay Hot hin log) by (eapply FullT_AckT; eauto).
  split; [split; auto|split; eapply AckT_AckS; eauto].
Qed.

Lemma written_only_on_ok_x : forall tries pay cin hin cord hord d0 sch s sch' log acs ok,
  store_documents_x tries pay cin hin cord hord d0 sch = (s, sch', log, acs, ok) ->
  (forall t sd rp sh r,
    nth_error (match t with Cold => cold s | Hot => hot s end) sd = Some sh ->
    nth_error (s_reps sh) r = Some rp -> r_written rp = true ->
    HasOk pay t sd r log /\ HasAcc t sd r log acs)
  /\ SkipsOk (nr_sh (shc_of cin) (shc_of hin)) pay [] log.
Proof.
  intros tries pay cin hin cord hord d0 sch s sch' log acs ok H. unfold store_documents_x in H.
  destruct (init_ok pay cin hin cord hord (if d0 then Some 0 else None)) as [HN HI].
  destruct (attempts_x_spec _ _ _ _ _ _ _ _ _ [] _ _ H HN HI) as (A & (BC & BH & BW) & C & D & F).
  simpl in *. split; auto. intros t sd rp sh r Hs Hr Hw.
  assert (HasOk pay t sd r log) by (destruct t; [eapply BC|eapply BH]; eauto).
  split; auto. eapply HasOk_HasAcc; eauto.
Qed.

(* once the context is done (at a visit boundary: all goroutines of the visit have been joined):
   no call reaches a store any more, no written bit changes, every call returns the context's
   error, and the bulk is acknowledged only if the tiers still to be written already had a fully
   written shard *)
Lemma no_ack_after_expiry : forall n pay s sch s' sch' vs acs ok,
  dead (ctx s) = true ->
  attempts_x n pay s sch = (s', sch', vs, acs, ok) ->
  (AllCtx vs /\ NoAcc acs /\ bits (cold s') = bits (cold s) /\ bits (hot s') = bits (hot s)) /\
  (1 <= n -> ((cold_w s = false /\ ~ FullT (cold s)) \/ ~ FullT (hot s)) -> ok = false).
Proof.
  intros n pay s sch s' sch' vs acs ok Hd H.
  destruct (attempts_x_dead _ _ _ _ _ _ _ _ _ H Hd) as (A & B & C & D & F & G & K).
  split; [auto|]. intros Hn Hno. destruct ok; auto.
  destruct (K Hn eq_refl) as [[Hw|Hf] Hh]; destruct Hno as [[Hw' Hnf]|Hnh]; try congruence; exfalso; auto.
Qed.
