(* C09 — ragged topologies: what newBulkStores / newBulkWriteStatus / getShard / shard.Bulk really do
   when the shards of a tier do not all have the same number of replicas.  NO proofs here.

   proxy/bulk/seqdb_client.go newBulkStores:  bs.replicasCnt = len(replicaHosts) is overwritten in
   every iteration, so it ends as the replica count R of the LAST shard (0 without shards);
   write_status.go: statuses = make([]bool, shardsCnt*R), getShard(idx) = statuses[idx*R : idx*R+R]
   — a window of length R whatever the shard's own replica count r is.  shard.Bulk then does
       for i := range s.replicas { if len(written) > 0 && written[i] {continue}; go func(){ ...
                                    else if written != nil { written[i] = true } ...
   * r <= R, R > 0: cell i < r of the window is the written bit of replica i: as the matrix model;
   * r > R > 0: the loop reads written[R] — index out of range: PANIC in the caller's goroutine,
     after the goroutines of the unwritten replicas below R were started (they still call);
   * R = 0, r > 0: the window is empty but not nil: no replica is ever skipped, and the first call
     that SUCCEEDS writes written[i] inside its goroutine — index out of range there: the PROCESS
     dies; a visit whose calls all fail just fails;
   * r = 0: no call, multierr.Combine() = nil: the visit succeeds (the tier is "stored" with
     nothing sent).
   The only production path to the constructor (cmd/seq-db -> stores.NewStoresFromString(str, n))
   builds uniform tiers with n >= 1 replicas per shard; ragged ones need a hand-built stores.Stores. *)
From Coq Require Import List Bool Arith NArith.
Import ListNotations.
From C09 Require Import Model.

Inductive fres :=
| FOk (w' : list bool) (scs' : list (list outcome)) (calls : list call) (ok : bool)
| FPanic (calls : list call)   (* StoreDocuments panics; calls = those of the goroutines already started *)
| FCrash.                      (* panic inside a replica goroutine: the process dies *)

(* replicasCnt as newBulkStores computes it *)
Definition replicas_cnt (hosts : list nat) : nat := last hosts 0.
(* getShard on the flat status array *)
Definition window (R i : nat) (flat : list bool) : list bool := firstn R (skipn (i * R) flat).

(* the loop of shard.Bulk over a non-empty window w (len(written) > 0) *)
Fixpoint flat_reps (pay : N) (d : bool) (i : nat) (w : list bool) (scs : list (list outcome)) : fres :=
  match scs with
  | [] => FOk w [] [] true
  | sc :: rest =>
      match w with
      | [] => FPanic []
      | b :: w' =>
          let r := flat_reps pay d (S i) w' rest in
          if b then match r with
                    | FOk w'' scs' calls ok => FOk (b :: w'') (sc :: scs') calls ok
                    | other => other
                    end
          else let '(o0, sc') := next_outcome sc in
               let o := eff d o0 in
               match r with
               | FOk w'' scs' calls ok => FOk (accepted o :: w'') (sc' :: scs') (mkCall i o pay :: calls) (accepted o && ok)
               | FPanic calls => FPanic (mkCall i o pay :: calls)
               | FCrash => FCrash
               end
      end
  end.

(* the same loop over the empty, non-nil window (R = 0) *)
Fixpoint flat_reps0 (pay : N) (d : bool) (i : nat) (scs : list (list outcome)) : fres :=
  match scs with
  | [] => FOk [] [] [] true
  | sc :: rest =>
      let '(o0, sc') := next_outcome sc in
      let o := eff d o0 in
      if accepted o then FCrash
      else match flat_reps0 pay d (S i) rest with
           | FOk _ scs' calls _ => FOk [] (sc' :: scs') (mkCall i o pay :: calls) false
           | other => other
           end
  end.

Definition visit_flat (pay : N) (d : bool) (w : list bool) (scs : list (list outcome)) : fres :=
  match w with [] => flat_reps0 pay d 0 scs | _ => flat_reps pay d 0 w scs end.

(* the matrix model's replicas of a shard whose written bits live in window w *)
Fixpoint zipr (w : list bool) (scs : list (list outcome)) : list rep :=
  match scs, w with
  | sc :: rest, b :: w' => mkRep b sc :: zipr w' rest
  | _, _ => []
  end.
