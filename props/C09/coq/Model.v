(* C09 — executable model of the proxy's bulk client
   (proxy/bulk/seqdb_client.go: StoreDocuments, storeDocs, sendBulkToStores, shard.Bulk;
    proxy/bulk/write_status.go: bulkWriteStatus).  NO proofs in this file.

   What is modelled
   * a tier (cold = "write stores", hot) is a list of shards, a shard a list of replicas;
   * the write-status matrix: one [r_written] bit per (tier, shard, replica), kept across
     attempts, plus the [cold_w] flag (bulkWriteStatus.coldWritten);
   * the environment is a SCRIPT carried inside the state: every replica owns the list of
     outcomes of its future Bulk calls (n-th call -> outcome; exhausted = accepted), every
     shard owns the list of circuit-breaker states of its future visits (k-th shard.Bulk ->
     open?; exhausted = closed).  A call/visit consumes the head;
   * the random shard order of util.IdxShuffle is an ORACLE: one index list per invocation of
     sendBulkToStores that has at least one shard (exhausted = identity order).  Safety
     theorems hold for every oracle whatsoever, the liveness theorem for every oracle whose
     lists cover all shard indices (which every permutation does);
   * the replicas of one shard are called in parallel in the code; the model performs the calls
     in replica order (the calls of one visit are independent: each touches only its own
     written bit and its own script), the harness sorts the observed calls of one visit;
   * the caller's request context: [cancel_at = Some k] means the context becomes done (deadline or
     cancel) when the k-th shard visit of the run ends (k = 0: already done on entry); from then
     on every replica call returns the context's error ([OCtx], never accepted) whatever its
     script says.  A call that hangs until the deadline is an [OTimeout]/[OSlowOk] call in the
     visit after which the context is done.  The retry loop of StoreDocuments and the back-off
     sleep do not look at the context (plain time.Sleep), and neither does the model;
   * a client serves a SEQUENCE of bulks (store_sequence): every bulk gets a write-status matrix that
     is all-false by construction (newBulkWriteStatus inside StoreDocuments), nothing of it is
     carried from one bulk to the next; [store_sequence_v0] is the variant with a status object
     that is reused dirty after a failed bulk (kept only to document why that is wrong);
   * the result: nil / error of StoreDocuments and the log of shard visits with their calls.
   Not modelled: back-off sleeps, metrics, error texts, the internals of the circuit library
   (when it opens); payload bytes are abstracted to an identifier. *)
From Coq Require Import List Bool Arith NArith.
Import ListNotations.

Inductive outcome :=
| OOk        (* replica accepted, answered in time *)
| OErr       (* call returned an error *)
| OSlowOk    (* replica accepted but answered after the circuit's execution deadline *)
| OTimeout   (* no answer until the deadline: the call returns the context's error *)
| OCtx.      (* the caller's context was already done: the call returns its error at once *)

Definition accepted (o : outcome) : bool :=
  match o with OOk | OSlowOk => true | OErr | OTimeout | OCtx => false end.

(* request context: done?, shard visits completed so far, the visit count at which it expires *)
Record cx := mkCx { dead : bool; nvis : nat; cancel_at : option nat }.
Definition after_visit (c : cx) : cx :=
  let n := S (nvis c) in
  mkCx (dead c || match cancel_at c with Some k => Nat.eqb k n | None => false end) n (cancel_at c).
Definition init_cx (cancel : option nat) : cx :=
  mkCx (match cancel with Some 0 => true | _ => false end) 0 cancel.
Definition eff (d : bool) (o : outcome) : outcome := if d then OCtx else o.

Inductive tier := Cold | Hot.

Record rep := mkRep { r_written : bool; r_script : list outcome }.
Record shard := mkShard { s_open : list bool; s_reps : list rep }.

Record call := mkCall { c_rep : nat; c_out : outcome; c_pay : N }.
(* one execution of shard.Bulk: short = rejected by the open circuit (no replica called) *)
Record visit := mkVisit { v_tier : tier; v_shard : nat; v_short : bool; v_calls : list call }.

Definition next_outcome (l : list outcome) : outcome * list outcome :=
  match l with [] => (OOk, []) | o :: r => (o, r) end.

(* body of shard.Bulk's callback: every replica that is not yet written gets one call; its bit
   is set iff the call returned nil; result = no call failed (multierr.Combine = nil) *)
Fixpoint send_reps (pay : N) (d : bool) (i : nat) (rs : list rep) : list rep * list call * bool :=
  match rs with
  | [] => ([], [], true)
  | r :: rest =>
      let '(rest', calls, ok) := send_reps pay d (S i) rest in
      if r_written r then (r :: rest', calls, ok)
      else let '(o0, sc) := next_outcome (r_script r) in
           let o := eff d o0 in
           (mkRep (accepted o) sc :: rest', mkCall i o pay :: calls, accepted o && ok)
  end.

(* shard.Bulk: breaker.Execute(callback) *)
Definition shard_bulk (pay : N) (d : bool) (sh : shard) : shard * bool (* short *) * list call * bool (* nil *) :=
  match s_open sh with
  | true :: fl => (mkShard fl (s_reps sh), true, [], false)
  | fl0 =>
      let '(rs', calls, ok) := send_reps pay d 0 (s_reps sh) in
      (mkShard (tl fl0) rs', false, calls, ok)
  end.

Fixpoint update {A} (l : list A) (i : nat) (x : A) : list A :=
  match l, i with
  | [], _ => []
  | _ :: r, 0 => x :: r
  | y :: r, S j => y :: update r j x
  end.

(* the loop of sendBulkToStores over the shuffled indices: stop at the first shard whose Bulk
   returns nil; fail when none did *)
Fixpoint send_order (t : tier) (pay : N) (order : list nat) (c : cx) (ts : list shard)
  : list shard * cx * list visit * bool :=
  match order with
  | [] => (ts, c, [], false)
  | i :: rest =>
      match nth_error ts i with
      | None => send_order t pay rest c ts
      | Some sh =>
          let '(sh', short, calls, ok) := shard_bulk pay (dead c) sh in
          let ts' := update ts i sh' in
          let c' := after_visit c in
          let v := mkVisit t i short calls in
          if ok then (ts', c', [v], true)
          else let '(ts'', c'', vs, ok') := send_order t pay rest c' ts' in (ts'', c'', v :: vs, ok')
      end
  end.

Definition pop_order (n : nat) (orders : list (list nat)) : list nat * list (list nat) :=
  match orders with [] => (seq 0 n, []) | o :: r => (o, r) end.

(* sendBulkToStores: no shards = nothing to do = nil *)
Definition send_tier (t : tier) (pay : N) (orders : list (list nat)) (c : cx) (ts : list shard)
  : list shard * cx * list (list nat) * list visit * bool :=
  match ts with
  | [] => (ts, c, orders, [], true)
  | _ => let '(o, orders') := pop_order (length ts) orders in
         let '(ts', c', vs, ok) := send_order t pay o c ts in (ts', c', orders', vs, ok)
  end.

Record st := mkSt {
  cold_w : bool;
  cold : list shard; hot : list shard;
  cold_ord : list (list nat); hot_ord : list (list nat);
  ctx : cx }.

(* storeDocs: cold tier first (unless already written), then hot *)
Definition store_docs (pay : N) (s : st) : st * list visit * bool :=
  if cold_w s then
    let '(h', x', ho', vs, ok) := send_tier Hot pay (hot_ord s) (ctx s) (hot s) in
    (mkSt true (cold s) h' (cold_ord s) ho' x', vs, ok)
  else
    let '(c', x', co', vs, ok) := send_tier Cold pay (cold_ord s) (ctx s) (cold s) in
    if ok then
      let '(h', x'', ho', vs2, ok2) := send_tier Hot pay (hot_ord s) x' (hot s) in
      (mkSt true c' h' co' ho' x'', vs ++ vs2, ok2)
    else (mkSt false c' (hot s) co' (hot_ord s) x', vs, false).

(* the retry loop of StoreDocuments with [n] tries left: nil as soon as one attempt succeeds,
   error when the last one failed (and nil without doing anything for n = 0, as the Go loop) *)
Fixpoint attempts (n : nat) (pay : N) (s : st) : st * list visit * bool :=
  match n with
  | 0 => (s, [], true)
  | S k =>
      let '(s', vs, ok) := store_docs pay s in
      if ok then (s', vs, true)
      else match k with
           | 0 => (s', vs, false)
           | _ => let '(s'', vs2, ok2) := attempts k pay s' in (s'', vs ++ vs2, ok2)
           end
  end.

(* input of one run: per shard the breaker script and per replica the call script *)
Definition shard_in := (list bool * list (list outcome))%type.
Definition mk_shard (x : shard_in) : shard := mkShard (fst x) (map (mkRep false) (snd x)).
Definition init_st (cin hin : list shard_in) (cord hord : list (list nat)) (cancel : option nat) : st :=
  mkSt false (map mk_shard cin) (map mk_shard hin) cord hord (init_cx cancel).

Definition store_documents (tries : nat) (pay : N) (cin hin : list shard_in)
           (cord hord : list (list nat)) (cancel : option nat) : st * list visit * bool :=
  attempts tries pay (init_st cin hin cord hord cancel).

(* ------------------------------------------------------------------ sequences of bulks on one client *)

Record bulk_in := mkBI {
  bi_pay : N; bi_cin : list shard_in; bi_hin : list shard_in;
  bi_cord : list (list nat); bi_hord : list (list nat); bi_cancel : option nat }.

Definition run_bulk (tries : nat) (b : bulk_in) : st * list visit * bool :=
  store_documents tries (bi_pay b) (bi_cin b) (bi_hin b) (bi_cord b) (bi_hord b) (bi_cancel b).

(* StoreDocuments builds a fresh status per call: the bulks of a sequence do not interact *)
Definition store_sequence (tries : nat) (bs : list bulk_in) : list (st * list visit * bool) :=
  map (run_bulk tries) bs.

(* _v0: the status object (written bits, cold_w) of a FAILED bulk is reused as it is by the next
   bulk (a pooled object that is reset only on the success path) *)
Fixpoint carry_reps (prev new : list rep) : list rep :=
  match prev, new with
  | p :: ps, n :: ns => mkRep (r_written p) (r_script n) :: carry_reps ps ns
  | _, _ => new
  end.
Fixpoint carry_tier (prev new : list shard) : list shard :=
  match prev, new with
  | p :: ps, n :: ns => mkShard (s_open n) (carry_reps (s_reps p) (s_reps n)) :: carry_tier ps ns
  | _, _ => new
  end.
Definition carry_st (prev fresh : st) : st :=
  mkSt (cold_w prev) (carry_tier (cold prev) (cold fresh)) (carry_tier (hot prev) (hot fresh))
       (cold_ord fresh) (hot_ord fresh) (ctx fresh).
Fixpoint store_sequence_v0_from (tries : nat) (dirty : option st) (bs : list bulk_in)
  : list (st * list visit * bool) :=
  match bs with
  | [] => []
  | b :: r =>
      let s0 := init_st (bi_cin b) (bi_hin b) (bi_cord b) (bi_hord b) (bi_cancel b) in
      let s1 := match dirty with Some p => carry_st p s0 | None => s0 end in
      let '(s', log, ok) := attempts tries (bi_pay b) s1 in
      (s', log, ok) :: store_sequence_v0_from tries (if ok then None else Some s') r
  end.
Definition store_sequence_v0 (tries : nat) (bs : list bulk_in) := store_sequence_v0_from tries None bs.
