(* C09 — lemmas. Part 1: safety (written bits are backed by successful calls). *)
From Coq Require Import List Bool Arith NArith Lia.
Import ListNotations.
From VLib Require Import CaseLib.
From C09 Require Import Model CaseDefs.

(* ------------------------------------------------------------------ generic list facts *)

Lemma update_length : forall A (l : list A) i x, length (update l i x) = length l.
Proof. induction l; destruct i; simpl; intros; auto. Qed.

Lemma update_nth_same : forall A (l : list A) i x y,
  nth_error l i = Some y -> nth_error (update l i x) i = Some x.
Proof. induction l; destruct i; simpl; intros; try discriminate; eauto. Qed.

Lemma update_nth_other : forall A (l : list A) i j x,
  i <> j -> nth_error (update l i x) j = nth_error l j.
Proof.
  induction l; destruct i; destruct j; simpl; intros; auto; try congruence.
Qed.

(* ------------------------------------------------------------------ Prop form of the spec *)

Definition HasOk (pay : N) (t : tier) (s r : nat) (log : list visit) : Prop :=
  exists v c, In v log /\ v_tier v = t /\ v_shard v = s /\ In c (v_calls v) /\
              c_rep c = r /\ accepted (c_out c) = true /\ c_pay c = pay.

Lemma HasOk_app_l : forall pay t s r l1 l2, HasOk pay t s r l1 -> HasOk pay t s r (l1 ++ l2).
Proof. intros pay t s r l1 l2 (v & c & H & R). exists v, c. split; auto. apply in_or_app; auto. Qed.
Lemma HasOk_app_r : forall pay t s r l1 l2, HasOk pay t s r l2 -> HasOk pay t s r (l1 ++ l2).
Proof. intros pay t s r l1 l2 (v & c & H & R). exists v, c. split; auto. apply in_or_app; auto. Qed.

Lemma tier_eqb_eq : forall a b, tier_eqb a b = true <-> a = b.
Proof. destruct a, b; simpl; split; intros; congruence. Qed.

Lemma has_ok_call_iff : forall pay t s r log, has_ok_call pay t s r log = true <-> HasOk pay t s r log.
Proof.
  intros. unfold has_ok_call, HasOk. rewrite existsb_exists. split.
  - intros (v & Hin & H). unfold ok_visit in H.
    apply andb_true_iff in H as [H H3]. apply andb_true_iff in H as [H1 H2].
    apply tier_eqb_eq in H1. apply Nat.eqb_eq in H2.
    apply existsb_exists in H3 as (c & Hc & H3). unfold ok_call in H3.
    apply andb_true_iff in H3 as [H3 H6]. apply andb_true_iff in H3 as [H4 H5].
    apply Nat.eqb_eq in H4. apply N.eqb_eq in H6.
    exists v, c. repeat split; auto.
  - intros (v & c & Hin & H1 & H2 & Hc & H4 & H5 & H6). exists v. split; auto.
    unfold ok_visit. rewrite (proj2 (tier_eqb_eq _ _) H1), (proj2 (Nat.eqb_eq _ _) H2). simpl.
    apply existsb_exists. exists c. split; auto. unfold ok_call.
    rewrite (proj2 (Nat.eqb_eq _ _) H4), H5, (proj2 (N.eqb_eq _ _) H6). reflexivity.
Qed.

(* the written bits of tier state [ts] are all backed by a successful call in [log] *)
Definition WInv (pay : N) (t : tier) (ts : list shard) (log : list visit) : Prop :=
  forall s sh r rp, nth_error ts s = Some sh -> nth_error (s_reps sh) r = Some rp ->
                    r_written rp = true -> HasOk pay t s r log.

Lemma WInv_app : forall pay t ts l1 l2, WInv pay t ts l1 -> WInv pay t ts (l1 ++ l2).
Proof. unfold WInv; intros. apply HasOk_app_l. eauto. Qed.

Definition nreps_st (ts : list shard) (s : nat) : nat :=
  match nth_error ts s with Some sh => length (s_reps sh) | None => 0 end.
Definition shape (ts : list shard) : list nat := map (fun sh => length (s_reps sh)) ts.

Lemma nreps_st_shape : forall ts s, nreps_st ts s = nth s (shape ts) 0.
Proof.
  unfold nreps_st, shape. induction ts; destruct s; simpl; auto.
Qed.

Lemma shape_update : forall ts i sh sh',
  nth_error ts i = Some sh -> length (s_reps sh') = length (s_reps sh) ->
  shape (update ts i sh') = shape ts.
Proof.
  unfold shape. induction ts; destruct i; simpl; intros; try discriminate.
  - inversion H; subst. congruence.
  - f_equal. eauto.
Qed.

(* a visit leaves a replica out only when an earlier call to it succeeded *)
Definition VisitOk (nr : nat -> nat) (pay : N) (prior : list visit) (v : visit) : Prop :=
  v_short v = true \/
  forall r, r < nr (v_shard v) ->
            (exists c, In c (v_calls v) /\ c_rep c = r) \/ HasOk pay (v_tier v) (v_shard v) r prior.

Fixpoint SkipsOk (nr : tier -> nat -> nat) (pay : N) (prior vs : list visit) : Prop :=
  match vs with
  | [] => True
  | v :: rest => VisitOk (nr (v_tier v)) pay prior v /\ SkipsOk nr pay (prior ++ [v]) rest
  end.

Lemma SkipsOk_app : forall nr pay a b prior,
  SkipsOk nr pay prior a -> SkipsOk nr pay (prior ++ a) b -> SkipsOk nr pay prior (a ++ b).
Proof.
  induction a; simpl; intros.
  - rewrite app_nil_r in H0. auto.
  - destruct H. split; auto. apply IHa; auto. rewrite <- app_assoc. simpl. auto.
Qed.

(* ------------------------------------------------------------------ send_reps *)

Lemma send_reps_spec : forall pay d rs i rs' calls ok,
  send_reps pay d i rs = (rs', calls, ok) ->
  length rs' = length rs /\
  (forall j rp', nth_error rs' j = Some rp' -> r_written rp' = true ->
      (exists rp, nth_error rs j = Some rp /\ r_written rp = true) \/
      (exists c, In c calls /\ c_rep c = i + j /\ accepted (c_out c) = true /\ c_pay c = pay)) /\
  (ok = true -> forall j rp', nth_error rs' j = Some rp' -> r_written rp' = true) /\
  (forall j rp, nth_error rs j = Some rp -> r_written rp = false ->
      exists c, In c calls /\ c_rep c = i + j).
Proof.
  induction rs as [|r rest IH]; simpl; intros i rs' calls ok H.
  - inversion H; subst. repeat split; intros; auto; destruct j; discriminate.
  - destruct (send_reps pay d (S i) rest) as [[rest' calls0] ok0] eqn:E.
    specialize (IH _ _ _ _ E). destruct IH as (IL & IW & IO & IC).
    destruct (r_written r) eqn:W.
    + inversion H; subst. repeat split.
      * simpl. congruence.
      * intros j rp' Hn Hw. destruct j; simpl in *.
        -- inversion Hn; subst. left. eauto.
        -- destruct (IW _ _ Hn Hw) as [(rp & A & B) | (c & A & B & C & D)].
           ++ left; eauto.
           ++ right. exists c. repeat split; auto; try lia.
      * intros Hok j rp' Hn. destruct j; simpl in *.
        -- inversion Hn; subst; auto.
        -- eauto.
      * intros j rp Hn Hw. destruct j; simpl in *.
        -- inversion Hn; subst. congruence.
        -- destruct (IC _ _ Hn Hw) as (c & A & B). exists c. split; auto; try lia.
    + destruct (next_outcome (r_script r)) as [o0 sc] eqn:N0. set (o := eff d o0) in *.
      inversion H; subst rs' calls ok. repeat split.
      * simpl. congruence.
      * intros j rp' Hn Hw. destruct j; simpl in *.
        -- inversion Hn; subst. simpl in Hw. right.
           exists (mkCall i o pay). simpl. repeat split; auto; try lia.
        -- destruct (IW _ _ Hn Hw) as [(rp & A & B) | (c & A & B & C & D)].
           ++ left; eauto.
           ++ right. exists c. repeat split; auto; try lia.
      * intros Hok j rp' Hn. apply andb_true_iff in Hok as [Ho Hok]. destruct j; simpl in *.
        -- inversion Hn; subst; auto.
        -- eauto.
      * intros j rp Hn Hw. destruct j; simpl in *.
        -- exists (mkCall i o pay). simpl. split; auto; try lia.
        -- destruct (IC _ _ Hn Hw) as (c & A & B). exists c. split; auto; try lia.
Qed.

(* ------------------------------------------------------------------ shard_bulk *)

Definition all_written (sh : shard) : bool := forallb r_written (s_reps sh).

Lemma all_written_nth : forall sh, all_written sh = true <->
  (forall j rp, nth_error (s_reps sh) j = Some rp -> r_written rp = true).
Proof.
  intros. unfold all_written. rewrite forallb_forall. split; intros.
  - apply H. eapply nth_error_In; eauto.
  - apply In_nth_error in H0 as [j Hj]. eauto.
Qed.

Lemma shard_bulk_spec : forall pay d sh sh' short calls ok,
  shard_bulk pay d sh = (sh', short, calls, ok) ->
  length (s_reps sh') = length (s_reps sh) /\
  (forall j rp', nth_error (s_reps sh') j = Some rp' -> r_written rp' = true ->
      (exists rp, nth_error (s_reps sh) j = Some rp /\ r_written rp = true) \/
      (exists c, In c calls /\ c_rep c = j /\ accepted (c_out c) = true /\ c_pay c = pay)) /\
  (ok = true -> all_written sh' = true) /\
  (short = true \/
   forall j rp, nth_error (s_reps sh) j = Some rp -> r_written rp = false ->
      exists c, In c calls /\ c_rep c = j).
Proof.
  intros pay d sh sh' short calls ok H. unfold shard_bulk in H.
  assert (G : forall fl0,
     (let '(rs', calls, ok) := send_reps pay d 0 (s_reps sh) in
      (mkShard (tl fl0) rs', false, calls, ok)) = (sh', short, calls, ok) ->
     length (s_reps sh') = length (s_reps sh) /\
     (forall j rp', nth_error (s_reps sh') j = Some rp' -> r_written rp' = true ->
        (exists rp, nth_error (s_reps sh) j = Some rp /\ r_written rp = true) \/
        (exists c, In c calls /\ c_rep c = j /\ accepted (c_out c) = true /\ c_pay c = pay)) /\
     (ok = true -> all_written sh' = true) /\
     (short = true \/
      forall j rp, nth_error (s_reps sh) j = Some rp -> r_written rp = false ->
        exists c, In c calls /\ c_rep c = j)).
  { intros fl0 H0. destruct (send_reps pay d 0 (s_reps sh)) as [[rs' calls0] ok0] eqn:E.
    inversion H0; subst. simpl.
    destruct (send_reps_spec _ _ _ _ _ _ _ E) as (A & B & C & D).
    split; [auto|]. split; [exact B|]. split.
    - intros Hok. apply all_written_nth. simpl. intros. eapply C; eauto.
    - right. exact D. }
  destruct (s_open sh) as [|[|] fl] eqn:EO.
  - apply (G []). exact H.
  - inversion H; subst. simpl. repeat split; auto.
    + intros j rp' Hn Hw. left. eauto.
    + discriminate.
  - apply (G (false :: fl)). exact H.
Qed.

(* ------------------------------------------------------------------ send_order *)

Definition FullT (ts : list shard) : Prop :=
  ts = [] \/ exists i sh, nth_error ts i = Some sh /\ all_written sh = true.

Lemma send_order_spec : forall t pay order x ts ts' x' vs ok prior nr,
  send_order t pay order x ts = (ts', x', vs, ok) ->
  (forall s, nr t s = nreps_st ts s) ->
  WInv pay t ts prior ->
  shape ts' = shape ts /\
  WInv pay t ts' (prior ++ vs) /\
  SkipsOk nr pay prior vs /\
  (forall v, In v vs -> v_tier v = t) /\
  (ok = true -> exists i sh, nth_error ts' i = Some sh /\ all_written sh = true).
Proof.
  induction order as [|i rest IH]; simpl; intros x ts ts' x' vs ok prior nr H Hnr Hinv.
  - inversion H; subst. rewrite app_nil_r. repeat split; auto.
    + intros v [].
    + discriminate.
  - destruct (nth_error ts i) as [sh|] eqn:En.
    2:{ eapply IH; eauto. }
    destruct (shard_bulk pay (dead x) sh) as [[[sh' short] calls] ok0] eqn:Eb.
    destruct (shard_bulk_spec _ _ _ _ _ _ _ Eb) as (BL & BW & BO & BC).
    set (v := mkVisit t i short calls) in *.
    assert (Hshape : shape (update ts i sh') = shape ts) by (eapply shape_update; eauto).
    assert (Hv : VisitOk (nr t) pay prior v).
    { destruct BC as [BC|BC]; [left; exact BC|]. right. simpl. intros r Hr.
      rewrite Hnr in Hr. unfold nreps_st in Hr. rewrite En in Hr.
      destruct (nth_error (s_reps sh) r) as [rp|] eqn:Er.
      2:{ apply nth_error_None in Er. lia. }
      destruct (r_written rp) eqn:Ew.
      - right. eapply Hinv; eauto.
      - left. eapply BC; eauto. }
    assert (Hinv' : WInv pay t (update ts i sh') (prior ++ [v])).
    { intros s sh1 r rp Hs Hr Hw. destruct (Nat.eq_dec i s) as [->|Hne].
      - rewrite (update_nth_same _ _ _ _ _ En) in Hs. inversion Hs; subst sh1.
        destruct (BW _ _ Hr Hw) as [(rp0 & A & B) | (c & A & B & C & D)].
        + apply HasOk_app_l. eapply Hinv; eauto.
        + apply HasOk_app_r. exists v, c. simpl. repeat split; auto.
      - rewrite update_nth_other in Hs by auto. apply HasOk_app_l. eapply Hinv; eauto. }
    destruct ok0.
    + inversion H; subst. split; [auto|]. split; [auto|]. split; [simpl; auto|]. split.
      * intros v0 [<-|[]]. reflexivity.
      * intros _. exists i, sh'. split; auto. eapply update_nth_same; eauto.
    + destruct (send_order t pay rest (after_visit x) (update ts i sh')) as [[[ts'' x''] vs0] ok'] eqn:Er.
      inversion H; subst.
      assert (Hnr' : forall s, nr t s = nreps_st (update ts i sh') s).
      { intros s. rewrite Hnr. rewrite !nreps_st_shape. rewrite Hshape. reflexivity. }
      destruct (IH _ _ _ _ _ _ _ nr Er Hnr' Hinv') as (A & B & C & D & E).
      split; [congruence|]. split; [rewrite <- app_assoc in B; exact B|].
      split; [simpl; split; auto|]. split.
      * intros v0 [<-|Hin]; auto.
      * exact E.
Qed.

(* ------------------------------------------------------------------ send_tier / store_docs / attempts *)

Lemma send_tier_spec : forall t pay ords c ts ts' c' ords' vs ok prior nr,
  send_tier t pay ords c ts = (ts', c', ords', vs, ok) ->
  (forall s, nr t s = nreps_st ts s) ->
  WInv pay t ts prior ->
  shape ts' = shape ts /\
  WInv pay t ts' (prior ++ vs) /\
  SkipsOk nr pay prior vs /\
  (ok = true -> FullT ts').
Proof.
  intros t pay ords c ts ts' c' ords' vs ok prior nr H Hnr Hinv. unfold send_tier in H.
  destruct ts as [|sh0 ts0].
  - inversion H; subst. rewrite app_nil_r. repeat split; auto. intros _. left. reflexivity.
  - destruct (pop_order (length (sh0 :: ts0)) ords) as [o ords1].
    destruct (send_order t pay o c (sh0 :: ts0)) as [[[ts1 c1] vs1] ok1] eqn:E.
    inversion H; subst.
    destruct (send_order_spec _ _ _ _ _ _ _ _ _ prior nr E Hnr Hinv) as (A & B & C & D & F).
    repeat split; auto. intros Hok. right. auto.
Qed.

Definition nr_sh (shc shh : list nat) (t : tier) (i : nat) : nat :=
  nth i (match t with Cold => shc | Hot => shh end) 0.
Definition ShOk (shc shh : list nat) (s : st) : Prop := shape (cold s) = shc /\ shape (hot s) = shh.

Definition SInv (pay : N) (s : st) (log : list visit) : Prop :=
  WInv pay Cold (cold s) log /\ WInv pay Hot (hot s) log /\ (cold_w s = true -> FullT (cold s)).

Lemma store_docs_spec : forall pay s s' vs ok prior shc shh,
  store_docs pay s = (s', vs, ok) ->
  ShOk shc shh s -> SInv pay s prior ->
  ShOk shc shh s' /\ SInv pay s' (prior ++ vs) /\ SkipsOk (nr_sh shc shh) pay prior vs /\
  (ok = true -> cold_w s' = true /\ FullT (hot s')).
Proof.
  intros pay s s' vs ok prior shc shh H [NC NH] (IC & IH & IW). unfold store_docs in H.
  assert (NC' : forall i, nr_sh shc shh Cold i = nreps_st (cold s) i).
  { intros. unfold nr_sh. rewrite nreps_st_shape. congruence. }
  assert (NH' : forall i, nr_sh shc shh Hot i = nreps_st (hot s) i).
  { intros. unfold nr_sh. rewrite nreps_st_shape. congruence. }
  destruct (cold_w s) eqn:CW.
  - destruct (send_tier Hot pay (hot_ord s) (ctx s) (hot s)) as [[[[h' x'] ho'] vs1] ok1] eqn:E.
    inversion H; subst.
    destruct (send_tier_spec _ _ _ _ _ _ _ _ _ _ prior _ E NH' IH) as (A & B & C & D).
    split; [split; simpl; auto|].
    split; [split; [|split]; simpl; auto; apply WInv_app; auto|].
    split; auto.
  - destruct (send_tier Cold pay (cold_ord s) (ctx s) (cold s)) as [[[[c' x'] co'] vs1] ok1] eqn:E.
    destruct (send_tier_spec _ _ _ _ _ _ _ _ _ _ prior _ E NC' IC) as (A & B & C & D).
    destruct ok1.
    + destruct (send_tier Hot pay (hot_ord s) x' (hot s)) as [[[[h' x''] ho'] vs2] ok2] eqn:E2.
      inversion H; subst.
      assert (IH' : WInv pay Hot (hot s) (prior ++ vs1)) by (apply WInv_app; auto).
      destruct (send_tier_spec _ _ _ _ _ _ _ _ _ _ (prior ++ vs1) _ E2 NH' IH') as (A2 & B2 & C2 & D2).
      split; [split; simpl; congruence|].
      split; [split; [|split]; simpl; auto|].
      * rewrite app_assoc. apply WInv_app; auto.
      * rewrite app_assoc. auto.
      * split; [apply SkipsOk_app; auto|]. intros Hok. simpl. auto.
    + inversion H; subst.
      split; [split; simpl; congruence|].
      split; [split; [|split]; simpl; auto; try discriminate; apply WInv_app; auto|].
      split; auto. discriminate.
Qed.

Lemma attempts_S : forall k pay s,
  attempts (S k) pay s =
  let '(s', vs, ok) := store_docs pay s in
  if ok then (s', vs, true)
  else match k with
       | 0 => (s', vs, false)
       | S _ => let '(s'', vs2, ok2) := attempts k pay s' in (s'', vs ++ vs2, ok2)
       end.
Proof. reflexivity. Qed.

Lemma attempts_spec : forall n pay s s' vs ok prior shc shh,
  attempts n pay s = (s', vs, ok) ->
  ShOk shc shh s -> SInv pay s prior ->
  ShOk shc shh s' /\ SInv pay s' (prior ++ vs) /\ SkipsOk (nr_sh shc shh) pay prior vs /\
  (1 <= n -> ok = true -> cold_w s' = true /\ FullT (hot s')).
Proof.
  induction n as [|k IHk]; intros pay s s' vs ok prior shc shh H HN HI.
  - simpl in H. inversion H; subst. rewrite app_nil_r. repeat split; simpl; auto; try apply HN; try apply HI; lia.
  - rewrite attempts_S in H.
    destruct (store_docs pay s) as [[s1 vs1] ok1] eqn:E.
    destruct (store_docs_spec _ _ _ _ _ prior _ _ E HN HI) as (A & B & C & D).
    destruct ok1.
    + inversion H; subst. split; auto.
    + destruct k as [|k'].
      * inversion H; subst. repeat (split; auto); try (intros; discriminate).
      * destruct (attempts (S k') pay s1) as [[s2 vs2] ok2] eqn:E2.
        inversion H; subst.
        destruct (IHk _ _ _ _ _ (prior ++ vs1) _ _ E2 A B) as (A2 & B2 & C2 & D2).
        split; auto. split; [rewrite app_assoc; auto|].
        split; [apply SkipsOk_app; auto|].
        intros _ Hok. apply D2; auto. lia.
Qed.

(* ------------------------------------------------------------------ the initial state *)

Lemma nth_error_map_inv : forall A B (f : A -> B) l n y,
  nth_error (map f l) n = Some y -> exists x, nth_error l n = Some x /\ f x = y.
Proof.
  induction l; destruct n; simpl; intros; try discriminate.
  - inversion H; eauto.
  - eauto.
Qed.

Lemma nreps_mk : forall tin s, nreps_st (map mk_shard tin) s = nreps tin s.
Proof.
  unfold nreps_st, nreps. induction tin; destruct s; simpl; auto.
  unfold mk_shard. simpl. apply map_length.
Qed.

Lemma WInv_init : forall pay t tin log, WInv pay t (map mk_shard tin) log.
Proof.
  intros pay t tin log s sh r rp Hs Hr Hw.
  apply nth_error_map_inv in Hs as (x & _ & <-). unfold mk_shard in Hr. simpl in Hr.
  apply nth_error_map_inv in Hr as (sc & _ & <-). discriminate.
Qed.

Definition shc_of (cin : list shard_in) := shape (map mk_shard cin).

Lemma init_ok : forall pay cin hin cord hord cancel,
  ShOk (shc_of cin) (shc_of hin) (init_st cin hin cord hord cancel) /\ SInv pay (init_st cin hin cord hord cancel) [].
Proof.
  intros. split; [split; reflexivity|split; [|split]]; simpl; intros; try apply WInv_init; discriminate.
Qed.

Lemma nr_sh_of : forall cin hin t i, nr_sh (shc_of cin) (shc_of hin) t i = nreps (tin_of t cin hin) i.
Proof.
  intros. unfold nr_sh, shc_of. destruct t; simpl; rewrite <- nreps_st_shape; apply nreps_mk.
Qed.

(* ------------------------------------------------------------------ safety theorems *)

(* written bit => successful call to that very replica with this payload *)
Lemma written_only_on_ok : forall tries pay cin hin cord hord cancel s log ok,
  store_documents tries pay cin hin cord hord cancel = (s, log, ok) ->
  forall t sd rp sh r,
    nth_error (match t with Cold => cold s | Hot => hot s end) sd = Some sh ->
    nth_error (s_reps sh) r = Some rp -> r_written rp = true ->
    HasOk pay t sd r log.
Proof.
  intros tries pay cin hin cord hord cancel s log ok H.
  destruct (init_ok pay cin hin cord hord cancel) as [HN HI].
  destruct (attempts_spec _ _ _ _ _ _ [] _ _ H HN HI) as (A & (BC & BH & BW) & C & D).
  simpl in *. intros t sd rp sh r Hs Hr Hw. destruct t; [eapply BC|eapply BH]; eauto.
Qed.

(* acknowledged => every configured tier holds a fully written shard (state form);
   contrapositive: no fully written shard in some configured tier => error *)
Lemma fail_reported : forall tries pay cin hin cord hord cancel s log ok,
  1 <= tries ->
  store_documents tries pay cin hin cord hord cancel = (s, log, ok) ->
  (~ FullT (cold s) \/ ~ FullT (hot s)) -> ok = false.
Proof.
  intros tries pay cin hin cord hord cancel s log ok Ht H Hno.
  destruct (init_ok pay cin hin cord hord cancel) as [HN HI].
  destruct (attempts_spec _ _ _ _ _ _ [] _ _ H HN HI) as (A & (BC & BH & BW) & C & D).
  destruct ok; auto. destruct (D Ht eq_refl) as [Hcw Hh].
  destruct Hno as [Hno|Hno]; exfalso; auto.
Qed.

(* acknowledgement in terms of the log only *)
Definition AckT (pay : N) (t : tier) (tin : list shard_in) (log : list visit) : Prop :=
  tin = [] \/ exists s x, nth_error tin s = Some x /\
                          forall r, r < length (snd x) -> HasOk pay t s r log.

Lemma FullT_AckT : forall pay t tin ts log,
  shape ts = shc_of tin -> WInv pay t ts log -> FullT ts -> AckT pay t tin log.
Proof.
  unfold shc_of. intros pay t tin ts log Hsh Hinv [->|(i & sh & Hn & Hw)].
  - destruct tin; [left; auto|discriminate].
  - right.
    assert (Hl : nreps_st ts i = nreps tin i).
    { rewrite <- nreps_mk. rewrite !nreps_st_shape. congruence. }
    unfold nreps_st in Hl. rewrite Hn in Hl. unfold nreps in Hl.
    destruct (nth_error tin i) as [x|] eqn:Ex.
    + exists i, x. split; auto. intros r Hr.
      destruct (nth_error (s_reps sh) r) as [rp|] eqn:Er.
      * eapply Hinv; eauto. eapply all_written_nth; eauto.
      * apply nth_error_None in Er. lia.
    + exfalso. assert (length ts = length (map mk_shard tin)).
      { unfold shape in Hsh. apply (f_equal (@length nat)) in Hsh. rewrite !map_length in Hsh.
        rewrite map_length. exact Hsh. }
      rewrite map_length in H. apply nth_error_None in Ex.
      assert (i < length ts) by (apply nth_error_Some; congruence). lia.
Qed.

Lemma ack_sound : forall tries pay cin hin cord hord cancel s log,
  1 <= tries ->
  store_documents tries pay cin hin cord hord cancel = (s, log, true) ->
  AckT pay Cold cin log /\ AckT pay Hot hin log.
Proof.
  intros tries pay cin hin cord hord cancel s log Ht H.
  destruct (init_ok pay cin hin cord hord cancel) as [HN HI].
  destruct (attempts_spec _ _ _ _ _ _ [] _ _ H HN HI) as ([SC SH] & (BC & BH & BW) & C & D).
  destruct (D Ht eq_refl) as [Hcw Hh]. simpl in *.
  split; eapply FullT_AckT; eauto.
Qed.

(* every visit of the model's log leaves out only replicas with an earlier successful call *)
Lemma skips_sound : forall tries pay cin hin cord hord cancel s log ok,
  store_documents tries pay cin hin cord hord cancel = (s, log, ok) ->
  SkipsOk (nr_sh (shc_of cin) (shc_of hin)) pay [] log.
Proof.
  intros tries pay cin hin cord hord cancel s log ok H.
  destruct (init_ok pay cin hin cord hord cancel) as [HN HI].
  destruct (attempts_spec _ _ _ _ _ _ [] _ _ H HN HI) as (A & B & C & D). exact C.
Qed.
