(* C09 — shape of the generated cases and the two executable verdicts. No proofs. *)
From VLib Require Import CaseLib.
From C09 Require Import Model ModelIlv ModelFlat.

Definition outcome_eqb (a b : outcome) : bool :=
  match a, b with
  | OOk, OOk | OErr, OErr | OSlowOk, OSlowOk | OTimeout, OTimeout | OCtx, OCtx => true
  | _, _ => false
  end.
Definition tier_eqb (a b : tier) : bool :=
  match a, b with Cold, Cold | Hot, Hot => true | _, _ => false end.
Definition call_eqb (a b : call) : bool :=
  Nat.eqb (c_rep a) (c_rep b) && outcome_eqb (c_out a) (c_out b) && N.eqb (c_pay a) (c_pay b).
Definition visit_eqb (a b : visit) : bool :=
  tier_eqb (v_tier a) (v_tier b) && Nat.eqb (v_shard a) (v_shard b)
  && Bool.eqb (v_short a) (v_short b) && list_eqb call_eqb (v_calls a) (v_calls b).

(* ------------------------------------------------------------------ the specification,
   stated on what can be observed from outside: the scripts (input), the result of
   StoreDocuments and the log of shard visits / replica calls.  It does not refer to the
   model's algorithm or state. *)

(* replica r of shard s of tier t returned success for a call carrying payload [pay] *)
Definition ok_call (pay : N) (r : nat) (c : call) : bool :=
  Nat.eqb (c_rep c) r && accepted (c_out c) && N.eqb (c_pay c) pay.
Definition ok_visit (pay : N) (t : tier) (s r : nat) (v : visit) : bool :=
  tier_eqb (v_tier v) t && Nat.eqb (v_shard v) s && existsb (ok_call pay r) (v_calls v).
Definition has_ok_call (pay : N) (t : tier) (s r : nat) (log : list visit) : bool :=
  existsb (ok_visit pay t s r) log.

(* number of replicas of shard s *)
Definition nreps (tin : list shard_in) (s : nat) : nat :=
  match nth_error tin s with Some x => length (snd x) | None => 0 end.

(* (A) acknowledgement: a configured tier has a shard ALL of whose replicas accepted the payload *)
Definition full_shard (pay : N) (t : tier) (tin : list shard_in) (log : list visit) (s : nat) : bool :=
  forallb (fun r => has_ok_call pay t s r log) (seq 0 (nreps tin s)).
Definition spec_ack (pay : N) (t : tier) (tin : list shard_in) (log : list visit) : bool :=
  match tin with
  | [] => true
  | _ => existsb (full_shard pay t tin log) (seq 0 (length tin))
  end.

(* (B) a replica is left out of a shard visit only on the basis of an EARLIER successful call
   to that very replica (never a failed, skipped or short-circuited one) *)
Definition tin_of (t : tier) (cin hin : list shard_in) := match t with Cold => cin | Hot => hin end.
Definition called (r : nat) (v : visit) : bool := existsb (fun c => Nat.eqb (c_rep c) r) (v_calls v).
Definition visit_ok (pay : N) (cin hin : list shard_in) (prior : list visit) (v : visit) : bool :=
  v_short v ||
  forallb (fun r => called r v || has_ok_call pay (v_tier v) (v_shard v) r prior)
          (seq 0 (nreps (tin_of (v_tier v) cin hin) (v_shard v))).
Fixpoint skips_ok (pay : N) (cin hin : list shard_in) (prior vs : list visit) : bool :=
  match vs with
  | [] => true
  | v :: rest => visit_ok pay cin hin prior v && skips_ok pay cin hin (prior ++ [v]) rest
  end.

(* (C) the retries are really used: the "budget" of a shard is the number of its visits that can
   still fail (scripted open-circuit states + the position of the last non-accepting outcome
   among its unwritten replicas); if every configured tier has a shard and the budgets of the
   best shards sum to less than the number of tries, the bulk must be acknowledged *)
Fixpoint lastbad (l : list outcome) : nat :=
  match l with
  | [] => 0
  | o :: r => match lastbad r with
              | 0 => if accepted o then 0 else 1
              | S k => S (S k)
              end
  end.
Definition rep_bud (r : rep) : nat := if r_written r then 0 else lastbad (r_script r).
Definition count_true (l : list bool) : nat := length (filter (fun b => b) l).
Definition shard_bud (sh : shard) : nat :=
  count_true (s_open sh) + fold_right Nat.max 0 (map rep_bud (s_reps sh)).
Definition tier_bud (ts : list shard) : nat :=
  match ts with
  | [] => 0
  | sh :: r => fold_right Nat.min (shard_bud sh) (map shard_bud r)
  end.
Definition spec_live (tries : nat) (cin hin : list shard_in) (cancel : option nat) (ok : bool) : bool :=
  match cancel with
  | Some _ => true   (* the request context expired: no acknowledgement is owed *)
  | None => if tier_bud (map mk_shard cin) + tier_bud (map mk_shard hin) <? tries then ok else true
  end.

Definition spec_ok (tries : nat) (pay : N) (cin hin : list shard_in) (cancel : option nat) (ok : bool) (log : list visit) : bool :=
  (if ok then spec_ack pay Cold cin log && spec_ack pay Hot hin log else true)
  && skips_ok pay cin hin [] log
  && spec_live tries cin hin cancel ok.

(* ------------------------------------------------------------------ cases *)

(* the payload handed to StoreDocuments has identifier 0; the harness reports 0 for a call that
   carried exactly these bytes and count, another number otherwise *)
Definition the_pay : N := 0%N.

Record bulk_obs := mkB {
  b_pay : N; b_cin : list shard_in; b_hin : list shard_in;
  b_cord : list (list nat); b_hord : list (list nat); b_cancel : option nat;
  b_ok : bool; b_log : list visit }.
Definition obs_in (b : bulk_obs) : bulk_in :=
  mkBI (b_pay b) (b_cin b) (b_hin b) (b_cord b) (b_hord b) (b_cancel b).

Inductive case :=
(* tries = consts.BulkMaxTries; cin/hin = scripts of the long-term / hot tier; cord/hord = the
   shard orders the implementation was observed to use, one per sendBulkToStores invocation
   (completed to a permutation by the harness); cancel = Some k when the caller's context was
   made done at the end of the k-th shard visit (0 = before the call); impl_ok = (StoreDocuments returned nil);
   impl_log = observed shard visits with the calls of each (sorted by replica) *)
| CBulk (tries : nat) (cin hin : list shard_in) (cord hord : list (list nat)) (cancel : option nat)
        (impl_ok : bool) (impl_log : list visit)
(* a sequence of bulks on ONE client object: for every bulk its payload identifier, scripts,
   observed orders / context expiry, result and the visits logged while it ran (a call's payload
   identifier is that of the bulk whose bytes it carried) *)
| CSeq (tries : nat) (bs : list bulk_obs)
(* one bulk on gated replicas: d0 = the request context was done on entry; sch = per shard visit
   (short-circuited ones included) the schedule the harness OBSERVED: which replica call began
   (looked at the context) / returned when, and where the context was cancelled (an EExpire at
   the end of a visit's schedule = at the visit boundary / in the back-off after it); impl_acs =
   per visit, the replicas whose STORE accepted this bulk's payload (the fakes' own accept logs,
   ascending; 100 + r = replica r accepted other bytes) *)
| CIlv (tries : nat) (cin hin : list shard_in) (cord hord : list (list nat)) (d0 : bool)
       (sch : list (list ev)) (impl_ok : bool) (impl_log : list visit) (impl_acs : list (list nat))
(* a ragged tier with a shard that has more replicas than the last one: verdict 0 = nil,
   1 = error, 2 = StoreDocuments panicked (index out of range); the log ends with the calls of the
   goroutines started before the panic *)
| CRagged (tries : nat) (cin hin : list shard_in) (cord hord : list (list nat))
          (impl_verdict : nat) (impl_log : list visit).

(* an order is legal iff it is a permutation of 0..n-1 *)
Definition legal_order (n : nat) (o : list nat) : bool :=
  Nat.eqb (length o) n && forallb (fun i => existsb (Nat.eqb i) o) (seq 0 n).

(* model output = implementation output, for the observed (legal) shard orders, all consumed *)
Definition bulk_agrees (b : bulk_obs) (m : st * list visit * bool) : bool :=
  let '(s, log, ok) := m in
  forallb (legal_order (length (b_cin b))) (b_cord b) && forallb (legal_order (length (b_hin b))) (b_hord b)
  && Bool.eqb ok (b_ok b) && list_eqb visit_eqb log (b_log b)
  && match cold_ord s, hot_ord s with [], [] => true | _, _ => false end.
Fixpoint all2 {A B} (f : A -> B -> bool) (a : list A) (b : list B) : bool :=
  match a, b with
  | [], [] => true
  | x :: a', y :: b' => f x y && all2 f a' b'
  | _, _ => false
  end.

(* ---- interleaved visits: store-side view and the rules about an expired context *)
Definition acc_visit (t : tier) (s r : nat) (va : visit * list nat) : bool :=
  tier_eqb (v_tier (fst va)) t && Nat.eqb (v_shard (fst va)) s && existsb (Nat.eqb r) (snd va).
Definition has_acc (t : tier) (s r : nat) (log : list visit) (acs : list (list nat)) : bool :=
  existsb (acc_visit t s r) (combine log acs).
Definition full_shard_s (t : tier) (tin : list shard_in) (log : list visit) (acs : list (list nat)) (s : nat) : bool :=
  forallb (fun r => has_acc t s r log acs) (seq 0 (nreps tin s)).
(* (A') acknowledgement by the stores' own logs: a configured tier has a shard ALL of whose
   replicas' stores accepted the payload *)
Definition spec_acks (t : tier) (tin : list shard_in) (log : list visit) (acs : list (list nat)) : bool :=
  match tin with
  | [] => true
  | _ => existsb (full_shard_s t tin log acs) (seq 0 (length tin))
  end.
(* (D) a call that returned success reached a store that accepted *)
Definition stored_ok (log : list visit) (acs : list (list nat)) : bool :=
  all2 (fun v a => forallb (fun c => negb (accepted (c_out c)) || existsb (Nat.eqb (c_rep c)) a) (v_calls v)) log acs.
(* (E) in every visit that begins after the context became done, every call returns the
   context's error and no store accepts anything *)
Fixpoint post_expiry_ok (d : bool) (sch : list (list ev)) (log : list visit) (acs : list (list nat)) : bool :=
  match log, acs with
  | [], [] => true
  | v :: log', a :: acs' =>
      (if d then forallb (fun c => outcome_eqb (c_out c) OCtx) (v_calls v) && match a with [] => true | _ => false end
       else true)
      && post_expiry_ok (d || has_expire (hd [] sch)) (tl sch) log' acs'
  | _, _ => false
  end.
Definition spec_ok_ilv (pay : N) (cin hin : list shard_in) (d0 : bool) (sch : list (list ev))
           (ok : bool) (log : list visit) (acs : list (list nat)) : bool :=
  (if ok then spec_ack pay Cold cin log && spec_ack pay Hot hin log
              && spec_acks Cold cin log acs && spec_acks Hot hin log acs else true)
  && skips_ok pay cin hin [] log
  && stored_ok log acs
  && post_expiry_ok d0 sch log acs.

(* ---- ragged tiers: the run of the matrix model, cut at the first executed visit of a shard that
   is wider than its tier's status window (ModelFlat.v: that visit panics after starting the
   goroutines of the replicas below the window length) *)
Definition tier_R (tin : list shard_in) : nat := replicas_cnt (map (fun x => length (snd x)) tin).
Definition wide_shard (R : nat) (tin : list shard_in) (s : nat) : bool := (0 <? R) && (R <? nreps tin s).
Fixpoint cut_log (cin hin : list shard_in) (log : list visit) : list visit * bool :=
  match log with
  | [] => ([], false)
  | v :: rest =>
      let tin := tin_of (v_tier v) cin hin in
      let R := tier_R tin in
      if negb (v_short v) && wide_shard R tin (v_shard v)
      then ([mkVisit (v_tier v) (v_shard v) false (filter (fun c => c_rep c <? R) (v_calls v))], true)
      else let '(l, p) := cut_log cin hin rest in (v :: l, p)
  end.

Definition case_agrees (c : case) : bool :=
  match c with
  | CIlv tries cin hin cord hord d0 sch impl_ok impl_log impl_acs =>
      let '(s, _, log, acs, ok) := store_documents_x tries the_pay cin hin cord hord d0 sch in
      forallb (legal_order (length cin)) cord && forallb (legal_order (length hin)) hord
      && Bool.eqb ok impl_ok && list_eqb visit_eqb log impl_log
      && list_eqb (list_eqb Nat.eqb) acs impl_acs
      && match cold_ord s, hot_ord s with [], [] => true | _, _ => false end
  | CRagged tries cin hin cord hord impl_verdict impl_log =>
      let '(s, log, ok) := store_documents tries the_pay cin hin cord hord None in
      let '(clog, p) := cut_log cin hin log in
      forallb (legal_order (length cin)) cord && forallb (legal_order (length hin)) hord
      && ((* the code as it is *)
          (Nat.eqb impl_verdict (if p then 2 else if ok then 0 else 1) && list_eqb visit_eqb clog impl_log)
          (* or a client whose status really is a matrix (the latent panic repaired) *)
          || (Nat.eqb impl_verdict (if ok then 0 else 1) && list_eqb visit_eqb log impl_log))
  | CSeq tries bs => all2 bulk_agrees bs (store_sequence tries (map obs_in bs))
  | CBulk tries cin hin cord hord cancel impl_ok impl_log =>
      let '(s, log, ok) := store_documents tries the_pay cin hin cord hord cancel in
      forallb (legal_order (length cin)) cord && forallb (legal_order (length hin)) hord
      && Bool.eqb ok impl_ok && list_eqb visit_eqb log impl_log
      && match cold_ord s, hot_ord s with [], [] => true | _, _ => false end
  end.

(* implementation output satisfies the property (independent of the model's algorithm) *)
Definition case_spec_ok (c : case) : bool :=
  match c with
  | CIlv tries cin hin _ _ d0 sch impl_ok impl_log impl_acs =>
      spec_ok_ilv the_pay cin hin d0 sch impl_ok impl_log impl_acs
  | CRagged tries cin hin _ _ impl_verdict impl_log =>
      (* a panic is outside the property (its quantifier is over uniform tiers): nothing is
         acknowledged; it is compared with ModelFlat's prediction only *)
      match impl_verdict with
      | 0 => spec_ack the_pay Cold cin impl_log && spec_ack the_pay Hot hin impl_log && skips_ok the_pay cin hin [] impl_log
      | 1 => skips_ok the_pay cin hin [] impl_log
      | _ => true
      end
  | CSeq tries bs =>
      forallb (fun b => spec_ok tries (b_pay b) (b_cin b) (b_hin b) (b_cancel b) (b_ok b) (b_log b)) bs
  | CBulk tries cin hin _ _ cancel impl_ok impl_log => spec_ok tries the_pay cin hin cancel impl_ok impl_log
  end.

Definition diff_indices (l : list case) : list nat := bad_indices (fun c => negb (case_agrees c)) l.
Definition specfail_indices (l : list case) : list nat := bad_indices (fun c => negb (case_spec_ok c)) l.
