(* C09 — lemmas. Part 2: the retries are really used (budget / potential argument). *)
From Coq Require Import List Bool Arith NArith Lia.
Import ListNotations.
From VLib Require Import CaseLib.
From C09 Require Import Model CaseDefs Proofs.

Definition maxbud (rs : list rep) : nat := fold_right Nat.max 0 (map rep_bud rs).

Lemma lastbad_cons : forall o sc,
  (accepted o = true -> lastbad (o :: sc) = match lastbad sc with 0 => 0 | S k => S (S k) end) /\
  (accepted o = false -> lastbad (o :: sc) = S (lastbad sc)).
Proof. intros. simpl. destruct (lastbad sc), (accepted o); split; intros; congruence. Qed.

Lemma maxbud_cons : forall r rs, maxbud (r :: rs) = Nat.max (rep_bud r) (maxbud rs).
Proof. reflexivity. Qed.

Lemma send_reps_bud : forall pay rs i rs' calls ok,
  send_reps pay false i rs = (rs', calls, ok) ->
  (maxbud rs' = 0 \/ S (maxbud rs') <= maxbud rs) /\ (ok = false -> 1 <= maxbud rs).
Proof.
  induction rs as [|r rest IH]; intros i rs' calls ok H.
  - simpl in H. inversion H; subst. simpl. split; [left; reflexivity|discriminate].
  - simpl in H. destruct (send_reps pay false (S i) rest) as [[rest' calls0] ok0] eqn:E.
    destruct (IH _ _ _ _ E) as [IA IB].
    destruct (r_written r) eqn:W.
    + inversion H; subst. rewrite !maxbud_cons.
      assert (R0 : rep_bud r = 0) by (unfold rep_bud; rewrite W; reflexivity).
      rewrite R0. simpl. split; auto.
    + destruct (next_outcome (r_script r)) as [o sc] eqn:N0. unfold eff in H. inversion H; subst.
      rewrite !maxbud_cons.
      assert (R1 : rep_bud r = lastbad (r_script r)) by (unfold rep_bud; rewrite W; reflexivity).
      assert (R2 : rep_bud (mkRep (accepted o) sc) = if accepted o then 0 else lastbad sc)
        by reflexivity.
      rewrite R1, R2. clear R1 R2.
      unfold next_outcome in N0. destruct (r_script r) as [|o1 sc1] eqn:ES.
      * inversion N0; subst. simpl. split; [lia|]. intros Hf. apply IB in Hf. lia.
      * inversion N0; subst. destruct (lastbad_cons o sc) as [LA LB].
        destruct (accepted o) eqn:EA.
        -- rewrite (LA eq_refl). simpl andb. split; [|intros Hf; apply IB in Hf; lia].
           destruct (lastbad sc); lia.
        -- rewrite (LB eq_refl). split; [lia|intros _; lia].
Qed.

Lemma count_true_tl : forall fl0,
  match fl0 with true :: _ => False | _ => True end -> count_true (tl fl0) = count_true fl0.
Proof. destruct fl0 as [|[|] fl]; simpl; intros; auto. contradiction. Qed.

Lemma shard_bulk_bud : forall pay sh sh' short calls ok,
  shard_bulk pay false sh = (sh', short, calls, ok) ->
  shard_bud sh' <= shard_bud sh /\ (ok = false -> S (shard_bud sh') <= shard_bud sh).
Proof.
  intros pay sh sh' short calls ok H. unfold shard_bulk in H.
  assert (G : forall fl0, s_open sh = fl0 -> match fl0 with true :: _ => False | _ => True end ->
     (let '(rs', calls, ok) := send_reps pay false 0 (s_reps sh) in
      (mkShard (tl fl0) rs', false, calls, ok)) = (sh', short, calls, ok) ->
     shard_bud sh' <= shard_bud sh /\ (ok = false -> S (shard_bud sh') <= shard_bud sh)).
  { intros fl0 EO Hfl H0. destruct (send_reps pay false 0 (s_reps sh)) as [[rs' calls0] ok0] eqn:E.
    inversion H0; subst. destruct (send_reps_bud _ _ _ _ _ _ E) as [A B].
    unfold shard_bud. simpl. rewrite (count_true_tl _ Hfl). fold (maxbud rs'). fold (maxbud (s_reps sh)).
    split; [lia|]. intros Hf. apply B in Hf. lia. }
  destruct (s_open sh) as [|[|] fl] eqn:EO.
  - apply (G []); simpl; auto.
  - inversion H; subst. unfold shard_bud. simpl. rewrite EO. unfold count_true. simpl.
    split; [lia|intros _; lia].
  - apply (G (false :: fl)); simpl; auto.
Qed.

Definition bud_at (ts : list shard) (g : nat) : nat :=
  match nth_error ts g with Some sh => shard_bud sh | None => 0 end.

Lemma bud_at_update_same : forall ts i sh sh',
  nth_error ts i = Some sh -> bud_at (update ts i sh') i = shard_bud sh'.
Proof. intros. unfold bud_at. erewrite update_nth_same; eauto. Qed.
Lemma bud_at_update_other : forall ts i g sh', i <> g -> bud_at (update ts i sh') g = bud_at ts g.
Proof. intros. unfold bud_at. rewrite update_nth_other; auto. Qed.

Definition Alive (x : cx) : Prop := dead x = false /\ cancel_at x = None.
Lemma Alive_after : forall x, Alive x -> Alive (after_visit x).
Proof. intros x [A B]. unfold Alive, after_visit. simpl. rewrite A, B. auto. Qed.

Lemma send_order_bud : forall t pay order x ts ts' x' vs ok,
  send_order t pay order x ts = (ts', x', vs, ok) -> Alive x ->
  Alive x' /\ length ts' = length ts /\
  (forall g, bud_at ts' g <= bud_at ts g) /\
  (ok = false -> forall g, In g order -> g < length ts -> S (bud_at ts' g) <= bud_at ts g).
Proof.
  induction order as [|i rest IH]; simpl; intros x ts ts' x' vs ok H HA.
  - inversion H; subst. repeat split; auto; try apply HA. intros _ g [].
  - destruct (nth_error ts i) as [sh|] eqn:En.
    + rewrite (proj1 HA) in H. destruct (shard_bulk pay false sh) as [[[sh' short] calls] ok0] eqn:Eb.
      destruct (shard_bulk_bud _ _ _ _ _ _ Eb) as [BA BB].
      assert (Hi : bud_at ts i = shard_bud sh) by (unfold bud_at; rewrite En; reflexivity).
      assert (Hmono : forall g, bud_at (update ts i sh') g <= bud_at ts g).
      { intros g. destruct (Nat.eq_dec i g) as [<-|Hne].
        - rewrite (bud_at_update_same _ _ _ _ En). lia.
        - rewrite bud_at_update_other; auto. }
      destruct ok0.
      * inversion H; subst. split; [apply Alive_after; auto|]. split; [apply update_length|]. split; auto. discriminate.
      * destruct (send_order t pay rest (after_visit x) (update ts i sh')) as [[[ts'' x''] vs0] ok'] eqn:Er.
        inversion H; subst. destruct (IH _ _ _ _ _ _ Er (Alive_after _ HA)) as (A0 & A & B & C).
        rewrite update_length in *. split; auto. split; auto. split.
        -- intros g. specialize (B g). specialize (Hmono g). lia.
        -- intros Hf g [<-|Hin] Hg.
           ++ specialize (B i). rewrite (bud_at_update_same _ _ _ _ En) in B.
              specialize (BB eq_refl). lia.
           ++ specialize (C Hf g Hin Hg). specialize (Hmono g). lia.
    + destruct (IH _ _ _ _ _ _ H HA) as (A0 & A & B & C). split; auto. split; auto. split; auto.
      intros Hf g [<-|Hin] Hg.
      * apply nth_error_None in En. lia.
      * auto.
Qed.

Definition Covers (n : nat) (o : list nat) : Prop := forall i, i < n -> In i o.

Lemma send_tier_bud : forall t pay ords x ts ts' x' ords' vs ok,
  send_tier t pay ords x ts = (ts', x', ords', vs, ok) -> Alive x ->
  Forall (Covers (length ts)) ords ->
  Alive x' /\ length ts' = length ts /\
  Forall (Covers (length ts)) ords' /\
  (forall g, bud_at ts' g <= bud_at ts g) /\
  (length ts = 0 -> ok = true) /\
  (ok = false -> forall g, g < length ts -> S (bud_at ts' g) <= bud_at ts g).
Proof.
  intros t pay ords x ts ts' x' ords' vs ok H HA HF. unfold send_tier in H.
  destruct ts as [|sh0 ts0].
  - inversion H; subst. split; [exact HA|]. repeat split; auto. discriminate.
  - remember (sh0 :: ts0) as ts.
    assert (HP : forall o ords1, pop_order (length ts) ords = (o, ords1) ->
                 Covers (length ts) o /\ Forall (Covers (length ts)) ords1).
    { intros o ords1 HP. unfold pop_order in HP. destruct ords as [|o0 r0].
      - inversion HP; subst. split; auto. intros i Hi. apply in_seq. lia.
      - inversion HP; subst. inversion HF; subst. auto. }
    destruct (pop_order (length ts) ords) as [o ords1].
    destruct (HP _ _ eq_refl) as [HC HF1].
    destruct (send_order t pay o x ts) as [[[ts1 x1] vs1] ok1] eqn:E.
    inversion H; subst ts' x' ords' vs ok.
    destruct (send_order_bud _ _ _ _ _ _ _ _ _ E HA) as (A0 & A & B & C).
    split; auto. split; auto. split; auto. split; auto. split.
    + subst ts. simpl. discriminate.
    + intros Hf g Hg. apply C; auto.
Qed.

Definition Pot (gc gh : nat) (s : st) : nat :=
  (if cold_w s then 0 else bud_at (cold s) gc) + bud_at (hot s) gh.
Definition LiveOk (s : st) : Prop :=
  (Forall (Covers (length (cold s))) (cold_ord s) /\ Alive (ctx s)) /\ Forall (Covers (length (hot s))) (hot_ord s).
Definition Good (gc gh : nat) (s : st) : Prop :=
  (length (cold s) = 0 \/ gc < length (cold s)) /\ (length (hot s) = 0 \/ gh < length (hot s)).

Lemma store_docs_bud : forall pay s s' vs ok gc gh,
  store_docs pay s = (s', vs, ok) -> LiveOk s -> Good gc gh s ->
  LiveOk s' /\ Good gc gh s' /\ (ok = false -> S (Pot gc gh s') <= Pot gc gh s).
Proof.
  intros pay s s' vs ok gc gh H [[LC LA] LH] [GC GH]. unfold store_docs in H. unfold Pot.
  destruct (cold_w s) eqn:CW.
  - destruct (send_tier Hot pay (hot_ord s) (ctx s) (hot s)) as [[[[h' x'] ho'] vs1] ok1] eqn:E.
    inversion H; subst.
    destruct (send_tier_bud _ _ _ _ _ _ _ _ _ _ E LA LH) as (A0 & A & B & C & D & F).
    unfold LiveOk, Good. simpl. rewrite A. repeat split; auto; try apply A0; try apply LA.
    intros Hf. destruct GH as [GH|GH]; [rewrite (D GH) in Hf; discriminate|].
    specialize (F Hf _ GH). lia.
  - destruct (send_tier Cold pay (cold_ord s) (ctx s) (cold s)) as [[[[c' x'] co'] vs1] ok1] eqn:E.
    destruct (send_tier_bud _ _ _ _ _ _ _ _ _ _ E LA LC) as (A0 & A & B & C & D & F).
    destruct ok1.
    + destruct (send_tier Hot pay (hot_ord s) x' (hot s)) as [[[[h' x''] ho'] vs2] ok2] eqn:E2.
      inversion H; subst.
      destruct (send_tier_bud _ _ _ _ _ _ _ _ _ _ E2 A0 LH) as (A02 & A2 & B2 & C2 & D2 & F2).
      unfold LiveOk, Good. simpl. rewrite A, A2. repeat split; auto; try apply A02.
      intros Hf. destruct GH as [GH|GH]; [rewrite (D2 GH) in Hf; discriminate|].
      specialize (F2 Hf _ GH). lia.
    + inversion H; subst. unfold LiveOk, Good. simpl. rewrite A. repeat split; auto; try apply A0.
      intros _. destruct GC as [GC|GC]; [specialize (D GC); discriminate|].
      specialize (F eq_refl _ GC). lia.
Qed.

Lemma attempts_live : forall k pay s s' vs ok gc gh,
  attempts (S k) pay s = (s', vs, ok) -> LiveOk s -> Good gc gh s ->
  Pot gc gh s <= k -> ok = true.
Proof.
  induction k as [|k IH]; intros pay s s' vs ok gc gh H HL HG HP; rewrite attempts_S in H;
    destruct (store_docs pay s) as [[s1 vs1] ok1] eqn:E;
    destruct (store_docs_bud _ _ _ _ _ gc gh E HL HG) as (A & B & C).
  - destruct ok1; [inversion H; auto|]. specialize (C eq_refl). lia.
  - destruct ok1; [inversion H; auto|]. specialize (C eq_refl).
    destruct (attempts (S k) pay s1) as [[s2 vs2] ok2] eqn:E2. inversion H; subst.
    eapply IH; eauto. lia.
Qed.

(* liveness in terms of chosen good shards *)
Lemma succeeds_when_possible_at : forall tries pay cin hin cord hord s log ok gc gh,
  Forall (Covers (length cin)) cord -> Forall (Covers (length hin)) hord ->
  (cin = [] \/ gc < length cin) -> (hin = [] \/ gh < length hin) ->
  bud_at (map mk_shard cin) gc + bud_at (map mk_shard hin) gh < tries ->
  store_documents tries pay cin hin cord hord None = (s, log, ok) -> ok = true.
Proof.
  intros tries pay cin hin cord hord s log ok gc gh HC HH GC GH HB H.
  destruct tries as [|k]; [lia|]. unfold store_documents in H.
  eapply attempts_live with (gc := gc) (gh := gh); eauto.
  - split; [split|]; simpl; try rewrite map_length; auto. split; reflexivity.
  - split; simpl; rewrite map_length.
    + destruct GC as [->|GC]; auto.
    + destruct GH as [->|GH]; auto.
  - unfold Pot. simpl. lia.
Qed.

(* the minimum budget of a tier is attained by one of its shards *)
Lemma fold_min_attained : forall r a,
  fold_right Nat.min a (map shard_bud r) = a \/
  exists j sh, nth_error r j = Some sh /\ shard_bud sh = fold_right Nat.min a (map shard_bud r).
Proof.
  induction r as [|x r IH]; simpl; intros a; auto.
  destruct (IH a) as [E|(j & sh & A & B)].
  - rewrite E. destruct (Nat.le_gt_cases (shard_bud x) a).
    + right. exists 0, x. simpl. split; auto. lia.
    + left. lia.
  - destruct (Nat.le_gt_cases (shard_bud x) (fold_right Nat.min a (map shard_bud r))).
    + right. exists 0, x. simpl. split; auto. lia.
    + right. exists (S j), sh. simpl. split; auto. lia.
Qed.

Lemma tier_bud_attained : forall ts,
  ts = [] \/ exists g, g < length ts /\ bud_at ts g = tier_bud ts.
Proof.
  destruct ts as [|sh r]; [left; auto|right]. unfold tier_bud.
  destruct (fold_min_attained r (shard_bud sh)) as [E|(j & sh' & A & B)].
  - exists 0. simpl. split; [lia|]. unfold bud_at. simpl. auto.
  - exists (S j). simpl. split.
    + assert (j < length r) by (apply nth_error_Some; congruence). lia.
    + unfold bud_at. simpl. rewrite A. auto.
Qed.

Lemma succeeds_when_possible : forall tries pay cin hin cord hord s log ok,
  Forall (Covers (length cin)) cord -> Forall (Covers (length hin)) hord ->
  tier_bud (map mk_shard cin) + tier_bud (map mk_shard hin) < tries ->
  store_documents tries pay cin hin cord hord None = (s, log, ok) -> ok = true.
Proof.
  intros tries pay cin hin cord hord s log ok HC HH HB H.
  assert (P : forall tin, exists g, (tin = [] \/ g < length tin) /\
                                    bud_at (map mk_shard tin) g = tier_bud (map mk_shard tin)).
  { intros tin. destruct (tier_bud_attained (map mk_shard tin)) as [E|(g & A & B)].
    - exists 0. destruct tin; [|discriminate]. split; auto.
    - exists g. rewrite map_length in A. auto. }
  destruct (P cin) as (gc & GC & EC). destruct (P hin) as (gh & GH & EH).
  apply (succeeds_when_possible_at tries pay cin hin cord hord s log ok gc gh HC HH GC GH); [lia|exact H].
Qed.

(* special case: a shard whose circuit is never open and whose replicas accept every call *)
Definition healthy (x : shard_in) : bool :=
  forallb negb (fst x) && forallb (forallb accepted) (snd x).

Lemma lastbad_all_ok : forall sc, forallb accepted sc = true -> lastbad sc = 0.
Proof.
  induction sc as [|o sc IH]; simpl; intros H; auto.
  apply andb_true_iff in H as [A B]. rewrite (IH B), A. reflexivity.
Qed.

Lemma healthy_bud : forall x, healthy x = true -> shard_bud (mk_shard x) = 0.
Proof.
  intros [op scs] H. unfold healthy in H. simpl in H. apply andb_true_iff in H as [A B].
  unfold shard_bud, mk_shard. simpl.
  assert (C : count_true op = 0).
  { unfold count_true. induction op as [|b op IH]; simpl in *; auto.
    apply andb_true_iff in A as [A1 A2]. destruct b; [discriminate|]. auto. }
  assert (D : fold_right Nat.max 0 (map rep_bud (map (mkRep false) scs)) = 0).
  { induction scs as [|sc scs IH]; simpl in *; auto.
    apply andb_true_iff in B as [B1 B2]. rewrite (IH B2).
    unfold rep_bud. simpl. rewrite (lastbad_all_ok _ B1). reflexivity. }
  lia.
Qed.

Lemma succeeds_on_healthy_shard : forall tries pay cin hin cord hord s log ok,
  1 <= tries ->
  Forall (Covers (length cin)) cord -> Forall (Covers (length hin)) hord ->
  (cin = [] \/ exists x, In x cin /\ healthy x = true) ->
  (hin = [] \/ exists x, In x hin /\ healthy x = true) ->
  store_documents tries pay cin hin cord hord None = (s, log, ok) -> ok = true.
Proof.
  intros tries pay cin hin cord hord s log ok Ht HC HH GC GH H.
  assert (P : forall tin, (tin = [] \/ exists x, In x tin /\ healthy x = true) ->
              exists g, (tin = [] \/ g < length tin) /\ bud_at (map mk_shard tin) g = 0).
  { intros tin [->|(x & Hin & Hx)].
    - exists 0. split; auto.
    - apply In_nth_error in Hin as [g Hg]. exists g. split.
      + right. apply nth_error_Some. congruence.
      + unfold bud_at. rewrite (map_nth_error mk_shard _ _ Hg). apply healthy_bud; auto. }
  destruct (P _ GC) as (gc & GC' & EC). destruct (P _ GH) as (gh & GH' & EH).
  apply (succeeds_when_possible_at tries pay cin hin cord hord s log ok gc gh HC HH GC' GH'); [lia|exact H].
Qed.
