(* C09 — ragged topologies: the flat status array against the matrix model. *)
From Coq Require Import List Bool Arith NArith Lia.
Import ListNotations.
From C09 Require Import Model ModelFlat.

(* a shard with at most as many replicas as the window is long behaves exactly as in the matrix
   model; the cells beyond its replicas are never touched *)
Lemma flat_reps_refines : forall pay d scs w i,
  length scs <= length w ->
  flat_reps pay d i w scs =
  let '(rs', calls, ok) := send_reps pay d i (zipr w scs) in
  FOk (map r_written rs' ++ skipn (length scs) w) (map r_script rs') calls ok.
Proof.
  induction scs as [|sc rest IH]; intros w i Hl; simpl.
  - destruct w; reflexivity.
  - destruct w as [|b w']; simpl in Hl; [lia|]. simpl.
    rewrite (IH w' (S i)) by lia.
    destruct (send_reps pay d (S i) (zipr w' rest)) as [[rs' calls] ok].
    destruct b; simpl; [reflexivity|].
    destruct (next_outcome sc) as [o0 sc']. reflexivity.
Qed.

Lemma visit_flat_refines : forall pay d scs w,
  length scs <= length w -> (w <> [] \/ scs = []) ->
  visit_flat pay d w scs =
  let '(rs', calls, ok) := send_reps pay d 0 (zipr w scs) in
  FOk (map r_written rs' ++ skipn (length scs) w) (map r_script rs') calls ok.
Proof.
  intros pay d scs w Hl Hw. unfold visit_flat. destruct w as [|b w'].
  - destruct Hw as [Hw| ->]; [congruence|reflexivity].
  - apply flat_reps_refines; auto.
Qed.

(* a shard with MORE replicas than the (non-empty) window is long: the visit panics, whatever the
   scripts, the written bits and the state of the context *)
Lemma flat_reps_wide : forall pay d scs w i,
  length w < length scs -> exists calls, flat_reps pay d i w scs = FPanic calls.
Proof.
  induction scs as [|sc rest IH]; intros w i Hl; simpl in *; [lia|].
  destruct w as [|b w']; simpl; [eauto|]. simpl in Hl.
  destruct (IH w' (S i)) as (calls & E); [lia|]. rewrite E.
  destruct b; [eauto|]. destruct (next_outcome sc) as [o0 sc']. eauto.
Qed.
Lemma visit_flat_wide : forall pay d scs w,
  w <> [] -> length w < length scs -> exists calls, visit_flat pay d w scs = FPanic calls.
Proof.
  intros pay d scs w Hw Hl. unfold visit_flat. destruct w; [congruence|]. apply flat_reps_wide; auto.
Qed.

(* the windows getShard cuts out of the flat array are the rows of the matrix: disjoint, in order *)
Lemma window_concat : forall R ws i w,
  Forall (fun x => length x = R) ws -> nth_error ws i = Some w -> window R i (concat ws) = w.
Proof.
  intros R ws. induction ws as [|w0 ws IH]; intros i w HF Hn; [destruct i; discriminate|].
  inversion HF as [|? ? H0 HF']; subst. unfold window in *. destruct i; simpl in *.
  - inversion Hn; subst. rewrite firstn_app, Nat.sub_diag, firstn_all. simpl. apply app_nil_r.
  - rewrite <- (IH i w HF' Hn). f_equal.
    rewrite skipn_app. rewrite skipn_all2 by lia. simpl. f_equal. lia.
Qed.

(* uniform tiers: replicasCnt is every shard's replica count *)
Lemma replicas_cnt_uniform : forall R hosts, hosts <> [] -> Forall (fun r => r = R) hosts -> replicas_cnt hosts = R.
Proof.
  unfold replicas_cnt. intros R hosts Hne HF. induction hosts as [|a rest IH]; [congruence|].
  inversion HF; subst. destruct rest; [reflexivity|]. apply IH; auto. discriminate.
Qed.
