(* C20 — property theorems. This file contains nothing but the statements, each closed by
   `exact <lemma>` from ProofsFilter.v / ProofsPipe.v, with Print Assumptions beneath, and the
   non-vacuity examples. *)
From Coq Require Import List Bool Arith NArith Permutation.
Import ListNotations.
From C20 Require Import Model ModelLex CaseDefs ProofsFilter ProofsPipe ProofsConc ProofsLex.

(* thm:C20_projection_exact — for EVERY stored object (any number of fields, duplicate keys
   included), every non-empty or empty field list (present, absent, all, none, repeated names)
   and both modes, the filter terminates without fault (no out-of-range index, no node lost by
   the index cache, the encoder's chain walk reaches the end) and returns exactly the fields
   the property names: the listed ones the document has (allow) / the others (except), each
   with its original value (fields are (key, value) pairs of the stored document), nothing
   added, nothing duplicated. With an empty list `project` is the document itself. *)
Theorem C20_projection_exact :
  forall (d : doc) (fields : list key) (allow : bool),
    exists out, filter_fields d fields allow = Ok out /\ Permutation out (project d fields allow).
Proof. exact projection_exact. Qed.
Print Assumptions C20_projection_exact.

(* the same, phrased with the executable checker the correspondence run applies to the REAL
   output (CaseDefs.impl_spec_ok): the model's output always passes it *)
Theorem C20_projection_spec_ok :
  forall (d : doc) (fields : list key) (allow : bool) (out : doc),
    filter_fields d fields allow = Ok out -> impl_spec_ok d fields allow (IObj out) = true.
Proof. exact projection_spec_ok. Qed.
Print Assumptions C20_projection_spec_ok.

(* "the absence of a pipe / filters naming absent fields / documents without any of the fields
   leave the remaining content untouched": identical document, field order included *)
Theorem C20_empty_list_identity : forall d allow, filter_fields d [] allow = Ok d.
Proof. exact filter_empty_list. Qed.
Print Assumptions C20_empty_list_identity.

Theorem C20_nothing_to_remove_untouched :
  forall d fields allow, fields <> [] ->
    (forall f, In f d -> keep fields allow f = true) ->
    filter_fields d fields allow = Ok d.
Proof. exact nothing_to_remove_untouched. Qed.
Print Assumptions C20_nothing_to_remove_untouched.

Theorem C20_except_absent_untouched :
  forall d fields, (forall f, In f d -> memb (fst f) fields = false) ->
    filter_fields d fields false = Ok d.
Proof. exact except_absent_untouched. Qed.
Print Assumptions C20_except_absent_untouched.

(* mechanism: one Suicide with a sound index source (fresh stamp, stale stamp, or a cached index
   that is the node's index) is exactly swap-with-last on the array, keeps array and chain in
   agreement, and bumps the owner's dirty sequence *)
Theorem C20_suicide_is_swap_with_last :
  forall o id, NoDup (arr o) -> chain_ok (nxt o) (arr o) -> In id (arr o) ->
    (vdirty o id = 0%N \/ vdirty o id <> odirty o \/ nth_error (arr o) (vidx o id) = Some id) ->
    exists o', suicide o id = Ok o' /\ arr o' = swap_remove id (arr o)
               /\ NoDup (arr o') /\ chain_ok (nxt o') (arr o')
               /\ odirty o' = (odirty o + 1)%N
               /\ (forall x, x <> id -> vdirty o' x = vdirty o x).
Proof. exact suicide_swap_remove. Qed.
Print Assumptions C20_suicide_is_swap_with_last.

(* mechanism: the encoder (which follows the chain only) emits exactly the array *)
Theorem C20_encode_follows_array :
  forall o fuel, NoDup (arr o) -> chain_ok (nxt o) (arr o) -> length (arr o) <= fuel ->
    encode o fuel = Ok (arr o).
Proof. exact encode_is_array. Qed.
Print Assumptions C20_encode_follows_array.

(* thm:C20_docs_order_unchanged — the filter is applied to each document of the page after the
   page was chosen: as many documents, the i-th is the projection of the i-th unfiltered one *)
Theorem C20_docs_order_unchanged :
  forall page fields allow,
    length (fetch_page page fields allow) = length page /\
    forall i d, nth_error page i = Some d ->
      nth_error (fetch_page page fields allow) i = Some (filter_fields d fields allow).
Proof. exact page_order_unchanged. Qed.
Print Assumptions C20_docs_order_unchanged.

(* thm:C20_pipe_extraction — a query ending in `| fields [except] n1, n2, ...` makes the proxy
   send exactly that list and mode; no pipe or an unparsable query sends the empty filter
   (which is the identity by C20_empty_list_identity) *)
Theorem C20_pipe_extraction :
  forall names ex, names <> [] ->
    try_parse_filter true (render_pipe ex names) = Ok (mkPF names (negb ex)).
Proof. exact pipe_extraction. Qed.
Print Assumptions C20_pipe_extraction.

Theorem C20_no_pipe_no_filter :
  try_parse_filter true [] = Ok no_filter /\ forall ts, try_parse_filter false ts = Ok no_filter.
Proof. exact (conj no_pipe_no_filter invalid_query_no_filter). Qed.
Print Assumptions C20_no_pipe_no_filter.

(* for EVERY token list after the search expression the extraction returns a filter
   (the model's fuel is never exhausted) *)
Theorem C20_pipe_total : forall valid ts, exists p, try_parse_filter valid ts = Ok p.
Proof. exact try_parse_total. Qed.
Print Assumptions C20_pipe_total.

(* the request the proxy builds for each source is a pure function of the filter: every source
   gets the caller's filter, and the caller's filter is unchanged afterwards ... *)
Theorem C20_fetch_req_pure :
  forall ff n, snd (fetch_reqs ff n) = ff /\ length (fst (fetch_reqs ff n)) = n
               /\ forall r, In r (fst (fetch_reqs ff n)) -> r = ff.
Proof. exact fetch_reqs_pure. Qed.
Print Assumptions C20_fetch_req_pure.

(* ... and a store's answer depends only on the SET of names it is sent (so that the run may
   compare requests as sets: de-duplicating or reordering the names is harmless, adding or
   losing one is not) *)
Theorem C20_filter_depends_on_name_set :
  forall d f1 f2 allow, f1 <> [] -> f2 <> [] -> same_names f1 f2 = true ->
    filter_fields d f1 allow = filter_fields d f2 allow.
Proof. exact filter_depends_on_name_set. Qed.
Print Assumptions C20_filter_depends_on_name_set.

(* requests in flight together: the filter state (decoder, buffer) is private to a request, so for
   ANY interleaving of the per-document steps (decode / remove / encode) of any number of requests,
   each request receives, in its order, the projections of ITS documents by ITS filter *)
Theorem C20_interleaved_requests_private :
  forall steps r docs fl, fst (fl r) <> [] ->
    steps_of r steps = request_steps r docs ->
    outputs_of r (run private fl no_decoders steps)
    = map (fun d => filter_fields d (fst (fl r)) (snd (fl r))) docs.
Proof. exact interleaved_requests_private. Qed.
Print Assumptions C20_interleaved_requests_private.

(* the variant in which two filters hold the same decoder is refuted: an interleaving in which
   request 0 does not get its projection (while the private machine gives it) *)
Example C20_shared_decoder_refuted :
  exists steps fl dA dB,
    steps_of 0 steps = request_steps 0 [dA] /\ steps_of 1 steps = request_steps 1 [dB]
    /\ fst (fl 0) <> [] /\ fst (fl 1) <> []
    /\ outputs_of 0 (run shared fl no_decoders steps) <> [filter_fields dA (fst (fl 0)) (snd (fl 0))]
    /\ outputs_of 0 (run private fl no_decoders steps) = [filter_fields dA (fst (fl 0)) (snd (fl 0))].
Proof. exact shared_decoder_refuted. Qed.

(* pool exclusivity: the filter is released once on every path out of doFetch (deferred), so for any
   schedule of request starts and ends, any exit paths and any choice of Get, the objects held by
   requests and those in the pool are pairwise distinct: two requests in flight never work on the
   same filter (which is what `private` above assumes) *)
Theorem C20_pool_exclusive : forall evs,
  NoDup (map snd (pheld (prun releases_code evs)) ++ ppool (prun releases_code evs)).
Proof. exact pool_exclusive. Qed.
Print Assumptions C20_pool_exclusive.

(* refuted variant: explicit releases with the cancelled-send path releasing before `break` and again
   after the loop: two later requests hold the same object *)
Example C20_pool_double_release_refuted :
  exists evs r1 r2 o, r1 <> r2 /\
    In (r1, o) (pheld (prun releases_dbl evs)) /\ In (r2, o) (pheld (prun releases_dbl evs)).
Proof. exact pool_double_release_refuted. Qed.

(* the block list as it was before /repo c998f0f (Dig + Suicide per listed name): correct for
   pairwise distinct keys ... *)
Theorem C20_except_v0_distinct_keys :
  forall (d : doc) (fields : list key), NoDup (map fst d) ->
    exists out, filter_fields_except_v0 d fields = Ok out /\ Permutation out (project d fields false).
Proof. exact projection_exact_except_v0. Qed.
Print Assumptions C20_except_v0_distinct_keys.

(* ... and refuted for a repeated key: {"1":v10,"1":v11,"2":v12} except [1] kept ("1", v11)
   (the finding repaired by c998f0f; replayed on the real code by the dupkeys stream) *)
Example C20_except_dup_keys_v0_refuted :
  exists d fields out,
    filter_fields_except_v0 d fields = Ok out /\ ~ Permutation out (project d fields false)
    /\ In (1, 11) out /\ memb 1 fields = true.
Proof. exact except_dup_keys_v0_refuted. Qed.

(* ---------------------------------------------------------------- lexical level (ModelLex.v) *)
(* C20_pipe_extraction above speaks about tokens. On the TEXT: for every search expression written as a
   sequence of lexical items (plain bytes, double- or single-quoted values with any escapes, raw strings,
   `#` comment lines - each of which may contain any number of `|` bytes) and every pipe text p, the scan of
   `e|p` finds the first top-level `|` token exactly at the `|` written after e ... *)
Theorem C20_pipe_start_written :
  forall e p, items_ok e = true ->
    pipe_start (render_items e ++ 124%N :: p) = Some (length (render_items e)).
Proof. exact pipe_start_written. Qed.
Print Assumptions C20_pipe_start_written.

(* ... hence the fields filter extracted from `e|p` is the one extracted from `* |p`, namely the token-level
   extraction applied to the tokens of `|p` (for ANY lexer of the pipe section [lexp]): a `|` byte inside a
   quoted value or a comment never starts the pipe section *)
Theorem C20_pipe_found_lexically :
  forall (lexp : bytes -> list ptok) e p, items_ok e = true ->
    extract_text lexp true (render_items e ++ 124%N :: p)
      = extract_text lexp true ([42%N; 32%N] ++ 124%N :: p)
    /\ extract_text lexp true (render_items e ++ 124%N :: p) = try_parse_filter true (lexp (124%N :: p)).
Proof. exact (fun lexp e p H => conj (pipe_found_lexically_star lexp e p H) (pipe_found_lexically lexp true e p H)). Qed.
Print Assumptions C20_pipe_found_lexically.

(* a query whose only `|` bytes are inside quoted values or comments has no pipe section: no filter *)
Theorem C20_no_top_level_bar_no_filter :
  forall (lexp : bytes -> list ptok) e, items_ok e = true ->
    extract_text lexp true (render_items e) = Ok no_filter.
Proof. exact no_top_level_bar_no_filter. Qed.
Print Assumptions C20_no_top_level_bar_no_filter.

(* the variant that cuts the text at the first `|` BYTE (seeded change C20-m12) is refuted by
   message:DQa|bDQ | fields level  (DQ = double quote): the byte cut is at offset 10, inside the quoted value,
   the pipe section starts at offset 14; whenever the pipe section lexes to `| fields level` and the cut
   tail `|bDQ | fields level` to bar, name, lone quote, bar, fields, name, the text-level extraction gives
   allow-list [level] and the byte cut gives NO filter (the client would receive full documents).
   The harness replays this very query on the real Ingestor.Search (class page-search-lex, fixed). *)
Theorem C20_pipe_bytecut_refuted :
  items_ok e_m12 = true /\ render_items e_m12 ++ 124%N :: p_m12 = q_m12
  /\ index_byte 124 q_m12 = Some 10 /\ pipe_start q_m12 = Some 14
  /\ forall lexp level b,
       lexp (124%N :: p_m12) = [TBar; TFields; TName level] ->
       lexp (skipn 10 q_m12) = [TBar; TName b; TBad; TBar; TFields; TName level] ->
       extract_text lexp true q_m12 = Ok (mkPF [level] true)
       /\ extract_bytecut lexp q_m12 = Ok no_filter.
Proof. exact bytecut_refuted. Qed.
Print Assumptions C20_pipe_bytecut_refuted.

(* ---------------------------------------------------------------- non-vacuity *)
(* the repaired filter on the same document *)
Example C20_dup_keys_now_removed :
  filter_fields [(1, 10); (1, 11); (2, 12)] [1] false = Ok [(2, 12)].
Proof. vm_compute. reflexivity. Qed.

(* swap-with-last is visible in the output order; a removal in the middle, repeated and absent names *)
Example C20_nonvacuous_filter :
  filter_fields [(1, 10); (2, 11); (3, 12); (4, 13); (5, 14)] [2; 9; 2; 4] false
    = Ok [(1, 10); (5, 14); (3, 12)]
  /\ filter_fields [(1, 10); (2, 11); (3, 12); (4, 13); (5, 14)] [2; 9; 5] true
    = Ok [(5, 14); (2, 11)].
Proof. split; vm_compute; reflexivity. Qed.

(* hypotheses of C20_suicide_is_swap_with_last hold for a decoded object (fresh stamps) *)
Example C20_nonvacuous_suicide :
  let o := decode 4 in
  NoDup (arr o) /\ chain_ok (nxt o) (arr o) /\ In 1 (arr o) /\ vdirty o 1 = 0%N
  /\ exists o', suicide o 1 = Ok o' /\ arr o' = [0; 3; 2].
Proof.
  cbv zeta. split; [apply decode_nodup|]. split; [apply decode_chain|].
  split; [simpl; auto|]. split; [reflexivity|]. eexists. split; vm_compute; reflexivity.
Qed.

(* hypotheses of C20_nothing_to_remove_untouched / C20_except_absent_untouched *)
Example C20_nonvacuous_untouched :
  (forall f, In f [(1, 10); (2, 11)] -> keep [1; 2; 7] true f = true)
  /\ (forall f, In f [(1, 10); (2, 11)] -> memb (fst f) [8; 9] = false).
Proof.
  split; intros f [<-|[<-|[]]]; reflexivity.
Qed.

(* a pipe with except and three names, and a pipe followed by a second one (rejected: no filter) *)
Example C20_nonvacuous_pipe :
  try_parse_filter true (render_pipe true [3; 1; 2]) = Ok (mkPF [3; 1; 2] false)
  /\ try_parse_filter true (render_pipe false [1] ++ render_pipe true [2]) = Ok no_filter.
Proof. split; vm_compute; reflexivity. Qed.

(* hypotheses of C20_filter_depends_on_name_set: a repeated, reordered list against its set;
   and an extra empty-named entry (key id 0) is NOT the same set and changes the answer *)
Example C20_nonvacuous_name_set :
  same_names [2; 1; 2] [1; 2] = true
  /\ same_names [0; 1] [1; 1] = false
  /\ filter_fields [(0, 10); (1, 11)] [0; 1] true <> filter_fields [(0, 10); (1, 11)] [1; 1] true.
Proof. split; [reflexivity|]. split; [reflexivity|]. vm_compute. discriminate. Qed.

(* names are ids standing for ARBITRARY byte strings: no bound on their length is assumed anywhere
   (theorems quantify over all key ids; the run includes names of 0, 1, 62..65, 127, 128, 255, 300+
   bytes). The same statement for a key id beyond the ids the run uses: *)
Example C20_no_length_bound :
  filter_fields [(4000, 1); (2, 2)] [4000] true = Ok [(4000, 1)]
  /\ filter_fields [(4000, 1); (2, 2)] [4000] false = Ok [(2, 2)].
Proof. split; vm_compute; reflexivity. Qed.

(* the hypothesis items_ok of the lexical theorems holds for an expression with every kind of item:
     svc:DQa\DQ|bDQ and x:'it\'s|' or y:`r|s` # c|d NL z:DQ\\DQ        (DQ = double quote, NL = newline)
   i.e. an escaped quote next to `|`, an escaped backslash right before the closing quote, a raw string,
   a comment line; and the pipe is found behind it *)
Example C20_nonvacuous_lex :
  let e := map IPlain [115;118;99;58]%N
           ++ [IQuoted 34 [QC 97; QEsc 34; QC 124; QC 98]; IPlain 32; IPlain 120; IPlain 58;
               IQuoted 39 [QC 105; QC 116; QEsc 39; QC 115; QC 124]; IPlain 32; IPlain 121; IPlain 58;
               IRaw [114; 124; 115]; IPlain 32; IComment [32; 99; 124; 100]; IPlain 122; IPlain 58;
               IQuoted 34 [QEsc 92]]%N in
  items_ok e = true
  /\ pipe_start (render_items e ++ 124%N :: [102]%N) = Some 43
  /\ index_byte 124 (render_items e ++ 124%N :: [102]%N) = Some 8.
Proof. cbv zeta. split; [reflexivity|]. split; vm_compute; reflexivity. Qed.

(* outside the hypothesis: an expression that ENDS inside a comment (no newline) or inside an open quote whose
   partner is in the pipe text swallows the written `|` - and the real lexer does the same (class pipe-text-unclosed) *)
Example C20_lex_unclosed_swallows_pipe :
  pipe_start ([97; 58; 98; 32; 35; 99]%N ++ 124%N :: [32; 102]%N) = None
  /\ pipe_start ([97; 58; 39; 98]%N ++ 124%N :: [32; 39; 102]%N) = None
  (* but an open quote WITHOUT partner is a one-byte token: the `|` behind it is top-level *)
  /\ pipe_start ([97; 58; 39; 98]%N ++ 124%N :: [32; 102]%N) = Some 4.
Proof. repeat split; vm_compute; reflexivity. Qed.
