(* C20 — shape of the generated cases and the two executable verdicts. No proofs. *)
From VLib Require Import CaseLib.
From C20 Require Import Model ModelLex.

Definition fld_eqb (a b : fld) : bool := Nat.eqb (fst a) (fst b) && Nat.eqb (snd a) (snd b).

Fixpoint count_fld (f : fld) (l : doc) : nat :=
  match l with [] => 0 | x :: r => (if fld_eqb x f then 1 else 0) + count_fld f r end.

(* same multiset of (key, value) pairs *)
Definition same_fields (a b : doc) : bool :=
  forallb (fun f => Nat.eqb (count_fld f a) (count_fld f b)) (a ++ b).

(* what the implementation returned for one document:
   IObj fs   — a valid JSON object with top-level fields fs, in output order; a key / value that
               does not occur in the stored document gets an id the stored document does not use
   IInvalid  — not a valid JSON object (or nothing at all) *)
Inductive impl_doc :=
| IObj (fs : doc)
| IInvalid.

Definition impl_agrees (m : res doc) (i : impl_doc) : bool :=
  match m, i with
  | Ok a, IObj b => list_eqb fld_eqb a b
  | _, _ => false
  end.

(* the property's statement evaluated on the implementation's output *)
Definition impl_spec_ok (d : doc) (fields : list key) (allow : bool) (i : impl_doc) : bool :=
  match i with
  | IObj fs => same_fields fs (project d fields allow)
  | IInvalid => false
  end.

Definition pf_eqb (a b : pfilter) : bool :=
  list_eqb Nat.eqb (pf_fields a) (pf_fields b) && Bool.eqb (pf_allow a) (pf_allow b).

Inductive case :=
(* one stored document d (key ids, value ids), filter, output of the real filter *)
| CFilter (d : doc) (fields : list key) (allow : bool) (impl : impl_doc)
(* query = search expression (valid or not) followed by tokens ts; impl = filter the proxy derives;
   want = the filter of the pipe the generator wrote (None when it wrote none / a malformed one) *)
| CPipe (valid : bool) (ts : list ptok) (want : option pfilter) (impl : pfilter)
(* a page of stored documents in the order of the unfiltered run, filter, documents of the
   filtered run in their order (search through the proxy / Fetch on the store) *)
| CPage (page : list doc) (fields : list key) (allow : bool) (impl : list impl_doc)
(* makeFetchReq called once per source with ONE filter value ff: the filters of the requests
   (each read right after its call) and the caller's filter after all calls *)
| CReq (ff : pfilter) (reqs : list pfilter) (after : pfilter)
(* query TEXT q (bytes) given to tryParseFieldsFilter; valid = the search expression in front of the first
   top-level `|` parses; tails = for every top-level `|` the generator wrote: (byte offset, tokens of the text
   from there to the end); want as in CPipe; impl = filter derived from q; star = filter the real code derives
   from `*` followed by the text from the first written top-level `|` on (no_filter when there is none) *)
| CPipeText (q : bytes) (valid : bool) (tails : list (nat * list ptok)) (want : option pfilter)
            (impl : pfilter) (star : pfilter).

Definition req_matches (ff r : pfilter) : bool :=
  same_names (pf_fields r) (pf_fields ff) && Bool.eqb (pf_allow r) (pf_allow ff).

Definition case_agrees (c : case) : bool :=
  match c with
  | CFilter d fields allow impl => impl_agrees (filter_fields d fields allow) impl
  | CPipe valid ts _ impl =>
      match try_parse_filter valid ts with Ok p => pf_eqb p impl | _ => false end
  | CPage page fields allow impl =>
      Nat.eqb (length page) (length impl)
      && forallb (fun mi => impl_agrees (fst mi) (snd mi)) (combine (fetch_page page fields allow) impl)
  | CReq ff reqs after =>
      let '(m, mafter) := fetch_reqs ff (length reqs) in
      forallb (fun mr => req_matches (fst mr) (snd mr)) (combine m reqs) && pf_eqb mafter after
  | CPipeText q valid tails _ impl _ =>
      tail_known tails valid q
      && match extract_text (lexp_of tails (length q)) valid q with Ok p => pf_eqb p impl | _ => false end
  end.

Definition case_spec_ok (c : case) : bool :=
  match c with
  | CFilter d fields allow impl => impl_spec_ok d fields allow impl
  | CPipe _ _ want impl =>
      match want with
      | Some p => pf_eqb p impl
      | None => pf_eqb no_filter impl
      end
  | CPage page fields allow impl =>
      (* same number of documents, the i-th is the projection of the i-th unfiltered one *)
      Nat.eqb (length page) (length impl)
      && forallb (fun di => impl_spec_ok (fst di) fields allow (snd di)) (combine page impl)
  | CReq ff reqs after =>
      (* every source is asked for the same set of names in the same mode, and the caller's
         filter is what it was *)
      forallb (req_matches ff) reqs && pf_eqb ff after
  | CPipeText _ valid _ want impl star =>
      (* the filter of the first pipe as written, and the same as for `* | p`: a `|` inside a quoted value
         or a comment of the search expression does not matter *)
      match want with
      | Some p => pf_eqb p impl
      | None => pf_eqb no_filter impl
      end
      && (negb valid || pf_eqb star impl)
  end.

Definition diff_indices (l : list case) : list nat := bad_indices (fun c => negb (case_agrees c)) l.
Definition specfail_indices (l : list case) : list nat := bad_indices (fun c => negb (case_spec_ok c)) l.
