(* C20 — proofs about the lexical position of the pipe section (ModelLex.v). *)
From Coq Require Import List Bool Arith NArith Lia.
Import ListNotations.
From C20 Require Import Model ModelLex.

(* ---------------------------------------------------------------- skipping a quoted token *)
Lemma scan_skip :
  forall l rest off, scan (MTok (length l)) (l ++ rest) off = scan (MTok 0) rest (off + length l).
Proof.
  induction l as [|c l IH]; intros rest off.
  - simpl. now rewrite Nat.add_0_r.
  - cbn [length app scan]. rewrite IH. f_equal. lia.
Qed.

Lemma is_quote_cases : forall c, is_quote c = true -> c = 34%N \/ c = 39%N.
Proof.
  intros c H. unfold is_quote in H. apply orb_true_iff in H.
  destruct H as [H|H]; apply N.eqb_eq in H; auto.
Qed.

Lemma is_quote_not_bs : forall qt, is_quote qt = true -> N.eqb 92 qt = false.
Proof. intros qt H. destruct (is_quote_cases qt H) as [-> | ->]; reflexivity. Qed.

(* the closing quote of a well-formed body is the one the writer put there *)
Lemma close_quote_body :
  forall qt body rest, is_quote qt = true -> forallb (qchar_ok qt) body = true ->
    close_quote qt (render_body body ++ qt :: rest) = Some (S (length (render_body body))).
Proof.
  intros qt body rest Hq. induction body as [|x body IH]; intros Hok.
  - simpl. now rewrite N.eqb_refl.
  - cbn [forallb] in Hok. apply andb_true_iff in Hok. destruct Hok as [Hx Hb]. specialize (IH Hb).
    unfold render_body in *. cbn [flat_map]. destruct x as [c|c].
    + cbn [render_qchar app]. cbn [qchar_ok] in Hx. apply andb_true_iff in Hx. destruct Hx as [H1 H2].
      apply negb_true_iff in H1, H2.
      cbn [close_quote]. rewrite H1, H2, IH. reflexivity.
    + cbn [render_qchar app]. cbn [close_quote].
      rewrite (is_quote_not_bs qt Hq). cbn [N.eqb Pos.eqb].
      destruct (N.eqb c qt || N.eqb c 92) eqn:E.
      * rewrite IH. reflexivity.
      * apply orb_false_iff in E. destruct E as [E1 E2].
        cbn [close_quote]. rewrite E1, E2, IH. reflexivity.
Qed.

Lemma index_byte_body :
  forall b body rest, no_byte b body = true ->
    index_byte b (body ++ b :: rest) = Some (length body).
Proof.
  intros b body rest. induction body as [|x body IH]; intros H.
  - simpl. now rewrite N.eqb_refl.
  - cbn [no_byte] in H. apply andb_true_iff in H. destruct H as [H1 H2]. apply negb_true_iff in H1.
    cbn [app index_byte]. rewrite H1, (IH H2). reflexivity.
Qed.

Lemma scan_comment_body :
  forall body rest off, no_byte 10 body = true ->
    scan MComment (body ++ 10%N :: rest) off = scan (MTok 0) rest (off + S (length body)).
Proof.
  induction body as [|x body IH]; intros rest off H.
  - simpl. f_equal. lia.
  - cbn [no_byte] in H. apply andb_true_iff in H. destruct H as [H1 H2]. apply negb_true_iff in H1.
    cbn [app scan]. rewrite H1, (IH rest (S off) H2). f_equal. simpl. lia.
Qed.

(* ---------------------------------------------------------------- one item *)
Lemma scan_item :
  forall it rest off, item_ok it = true ->
    scan (MTok 0) (render_item it ++ rest) off = scan (MTok 0) rest (off + length (render_item it)).
Proof.
  intros it rest off H. destruct it as [c|qt body|body|body]; cbn [item_ok] in H.
  - repeat (apply andb_true_iff in H; destruct H as [H ?]).
    apply negb_true_iff in H, H0, H1, H2.
    cbn [render_item app scan length]. rewrite H, H2, H1, H0. f_equal. lia.
  - apply andb_true_iff in H. destruct H as [Hq Hb].
    cbn [render_item app]. rewrite <- app_assoc. cbn [app].
    assert (Hbar : N.eqb qt 124 = false) by (destruct (is_quote_cases qt Hq) as [-> | ->]; reflexivity).
    assert (Hhash : N.eqb qt 35 = false) by (destruct (is_quote_cases qt Hq) as [-> | ->]; reflexivity).
    cbn [scan]. rewrite Hbar, Hhash, Hq.
    rewrite (close_quote_body qt body rest Hq Hb).
    replace (render_body body ++ qt :: rest) with ((render_body body ++ [qt]) ++ rest)
      by (rewrite <- app_assoc; reflexivity).
    replace (S (length (render_body body))) with (length (render_body body ++ [qt]))
      by (rewrite app_length; simpl; lia).
    rewrite scan_skip. f_equal. simpl. rewrite !app_length. simpl. lia.
  - cbn [render_item app]. rewrite <- app_assoc. cbn [app].
    cbn [scan]. cbn [N.eqb Pos.eqb is_quote orb].
    unfold close_raw. rewrite (index_byte_body 96%N body rest H). cbn [option_map].
    replace (body ++ 96%N :: rest) with ((body ++ [96%N]) ++ rest)
      by (rewrite <- app_assoc; reflexivity).
    replace (S (length body)) with (length (body ++ [96%N]))
      by (rewrite app_length; simpl; lia).
    rewrite scan_skip. f_equal. simpl. rewrite !app_length. simpl. lia.
  - cbn [render_item app]. rewrite <- app_assoc. cbn [app].
    cbn [scan]. cbn [N.eqb Pos.eqb].
    rewrite (scan_comment_body body rest (S off) H). f_equal. simpl. rewrite app_length. simpl. lia.
Qed.

Lemma scan_items :
  forall e rest off, items_ok e = true ->
    scan (MTok 0) (render_items e ++ rest) off = scan (MTok 0) rest (off + length (render_items e)).
Proof.
  induction e as [|it e IH]; intros rest off H.
  - simpl. now rewrite Nat.add_0_r.
  - unfold items_ok in H. cbn [forallb] in H. apply andb_true_iff in H. destruct H as [H1 H2].
    unfold render_items in *. cbn [flat_map]. rewrite <- app_assoc.
    rewrite (scan_item it _ off H1), (IH rest _ H2). f_equal. rewrite app_length. lia.
Qed.

(* ---------------------------------------------------------------- the pipe section starts at the written `|` *)
Lemma pipe_start_written :
  forall e p, items_ok e = true ->
    pipe_start (render_items e ++ 124%N :: p) = Some (length (render_items e)).
Proof.
  intros e p H. unfold pipe_start. rewrite (scan_items e _ 0 H). reflexivity.
Qed.

Lemma skipn_app_exact : forall (a b : bytes), skipn (length a) (a ++ b) = b.
Proof. induction a; intros; simpl; auto. Qed.

Lemma pipe_found_lexically :
  forall lexp valid e p, items_ok e = true ->
    extract_text lexp valid (render_items e ++ 124%N :: p) = try_parse_filter valid (lexp (124%N :: p)).
Proof.
  intros lexp valid e p H. unfold extract_text. rewrite (pipe_start_written e p H).
  rewrite skipn_app_exact. reflexivity.
Qed.

Lemma pipe_found_lexically_star :
  forall lexp e p, items_ok e = true ->
    extract_text lexp true (render_items e ++ 124%N :: p)
    = extract_text lexp true ([42%N; 32%N] ++ 124%N :: p).
Proof.
  intros lexp e p H. rewrite (pipe_found_lexically lexp true e p H). reflexivity.
Qed.

(* a query without any top-level `|` has no pipe section, whatever its quoted values and comments hold *)
Lemma no_top_level_bar_no_filter :
  forall lexp e, items_ok e = true -> extract_text lexp true (render_items e) = Ok no_filter.
Proof.
  intros lexp e H. unfold extract_text, pipe_start.
  pose proof (scan_items e [] 0 H) as S. rewrite app_nil_r in S. rewrite S. reflexivity.
Qed.

(* ---------------------------------------------------------------- the byte cut is refuted *)
(* message:DQa|bDQ | fields level   (DQ = double quote) *)
Definition q_m12 : bytes :=
  [109;101;115;115;97;103;101;58;34;97;124;98;34;32;124;32;102;105;101;108;100;115;32;108;101;118;101;108]%N.
Definition e_m12 : list litem :=
  map IPlain [109;101;115;115;97;103;101;58]%N ++ [IQuoted 34 [QC 97; QC 124; QC 98]; IPlain 32]%N.
Definition p_m12 : bytes := [32;102;105;101;108;100;115;32;108;101;118;101;108]%N.

Lemma bytecut_refuted :
  items_ok e_m12 = true /\ render_items e_m12 ++ 124%N :: p_m12 = q_m12
  /\ index_byte 124 q_m12 = Some 10 /\ pipe_start q_m12 = Some 14
  /\ forall lexp level b,
       lexp (124%N :: p_m12) = [TBar; TFields; TName level] ->
       (* `|bDQ | fields level`: the double quote DQ has no partner and is a one-byte token no name starts with *)
       lexp (skipn 10 q_m12) = [TBar; TName b; TBad; TBar; TFields; TName level] ->
       extract_text lexp true q_m12 = Ok (mkPF [level] true)
       /\ extract_bytecut lexp q_m12 = Ok no_filter.
Proof.
  split; [reflexivity|]. split; [reflexivity|]. split; [reflexivity|]. split; [reflexivity|].
  intros lexp level b H1 H2.
  assert (E1 : pipe_start q_m12 = Some 14) by reflexivity.
  assert (E2 : skipn 14 q_m12 = 124%N :: p_m12) by reflexivity.
  assert (E3 : index_byte 124 q_m12 = Some 10) by reflexivity.
  assert (E4 : pipe_start (42%N :: skipn 10 q_m12) = Some 1) by reflexivity.
  assert (E5 : skipn 1 (42%N :: skipn 10 q_m12) = skipn 10 q_m12) by reflexivity.
  split.
  - unfold extract_text. rewrite E1, E2, H1. reflexivity.
  - unfold extract_bytecut. rewrite E3. unfold extract_text. rewrite E4, E5, H2. reflexivity.
Qed.
