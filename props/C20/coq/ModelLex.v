(* C20 — lexical level of the pipe extraction: WHERE in the query text the pipe section starts.
   NO proofs in this file.

   Ingestor.Search hands the whole query text to tryParseFieldsFilter -> parser.ParseSeqQL, whose
   lexer (parser/seqql.go: lexer.Next, unquotePrefix, unquoteChar, strconv.QuotedPrefix) turns the
   text into tokens; parseSeqQLFilter consumes tokens up to the first UNQUOTED `|` token and
   parsePipes the rest. Modelled here (small on purpose): the scan of the text that decides at
   which byte the first top-level `|` token starts:

     * `#` at a token start skips to the next '\n' (to the end of the text if there is none);
       every byte outside a quoted token is at a token start or inside a word, and `#` is not a
       word rune, so outside quotes `#` always opens a comment;
     * a double quote (DQ) or `'` opens a quoted token iff unquotePrefix finds the closing quote: scanning from the
       byte after the opening quote, a byte equal to the quote closes; `\` followed by the same
       quote or by `\` is one escaped character (2 bytes); every other byte — including a `\` in
       front of anything else (valid escapes \n \x41 é \101 \* consume only bytes that are
       not quotes or backslashes; invalid ones make unquotePrefix skip the backslash alone) and a
       `\` that is the last byte — advances by one. This is exactly the position at which
       unquotePrefix' fast path (IndexByte) and slow path (unquoteChar loop) stop. No closing
       quote: the quote character is a one-byte token and the scan goes on right behind it;
     * a back-quote opens a raw string up to the next back-quote (no escapes); none: one-byte token;
     * every other byte (spaces, word runes, `*`, symbols, bytes >= 0x80 of valid or invalid
       UTF-8) is skipped: none of them can be `|`, `#` or a quote;
     * an unquoted `|` is the one-byte token that ends the search expression.

   NOT modelled: the tokens of the pipe section (word/composite-name rules, decoding of quoted
   names) and the search-expression parser. They enter as [lexp] (the token list of the text from
   a given top-level `|` on — supplied per case by the harness, which rendered that text from the
   tokens) and as the flag [valid] (the expression in front of the pipe section parses). *)
From Coq Require Import List Bool Arith NArith.
Import ListNotations.
From C20 Require Import Model.

Definition bytes := list N.

Definition is_quote (c : N) : bool := N.eqb c 34 || N.eqb c 39.

(* strings.IndexByte *)
Fixpoint index_byte (b : N) (s : bytes) : option nat :=
  match s with
  | [] => None
  | x :: t => if N.eqb x b then Some 0 else option_map S (index_byte b t)
  end.

(* unquotePrefix on `qt s`: number of bytes of s up to and including the closing quote *)
Fixpoint close_quote (qt : N) (s : bytes) : option nat :=
  match s with
  | [] => None
  | c :: t =>
      if N.eqb c qt then Some 1
      else if N.eqb c 92 then
        match t with
        | [] => None
        | c1 :: t1 =>
            if N.eqb c1 qt || N.eqb c1 92 then option_map (fun n => S (S n)) (close_quote qt t1)
            else option_map S (close_quote qt t)
        end
      else option_map S (close_quote qt t)
  end.

(* strconv.QuotedPrefix on a back-quoted prefix *)
Definition close_raw (s : bytes) : option nat := option_map S (index_byte 96 s).

(* MTok n: outside comments; the next n bytes belong to a quoted token.  MComment: inside a comment *)
Inductive mode := MTok (skip : nat) | MComment.

Fixpoint scan (m : mode) (s : bytes) (off : nat) : option nat :=
  match s with
  | [] => None
  | c :: t =>
      match m with
      | MTok (S n) => scan (MTok n) t (S off)
      | MComment => scan (if N.eqb c 10 then MTok 0 else MComment) t (S off)
      | MTok 0 =>
          if N.eqb c 124 then Some off
          else if N.eqb c 35 then scan MComment t (S off)
          else if is_quote c then
            scan (MTok (match close_quote c t with Some n => n | None => 0 end)) t (S off)
          else if N.eqb c 96 then
            scan (MTok (match close_raw t with Some n => n | None => 0 end)) t (S off)
          else scan (MTok 0) t (S off)
      end
  end.

(* byte offset of the first top-level `|` token *)
Definition pipe_start (q : bytes) : option nat := scan (MTok 0) q 0.

(* tryParseFieldsFilter(q): the pipe section is the text from the first top-level `|` on *)
Definition extract_text (lexp : bytes -> list ptok) (valid : bool) (q : bytes) : res pfilter :=
  match pipe_start q with
  | None => try_parse_filter valid []
  | Some i => try_parse_filter valid (lexp (skipn i q))
  end.

(* the variant that cuts the text at the first `|` BYTE and parses DQ*DQ + tail (seeded change C20-m12) *)
Definition extract_bytecut (lexp : bytes -> list ptok) (q : bytes) : res pfilter :=
  match index_byte 124 q with
  | None => Ok no_filter
  | Some i => extract_text lexp true (42%N :: skipn i q)
  end.

(* ------------------------------------------------------------------ search-expression texts *)
(* how a text is WRITTEN (independent of the scan above): a sequence of lexical items *)
Inductive qchar :=
| QC (c : N)          (* an ordinary byte of a quoted value *)
| QEsc (c : N).       (* a backslash followed by byte c: \DQ \' \\ \n \x.. \* or a stray backslash *)

Inductive litem :=
| IPlain (c : N)                       (* a byte outside quotes and comments: space, word rune, symbol, UTF-8 byte *)
| IQuoted (qt : N) (body : list qchar)  (* DQ...DQ or '...' (DQ = double quote) *)
| IRaw (body : bytes)                  (* `...` *)
| IComment (body : bytes).             (* # ... \n *)

Definition render_qchar (x : qchar) : bytes :=
  match x with QC c => [c] | QEsc c => [92%N; c] end.

Definition render_body (body : list qchar) : bytes := flat_map render_qchar body.

Definition render_item (it : litem) : bytes :=
  match it with
  | IPlain c => [c]
  | IQuoted qt body => qt :: render_body body ++ [qt]
  | IRaw body => 96%N :: body ++ [96%N]
  | IComment body => 35%N :: body ++ [10%N]
  end.

Definition render_items (e : list litem) : bytes := flat_map render_item e.

Fixpoint no_byte (b : N) (s : bytes) : bool :=
  match s with [] => true | x :: t => negb (N.eqb x b) && no_byte b t end.

Definition qchar_ok (qt : N) (x : qchar) : bool :=
  match x with
  | QC c => negb (N.eqb c qt) && negb (N.eqb c 92)   (* an unescaped quote or backslash is not an ordinary byte *)
  | QEsc _ => true
  end.

Definition item_ok (it : litem) : bool :=
  match it with
  | IPlain c => negb (N.eqb c 124) && negb (N.eqb c 35) && negb (is_quote c) && negb (N.eqb c 96)
  | IQuoted qt body => is_quote qt && forallb (qchar_ok qt) body
  | IRaw body => no_byte 96 body
  | IComment body => no_byte 10 body
  end.

Definition items_ok (e : list litem) : bool := forallb item_ok e.

(* ------------------------------------------------------------------ per-case token supply *)
(* the harness lists, for every top-level `|` it wrote at byte offset i, the tokens it rendered the
   text from there to the end from *)
Fixpoint tail_at (tails : list (nat * list ptok)) (i : nat) : option (list ptok) :=
  match tails with
  | [] => None
  | (j, ts) :: r => if Nat.eqb i j then Some ts else tail_at r i
  end.

Definition lexp_of (tails : list (nat * list ptok)) (qlen : nat) (s : bytes) : list ptok :=
  match tail_at tails (qlen - length s) with Some ts => ts | None => [TBad] end.

(* does the case supply the tokens the model needs? (always, when the generator is right) *)
Definition tail_known (tails : list (nat * list ptok)) (valid : bool) (q : bytes) : bool :=
  match pipe_start q with
  | Some i => negb valid || match tail_at tails i with Some _ => true | None => false end
  | None => true
  end.
