(* C20 — requests in flight together: private filter state means no interference. *)
From Coq Require Import List Bool Arith NArith Lia.
Import ListNotations.
From C20 Require Import Model.

Lemma upd_eq : forall {A} (f : nat -> A) k v, upd f k v k = v.
Proof. intros. unfold upd. now rewrite Nat.eqb_refl. Qed.

Lemma upd_neq : forall {A} (f : nat -> A) k v x, x <> k -> upd f k v x = f x.
Proof. intros A f k v x H. unfold upd. apply Nat.eqb_neq in H. now rewrite H. Qed.

(* a request running alone returns the projection of each of its documents *)
Lemma run_alone :
  forall r docs fl st, fst (fl r) <> [] ->
    run private fl st (request_steps r docs)
    = map (fun d => (r, filter_fields d (fst (fl r)) (snd (fl r)))) docs.
Proof.
  intros r docs fl. induction docs as [|d docs IH]; intros st Hne; [reflexivity|].
  unfold request_steps. cbn [flat_map app]. cbn [run]. unfold private at 1 2 3 4.
  rewrite upd_eq. cbn [ds_doc ds_obj]. rewrite upd_eq. cbn [map]. f_equal.
  - f_equal. unfold encode_doc, filter_fields, filter_ids. cbn [ds_doc ds_obj remove_listed].
    destruct (fst (fl r)) as [|k f]; [congruence|]. reflexivity.
  - apply IH. exact Hne.
Qed.

(* the steps of other requests do not touch request r's decoder *)
Lemma interleaving_private_gen :
  forall steps r fl st1 st2, st1 r = st2 r ->
    outputs_of r (run private fl st1 steps) = outputs_of r (run private fl st2 (steps_of r steps)).
Proof.
  induction steps as [|s steps IH]; intros r fl st1 st2 H; [reflexivity|].
  unfold steps_of. cbn [filter]. fold (steps_of r steps).
  destruct (Nat.eqb (step_req s) r) eqn:E.
  - apply Nat.eqb_eq in E. destruct s as [r' d|r'|r']; simpl in E; subst r'; cbn [run]; unfold private.
    + apply IH. now rewrite !upd_eq.
    + rewrite H. destruct (st2 r) as [ds|] eqn:E2.
      * apply IH. now rewrite !upd_eq.
      * apply IH. congruence.
    + unfold outputs_of. cbn [filter fst]. rewrite Nat.eqb_refl. cbn [map snd]. rewrite H. f_equal.
      apply IH. exact H.
  - apply Nat.eqb_neq in E. destruct s as [r' d|r'|r']; simpl in E; cbn [run]; unfold private.
    + apply IH. rewrite upd_neq by congruence. exact H.
    + destruct (st1 r') as [ds|].
      * apply IH. rewrite upd_neq by congruence. exact H.
      * apply IH. exact H.
    + unfold outputs_of. cbn [filter fst]. apply Nat.eqb_neq in E. rewrite E.
      apply IH. exact H.
Qed.

Lemma interleaved_requests_private :
  forall steps r docs fl, fst (fl r) <> [] ->
    steps_of r steps = request_steps r docs ->
    outputs_of r (run private fl no_decoders steps)
    = map (fun d => filter_fields d (fst (fl r)) (snd (fl r))) docs.
Proof.
  intros steps r docs fl Hne Hs.
  rewrite (interleaving_private_gen steps r fl no_decoders no_decoders eq_refl).
  rewrite Hs, run_alone by exact Hne. clear Hs.
  unfold outputs_of. induction docs as [|d docs IH]; [reflexivity|].
  cbn [map filter fst]. rewrite Nat.eqb_refl. cbn [map snd]. f_equal. exact IH.
Qed.

(* two filters holding the same decoder: request 0 gets neither of its own projections *)
Lemma shared_decoder_refuted :
  exists steps fl dA dB,
    steps_of 0 steps = request_steps 0 [dA] /\ steps_of 1 steps = request_steps 1 [dB]
    /\ fst (fl 0) <> [] /\ fst (fl 1) <> []
    /\ outputs_of 0 (run shared fl no_decoders steps) <> [filter_fields dA (fst (fl 0)) (snd (fl 0))]
    /\ outputs_of 0 (run private fl no_decoders steps) = [filter_fields dA (fst (fl 0)) (snd (fl 0))].
Proof.
  exists [SDecode 0 [(1, 10); (2, 11)]; SDecode 1 [(1, 20); (2, 21)]; SRemove 0; SRemove 1; SEncode 0; SEncode 1],
         (fun r => if Nat.eqb r 0 then ([1], true) else ([2], true)),
         [(1, 10); (2, 11)], [(1, 20); (2, 21)].
  repeat split; try (vm_compute; congruence).
Qed.

(* ---------------------------------------------------------------- pool exclusivity *)
From Coq Require Import Permutation.

Definition pobjs (st : pstate) : list nat := map snd (pheld st) ++ ppool st.
Definition pinv (st : pstate) : Prop := NoDup (pobjs st) /\ Forall (fun o => o < pnext st) (pobjs st).

Lemma nth_remove_perm {A} : forall (l : list A) i o, nth_error l i = Some o ->
  Permutation l (o :: remove_nth i l).
Proof.
  induction l as [|x r IH]; intros i o H; destruct i; simpl in *; try discriminate.
  - inversion H; subst. apply Permutation_refl.
  - apply perm_trans with (x :: o :: remove_nth i r); [apply perm_skip, IH, H|apply perm_swap].
Qed.

Lemma take_req_perm : forall h r o h', take_req r h = Some (o, h') ->
  Permutation (map snd h) (o :: map snd h').
Proof.
  induction h as [|[r' o'] t IH]; intros r o h' H; simpl in H; [discriminate|].
  destruct (Nat.eqb r r').
  - inversion H; subst. apply Permutation_refl.
  - destruct (take_req r t) as [[o2 t2]|] eqn:E; [|discriminate]. inversion H; subst.
    simpl. apply perm_trans with (o' :: o :: map snd t2); [apply perm_skip, (IH _ _ _ E)|apply perm_swap].
Qed.

Lemma pstep_inv : forall st e, pinv st -> pinv (pstep releases_code st e).
Proof.
  intros st e [ND LT]. unfold pinv, pobjs in *. destruct e as [r pick|r p]; simpl.
  - destruct (nth_error (ppool st) pick) as [o|] eqn:E; simpl.
    + assert (P : Permutation (map snd (pheld st) ++ ppool st)
                              (o :: map snd (pheld st) ++ remove_nth pick (ppool st))).
      { apply perm_trans with (map snd (pheld st) ++ o :: remove_nth pick (ppool st)).
        - apply Permutation_app_head, nth_remove_perm, E.
        - apply Permutation_sym, Permutation_middle. }
      split; [eapply Permutation_NoDup; eauto|eapply Permutation_Forall; eauto].
    + split.
      * constructor; [|exact ND]. intro I. rewrite Forall_forall in LT. specialize (LT _ I). lia.
      * constructor; [lia|]. eapply Forall_impl; [|exact LT]. simpl; intros; lia.
  - destruct (take_req r (pheld st)) as [[o h']|] eqn:E; [|split; assumption]. simpl.
    assert (P : Permutation (map snd (pheld st) ++ ppool st) (map snd h' ++ o :: ppool st)).
    { apply perm_trans with ((o :: map snd h') ++ ppool st).
      - apply Permutation_app_tail, (take_req_perm _ _ _ _ E).
      - simpl. apply Permutation_middle. }
    split; [eapply Permutation_NoDup; eauto|eapply Permutation_Forall; eauto].
Qed.

(* whatever the order of starts and ends, whatever path each request leaves by, whatever object Get
   hands out: no filter object is held by two requests, none that is held is in the pool, and the
   pool holds none twice *)
Lemma pool_exclusive : forall evs,
  NoDup (map snd (pheld (prun releases_code evs)) ++ ppool (prun releases_code evs)).
Proof.
  intros evs. unfold prun.
  assert (G : forall evs st, pinv st -> pinv (fold_left (pstep releases_code) evs st)).
  { induction evs0 as [|e r IH]; intros st H; simpl; [exact H|apply IH, pstep_inv, H]. }
  apply (G evs (mkPS [] [] 0)). split; constructor.
Qed.

Lemma pool_double_release_refuted :
  exists evs r1 r2 o, r1 <> r2 /\
    In (r1, o) (pheld (prun releases_dbl evs)) /\ In (r2, o) (pheld (prun releases_dbl evs)).
Proof.
  exists [PAcquire 0 0; PFinish 0 PCancelled; PAcquire 1 0; PAcquire 2 0], 1, 2, 0.
  split; [discriminate|]. vm_compute. auto.
Qed.
