(* C20 — executable model of the fields filter. NO proofs in this file.

   What is transcribed (storeapi/grpc_fetch.go:docFieldsFilter.filterFields, and the parts of
   github.com/ozontech/insane-json v0.1.9 it drives: Dig, AsFields/AsFieldValue, Suicide,
   actualizeIndex/findSelf, Encode at the top level of the document):

   * a decoded top-level object is
       - an ARRAY  owner.nodes of field nodes                     -> [arr]  (ids of field nodes)
       - a CHAIN   field -> value -> next field ... -> End node   -> [nxt]  (value-of-field id |-> next
         field id, None = the End node); Encode starts at owner.nodes[0] and follows the chain only
       - dirty counters and cached indices (bits 36-59 / 12-35 of hellBits) that let Suicide skip
         the linear search for the node's index                   -> [odirty], [vdirty], [vidx]
   * Suicide removes a field by SWAP-WITH-LAST in the array and re-links the chain with up to
     three pointer writes; the index it uses comes from the cache when the node's dirty stamp
     equals the owner's (and is not 0), else from findSelf. The three pointer writes and the
     cache rule are transcribed statement by statement (so a stale cache WOULD remove the wrong
     field in this model exactly as in the library).
   * field ids are the positions in the stored document; keys are compared after JSON
     unescaping (the harness supplies key ids with that equality); values are opaque ids.
   * insaneJSON.MapUseThreshold is math.MaxInt32 in the seq-db binary (proxy/bulk/processor.go
     init), so Dig never uses its map cache: only the linear Dig is modelled, and the harness
     asserts the threshold at start.

   [Fault] = the Go code would index out of range (panic) or Suicide would not find its node in
   the owner (Go: silent return); [OutOfFuel] = the chain walk of Encode did not reach the End
   node within (number of stored fields + 1) steps (Go: endless loop / garbage). Both are
   proved unreachable in Proofs.v. *)
From Coq Require Import List Bool Arith NArith.
Import ListNotations.

Definition key := nat.
Definition fld := (key * nat)%type.          (* key id, value id (values are opaque) *)
Definition doc := list fld.

Inductive res (A : Type) : Type :=
| Ok (a : A)
| Fault
| OutOfFuel.
Arguments Ok {A} a.
Arguments Fault {A}.
Arguments OutOfFuel {A}.

Definition bind {A B} (r : res A) (f : A -> res B) : res B :=
  match r with Ok a => f a | Fault => Fault | OutOfFuel => OutOfFuel end.

Definition upd {A} (f : nat -> A) (k : nat) (v : A) : nat -> A :=
  fun x => if Nat.eqb x k then v else f x.

Fixpoint memb (k : key) (l : list key) : bool :=
  match l with [] => false | x :: r => Nat.eqb x k || memb k r end.

(* ------------------------------------------------------------------ decoded object *)
Record obj := mkObj {
  arr    : list nat;            (* owner.nodes : field node ids in array order *)
  nxt    : nat -> option nat;   (* (value of field id).next : Some next-field | None = End *)
  odirty : N;                   (* owner's dirty sequence *)
  vdirty : nat -> N;            (* value node's dirty stamp *)
  vidx   : nat -> nat           (* value node's cached index *)
}.

(* decoder.decode on an object with n fields: nodes 0..n-1 chained in order, all bits fresh *)
Definition decode (n : nat) : obj :=
  mkObj (seq 0 n) (fun i => if S i <? n then Some (S i) else None) 0%N (fun _ => 0%N) (fun _ => 0).

Definition keyof (d : doc) (id : nat) : key := fst (nth id d (0, 0)).

(* Node.Dig(field), linear branch: first field of the array whose name matches;
   stamps the value node with the owner's dirty sequence and the index found *)
Fixpoint find_key (d : doc) (k : key) (l : list nat) (i : nat) : option (nat * nat) :=
  match l with
  | [] => None
  | id :: r => if Nat.eqb (keyof d id) k then Some (i, id) else find_key d k r (S i)
  end.

Definition dig (d : doc) (o : obj) (k : key) : option (nat * obj) :=
  match find_key d k (arr o) 0 with
  | None => None
  | Some (i, id) =>
      Some (id, mkObj (arr o) (nxt o) (odirty o) (upd (vdirty o) id (odirty o)) (upd (vidx o) id i))
  end.

(* Node.findSelf for a value node: index of the field whose value it is *)
Fixpoint find_self (id : nat) (l : list nat) (i : nat) : option nat :=
  match l with
  | [] => None
  | x :: r => if Nat.eqb x id then Some i else find_self id r (S i)
  end.

Fixpoint set_nth (i : nat) (v : nat) (l : list nat) : list nat :=
  match l, i with
  | [], _ => []
  | _ :: r, 0 => v :: r
  | x :: r, S i' => x :: set_nth i' v r
  end.

Definition olink_eqb (a b : option nat) : bool :=
  match a, b with
  | None, None => true
  | Some x, Some y => Nat.eqb x y
  | _, _ => false
  end.

(* Node.Suicide on the value node of field [id] (object owner) *)
Definition suicide (o : obj) (id : nat) : res obj :=
  let a := vdirty o id in
  let b := odirty o in
  (* actualizeIndex *)
  let '(oidx, vd, vi) :=
    if negb (N.eqb a 0) && N.eqb a b then (Some (vidx o id), vdirty o, vidx o)
    else match find_self id (arr o) 0 with
         | Some i => (Some i, upd (vdirty o) id b, upd (vidx o) id i)
         | None => (None, vdirty o, vidx o)
         end in
  match oidx with
  | None => Fault                               (* "already deleted?" — never expected here *)
  | Some del =>
      let n := length (arr o) in
      if n <=? del then Fault                   (* owner.nodes[delIndex]: index out of range *)
      else
        let d' := (odirty o + 1)%N in
        let move := n - 1 in
        if Nat.eqb move 0 then Ok (mkObj [] (nxt o) d' vd vi)
        else
          let lastF := nth move (arr o) 0 in
          let arr1 := set_nth del lastF (arr o) in                      (* owner.nodes[delIndex] = lastField *)
          let nxt1 := if Nat.eqb del 0 then nxt o                       (* nodes[delIndex-1].next.next = lastField *)
                      else upd (nxt o) (nth (del - 1) arr1 0) (Some lastF) in
          let nxt2 := upd nxt1 (nth (move - 1) arr1 0) (nxt1 (nth move arr1 0)) in
          let nnext := nxt2 id in                                       (* n.next, read after the writes above *)
          let nxt3 := if olink_eqb (Some lastF) nnext then nxt2         (* if lastField != n.next {...} *)
                      else upd nxt2 lastF nnext in
          Ok (mkObj (firstn move arr1) nxt3 d' vd vi)
  end.

(* Node.Encode at the top level: "{}" for an empty array, else start at nodes[0], follow the chain *)
Fixpoint walk (nx : nat -> option nat) (fuel : nat) (cur : nat) : res (list nat) :=
  match fuel with
  | 0 => OutOfFuel
  | S f =>
      match nx cur with
      | None => Ok [cur]
      | Some c =>
          match walk nx f c with
          | Ok l => Ok (cur :: l)
          | e => e
          end
      end
  end.

Definition encode (o : obj) (fuel : nat) : res (list nat) :=
  match arr o with
  | [] => Ok []
  | f :: _ => walk (nxt o) fuel f
  end.

(* ------------------------------------------------------------------ filterFields *)
Definition fld_of (d : doc) (id : nat) : fld := nth id d (0, 0).

(* The statement of the property, as a function (independent of the algorithm below):
   allow-list keeps exactly the listed fields, block-list exactly the others. *)
Definition keep (fields : list key) (allow : bool) (f : fld) : bool :=
  if allow then memb (fst f) fields else negb (memb (fst f) fields).

Definition project (d : doc) (fields : list key) (allow : bool) : doc :=
  match fields with
  | [] => d
  | _ => filter (keep fields allow) d
  end.

(* both branches of filterFields (since /repo c998f0f the block list mirrors the allow list):
     for _, field := range decoder.AsFields() { if <listed?> { toRemove = append(toRemove, field.AsFieldValue()) } }
     for _, n := range toRemove { n.Suicide() }
   allow-list: collect the fields whose name is NOT listed; block-list: those whose name IS listed *)
Definition to_remove (d : doc) (fields : list key) (allow : bool) (id : nat) : bool :=
  if allow then negb (memb (keyof d id) fields) else memb (keyof d id) fields.

Definition step_allow (acc : res obj) (id : nat) : res obj :=
  bind acc (fun o => suicide o id).

(* ids (positions in the stored document) of the fields of the result, in output order *)
Definition filter_ids (d : doc) (fields : list key) (allow : bool) : res (list nat) :=
  let n := length d in
  match fields with
  | [] => Ok (seq 0 n)                           (* empty filter: document returned as stored *)
  | _ =>
      let o0 := decode n in
      let rm := filter (to_remove d fields allow) (arr o0) in
      bind (fold_left step_allow rm (Ok o0)) (fun o => encode o (S n))
  end.

Definition filter_fields (d : doc) (fields : list key) (allow : bool) : res doc :=
  bind (filter_ids d fields allow) (fun ids => Ok (map (fld_of d) ids)).

(* ------------------------------------------------------------------ v0: block list before c998f0f
     for _, field := range filter.Fields { decoder.Dig(field).Suicide() }
   Dig returns the FIRST field with that name, so one occurrence is removed per listed name
   (finding: a document with a repeated key kept an excluded field). Kept to document it. *)
Definition step_except (d : doc) (acc : res obj) (k : key) : res obj :=
  bind acc (fun o =>
    match dig d o k with
    | None => Ok o                               (* Suicide on a nil node is a no-op *)
    | Some (id, o') => suicide o' id
    end).

Definition filter_ids_except_v0 (d : doc) (fields : list key) : res (list nat) :=
  let n := length d in
  match fields with
  | [] => Ok (seq 0 n)
  | _ => bind (fold_left (step_except d) fields (Ok (decode n))) (fun o => encode o (S n))
  end.

Definition filter_fields_except_v0 (d : doc) (fields : list key) : res doc :=
  bind (filter_ids_except_v0 d fields) (fun ids => Ok (map (fld_of d) ids)).

(* ------------------------------------------------------------------ the pipe in the query *)
(* tokens after the search expression *)
Inductive ptok :=
| TBar                 (* | *)
| TFields              (* fields *)
| TExcept              (* except *)
| TComma
| TName (k : key)      (* a (possibly quoted) name *)
| TBad.                (* a token that cannot start a name: ( ) : [ ] * *)

Definition k_fields : key := 1000.   (* the unquoted words fields / except used as field names *)
Definition k_except : key := 1001.

Record pfilter := mkPF { pf_fields : list key; pf_allow : bool }.
Definition no_filter := mkPF [] false.

(* parseFieldList: names until | or end; a comma after a name is optional, a trailing one an error *)
Fixpoint parse_field_list (fuel : nat) (ts : list ptok) (acc : list key) (trailing : bool)
  : res (option (list key * list ptok)) :=
  match fuel with
  | 0 => OutOfFuel
  | S f =>
      let finish rest :=
        if trailing then Ok None
        else match acc with [] => Ok None | _ => Ok (Some (rev acc, rest)) end in
      match ts with
      | [] => finish []
      | TBar :: _ => finish ts
      | t :: r =>
          let name := match t with
                      | TName k => Some k
                      | TFields => Some k_fields
                      | TExcept => Some k_except
                      | _ => None
                      end in
          match name with
          | None => Ok None
          | Some k =>
              match r with
              | TComma :: r' => parse_field_list f r' (k :: acc) true
              | _ => parse_field_list f r (k :: acc) false
              end
          end
      end
  end.

(* parsePipes: every pipe is "| fields [except] list"; more than one fields pipe is an error *)
Fixpoint parse_pipes (fuel : nat) (ts : list ptok) (acc : list pfilter) : res (option (list pfilter)) :=
  match fuel with
  | 0 => OutOfFuel
  | S f =>
      match ts with
      | [] => Ok (Some (rev acc))
      | TBar :: TFields :: r =>
          let '(ex, r1) := match r with TExcept :: r' => (true, r') | _ => (false, r) end in
          match parse_field_list (S (length r1)) r1 [] false with
          | Ok (Some (names, rest)) =>
              let acc' := mkPF names (negb ex) :: acc in
              if 1 <? length acc' then Ok None else parse_pipes f rest acc'
          | Ok None => Ok None
          | Fault => Fault
          | OutOfFuel => OutOfFuel
          end
      | _ => Ok None
      end
  end.

(* tryParseFieldsFilter on a query whose search expression parses ([valid] = it does) *)
Definition try_parse_filter (valid : bool) (ts : list ptok) : res pfilter :=
  if negb valid then Ok no_filter
  else match parse_pipes (S (length ts)) ts [] with
       | Ok (Some (p :: _)) => Ok p
       | Ok _ => Ok no_filter
       | Fault => Fault
       | OutOfFuel => OutOfFuel
       end.

(* ------------------------------------------------------------------ a fetch / search page *)
(* the store applies the filter to each fetched document in turn (doFetch); the IDs of the page
   are chosen before and independently of the filter *)
Definition fetch_page (page : list doc) (fields : list key) (allow : bool) : list (res doc) :=
  map (fun d => filter_fields d fields allow) page.

(* how a well-formed pipe is written: | fields [except] n1 , n2 , ... *)
Fixpoint render_names (names : list key) : list ptok :=
  match names with
  | [] => []
  | [k] => [TName k]
  | k :: r => TName k :: TComma :: render_names r
  end.

Definition render_pipe (ex : bool) (names : list key) : list ptok :=
  TBar :: TFields :: (if ex then [TExcept] else []) ++ render_names names.

(* ------------------------------------------------------------------ the per-source fetch request *)
(* Ingestor.makeFetchReq: the request built for one source carries the filter as given, and
   building it leaves the caller's filter (shared by all sources of FetchDocsStream) unchanged:
   a pure function of (filter, ids). [fetch_reqs ff n] = the n requests and the filter afterwards. *)
Definition fetch_req_filter (ff : pfilter) : pfilter := ff.

Definition fetch_reqs (ff : pfilter) (nsources : nat) : list pfilter * pfilter :=
  (repeat (fetch_req_filter ff) nsources, ff).

(* same set of names (order and repetitions ignored) *)
Definition same_names (a b : list key) : bool :=
  forallb (fun k => memb k b) a && forallb (fun k => memb k a) b.

(* ------------------------------------------------------------------ requests in flight together *)
(* doFetch acquires one docFieldsFilter (decoder + output buffer) per request and, per document,
   decodes into it, removes nodes, encodes from it. Several Fetch handlers run at once, so the
   per-document steps of different requests interleave arbitrarily. [dec_of] says which decoder a
   request works on: [private] = every request its own (the code: a pooled filter is owned by one
   request between acquire and release, and its decoder belongs to it alone); [shared] = the
   variant in which two filters hold the same decoder (kept as the refuted variant). *)
Inductive step :=
| SDecode (r : nat) (d : doc)      (* request r: decoder.DecodeBytes(doc) *)
| SRemove (r : nat)                (* request r: collect + Suicide, by r's filter, on what its decoder holds *)
| SEncode (r : nat).               (* request r: decoder.Encode -> the document sent for r *)

Definition step_req (s : step) : nat :=
  match s with SDecode r _ => r | SRemove r => r | SEncode r => r end.

Record dstate := mkDS { ds_doc : doc; ds_obj : res obj }.

Definition remove_listed (d : doc) (fields : list key) (allow : bool) (ro : res obj) : res obj :=
  match ro with
  | Ok o => fold_left step_allow (filter (to_remove d fields allow) (arr o)) (Ok o)
  | e => e
  end.

Definition encode_doc (ds : dstate) : res doc :=
  bind (bind (ds_obj ds) (fun o => encode o (S (length (ds_doc ds)))))
       (fun ids => Ok (map (fld_of (ds_doc ds)) ids)).

Fixpoint run (dec_of : nat -> nat) (fl : nat -> list key * bool) (st : nat -> option dstate)
             (steps : list step) : list (nat * res doc) :=
  match steps with
  | [] => []
  | SDecode r d :: t =>
      run dec_of fl (upd st (dec_of r) (Some (mkDS d (Ok (decode (length d)))))) t
  | SRemove r :: t =>
      let st' := match st (dec_of r) with
                 | Some ds => upd st (dec_of r)
                                (Some (mkDS (ds_doc ds)
                                         (remove_listed (ds_doc ds) (fst (fl r)) (snd (fl r)) (ds_obj ds))))
                 | None => st
                 end in
      run dec_of fl st' t
  | SEncode r :: t =>
      (r, match st (dec_of r) with Some ds => encode_doc ds | None => Fault end) :: run dec_of fl st t
  end.

Definition private (r : nat) : nat := r.
Definition shared (_ : nat) : nat := 0.
Definition no_decoders : nat -> option dstate := fun _ => None.

(* what one request does on its own: decode, remove, encode, document after document *)
Definition request_steps (r : nat) (docs : list doc) : list step :=
  flat_map (fun d => [SDecode r d; SRemove r; SEncode r]) docs.

Definition steps_of (r : nat) (steps : list step) : list step :=
  filter (fun s => Nat.eqb (step_req s) r) steps.

Definition outputs_of (r : nat) (outs : list (nat * res doc)) : list (res doc) :=
  map snd (filter (fun p => Nat.eqb (fst p) r) outs).

(* ------------------------------------------------------------------ the filter pool *)
(* docFieldsFilterPool (a sync.Pool): doFetch takes one filter object at its start (Get hands out ANY
   pooled object, or a new one when the pool has none) and gives it back when it leaves. [fpath] =
   the ways doFetch leaves; [rel p] = how many times releaseDocFieldsFilter runs on that way.
   The code: `defer releaseDocFieldsFilter(dp)` — once on every path. *)
Inductive fpath :=
| PDone            (* all documents sent *)
| PIdsError        (* extractIDs failed *)
| PStreamError     (* docsStream.Next failed *)
| PSendError       (* stream.Send failed, context alive *)
| PCancelled.      (* stream.Send failed, context cancelled: leaves the loop with break *)

Inductive pev :=
| PAcquire (r : nat) (pick : nat)   (* request r starts; pick = which pooled object Get returns *)
| PFinish (r : nat) (p : fpath).    (* request r leaves doFetch by path p *)

Record pstate := mkPS { pheld : list (nat * nat); ppool : list nat; pnext : nat }.

Fixpoint remove_nth {A} (i : nat) (l : list A) : list A :=
  match l, i with
  | [], _ => []
  | _ :: r, 0 => r
  | x :: r, S i' => x :: remove_nth i' r
  end.

Fixpoint take_req (r : nat) (h : list (nat * nat)) : option (nat * list (nat * nat)) :=
  match h with
  | [] => None
  | (r', o) :: t =>
      if Nat.eqb r r' then Some (o, t)
      else match take_req r t with
           | Some (o2, t2) => Some (o2, (r', o) :: t2)
           | None => None
           end
  end.

Definition pstep (rel : fpath -> nat) (st : pstate) (e : pev) : pstate :=
  match e with
  | PAcquire r pick =>
      match nth_error (ppool st) pick with
      | Some o => mkPS ((r, o) :: pheld st) (remove_nth pick (ppool st)) (pnext st)
      | None => mkPS ((r, pnext st) :: pheld st) (ppool st) (S (pnext st))
      end
  | PFinish r p =>
      match take_req r (pheld st) with
      | Some (o, h') => mkPS h' (repeat o (rel p) ++ ppool st) (pnext st)
      | None => st
      end
  end.

Definition releases_code (_ : fpath) : nat := 1.
(* the variant with explicit releases where the cancelled path releases before `break` AND after the loop *)
Definition releases_dbl (p : fpath) : nat := match p with PCancelled => 2 | _ => 1 end.

Definition prun (rel : fpath -> nat) (evs : list pev) : pstate :=
  fold_left (pstep rel) evs (mkPS [] [] 0).
