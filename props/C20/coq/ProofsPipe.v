(* C20 — proofs about the pipe extraction (token level), the page structure, and the
   duplicate-key counterexample. *)
From Coq Require Import List Bool Arith NArith Lia Permutation.
Import ListNotations.
From C20 Require Import Model.

(* ---------------------------------------------------------------- field list *)
Lemma pfl_render :
  forall names acc tr fuel, names <> [] -> length (render_names names) < fuel ->
    parse_field_list fuel (render_names names) acc tr = Ok (Some (rev acc ++ names, [])).
Proof.
  induction names as [|k r IH]; intros acc tr fuel Hne Hf; [congruence|].
  destruct r as [|k' r'].
  - simpl in *. destruct fuel as [|[|f]]; try lia. simpl. reflexivity.
  - change (render_names (k :: k' :: r')) with (TName k :: TComma :: render_names (k' :: r')) in *.
    destruct fuel as [|f]; [simpl in Hf; lia|].
    cbn [parse_field_list].
    rewrite IH; [| congruence | simpl in Hf |- *; lia].
    simpl. rewrite <- app_assoc. reflexivity.
Qed.

Lemma render_names_head :
  forall names, names <> [] -> exists k r, render_names names = TName k :: r.
Proof.
  intros [|k [|k' r]] H; [congruence| |]; simpl; eauto.
Qed.

Lemma pp_step :
  forall f r acc,
    parse_pipes (S f) (TBar :: TFields :: r) acc =
    let '(ex, r1) := match r with TExcept :: r' => (true, r') | _ => (false, r) end in
    match parse_field_list (S (length r1)) r1 [] false with
    | Ok (Some (names, rest)) =>
        let acc' := mkPF names (negb ex) :: acc in
        if 1 <? length acc' then Ok None else parse_pipes f rest acc'
    | Ok None => Ok None
    | Fault => Fault
    | OutOfFuel => OutOfFuel
    end.
Proof. reflexivity. Qed.

Lemma pipe_extraction :
  forall names ex, names <> [] ->
    try_parse_filter true (render_pipe ex names) = Ok (mkPF names (negb ex)).
Proof.
  intros names ex Hne. unfold try_parse_filter, render_pipe. cbn [negb].
  destruct ex.
  - cbn [app length]. rewrite pp_step.
    rewrite (pfl_render names [] false (S (length (render_names names))) Hne) by lia.
    reflexivity.
  - cbn [app length]. rewrite pp_step.
    destruct (render_names_head names Hne) as (k & r & E).
    assert (Hm : match render_names names with TExcept :: r' => (true, r') | _ => (false, render_names names) end
                 = (false, render_names names)) by (rewrite E; reflexivity).
    rewrite Hm.
    rewrite (pfl_render names [] false (S (length (render_names names))) Hne) by lia.
    reflexivity.
Qed.

Lemma no_pipe_no_filter : try_parse_filter true [] = Ok no_filter.
Proof. reflexivity. Qed.

Lemma invalid_query_no_filter : forall ts, try_parse_filter false ts = Ok no_filter.
Proof. reflexivity. Qed.

(* ---------------------------------------------------------------- totality *)
Lemma pfl_total :
  forall fuel ts acc tr, length ts < fuel ->
    match parse_field_list fuel ts acc tr with
    | Ok None => True
    | Ok (Some (_, rest)) => length rest <= length ts
    | _ => False
    end.
Proof.
  induction fuel as [|f IH]; intros ts acc tr Hf; [lia|].
  cbn [parse_field_list].
  destruct ts as [|t r].
  - destruct tr; [exact I|]. destruct acc; [exact I| simpl; lia].
  - assert (Hrec : forall r' acc' tr', length r' <= length r ->
              match parse_field_list f r' acc' tr' with
              | Ok None => True
              | Ok (Some (_, rest)) => length rest <= length (t :: r)
              | _ => False end).
    { intros r' acc' tr' Hl. specialize (IH r' acc' tr').
      assert (length r' < f) by (simpl in Hf; lia). specialize (IH H).
      destruct (parse_field_list f r' acc' tr') as [[[ns rest]|]| |]; auto. simpl. lia. }
    destruct t; try exact I.
    + destruct tr; [exact I|]. destruct acc; [exact I| simpl; lia].
    + destruct r as [|[] r']; try (apply Hrec; simpl; lia).
    + destruct r as [|[] r']; try (apply Hrec; simpl; lia).
    + destruct r as [|[] r']; try (apply Hrec; simpl; lia).
Qed.

Lemma pp_total :
  forall fuel ts acc, length ts < fuel ->
    match parse_pipes fuel ts acc with Ok _ => True | _ => False end.
Proof.
  induction fuel as [|f IH]; intros ts acc Hf; [lia|].
  cbn [parse_pipes].
  destruct ts as [|t r]; [exact I|].
  destruct t; try exact I.
  destruct r as [|t2 r2]; [exact I|].
  destruct t2; try exact I.
  set (p := match r2 with TExcept :: r' => (true, r') | _ => (false, r2) end).
  assert (Hp : length (snd p) <= length r2).
  { subst p. destruct r2 as [|[] ?]; simpl; lia. }
  destruct p as [ex r1]. simpl in Hp.
  pose proof (pfl_total (S (length r1)) r1 [] false (Nat.lt_succ_diag_r _)) as Ht.
  destruct (parse_field_list (S (length r1)) r1 [] false) as [[[ns rest]|]| |]; try exact I; try contradiction.
  destruct (1 <? length (mkPF ns (negb ex) :: acc)); [exact I|].
  apply IH. simpl in Hf. lia.
Qed.

Lemma try_parse_total :
  forall valid ts, exists p, try_parse_filter valid ts = Ok p.
Proof.
  intros valid ts. unfold try_parse_filter. destruct valid; cbn [negb].
  - pose proof (pp_total (S (length ts)) ts [] (Nat.lt_succ_diag_r _)) as H.
    destruct (parse_pipes (S (length ts)) ts []) as [o| |]; try contradiction.
    destruct o as [[|p l]|]; eexists; reflexivity.
  - eexists; reflexivity.
Qed.

(* ---------------------------------------------------------------- page *)
Lemma page_order_unchanged :
  forall page fields allow,
    length (fetch_page page fields allow) = length page /\
    forall i d, nth_error page i = Some d ->
      nth_error (fetch_page page fields allow) i = Some (filter_fields d fields allow).
Proof.
  intros. unfold fetch_page. split; [apply map_length|].
  intros i d H. exact (map_nth_error (fun d0 => filter_fields d0 fields allow) i page H).
Qed.

(* ---------------------------------------------------------------- per-source requests *)
Lemma fetch_reqs_pure :
  forall ff n, snd (fetch_reqs ff n) = ff /\ length (fst (fetch_reqs ff n)) = n
               /\ forall r, In r (fst (fetch_reqs ff n)) -> r = ff.
Proof.
  intros ff n. unfold fetch_reqs, fetch_req_filter. simpl.
  split; [reflexivity|]. split; [apply repeat_length|].
  intros r H. now apply repeat_spec in H.
Qed.

Lemma memb_In : forall k l, memb k l = true <-> In k l.
Proof.
  intros k l. induction l as [|x l IH]; simpl; [split; [discriminate|tauto]|].
  rewrite orb_true_iff, Nat.eqb_eq, IH. tauto.
Qed.

Lemma same_names_memb : forall a b, same_names a b = true -> forall k, memb k a = memb k b.
Proof.
  intros a b H k. unfold same_names in H. apply andb_true_iff in H. destruct H as [H1 H2].
  rewrite forallb_forall in H1, H2.
  destruct (memb k a) eqn:Ea; destruct (memb k b) eqn:Eb; try reflexivity.
  - apply memb_In in Ea. specialize (H1 k Ea). congruence.
  - apply memb_In in Eb. specialize (H2 k Eb). congruence.
Qed.

(* the result of the filter depends on the SET of listed names only (order, repetitions irrelevant) *)
Lemma filter_depends_on_name_set :
  forall d f1 f2 allow, f1 <> [] -> f2 <> [] -> same_names f1 f2 = true ->
    filter_fields d f1 allow = filter_fields d f2 allow.
Proof.
  intros d f1 f2 allow H1 H2 H. pose proof (same_names_memb _ _ H) as M.
  unfold filter_fields, filter_ids.
  destruct f1 as [|a f1]; [congruence|]. destruct f2 as [|b f2]; [congruence|].
  cbv zeta.
  rewrite (filter_ext (to_remove d (a :: f1) allow) (to_remove d (b :: f2) allow)); [reflexivity|].
  intros id. unfold to_remove. rewrite M. reflexivity.
Qed.

(* ---------------------------------------------------------------- duplicate keys, block-list v0 *)
Lemma except_dup_keys_v0_refuted :
  exists d fields out,
    filter_fields_except_v0 d fields = Ok out /\ ~ Permutation out (project d fields false)
    /\ In (1, 11) out /\ memb 1 fields = true.
Proof.
  exists [(1, 10); (1, 11); (2, 12)], [1], [(2, 12); (1, 11)].
  split; [vm_compute; reflexivity|].
  split; [| split; [simpl; auto | reflexivity]].
  intro H. apply Permutation_length in H. vm_compute in H. discriminate.
Qed.
