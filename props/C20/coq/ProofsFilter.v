(* C20 — proofs about the fields filter (filterFields over the swap-with-last removal). *)
From Coq Require Import List Bool Arith NArith Lia Permutation.
Import ListNotations.
From VLib Require Import CaseLib.
From C20 Require Import Model CaseDefs.

(* ------------------------------------------------------------------ small list facts *)
Lemma rev_case : forall (l : list nat), l = [] \/ exists l' z, l = l' ++ [z].
Proof.
  intros l. destruct l as [|a l]; [left; reflexivity|right].
  destruct (@exists_last _ (a :: l)) as [l' [z E]]; [discriminate|].
  exists l', z. exact E.
Qed.

Lemma NoDup_app_l : forall (a b : list nat), NoDup (a ++ b) -> NoDup a.
Proof.
  intros a b. induction a as [|x a IH]; simpl; intros H; [constructor|].
  inversion H as [|y l Hx Hr]; subst. constructor.
  - intros Hin. apply Hx. apply in_or_app. left. exact Hin.
  - apply IH. exact Hr.
Qed.

Lemma NoDup_app_r : forall (a b : list nat), NoDup (a ++ b) -> NoDup b.
Proof.
  intros a b. induction a as [|x a IH]; simpl; intros H; [exact H|].
  inversion H; subst. apply IH. assumption.
Qed.

Lemma nth_split_eq : forall (l a : list nat) x b i d,
  l = a ++ x :: b -> i = length a -> nth i l d = x.
Proof.
  intros l a x b i d -> ->. rewrite app_nth2 by lia. rewrite Nat.sub_diag. reflexivity.
Qed.

Lemma set_nth_split_eq : forall (l a : list nat) x b i v,
  l = a ++ x :: b -> i = length a -> set_nth i v l = a ++ v :: b.
Proof.
  intros l a x b i v -> ->. induction a as [|y a IH]; simpl; [reflexivity|].
  rewrite IH. reflexivity.
Qed.

Lemma firstn_split_eq : forall (l a b : list nat) i,
  l = a ++ b -> i = length a -> firstn i l = a.
Proof.
  intros l a b i -> ->. rewrite firstn_app, Nat.sub_diag, firstn_all. simpl.
  apply app_nil_r.
Qed.

Ltac len := repeat (rewrite ?app_length; simpl); lia.
Ltac leq := repeat (rewrite <- ?app_assoc; simpl); reflexivity.

(* disequalities / non-membership out of a NoDup hypothesis, by counting occurrences *)
Ltac in2count :=
  repeat match goal with
         | H : In _ _ |- _ => apply (count_occ_In Nat.eq_dec) in H
         end.
Ltac nd H x :=
  in2count;
  let C := fresh "C" in
  pose proof (proj1 (NoDup_count_occ Nat.eq_dec _) H x) as C;
  repeat (first [ rewrite count_occ_app in C
                | progress simpl in C
                | match type of C with
                  | context [Nat.eq_dec ?a ?b] =>
                      destruct (Nat.eq_dec a b); try congruence
                  end ]);
  try lia.

(* ------------------------------------------------------------------ the chain *)
Fixpoint chain_ok (nx : nat -> option nat) (l : list nat) : Prop :=
  match l with
  | [] => True
  | [a] => nx a = None
  | a :: ((b :: _) as t) => nx a = Some b /\ chain_ok nx t
  end.

Definition head_or (l : list nat) (e : option nat) : option nat :=
  match l with [] => e | b :: _ => Some b end.

(* [links nx l e]: every node of l points to the next one of l, the last one to e *)
Fixpoint links (nx : nat -> option nat) (l : list nat) (e : option nat) : Prop :=
  match l with
  | [] => True
  | a :: t => nx a = head_or t e /\ links nx t e
  end.

Lemma chain_ok_links : forall nx l, chain_ok nx l <-> links nx l None.
Proof.
  intros nx l. induction l as [|a l IH]; [simpl; tauto|].
  destruct l as [|b l]; [simpl; tauto|].
  change (chain_ok nx (a :: b :: l)) with (nx a = Some b /\ chain_ok nx (b :: l)).
  change (links nx (a :: b :: l) None) with (nx a = Some b /\ links nx (b :: l) None).
  tauto.
Qed.

Lemma head_or_app : forall l1 l2 e, head_or (l1 ++ l2) e = head_or l1 (head_or l2 e).
Proof. intros [|a l1] l2 e; reflexivity. Qed.

Lemma links_app : forall nx l1 l2 e,
  links nx (l1 ++ l2) e <-> links nx l1 (head_or l2 e) /\ links nx l2 e.
Proof.
  intros nx l1 l2 e. induction l1 as [|a l1 IH]; simpl; [tauto|].
  rewrite head_or_app. tauto.
Qed.

Lemma links_ext : forall nx nx' l e,
  (forall x, In x l -> nx x = nx' x) -> links nx l e -> links nx' l e.
Proof.
  intros nx nx' l e. induction l as [|a l IH]; simpl; [tauto|].
  intros H [H1 H2]. split.
  - rewrite <- H by (left; reflexivity). exact H1.
  - apply IH; [|exact H2]. intros x Hx. apply H. right. exact Hx.
Qed.

Lemma links_upd_notin : forall nx l e k v,
  ~ In k l -> links nx l e -> links (upd nx k v) l e.
Proof.
  intros nx l e k v Hk. apply links_ext. intros x Hx. unfold upd.
  destruct (Nat.eqb_spec x k); [subst; contradiction|reflexivity].
Qed.

Lemma upd_same : forall {A} (f : nat -> A) k v, upd f k v k = v.
Proof. intros. unfold upd. rewrite Nat.eqb_refl. reflexivity. Qed.

Lemma upd_other : forall {A} (f : nat -> A) k v x, x <> k -> upd f k v x = f x.
Proof. intros. unfold upd. destruct (Nat.eqb_spec x k); [contradiction|reflexivity]. Qed.

(* ------------------------------------------------------------------ 5. the encoder *)
Lemma walk_links : forall nx l a fuel,
  links nx (a :: l) None -> length (a :: l) <= fuel -> walk nx fuel a = Ok (a :: l).
Proof.
  intros nx l. induction l as [|b l IH]; intros a fuel H Hf.
  - destruct fuel; [simpl in Hf; lia|]. simpl in *. destruct H as [-> _]. reflexivity.
  - destruct fuel; [simpl in Hf; lia|].
    change (links nx (a :: b :: l) None) with (nx a = Some b /\ links nx (b :: l) None) in H.
    destruct H as [H1 H2]. simpl. rewrite H1.
    rewrite (IH b fuel H2) by (simpl in *; lia). reflexivity.
Qed.

Lemma encode_is_array :
  forall o fuel, NoDup (arr o) -> chain_ok (nxt o) (arr o) -> length (arr o) <= fuel ->
    encode o fuel = Ok (arr o).
Proof.
  intros o fuel _ H Hf. unfold encode. destruct (arr o) as [|a l] eqn:E; [reflexivity|].
  apply walk_links; [apply chain_ok_links; exact H|exact Hf].
Qed.

(* ------------------------------------------------------------------ 6. one removal *)
Fixpoint swap_remove (id : nat) (l : list nat) : list nat :=
  match l with
  | [] => []
  | x :: r =>
      if Nat.eqb x id then
        match r with
        | [] => []
        | _ => last r 0 :: removelast r
        end
      else x :: swap_remove id r
  end.

Lemma swap_remove_notin : forall id l, ~ In id l -> swap_remove id l = l.
Proof.
  intros id l. induction l as [|x r IH]; simpl; [reflexivity|]. intros H.
  destruct (Nat.eqb_spec x id); [exfalso; apply H; left; assumption|].
  rewrite IH; [reflexivity|]. intros Hin. apply H. right. exact Hin.
Qed.

Lemma swap_remove_last : forall id l1, ~ In id l1 -> swap_remove id (l1 ++ [id]) = l1.
Proof.
  intros id l1. induction l1 as [|x r IH]; simpl; intros H.
  - rewrite Nat.eqb_refl. reflexivity.
  - destruct (Nat.eqb_spec x id); [exfalso; apply H; left; assumption|].
    rewrite IH; [reflexivity|]. intros Hin. apply H. right. exact Hin.
Qed.

Lemma swap_remove_mid : forall id l1 l2 z, ~ In id l1 ->
  swap_remove id (l1 ++ id :: l2 ++ [z]) = l1 ++ z :: l2.
Proof.
  intros id l1 l2 z. induction l1 as [|x r IH]; simpl; intros H.
  - rewrite Nat.eqb_refl. rewrite last_last, removelast_last.
    destruct (l2 ++ [z]) eqn:E; [destruct l2; discriminate|reflexivity].
  - destruct (Nat.eqb_spec x id); [exfalso; apply H; left; assumption|].
    rewrite IH; [reflexivity|]. intros Hin. apply H. right. exact Hin.
Qed.

Definition actualize (o : obj) (id : nat) : option nat * (nat -> N) * (nat -> nat) :=
  let a := vdirty o id in
  let b := odirty o in
  if negb (N.eqb a 0) && N.eqb a b then (Some (vidx o id), vdirty o, vidx o)
  else match find_self id (arr o) 0 with
       | Some i => (Some i, upd (vdirty o) id b, upd (vidx o) id i)
       | None => (None, vdirty o, vidx o)
       end.

Definition suicide_at (o : obj) (id del : nat) (vd : nat -> N) (vi : nat -> nat) : res obj :=
  let n := length (arr o) in
  if n <=? del then Fault
  else
    let d' := (odirty o + 1)%N in
    let move := n - 1 in
    if Nat.eqb move 0 then Ok (mkObj [] (nxt o) d' vd vi)
    else
      let lastF := nth move (arr o) 0 in
      let arr1 := set_nth del lastF (arr o) in
      let nxt1 := if Nat.eqb del 0 then nxt o
                  else upd (nxt o) (nth (del - 1) arr1 0) (Some lastF) in
      let nxt2 := upd nxt1 (nth (move - 1) arr1 0) (nxt1 (nth move arr1 0)) in
      let nnext := nxt2 id in
      let nxt3 := if olink_eqb (Some lastF) nnext then nxt2
                  else upd nxt2 lastF nnext in
      Ok (mkObj (firstn move arr1) nxt3 d' vd vi).

Lemma suicide_unfold : forall o id,
  suicide o id =
  match actualize o id with
  | (Some del, vd, vi) => suicide_at o id del vd vi
  | (None, _, _) => Fault
  end.
Proof.
  intros o id. unfold suicide, actualize, suicide_at.
  destruct (negb (N.eqb (vdirty o id) 0) && N.eqb (vdirty o id) (odirty o)); [reflexivity|].
  destruct (find_self id (arr o) 0); reflexivity.
Qed.

Lemma find_self_spec : forall id l i, In id l ->
  exists j, find_self id l i = Some (i + j) /\ nth_error l j = Some id.
Proof.
  intros id l. induction l as [|x r IH]; intros i H; [destruct H|]. simpl.
  destruct (Nat.eqb_spec x id) as [E|E].
  - exists 0. rewrite Nat.add_0_r. subst. split; reflexivity.
  - destruct H as [H|H]; [contradiction|].
    destruct (IH (S i) H) as [j [H1 H2]]. exists (S j). split; [|exact H2].
    rewrite H1. f_equal. lia.
Qed.

Lemma actualize_ok : forall o id, In id (arr o) ->
  (vdirty o id = 0%N \/ vdirty o id <> odirty o \/ nth_error (arr o) (vidx o id) = Some id) ->
  exists del vd vi, actualize o id = (Some del, vd, vi)
                    /\ nth_error (arr o) del = Some id
                    /\ (forall x, x <> id -> vd x = vdirty o x).
Proof.
  intros o id Hin H. unfold actualize.
  destruct (negb (N.eqb (vdirty o id) 0) && N.eqb (vdirty o id) (odirty o)) eqn:E.
  - apply andb_true_iff in E. destruct E as [E1 E2].
    apply negb_true_iff in E1. apply N.eqb_neq in E1. apply N.eqb_eq in E2.
    destruct H as [H|[H|H]]; [contradiction|contradiction|].
    exists (vidx o id), (vdirty o), (vidx o). split; [reflexivity|]. split; [exact H|reflexivity].
  - destruct (find_self_spec id (arr o) 0 Hin) as [j [H1 H2]]. simpl in H1. rewrite H1.
    exists j, (upd (vdirty o) id (odirty o)), (upd (vidx o) id j).
    split; [reflexivity|]. split; [exact H2|]. intros x Hx. apply upd_other. exact Hx.
Qed.

(* nodes[delIndex-1].next.next = lastField : the prefix now ends at lastField *)
Lemma relink_prefix : forall nx l1 rest e v, NoDup l1 -> links nx l1 e ->
  let nx1 := if Nat.eqb (length l1) 0 then nx
             else upd nx (nth (length l1 - 1) (l1 ++ rest) 0) (Some v) in
  links nx1 l1 (Some v) /\ (forall x, ~ In x l1 -> nx1 x = nx x).
Proof.
  intros nx l1 rest e v Hnd H. destruct (rev_case l1) as [->|[l1' [p ->]]].
  - simpl. split; [exact I|reflexivity].
  - replace (Nat.eqb (length (l1' ++ [p])) 0) with false
      by (symmetry; apply Nat.eqb_neq; len).
    rewrite (nth_split_eq _ l1' p rest) by (leq || len).
    cbv zeta. apply links_app in H. destruct H as [H1 H2]. simpl in H1. split.
    + apply links_app. split.
      * simpl. apply links_upd_notin; [|exact H1]. intros Hin. nd Hnd p.
      * simpl. rewrite upd_same. split; [reflexivity|exact I].
    + intros x Hx. apply upd_other. intros ->. apply Hx. apply in_or_app. right. left. reflexivity.
Qed.

Lemma suicide_at_ok : forall a nx od vdr vix id del vd vi,
  NoDup a -> links nx a None -> nth_error a del = Some id ->
  exists o', suicide_at (mkObj a nx od vdr vix) id del vd vi = Ok o'
    /\ arr o' = swap_remove id a /\ NoDup (arr o') /\ links (nxt o') (arr o') None
    /\ odirty o' = (od + 1)%N /\ vdirty o' = vd.
Proof.
  intros a nx od vdr vix id del vd vi Hnd Hl Hn.
  apply nth_error_split in Hn. destruct Hn as [l1 [l2 [-> Hlen]]]. subst del.
  assert (Hid1 : ~ In id l1) by (intros Hin; nd Hnd id).
  unfold suicide_at. cbn [arr nxt odirty vdirty vidx].
  replace (length (l1 ++ id :: l2) <=? length l1) with false by (symmetry; apply Nat.leb_gt; len).
  destruct (rev_case l2) as [->|[l2' [z ->]]].
  - (* id is the last field *)
    destruct (rev_case l1) as [->|[l1' [p ->]]].
    + simpl. eexists. split; [reflexivity|]. simpl. rewrite Nat.eqb_refl. repeat split; constructor.
    + set (A := (l1' ++ [p]) ++ [id]) in *.
      replace (length A - 1 =? 0) with false by (symmetry; apply Nat.eqb_neq; unfold A; len).
      replace (length (l1' ++ [p]) =? 0) with false by (symmetry; apply Nat.eqb_neq; len).
      assert (E1 : nth (length A - 1) A 0 = id)
        by (apply nth_split_eq with (a := l1' ++ [p]) (b := []); unfold A; [leq|len]).
      cbv zeta. rewrite E1.
      assert (E2 : set_nth (length (l1' ++ [p])) id A = A)
        by (unfold A at 1; rewrite (set_nth_split_eq _ (l1' ++ [p]) id []); [reflexivity|reflexivity|reflexivity]).
      rewrite E2, E1.
      assert (E3 : nth (length (l1' ++ [p]) - 1) A 0 = p)
        by (apply nth_split_eq with (a := l1') (b := [id]); unfold A; [leq|len]).
      assert (E4 : nth (length A - 1 - 1) A 0 = p)
        by (apply nth_split_eq with (a := l1') (b := [id]); unfold A; [leq|len]).
      rewrite E3, E4.
      assert (E5 : firstn (length A - 1) A = l1' ++ [p])
        by (apply firstn_split_eq with (b := [id]); unfold A; [leq|len]).
      rewrite E5.
      assert (Nip : id <> p) by (intros ->; unfold A in Hnd; nd Hnd p).
      unfold A in Hl. apply links_app in Hl. destruct Hl as [Hl1 [Hl2 _]]. simpl in Hl1, Hl2.
      apply links_app in Hl1. destruct Hl1 as [Hl1 [Hl3 _]]. simpl in Hl1, Hl3.
      rewrite !(upd_other _ p _ id) by exact Nip. rewrite Hl2. cbn [olink_eqb].
      eexists. split; [reflexivity|]. cbn [arr nxt odirty vdirty].
      split; [unfold A; rewrite swap_remove_last by exact Hid1; reflexivity|].
      split; [unfold A in Hnd; apply NoDup_app_l in Hnd; exact Hnd|].
      split; [|split; reflexivity].
      apply links_app. simpl. split.
      * apply links_upd_notin; [intros Hin; unfold A in Hnd; nd Hnd id|].
        apply links_upd_notin; [intros Hin; unfold A in Hnd; nd Hnd p|].
        apply links_upd_notin; [intros Hin; unfold A in Hnd; nd Hnd p|]. exact Hl1.
      * split; [|exact I]. rewrite upd_other by (intros E; apply Nip; symmetry; exact E).
        apply upd_same.
  - set (A := l1 ++ id :: l2' ++ [z]) in *.
    replace (length A - 1 =? 0) with false by (symmetry; apply Nat.eqb_neq; unfold A; len).
    assert (E1 : nth (length A - 1) A 0 = z)
      by (apply nth_split_eq with (a := l1 ++ id :: l2') (b := []); unfold A; [leq|len]).
    cbv zeta. rewrite E1.
    assert (E2 : set_nth (length l1) z A = l1 ++ z :: l2' ++ [z])
      by (apply set_nth_split_eq with (x := id); reflexivity).
    rewrite E2.
    assert (Hnd1 : NoDup l1) by (apply NoDup_app_l in Hnd; exact Hnd).
    unfold A in Hl. apply links_app in Hl. destruct Hl as [Hl1 Hl2]. simpl in Hl1.
    destruct Hl2 as [Hl2 Hl3]. apply links_app in Hl3. destruct Hl3 as [Hl3 [Hl4 _]].
    simpl in Hl3, Hl4. rewrite head_or_app in Hl2. simpl in Hl2.
    destruct (relink_prefix nx l1 (z :: l2' ++ [z]) (Some id) z Hnd1 Hl1) as [R1 R2].
    set (nx1 := if length l1 =? 0 then nx
                else upd nx (nth (length l1 - 1) (l1 ++ z :: l2' ++ [z]) 0) (Some z)) in *.
    assert (E3 : nth (length A - 1) (l1 ++ z :: l2' ++ [z]) 0 = z)
      by (apply nth_split_eq with (a := l1 ++ z :: l2') (b := []); unfold A; [leq|len]).
    rewrite E3.
    assert (Nz1 : ~ In z l1) by (intros Hin; unfold A in Hnd; nd Hnd z).
    assert (Niz : id <> z) by (intros ->; unfold A in Hnd; nd Hnd z).
    rewrite (R2 z Nz1), Hl4.
    assert (E4 : firstn (length A - 1) (l1 ++ z :: l2' ++ [z]) = l1 ++ z :: l2')
      by (apply firstn_split_eq with (b := [z]); unfold A; [leq|len]).
    rewrite E4.
    assert (Hsw : swap_remove id A = l1 ++ z :: l2') by (apply swap_remove_mid; exact Hid1).
    assert (Hnd' : NoDup (l1 ++ z :: l2')).
    { apply (NoDup_count_occ Nat.eq_dec). intros x. rewrite count_occ_app. simpl.
      unfold A in Hnd. nd Hnd x. }
    assert (Nid1 : nx1 id = nx id) by (apply R2; exact Hid1).
    destruct (rev_case l2') as [->|[l2'' [q ->]]].
    + assert (E5 : nth (length A - 1 - 1) (l1 ++ z :: [] ++ [z]) 0 = z)
        by (apply nth_split_eq with (a := l1) (b := [z]); unfold A; [leq|len]).
      rewrite E5. rewrite (upd_other _ z _ id) by exact Niz. rewrite Nid1, Hl2.
      simpl head_or. cbn [olink_eqb]. rewrite Nat.eqb_refl.
      eexists. split; [reflexivity|]. cbn [arr nxt odirty vdirty].
      split; [symmetry; exact Hsw|]. split; [exact Hnd'|]. split; [|split; reflexivity].
      apply links_app. simpl. split.
      * apply links_upd_notin; [exact Nz1|exact R1].
      * split; [apply upd_same|exact I].
    + assert (E5 : nth (length A - 1 - 1) (l1 ++ z :: (l2'' ++ [q]) ++ [z]) 0 = q)
        by (apply nth_split_eq with (a := l1 ++ z :: l2'') (b := [z]); unfold A; [leq|len]).
      rewrite E5.
      assert (Niq : id <> q) by (intros ->; unfold A in Hnd; nd Hnd q).
      assert (Nzq : z <> q) by (intros ->; unfold A in Hnd; nd Hnd q).
      assert (Nq1 : ~ In q l1) by (intros Hin; unfold A in Hnd; nd Hnd q).
      rewrite (upd_other _ q _ id) by exact Niq. rewrite Nid1, Hl2.
      rewrite head_or_app. simpl (head_or [q] _).
      assert (Ho : olink_eqb (Some z) (head_or l2'' (Some q)) = false).
      { destruct l2'' as [|y t]; simpl; apply Nat.eqb_neq; [exact Nzq|].
        intros ->. unfold A in Hnd. nd Hnd y. }
      rewrite Ho.
      eexists. split; [reflexivity|]. cbn [arr nxt odirty vdirty].
      split; [symmetry; exact Hsw|]. split; [exact Hnd'|]. split; [|split; reflexivity].
      apply links_app in Hl3. destruct Hl3 as [Hl3 [Hl5 _]]. simpl in Hl3, Hl5.
      apply links_app. split; [|split].
      * simpl. apply links_upd_notin; [exact Nz1|]. apply links_upd_notin; [exact Nq1|exact R1].
      * rewrite upd_same. rewrite head_or_app. reflexivity.
      * apply links_app. simpl. split.
        -- apply links_upd_notin; [intros Hin; unfold A in Hnd; nd Hnd z|].
           apply links_upd_notin; [intros Hin; unfold A in Hnd; nd Hnd q|].
           apply links_ext with (nx := nx); [|exact Hl3].
           intros x Hx. symmetry. apply R2. intros Hin. unfold A in Hnd. nd Hnd x.
        -- split; [|exact I]. rewrite upd_other by (intros E; apply Nzq; symmetry; exact E).
           apply upd_same.
Qed.

Lemma suicide_swap_remove :
  forall o id, NoDup (arr o) -> chain_ok (nxt o) (arr o) -> In id (arr o) ->
    (vdirty o id = 0%N \/ vdirty o id <> odirty o \/ nth_error (arr o) (vidx o id) = Some id) ->
    exists o', suicide o id = Ok o' /\ arr o' = swap_remove id (arr o)
               /\ NoDup (arr o') /\ chain_ok (nxt o') (arr o')
               /\ odirty o' = (odirty o + 1)%N
               /\ (forall x, x <> id -> vdirty o' x = vdirty o x).
Proof.
  intros o id Hnd Hc Hin Hidx.
  destruct (actualize_ok o id Hin Hidx) as [del [vd [vi [Ha [Hn Hvd]]]]].
  rewrite suicide_unfold, Ha.
  apply chain_ok_links in Hc. destruct o as [a nx od vdr vix]. cbn [arr nxt odirty vdirty vidx] in *.
  destruct (suicide_at_ok a nx od vdr vix id del vd vi Hnd Hc Hn)
    as [o' [H1 [H2 [H3 [H4 [H5 H6]]]]]].
  exists o'. split; [exact H1|]. split; [exact H2|]. split; [exact H3|].
  split; [apply chain_ok_links; exact H4|]. split; [exact H5|].
  intros x Hx. rewrite H6. apply Hvd. exact Hx.
Qed.

Lemma swap_remove_perm : forall id l, NoDup l -> In id l -> Permutation l (id :: swap_remove id l).
Proof.
  intros id l Hnd Hin. apply in_split in Hin. destruct Hin as [l1 [l2 ->]].
  assert (Hid1 : ~ In id l1) by (intros Hin; nd Hnd id).
  destruct (rev_case l2) as [->|[l2' [z ->]]].
  - rewrite swap_remove_last by exact Hid1. symmetry. apply Permutation_cons_append.
  - rewrite swap_remove_mid by exact Hid1. symmetry. apply Permutation_cons_app.
    apply Permutation_app_head. apply Permutation_cons_append.
Qed.

Lemma swap_remove_in : forall id l x, NoDup l -> In id l ->
  (In x (swap_remove id l) <-> In x l /\ x <> id).
Proof.
  intros id l x Hnd Hin. pose proof (swap_remove_perm id l Hnd Hin) as P.
  assert (Hnd2 : NoDup (id :: swap_remove id l)) by (eapply Permutation_NoDup; eassumption).
  inversion Hnd2 as [|y r Hy Hr]; subst. split.
  - intros H. split.
    + eapply Permutation_in; [symmetry; exact P|]. right. exact H.
    + intros ->. contradiction.
  - intros [H1 H2]. apply (Permutation_in _ P) in H1. destruct H1 as [H1|H1]; [|exact H1].
    exfalso. apply H2. symmetry. exact H1.
Qed.

(* ------------------------------------------------------------------ the decoded object *)
Lemma decode_links : forall n m a, a + m = n ->
  links (fun i => if S i <? n then Some (S i) else None) (seq a m) None.
Proof.
  intros n m. induction m as [|m IH]; intros a H; simpl; [exact I|]. split.
  - destruct m; simpl.
    + replace (S a <? n) with false by (symmetry; apply Nat.ltb_ge; lia). reflexivity.
    + replace (S a <? n) with true by (symmetry; apply Nat.ltb_lt; lia). reflexivity.
  - apply IH. lia.
Qed.

Lemma decode_nodup : forall n, NoDup (arr (decode n)).
Proof. intros n. simpl. apply seq_NoDup. Qed.

Lemma decode_chain : forall n, chain_ok (nxt (decode n)) (arr (decode n)).
Proof. intros n. apply chain_ok_links. simpl. apply decode_links. lia. Qed.

Lemma map_fld_of_seq : forall d : doc, map (fld_of d) (seq 0 (length d)) = d.
Proof.
  intros d. induction d as [|f d IH]; [reflexivity|].
  cbn [length seq map]. f_equal. rewrite <- seq_shift, map_map.
  rewrite <- IH at 2. apply map_ext. intros i. reflexivity.
Qed.

Lemma filter_map_comm : forall {A B} (f : B -> bool) (g : A -> B) l,
  filter f (map g l) = map g (filter (fun x => f (g x)) l).
Proof.
  intros A B f g l. induction l as [|x l IH]; simpl; [reflexivity|].
  destruct (f (g x)); simpl; rewrite IH; reflexivity.
Qed.

(* an id set described by a predicate, mapped back to fields *)
Lemma ids_to_doc : forall (d : doc) (P : fld -> bool) ids,
  NoDup ids ->
  (forall x, In x ids <-> x < length d /\ P (fld_of d x) = true) ->
  Permutation (map (fld_of d) ids) (filter P d).
Proof.
  intros d P ids Hnd H.
  rewrite <- (map_fld_of_seq d) at 2. rewrite filter_map_comm. apply Permutation_map.
  apply NoDup_Permutation; [exact Hnd|apply NoDup_filter; apply seq_NoDup|].
  intros x. rewrite H, filter_In, in_seq. split; intros [H1 H2]; (split; [lia|exact H2]).
Qed.

Lemma ids_length : forall n ids, NoDup ids -> (forall x, In x ids -> x < n) -> length ids <= n.
Proof.
  intros n ids Hnd H. rewrite <- (seq_length n 0). apply NoDup_incl_length; [exact Hnd|].
  intros x Hx. apply in_seq. specialize (H x Hx). lia.
Qed.

(* ------------------------------------------------------------------ allow-list *)
Lemma allow_fold : forall todo o,
  NoDup (arr o) -> chain_ok (nxt o) (arr o) -> NoDup todo ->
  (forall x, In x todo -> In x (arr o)) ->
  (forall x, In x todo -> vdirty o x = 0%N) ->
  exists o', fold_left step_allow todo (Ok o) = Ok o'
             /\ NoDup (arr o') /\ chain_ok (nxt o') (arr o')
             /\ (forall x, In x (arr o') <-> In x (arr o) /\ ~ In x todo).
Proof.
  intros todo. induction todo as [|id todo IH]; intros o Hnd Hc Ht Hin Hv.
  - exists o. simpl. repeat split; try assumption; tauto.
  - inversion Ht as [|y r Hid Ht']; subst.
    destruct (suicide_swap_remove o id Hnd Hc (Hin id (or_introl eq_refl))
                (or_introl (Hv id (or_introl eq_refl))))
      as [o1 [S1 [S2 [S3 [S4 [_ S6]]]]]].
    assert (Hsr : forall x, In x (arr o1) <-> In x (arr o) /\ x <> id).
    { intros x. rewrite S2. apply swap_remove_in; [exact Hnd|]. apply Hin. left. reflexivity. }
    destruct (IH o1 S3 S4 Ht') as [o' [F1 [F2 [F3 F4]]]].
    + intros x Hx. apply Hsr. split; [apply Hin; right; exact Hx|]. intros ->. contradiction.
    + intros x Hx. rewrite S6; [apply Hv; right; exact Hx|]. intros ->. contradiction.
    + exists o'. cbn [fold_left]. unfold step_allow at 2. cbn [bind]. rewrite S1.
      split; [exact F1|]. split; [exact F2|]. split; [exact F3|].
      intros x. rewrite F4, Hsr. simpl. split.
      * intros [[H1 H2] H3]. split; [exact H1|]. intros [E|E]; [apply H2; symmetry; exact E|contradiction].
      * intros [H1 H2]. split; [split; [exact H1|]|].
        -- intros ->. apply H2. left. reflexivity.
        -- intros E. apply H2. right. exact E.
Qed.

Lemma filter_ids_body : forall (d : doc) (fields : list key) (allow : bool),
  exists o', fold_left step_allow
               (filter (to_remove d fields allow) (arr (decode (length d))))
               (Ok (decode (length d))) = Ok o'
             /\ NoDup (arr o') /\ chain_ok (nxt o') (arr o')
             /\ (forall x, In x (arr o') <-> x < length d /\ keep fields allow (fld_of d x) = true).
Proof.
  intros d fields allow.
  destruct (allow_fold (filter (to_remove d fields allow) (arr (decode (length d))))
              (decode (length d)) (decode_nodup _) (decode_chain _))
    as [o' [F1 [F2 [F3 F4]]]].
  - apply NoDup_filter. apply decode_nodup.
  - intros x Hx. apply filter_In in Hx. tauto.
  - reflexivity.
  - exists o'. split; [exact F1|]. split; [exact F2|]. split; [exact F3|].
    intros x. rewrite F4, filter_In. cbn [arr decode]. rewrite in_seq.
    unfold to_remove, keep, fld_of, keyof.
    destruct allow; destruct (memb (fst (nth x d (0, 0))) fields); simpl.
    + split; [intros [H _]; split; [lia|reflexivity]|intros [H _]; split; [lia|]]. intros [_ E]. discriminate.
    + split; [intros [H1 H2]; exfalso; apply H2; split; [exact H1|reflexivity]|intros [_ E]; discriminate].
    + split; [intros [H1 H2]; exfalso; apply H2; split; [exact H1|reflexivity]|intros [_ E]; discriminate].
    + split; [intros [H _]; split; [lia|reflexivity]|intros [H _]; split; [lia|]]. intros [_ E]. discriminate.
Qed.

Lemma finish_ids : forall (d : doc) (P : fld -> bool) o',
  NoDup (arr o') -> chain_ok (nxt o') (arr o') ->
  (forall x, In x (arr o') <-> x < length d /\ P (fld_of d x) = true) ->
  exists out, bind (bind (Ok o') (fun o => encode o (S (length d))))
                   (fun ids => Ok (map (fld_of d) ids)) = Ok out
              /\ Permutation out (filter P d).
Proof.
  intros d P o' Hnd Hc H. cbn [bind].
  rewrite encode_is_array; [|exact Hnd|exact Hc|].
  - cbn [bind]. eexists. split; [reflexivity|]. apply ids_to_doc; assumption.
  - apply le_S. apply ids_length; [exact Hnd|]. intros x Hx. apply H in Hx. tauto.
Qed.

Lemma projection_exact :
  forall (d : doc) (fields : list key) (allow : bool),
    exists out, filter_fields d fields allow = Ok out /\ Permutation out (project d fields allow).
Proof.
  intros d fields allow. unfold filter_fields, filter_ids, project.
  destruct fields as [|k fields].
  - cbn [bind]. rewrite map_fld_of_seq. exists d. split; [reflexivity|apply Permutation_refl].
  - destruct (filter_ids_body d (k :: fields) allow) as [o' [F1 [F2 [F3 F4]]]].
    cbv zeta. rewrite F1. apply finish_ids; assumption.
Qed.

(* ------------------------------------------------------------------ block-list before c998f0f (v0) *)
Lemma find_key_none : forall d k l i, find_key d k l i = None ->
  forall id, In id l -> keyof d id <> k.
Proof.
  intros d k l. induction l as [|x r IH]; intros i H id Hin; [destruct Hin|].
  simpl in H. destruct (Nat.eqb_spec (keyof d x) k) as [E|E]; [discriminate|].
  destruct Hin as [<-|Hin]; [exact E|]. eapply IH; eassumption.
Qed.

Lemma find_key_some : forall d k l i j id, find_key d k l i = Some (j, id) ->
  exists m, j = i + m /\ nth_error l m = Some id /\ keyof d id = k.
Proof.
  intros d k l. induction l as [|x r IH]; intros i j id H; [discriminate|].
  simpl in H. destruct (Nat.eqb_spec (keyof d x) k) as [E|E].
  - inversion H; subst. exists 0. split; [lia|]. split; reflexivity.
  - destruct (IH _ _ _ H) as [m [H1 [H2 H3]]]. exists (S m). split; [lia|]. split; assumption.
Qed.

Lemma find_key_none_intro : forall d k l i,
  (forall id, In id l -> keyof d id <> k) -> find_key d k l i = None.
Proof.
  intros d k l. induction l as [|x r IH]; intros i H; [reflexivity|]. simpl.
  destruct (Nat.eqb_spec (keyof d x) k) as [E|E].
  - exfalso. apply (H x); [left; reflexivity|exact E].
  - apply IH. intros id Hin. apply H. right. exact Hin.
Qed.

Definition keys_distinct (d : doc) (l : list nat) : Prop :=
  forall x y, In x l -> In y l -> keyof d x = keyof d y -> x = y.

Lemma except_fold : forall (d : doc) fields o,
  NoDup (arr o) -> chain_ok (nxt o) (arr o) -> keys_distinct d (arr o) ->
  exists o', fold_left (step_except d) fields (Ok o) = Ok o'
             /\ NoDup (arr o') /\ chain_ok (nxt o') (arr o')
             /\ (forall x, In x (arr o') <-> In x (arr o) /\ memb (keyof d x) fields = false).
Proof.
  intros d fields. induction fields as [|k fields IH]; intros o Hnd Hc Hkd.
  - exists o. simpl. repeat split; try assumption; tauto.
  - cbn [fold_left]. unfold step_except at 2. cbn [bind]. unfold dig.
    destruct (find_key d k (arr o) 0) as [[i id]|] eqn:Ef.
    + destruct (find_key_some _ _ _ _ _ _ Ef) as [m [Hm [Hn Hk]]]. simpl in Hm. subst m.
      set (o0 := {| arr := arr o; nxt := nxt o; odirty := odirty o;
                    vdirty := upd (vdirty o) id (odirty o); vidx := upd (vidx o) id i |}).
      assert (Hin : In id (arr o)) by (eapply nth_error_In; exact Hn).
      destruct (suicide_swap_remove o0 id Hnd Hc Hin) as [o1 [S1 [S2 [S3 [S4 _]]]]].
      { right. right. cbn [o0 arr vidx]. rewrite upd_same. exact Hn. }
      cbn [o0 arr] in S2.
      assert (Hsr : forall x, In x (arr o1) <-> In x (arr o) /\ x <> id).
      { intros x. rewrite S2. apply swap_remove_in; assumption. }
      destruct (IH o1 S3 S4) as [o' [F1 [F2 [F3 F4]]]].
      { intros x y Hx Hy. apply Hsr in Hx. apply Hsr in Hy. apply Hkd; tauto. }
      exists o'. rewrite S1. split; [exact F1|]. split; [exact F2|]. split; [exact F3|].
      intros x. rewrite F4, Hsr. simpl. rewrite orb_false_iff. split.
      * intros [[H1 H2] H3]. split; [exact H1|]. split; [|exact H3].
        apply Nat.eqb_neq. intros E. apply H2. apply Hkd; [exact H1|exact Hin|]. congruence.
      * intros [H1 [H2 H3]]. split; [split; [exact H1|]|exact H3].
        intros ->. apply Nat.eqb_neq in H2. apply H2. symmetry. exact Hk.
    + destruct (IH o Hnd Hc Hkd) as [o' [F1 [F2 [F3 F4]]]].
      exists o'. split; [exact F1|]. split; [exact F2|]. split; [exact F3|].
      intros x. rewrite F4. simpl. rewrite orb_false_iff. split.
      * intros [H1 H2]. split; [exact H1|]. split; [|exact H2].
        apply Nat.eqb_neq. intros E. apply (find_key_none _ _ _ _ Ef x H1). symmetry. exact E.
      * tauto.
Qed.

Lemma keys_distinct_decode : forall d : doc, NoDup (map fst d) ->
  keys_distinct d (arr (decode (length d))).
Proof.
  intros d Hnd x y Hx Hy E. cbn [arr decode] in Hx, Hy. apply in_seq in Hx. apply in_seq in Hy.
  unfold keyof in E.
  assert (M : forall i, fst (nth i d (0, 0)) = nth i (map fst d) 0)
    by (intros i; symmetry; exact (map_nth (@fst nat nat) d (0, 0) i)).
  rewrite !M in E.
  destruct Hx as [_ Hx]. destruct Hy as [_ Hy]. simpl in Hx, Hy.
  apply (proj1 (NoDup_nth (map fst d) 0) Hnd); [rewrite map_length; exact Hx|rewrite map_length; exact Hy|exact E].
Qed.

Lemma projection_exact_except_v0 :
  forall (d : doc) (fields : list key), NoDup (map fst d) ->
    exists out, filter_fields_except_v0 d fields = Ok out /\ Permutation out (project d fields false).
Proof.
  intros d fields Hd. unfold filter_fields_except_v0, filter_ids_except_v0, project.
  destruct fields as [|k fields].
  - cbn [bind]. rewrite map_fld_of_seq. exists d. split; [reflexivity|apply Permutation_refl].
  - destruct (except_fold d (k :: fields) (decode (length d)) (decode_nodup _) (decode_chain _)
                (keys_distinct_decode d Hd)) as [o' [F1 [F2 [F3 F4]]]].
    cbv zeta. rewrite F1. apply finish_ids; [exact F2|exact F3|].
    intros x. rewrite F4. cbn [arr decode]. rewrite in_seq. unfold keep, fld_of, keyof.
    rewrite negb_true_iff. split; intros [H1 H2]; (split; [lia|exact H2]).
Qed.

(* ------------------------------------------------------------------ 3. the executable checker *)
Lemma count_fld_perm : forall f a b, Permutation a b -> count_fld f a = count_fld f b.
Proof.
  intros f a b P. induction P; simpl; lia.
Qed.

Lemma perm_same_fields : forall a b, Permutation a b -> same_fields a b = true.
Proof.
  intros a b P. unfold same_fields. apply forallb_forall. intros f _.
  apply Nat.eqb_eq. apply count_fld_perm. exact P.
Qed.

Lemma projection_spec_ok :
  forall (d : doc) (fields : list key) (allow : bool) (out : doc),
    filter_fields d fields allow = Ok out ->
    impl_spec_ok d fields allow (IObj out) = true.
Proof.
  intros d fields allow out E. simpl. apply perm_same_fields.
  destruct (projection_exact d fields allow) as [out' [E' P]].
  rewrite E in E'. inversion E'; subst. exact P.
Qed.

(* ------------------------------------------------------------------ 4. untouched cases *)
Lemma filter_empty_list : forall d allow, filter_fields d [] allow = Ok d.
Proof.
  intros d allow. unfold filter_fields, filter_ids. cbn [bind]. rewrite map_fld_of_seq. reflexivity.
Qed.

Lemma encode_decode : forall n, encode (decode n) (S n) = Ok (seq 0 n).
Proof.
  intros n. rewrite encode_is_array; [reflexivity|apply decode_nodup|apply decode_chain|].
  simpl. rewrite seq_length. lia.
Qed.

Lemma filter_all_false : forall {A} (f : A -> bool) l,
  (forall x, In x l -> f x = false) -> filter f l = [].
Proof.
  intros A f l. induction l as [|x l IH]; intros H; [reflexivity|]. simpl.
  rewrite H by (left; reflexivity). apply IH. intros y Hy. apply H. right. exact Hy.
Qed.

Lemma nothing_to_remove_untouched :
  forall d fields allow, fields <> [] ->
    (forall f, In f d -> keep fields allow f = true) ->
    filter_fields d fields allow = Ok d.
Proof.
  intros d fields allow _ H. destruct fields as [|k fields]; [apply filter_empty_list|].
  unfold filter_fields, filter_ids. cbv zeta.
  rewrite filter_all_false.
  - cbn [fold_left bind]. rewrite encode_decode. cbn [bind]. rewrite map_fld_of_seq. reflexivity.
  - intros id Hid. cbn [arr decode] in Hid. apply in_seq in Hid.
    assert (Hk : keep (k :: fields) allow (fld_of d id) = true).
    { apply H. unfold fld_of. apply nth_In. destruct Hid as [_ Hid]. exact Hid. }
    unfold keep, fld_of in Hk. unfold to_remove, keyof.
    destruct allow; [apply negb_false_iff; exact Hk| apply negb_true_iff in Hk; exact Hk].
Qed.

Lemma except_absent_untouched :
  forall d fields, (forall f, In f d -> memb (fst f) fields = false) ->
    filter_fields d fields false = Ok d.
Proof.
  intros d fields H. destruct fields as [|k fields]; [apply filter_empty_list|].
  apply nothing_to_remove_untouched; [congruence|].
  intros f Hf. unfold keep. rewrite (H f Hf). reflexivity.
Qed.

Lemma allow_all_listed_untouched :
  forall d fields, fields <> [] -> (forall f, In f d -> memb (fst f) fields = true) ->
    filter_fields d fields true = Ok d.
Proof.
  intros d fields Hne H. apply nothing_to_remove_untouched; [exact Hne|].
  intros f Hf. unfold keep. exact (H f Hf).
Qed.
