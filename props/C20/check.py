"""C20 — the fields pipe returns a faithful projection of each stored document (DESIGN.md section 7, C20)."""
import vcheck

PROP = "C20"

TRUSTED = [
    "Coq 8.16.1 kernel (coqc), vm_compute for case evaluation; no native_compute",
    "hand-written model props/C20/coq/Model.v of docFieldsFilter.filterFields and of the insane-json v0.1.9 top-level "
    "object operations it drives (Dig linear branch, AsFields/AsFieldValue, Suicide swap-with-last incl. the three chain "
    "writes, actualizeIndex/findSelf dirty-stamp cache, Encode chain walk), and of parsePipes/parseFieldList/"
    "tryParseFieldsFilter at token level; makeFetchReq as a pure function of the filter (tied to /repo by the correspondence run, not verified code)",
    "Go harness harness/cmd/hC20: generators, the independent JSON oracle (encoding/json token stream with UseNumber; values "
    "canonicalised: numbers as exact rationals, strings decoded, nested keys sorted), rendering of token lists as query text",
    "insane-json decode/encode fidelity (string escaping, number text, nested containers), the SeqQL lexer/quoting, the "
    "search expression parser and the gRPC/bulk plumbing are NOT modelled: they are exercised by the run (test, not proof)",
]
ASSUME = [
    "values are opaque to the model: equality of values is decided by the harness oracle (JSON equality, numbers by value)",
    "insaneJSON.MapUseThreshold = math.MaxInt32 in every mode of the seq-db binary: cmd/seq-db/seq-db.go imports proxy/bulk "
    "(directly and through proxyapi), whose init() sets it; cmd/seq-db is the only binary that links storeapi (asserted by "
    "the driver). The current filter does not call Dig, so it does not depend on the threshold; the duplicate-key stream is "
    "run a second time under the library default (16) on wide objects (classes mapthr16-*) so that a Dig-based filter that "
    "is only correct without the map cache is a concrete failure",
    "per-request filter state is private (theorem C20_interleaved_requests_private assumes dec_of = private): checked on the "
    "real pool by the deterministic pool stream (distinct filter objects and decoders for filters held at once, after a "
    "big document, and after Fetches whose stream is cancelled mid-way) and by concurrent requests; C20_pool_exclusive "
    "models sync.Pool as 'Get returns any pooled object or a new one' (objects dropped by the GC are not modelled)",
    "field names are arbitrary byte strings of any length (ids in the model); the run uses names of 0, 1, 62-65, 127, 128, "
    "255, 300 and 517 bytes (ASCII label-like and multi-byte UTF-8), present in documents and listed in filters",
    "documents have fewer than 2^24 top-level fields (width of insane-json's index and dirty-sequence bit fields)",
    "documents with duplicate keys are judged by the property text read on (key, value) pairs: every occurrence of a "
    "listed key is kept (allow) / removed (except); stream dupkeys-* is a permanent regression class (finding repaired by "
    "/repo c998f0f, old algorithm kept as filter_fields_except_v0 with C20_except_dup_keys_v0_refuted)",
]
RULE = ("random JSON objects (0..30 top-level fields; strings with every escape spelling, unicode, surrogate pairs; numbers in "
        "integer/fraction/exponent/big notations; nested arrays/objects; whitespace variants) x field lists (subset, all, "
        "absent only, present+absent, repeated, single, empty) x allow/except, several documents per pooled filter as in one "
        "fetch; duplicate-key documents; query texts with 0/1/2 pipes, malformed lists, keywords as names, quoted names; "
        "pages through a real proxy with 2-3 store shards, documents spread over the shards, empty-named members, names that "
        "are prefixes of each other, repeated names in the pipe (search with pipe, proxy fetch with filter, Fetch on every "
        "store with filter; active and sealed; offsets/sizes/orders); makeFetchReq called for 1-4 sources with ONE filter "
        "value (requests compared as name sets, caller's filter must be unchanged); pool discipline: a 70-200 KB document "
        "through a filter, release, then 3-5 filters held at once (identity of filter/decoder objects, interleaved use); "
        "concurrency: 6 requests at once for some hundred iterations, unit level (held filters, yield between documents) and "
        "in a child process on a 2-shard cluster with 70-200 KB documents (proxy fetch / store Fetch / search with pipe over "
        "disjoint ID sets), preceded by Fetches whose stream fails after k = 0, 1, 3, 9 documents with the context cancelled "
        "(in-process stream on every store, and the real gRPC client through the proxy), outputs de-duplicated per (request, "
        "document, output). non-trivial = document of >= 3 fields where the filter removes at least one field and keeps at least one / "
        "pipe with >= 2 names / page of >= 2 documents / request set for >= 2 sources from a list with a repeated name; distinct by input")


def harness_args(tier, seed, outdir):
    return ["-seed", str(seed), "-tier", tier, "-out", outdir]


def main(argv):
    return vcheck.standard_check(PROP, argv, harness_args, TRUSTED, ASSUME, RULE, coqchk=True)
