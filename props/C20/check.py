"""C20 — the fields pipe returns a faithful projection of each stored document (DESIGN.md section 7, C20)."""
import vcheck

PROP = "C20"

TRUSTED = [
    "Coq 8.16.1 kernel (coqc), vm_compute for case evaluation; no native_compute",
    "hand-written model props/C20/coq/Model.v of docFieldsFilter.filterFields and of the insane-json v0.1.9 top-level "
    "object operations it drives (Dig linear branch, AsFields/AsFieldValue, Suicide swap-with-last incl. the three chain "
    "writes, actualizeIndex/findSelf dirty-stamp cache, Encode chain walk), and of parsePipes/parseFieldList/"
    "tryParseFieldsFilter at token level; makeFetchReq as a pure function of the filter (tied to /repo by the correspondence run, not verified code)",
    "Go harness harness/cmd/hC20: generators, the independent JSON oracle (encoding/json token stream with UseNumber; values "
    "canonicalised: numbers as exact rationals, strings decoded, nested keys sorted), rendering of token lists as query text",
    "hand-written model props/C20/coq/ModelLex.v of the part of the SeqQL lexer (parser/seqql.go: lexer.Next comment skip, "
    "unquotePrefix/unquoteChar closing-quote search, strconv.QuotedPrefix for raw strings) that decides at which BYTE of the "
    "query text the first top-level `|` token starts; the closing-quote search is a position-equivalent abstraction of the "
    "fast/slow path of unquotePrefix (backslash + same quote or backslash = 2 bytes, everything else 1 byte; argued in the file "
    "header), tied to /repo by the class pipe-text on generated texts with every escape spelling",
    "insane-json decode/encode fidelity (string escaping, number text, nested containers), the tokens of the pipe section "
    "(word / composite-name rules, decoding of quoted names: supplied per case by the harness, which renders the text from the "
    "tokens), the search expression parser (flag `valid`, by construction of the generated expression) and the gRPC/bulk "
    "plumbing are NOT modelled: they are exercised by the run (test, not proof)",
]
ASSUME = [
    "values are opaque to the model: equality of values is decided by the harness oracle (JSON equality, numbers by value)",
    "insaneJSON.MapUseThreshold = math.MaxInt32 in every mode of the seq-db binary: cmd/seq-db/seq-db.go imports proxy/bulk "
    "(directly and through proxyapi), whose init() sets it; cmd/seq-db is the only binary that links storeapi (asserted by "
    "the driver). The current filter does not call Dig, so it does not depend on the threshold; the duplicate-key stream is "
    "run a second time under the library default (16) on wide objects (classes mapthr16-*) so that a Dig-based filter that "
    "is only correct without the map cache is a concrete failure",
    "per-request filter state is private (theorem C20_interleaved_requests_private assumes dec_of = private): checked on the "
    "real pool by the deterministic pool stream (distinct filter objects and decoders for filters held at once, after a "
    "big document, and after Fetches whose stream is cancelled mid-way) and by concurrent requests; C20_pool_exclusive "
    "models sync.Pool as 'Get returns any pooled object or a new one' (objects dropped by the GC are not modelled)",
    "field names are arbitrary byte strings of any length (ids in the model); the run uses names of 0, 1, 62-65, 127, 128, "
    "255, 300 and 517 bytes (ASCII label-like and multi-byte UTF-8), present in documents and listed in filters",
    "documents have fewer than 2^24 top-level fields (width of insane-json's index and dirty-sequence bit fields)",
    "lexical theorems (C20_pipe_start_written, C20_pipe_found_lexically) speak about search-expression texts that are lexically "
    "closed: written as a sequence of plain bytes (no | # quote), double-/single-quoted values (any escapes), raw strings and "
    "comment lines ending in a newline. A text that ends inside a comment or inside a quote whose partner is in the pipe text "
    "swallows the written `|` (Example C20_lex_unclosed_swallows_pipe; the real lexer does the same: classes unclosed-*)",
    "documents with duplicate keys are judged by the property text read on (key, value) pairs: every occurrence of a "
    "listed key is kept (allow) / removed (except); stream dupkeys-* is a permanent regression class (finding repaired by "
    "/repo c998f0f, old algorithm kept as filter_fields_except_v0 with C20_except_dup_keys_v0_refuted)",
]
RULE = ("random JSON objects (0..30 top-level fields; strings with every escape spelling, unicode, surrogate pairs; numbers in "
        "integer/fraction/exponent/big notations; nested arrays/objects; whitespace variants) x field lists (subset, all, "
        "absent only, present+absent, repeated, single, empty) x allow/except, several documents per pooled filter as in one "
        "fetch; duplicate-key documents; query texts with 0/1/2 pipes, malformed lists, keywords as names, quoted names; "
        "query TEXTS (class pipe-text: real tryParseFieldsFilter; model scans the same bytes) whose search expression holds `|` "
        "inside double-/single-/back-quoted values (next to escaped quotes, behind an escaped backslash, as ` | fields y`), inside "
        "`#` comment lines before and behind the real pipe and between pipe tokens, `|` attached to tokens without spaces, 0/1/2 "
        "pipes, random pipe tokens, expressions that do not parse, expressions ending in an unclosed comment / a quote without "
        "partner; spec: filter = the written first pipe's = the one the real code derives from `*` + the text from the written `|`; "
        "class page-search-lex: real Ingestor.Search on the real cluster (stores' GrpcV1.Fetch honouring the filter) with such "
        "expressions selecting every document (11 fixed incl. the C20-m12 witnesses + random), documents must be the projections "
        "of those returned for the same expression without the pipe; "
        "pages through a real proxy with 2-3 store shards, documents spread over the shards, empty-named members, names that "
        "are prefixes of each other, repeated names in the pipe (search with pipe, proxy fetch with filter, Fetch on every "
        "store with filter; active and sealed; offsets/sizes/orders); makeFetchReq called for 1-4 sources with ONE filter "
        "value (requests compared as name sets, caller's filter must be unchanged); pool discipline: a 70-200 KB document "
        "through a filter, release, then 3-5 filters held at once (identity of filter/decoder objects, interleaved use); "
        "concurrency: 6 requests at once for some hundred iterations, unit level (held filters, yield between documents) and "
        "in a child process on a 2-shard cluster with 70-200 KB documents (proxy fetch / store Fetch / search with pipe over "
        "disjoint ID sets), preceded by Fetches whose stream fails after k = 0, 1, 3, 9 documents with the context cancelled "
        "(in-process stream on every store, and the real gRPC client through the proxy), outputs de-duplicated per (request, "
        "document, output). non-trivial = document of >= 3 fields where the filter removes at least one field and keeps at least one / "
        "pipe with >= 2 names / query text with a `|` byte inside the search expression and a well-formed pipe / page of >= 2 documents / request set for >= 2 sources from a list with a repeated name; distinct by input")


def harness_args(tier, seed, outdir):
    return ["-seed", str(seed), "-tier", tier, "-out", outdir]


def main(argv):
    return vcheck.standard_check(PROP, argv, harness_args, TRUSTED, ASSUME, RULE, coqchk=True)
