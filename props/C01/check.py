"""C01 — acknowledged bulks survive any crash/restart history (DESIGN.md section 7, C01)."""
import vcheck

PROP = "C01"

TRUSTED = [
    "Coq 8.16.1 kernel (coqc), vm_compute for case evaluation; no native_compute",
    "hand-written byte-level model props/C01/coq/Model.v of ActiveWriter.Write / FileWriter.Write / NewActive / "
    "Active.Replay / dropUnreplayedTail / ReadDocBlock / active fetch+search and the loader's empty-fraction rule "
    "(tied to /repo by the correspondence run, not verified code)",
    "Go harness harness/cmd/hC01, crash-state builder harness/internal/crashfs (strace log -> directory states; "
    "Verify() after every child), child control harness/internal/storectl",
    "crash model: operations take effect in completion order; a write may be torn at any byte length (prefix); power "
    "loss cuts a file to any length >= its last fsynced length; truncate/create/unlink are durable at once",
    "zstd: decoders are Section variables in the proofs, a per-case table in the run",
    "hand-written model props/C01/coq/ModelMulti.v of FracManager.rotate / FracManager.seal (frac.Seal + Active.Release as an "
    "11-operation program) / FracManager.Load + loader.load over several fractions (classify, phase1_ops, replay_frac, remove_ops, "
    "sealing of all replayed fractions but the last, rotation when none) / sealed fetch+search / Fetcher over FracManager.fracs; "
    "sealed-form files are abstract: the documents the file was built from, a complete flag, an fsynced flag; all writes into one "
    "temp file are one tearable operation (tied to /repo by the multi-fraction correspondence classes)",
    "export file /repo/fracmanager/export_verif_c01.go (rotate / seal-oldest / list fractions), harness/cmd/hC01/multi.go",
    "hand-written model props/C01/coq/ModelIntr.v of a start-up under a cancelled context: Active.Replay polls ctx.Done() once per "
    "iteration before it reads the next meta block and returns ctx.Err() at once (no wg.Wait, no dropUnreplayedTail) -> replay_loop_ctx; "
    "loader.load: loop 1 never polls, loop 2 replays the unsealed fractions in name order and returns the first error -> intr_walk / "
    "startup_ctx; FracManager.Load does nothing after an error (tied to /repo by the events IStartIntr / IMStartIntr of the correspondence "
    "run); harness/cmd/hC01/intr.go: poll-counting context (Done() live for k calls, then closed; Err() follows), child operation "
    "open-interrupted = the real NewFracManager + FracManager.Load under it, byte-for-byte directory snapshots before/after",
]
ASSUME = [
    "equal document IDs carry equal documents (a retried bulk repeats its documents unchanged); documents are non-empty",
    "64/32-bit header fields do not wrap (sizes below 2^64 / 2^32); DocPos packing (offset < 2^30) not modelled",
    "index workers modelled sequentially; CHist cases: a single active fraction; CMulti cases: rotation, sealing and the "
    "multi-fraction start-up are inside the history, retention (.del protocol), .frac-cache, .immature are not; SkipSortDocs and "
    "KeepMetaFile off",
    "multi-fraction histories: fraction names grow with creation time (ULID); rotation only of a fraction that holds documents; "
    "a seal runs while no bulk is in flight (rotate and seal are separate steps, bulks do land in a new fraction while older ones "
    "are unsealed and the next start has to seal them); a crash inside the start-up = every fraction's own operation sequence at "
    "its own prefix (superset of the real global prefixes; the driver passes the per-fraction counts of the real crash point); "
    "I/O faults and concurrent bulks only in single-fraction histories",
    "concurrent bulks: the model's atomic step is the writer's locked unit (docs block, then its meta block); "
    "concurrent acknowledged bulks are consecutive bulk steps in lock order (theorem C01_locked_units_sequential); "
    "crashes in the middle of a concurrent group are not generated",
    "I/O faults: HFault = one write of the unit fails part-way, the unit is rolled back (commits ce3aaa8, 5db7f73: both "
    "files truncated, meta first, offsets restored), no ack; HFaultCrash = crash/power loss inside the failed unit or "
    "its rollback (bytes of the meta block exist only while the docs block is whole); the write path before ce3aaa8 "
    "is kept as run_f0, the docs-first rollback order as fault_crash_v0, each with refutation examples",
    "store = FracManager level (fracmanager.Load / Append / Searcher / Fetcher) in a child process; GrpcV1.Bulk not driven",
    "interrupted start-ups: the context is its poll count (a cancellation between two polls is seen at the next poll); the process of a "
    "start-up that returned the cancellation exits (the driver kills the child; the index workers of the cancelled replay are not waited "
    "for, as in the code); a start-up that nobody interrupts in time is an ordinary start-up (a start-up without unsealed fractions never "
    "polls); acknowledged bulks of such histories = the model's ghost list (theorems *_acked_sound); storeapi.NewStore and the signal "
    "handling of cmd/seq-db are not driven (FracManager.Load is)",
]
RULE = ("witness family [start; bulk; crash inside next bulk at operation k torn at t; start; bulk (new or retry); start ...] "
        "for every operation boundary and boundary/random (thorough: all) torn lengths; random histories of 1-4 "
        "(thorough 1-8) rounds of {0-2 bulks (new or retried), kill | power loss | crash inside a bulk (op, torn "
        "length, power-loss cuts), optional crash inside the start-up, start}; after every start every submitted "
        "document is fetched and every token searched; concurrent stream: 2-3 bulks of very different size handed "
        "concurrently to the real store (traced: ~8-20 documents vs 1, compared with the model in lock order; "
        "untraced big trials: 600-2500 (thorough 6000) documents of 200-1500 bytes vs 1 short document, checked "
        "directly), then power loss or kill, start, fetch of every acknowledged document; fault stream: one Append attempt under RLIMIT_FSIZE so that the docs or the meta "
        "write fails after cut bytes (0, 1, 32, 33, 34, len-1, random) with a real EFBIG; class fault-restart: observe, "
        "kill, start (must be: not acknowledged, acked bulks intact, failed bulk all-or-nothing); class fault-ingest: "
        "further acknowledged bulks (or the retry) before the start; class fault-crash: the process dies after any "
        "prefix of the failed unit's file operations (torn write, before the rollback, between its two truncations) "
        "with power-loss cuts, then start and further bulks; WaitIdle is called after every failed append (a hang is "
        "reported after 12 s); class conc-fault: a concurrent group of 1-2 small bulks and one big bulk under a "
        "file-size limit that every small block passes and the big bulk's docs (or meta) block exceeds in any lock "
        "order, units and lock order read from the op log, then observe, start; on every real .meta file "
        "each block's Ext2 must equal the sum of the preceding Ext1 (ext_chain_ok). non-trivial = a crash, then an acknowledged bulk, then a start; "
        "distinct by history. Multi-fraction stream (case CMulti): designed families - multi-seal-crash-jK: bulk, rotate, bulk, crash "
        "after operation K = 0..11 of the seal (K = 2, 5 also with a torn ._sdocs/._index write; with/without power loss), start, "
        "bulk, rotate, seal, seal, start; multi-both-forms: crash after the .index rename / the directory fsync / the .meta removal, "
        "then a start-up crashed after 0-2 of its operations, start, bulk, start; multi-startup-seal: two unsealed fractions at a "
        "start (kill or power loss), the start-up that seals the older one crashed after operation 0..17 (torn write, power loss), "
        "start, bulk, start; multi-rotate-crash: crash after operation 0..4 of a rotation; multi-random: 1-3 (thorough 1-6) rounds of "
        "{1-4 of bulk (new or retried) | rotate | seal; kill | power loss | crash inside a bulk | crash inside a rotation | crash inside "
        "a seal (random operation, torn, power loss); optional crash inside the start-up at a random operation; start}; quick samples "
        "the crash points, thorough enumerates them for the designed families; after every start every submitted document is fetched "
        "and every token searched and FracManager.fracs is listed (fraction, sealed, writable) and compared with the model; the file "
        "operations of all completed steps, projected to (fraction number, file, operation; consecutive writes into one temp file "
        "merged), must equal the model's log; spec on the real observations: acknowledged bulks intact, interrupted bulks "
        "all-or-nothing and stable, search sound, every start comes up, no fraction listed twice, exactly one writable fraction and it "
        "is not sealed; non-trivial (multi) = a rotation happened, a crash happened, and a later start came up. Interrupted start-ups (events "
        "IStartIntr k / IMStartIntr k, child operation open-interrupted: real FracManager.Load under a context cancelled after k polls): "
        "in every random history (single: chance 1/4 per round, multi: 1/3) after the round's way to die and optional crashed start-up, "
        "one or two interrupted start-ups at a random poll of the start-up (or its last poll), then the ordinary start; designed families "
        "intr-witness-nN: N = 1, 3, 5 acknowledged bulks, kill | power loss | crash inside a further bulk (torn meta block), interrupted "
        "after k = 0..N+1 polls (quick: k = 0, 2, 5, random; thorough: every k, every way), start, bulk, interrupted at the last poll, "
        "start; multi-intr: two or three unsealed fractions (3 + 2 (+ 2) polls), kill | power loss, interrupted after k = 0..all polls "
        "(quick: 1/4 sampled, thorough: every k), start, bulk, interrupted at a random poll, start; multi-intr-cleanup: the same with "
        "clean-up to do before the cancellation (leftover .meta/.docs of a complete sealed form, a rotated-in fraction that holds nothing, "
        "a torn meta tail). Compared with the model: cancelled vs completed, lengths of .docs/.meta (multi: per fraction which of "
        ".meta/.docs/.sdocs/.index exist and the lengths); spec on the real directory: single fraction - every file byte-identical, none "
        "created or removed; loader - per fraction nothing changed, or .meta/.docs cut to a prefix not shorter than the complete blocks / "
        "their Ext1 sum, .meta/.docs removed only next to complete .sdocs+.index, everything removed only when .meta held no complete "
        "block, .sdocs/.index untouched, no temp file created; the interrupted start-up must return context.Canceled (not die); after the "
        "following start every acknowledged document is fetched and searched as everywhere else")


def harness_args(tier, seed, outdir):
    return ["-seed", str(seed), "-tier", tier, "-out", outdir]


def main(argv):
    return vcheck.standard_check(PROP, argv, harness_args, TRUSTED, ASSUME, RULE, coqchk=True)
