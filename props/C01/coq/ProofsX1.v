(* C01 — lemmas: single-fraction histories with interrupted start-ups (ModelIntr.v). *)
From Coq Require Import List Bool Arith NArith Lia.
From C01 Require Import Model Proofs Proofs2 Proofs3 Proofs4 Proofs5 Proofs6 ModelMulti ModelIntr.
Import ListNotations.
Open Scope nat_scope.

Section WithCodec.
  Variable dec_m : list N -> option (list dmeta).
  Variable dec_d : list N -> option (list N).
  Notation wf_bulk := (wf_bulk dec_m dec_d).
  Notation Inv := (Inv dec_m dec_d).

  (* a replay under a context either sees the cancellation or ends exactly as the plain replay *)
  Lemma replay_loop_ctx_plain : forall fuel polls mf mpos dpos acc r,
    replay_loop dec_m fuel mf mpos dpos acc = Ok r ->
    (exists m d n, replay_loop_ctx dec_m fuel polls mf mpos dpos acc = Ok (RpCancelled m d n)) \/
    replay_loop_ctx dec_m fuel polls mf mpos dpos acc = Ok (RpDone (fst (fst r)) (snd (fst r)) (snd r)).
  Proof.
    induction fuel as [| fuel IH]; intros polls mf mpos dpos acc r H; [discriminate |].
    cbn [replay_loop replay_loop_ctx] in *.
    destruct polls as [| polls]; [left; eauto |].
    destruct (read_doc_block mf mpos) as [| blk].
    - inversion H; subst. right. reflexivity.
    - destruct (dec_m (payload blk)) as [ms |]; [| discriminate]. apply IH. exact H.
  Qed.

  Lemma restart_via_finish : forall d mpos dpos ix,
    replay dec_m (meta d) = Ok (mpos, dpos, ix) ->
    match finish_start d mpos dpos ix with
    | StUp d' p' ops => restart dec_m d = Ok (d', p', ops)
    | StCancelled _ => False
    end.
  Proof.
    intros d mpos dpos ix H. unfold restart, finish_start. rewrite H.
    destruct (idx_docs_total ix =? 0); reflexivity.
  Qed.

  (* what an interrupted start-up is, in every state in which the ordinary one succeeds:
     either the store is down and NO byte of any file has changed, or it is the ordinary start-up *)
  Lemma xstep_intr_char : forall s k s0,
    step dec_m s HRestart = Ok s0 ->
    exists s', xstep dec_m s (XStartIntr k) = Ok s' /\
      ((s_proc s' = None /\ s_disk s' = s_disk s /\ s_acked s' = s_acked s /\ s_tried s' = s_tried s /\
        s_ops s' = s_ops s) \/ s' = s0).
  Proof.
    intros s k s0 H. unfold step in H. unfold xstep, xstep_gen, restart_ctx, replay_ctx.
    destruct (restart dec_m (s_disk s)) as [[[d0 p0] ops0] | |] eqn:Er; try discriminate.
    assert (Hrep : exists r, replay dec_m (meta (s_disk s)) = Ok r).
    { unfold restart in Er. destruct (replay dec_m (meta (s_disk s))) as [r | |]; try discriminate. eauto. }
    destruct Hrep as ([[mpos dpos] ix] & Hrep).
    destruct (replay_loop_ctx_plain _ k _ _ _ _ _ Hrep) as [(m & d & n & E) | E]; rewrite E.
    - eexists. split; [reflexivity |]. left. cbn. auto.
    - cbn [fst snd]. pose proof (restart_via_finish _ _ _ _ Hrep) as F.
      destruct (finish_start (s_disk s) mpos dpos ix) as [d' p' ops |]; [| contradiction].
      rewrite F in Er. inversion Er; subst. eexists. split; [reflexivity |]. right.
      inversion H; subst. reflexivity.
  Qed.

  Lemma xstep_inv : forall s bs o,
    Inv s bs -> Forall wf_bulk (xhop_bulk o) ->
    exists s' ext, xstep dec_m s o = Ok s' /\ Inv s' (bs ++ ext) /\ incl ext (xhop_bulk o).
  Proof.
    intros s bs [o | k] HI Hw.
    - exact (step_inv dec_m dec_d s bs o HI Hw).
    - destruct (step_inv dec_m dec_d s bs HRestart HI (Forall_nil _)) as (s0 & ext & Hs0 & HI0 & Hext).
      destruct (xstep_intr_char s k s0 Hs0) as (s' & Hx & [(Hp & Hd & Ha & Ht & _) | ->]).
      + exists s', []. split; [exact Hx |]. split; [| apply incl_nil_l]. rewrite app_nil_r.
        pose proof (inv_disk_form dec_m dec_d s bs HI) as (tm & td & Hdisk & Htm).
        destruct HI as (Hwf & Hack & Hsub & _).
        unfold Proofs4.Inv. rewrite Hp, Ha, Ht, Hd. repeat (split; auto). exists tm, td. auto.
      + exists s0, ext. auto.
  Qed.

  Lemma xrun_inv : forall h s bs,
    Inv s bs -> Forall wf_bulk (xhist_bulks h) ->
    exists s' ext, xrun_from dec_m s h = Ok s' /\ Inv s' (bs ++ ext) /\ incl ext (xhist_bulks h).
  Proof.
    induction h as [| o r IH]; intros s bs HI Hwf.
    - exists s, []. rewrite app_nil_r. cbn. auto using incl_nil_l.
    - cbn [xhist_bulks flat_map] in Hwf. apply Forall_app in Hwf. destruct Hwf as (Hwo & Hwr).
      destruct (xstep_inv s bs o HI Hwo) as (s1 & e1 & Hs & HI1 & He1).
      destruct (IH s1 (bs ++ e1) HI1 Hwr) as (s2 & e2 & Hr & HI2 & He2).
      exists s2, (e1 ++ e2). unfold xrun_from in *. cbn [xrun_gen]. unfold xstep in Hs. rewrite Hs. split; auto.
      rewrite app_assoc. split; auto.
      cbn [xhist_bulks flat_map]. apply incl_app; [apply incl_appl | apply incl_appr]; auto.
  Qed.

  (* C01_interrupted_startup_harmless *)
  Lemma xdurable_char : forall h, wf_xhist dec_m dec_d h ->
    exists s, xrun dec_m h = Ok s /\
      forall p, s_proc s = Some p ->
      exists dur,
        incl (s_acked s) dur /\ incl dur (s_acked s ++ s_tried s) /\
        (forall b d, In b dur -> In d (b_docs b) ->
           fetch dec_d (s_disk s) p (d_id d) = Body (d_body d) /\
           (forall t, In t (d_toks d) -> In (d_id d) (search p t))) /\
        (forall id, (forall b d, In b dur -> In d (b_docs b) -> d_id d <> id) ->
           fetch dec_d (s_disk s) p id = Absent /\ (forall t, ~ In id (search p t))) /\
        (forall id, fetch dec_d (s_disk s) p id <> FetchErr) /\
        (forall t id, In id (search p t) ->
           exists b d, In b dur /\ In d (b_docs b) /\ d_id d = id /\ In t (d_toks d)).
  Proof.
    intros h (Hwf & Hfun).
    destruct (xrun_inv h st0 [] (inv0 dec_m dec_d) Hwf) as (s & dur & Hr & HI & Hin).
    cbn [app] in HI. exists s. split; [exact Hr |]. intros p Hp.
    pose proof HI as (_ & Hack & Hsub & _).
    assert (Hf : ids_functional dur) by (eapply functional_incl; [exact Hin | exact Hfun]).
    exists dur. split; auto. split; auto.
    split; [intros; eapply present_of_durable; eauto |].
    split; [intros; eapply absent_of_not_durable; eauto |].
    destruct (visible_char dec_m dec_d s dur p HI Hp) as (Hfetch & Hsearch).
    split.
    - intros id E. specialize (Hfetch id). rewrite E in Hfetch. exact Hfetch.
    - intros t id Hi. apply Hsearch. exact Hi.
  Qed.

  (* in every reachable state an interrupted start-up either leaves the store down and every byte of
     every file in place, or is the ordinary start-up *)
  Lemma xintr_reachable : forall h s k, wf_xhist dec_m dec_d h -> xrun dec_m h = Ok s ->
    exists s', xstep dec_m s (XStartIntr k) = Ok s' /\
      ((s_proc s' = None /\ s_disk s' = s_disk s /\ s_acked s' = s_acked s /\ s_tried s' = s_tried s /\
        s_ops s' = s_ops s) \/ step dec_m s HRestart = Ok s').
  Proof.
    intros h s k (Hwf & _) Hr.
    destruct (xrun_inv h st0 [] (inv0 dec_m dec_d) Hwf) as (s1 & dur & Hr1 & HI & _).
    unfold xrun in Hr. rewrite Hr in Hr1. inversion Hr1; subst s1.
    destruct (step_inv dec_m dec_d s _ HRestart HI (Forall_nil _)) as (s0 & ext & Hs0 & _).
    destruct (xstep_intr_char s k s0 Hs0) as (s' & Hx & [Hd | E]); exists s'.
    - split; [exact Hx | left; exact Hd].
    - subst s'. split; [exact Hx | right; exact Hs0].
  Qed.

  (* ---------- the ghost list of acknowledged bulks is what it should be ---------- *)

  Lemma xstep_acked_mono : forall s o s', xstep dec_m s o = Ok s' -> exists l, s_acked s' = s_acked s ++ l.
  Proof.
    intros s [o | k] s' H.
    - destruct (step_ghost dec_m s o s' H) as (Ha & _). eauto.
    - unfold xstep, xstep_gen in H.
      destruct (restart_ctx dec_m false k (s_disk s)) as [[d' p' ops | d'] | |]; inversion H; subst; cbn;
        exists []; rewrite app_nil_r; reflexivity.
  Qed.

  Lemma xrun_acked_mono : forall h s s', xrun_from dec_m s h = Ok s' -> exists l, s_acked s' = s_acked s ++ l.
  Proof.
    induction h as [| o r IH]; intros s s' H.
    - inversion H; subst. exists []. rewrite app_nil_r. reflexivity.
    - unfold xrun_from in *. cbn [xrun_gen] in H.
      destruct (xstep_gen dec_m false s o) as [s1 | |] eqn:Es; try discriminate.
      destruct (xstep_acked_mono s o s1 Es) as (l1 & E1). destruct (IH s1 s' H) as (l2 & E2).
      exists (l1 ++ l2). rewrite E2, E1, app_assoc. reflexivity.
  Qed.

  Lemma xrun_from_app : forall h1 h2 s s1,
    xrun_from dec_m s h1 = Ok s1 -> xrun_from dec_m s (h1 ++ h2) = xrun_from dec_m s1 h2.
  Proof.
    induction h1 as [| o r IH]; intros h2 s s1 H.
    - inversion H; subst. reflexivity.
    - unfold xrun_from in *. cbn [xrun_gen app] in *.
      destruct (xstep_gen dec_m false s o) as [s' | |]; try discriminate. auto.
  Qed.

  (* a bulk submitted while the store is up is in the acknowledged list of every later state *)
  Lemma xacked_sound : forall h1 b h2 s1 p s,
    xrun dec_m h1 = Ok s1 -> s_proc s1 = Some p ->
    xrun dec_m (h1 ++ XOp (HBulk b) :: h2) = Ok s -> In b (s_acked s).
  Proof.
    intros h1 b h2 s1 p s H1 Hp H. unfold xrun in *. rewrite (xrun_from_app h1 _ st0 s1 H1) in H.
    unfold xrun_from in H. cbn [xrun_gen xstep_gen] in H.
    destruct (step dec_m s1 (HBulk b)) as [s2 | |] eqn:Es; try discriminate.
    destruct (step_ghost dec_m s1 (HBulk b) s2 Es) as (Ha & _).
    unfold is_up in Ha. rewrite Hp in Ha. cbn in Ha.
    destruct (xrun_acked_mono h2 s2 s H) as (l & E). rewrite E, Ha.
    apply in_or_app. left. apply in_or_app. right. left. reflexivity.
  Qed.

End WithCodec.
