(* C01 multi-fraction — lemmas, part 2: what a served fraction shows; the start-up of one fraction. *)
From Coq Require Import List Bool Arith NArith Lia.
From C01 Require Import Model Proofs Proofs2 Proofs3 Proofs5 ModelMulti ProofsM1.
Import ListNotations.
Open Scope nat_scope.

Definition Served (fd : fdir) (r : rfrac) (bs : list bulk) : Prop :=
  match r with
  | RSealed ix sd => ix = sdocs_of bs /\ sd = sdocs_of bs /\ fd_ix fd = full_s bs /\ fd_sd fd = full_s bs
  | RActive p => fd_meta fd = Some (mfile bs 0) /\ fd_docs fd = Some (dfile bs) /\ fd_ix fd = None /\
                 (bs = [] -> fd_sd fd = None) /\
                 off_d p = length (dfile bs) /\ off_m p = length (mfile bs 0) /\ idx p = index_of bs 0
  end.

Lemma served_finv : forall fd r bs, Served fd r bs -> FInv fd bs.
Proof.
  intros fd [ix sd | p] bs H; cbn in H.
  - destruct H as (_ & _ & Hi & Hs). apply FI_sealed; auto.
  - destruct H as (Hm & Hd & Hi & Hb & _). eapply FI_act with (tm := []) (td := []);
      rewrite ?app_nil_r; auto using eof_tail_nil.
Qed.

Lemma fm_snd_index : forall bs doff, flat_map snd (index_of bs doff) = map meta_of (flat_map b_docs bs).
Proof.
  induction bs as [| b r IH]; intros doff; [reflexivity |].
  cbn [index_of flat_map snd]. rewrite map_app, IH. reflexivity.
Qed.

Lemma sdocs_of_map : forall bs, sdocs_of bs = map sdoc_of (flat_map b_docs bs).
Proof.
  induction bs as [| b r IH]; [reflexivity |].
  unfold sdocs_of in *. cbn [flat_map]. rewrite map_app, IH. reflexivity.
Qed.

Lemma in_all_docs : forall bs d, In d (flat_map b_docs bs) <-> exists b, In b bs /\ In d (b_docs b).
Proof. intros. apply in_flat_map. Qed.

Lemma sfind_some : forall ds id s, sfind id (map sdoc_of ds) = Some s ->
  exists d, In d ds /\ s = sdoc_of d /\ d_id d = id.
Proof.
  induction ds as [| d r IH]; intros id s H; [discriminate |].
  unfold sfind in *. cbn [map find] in H. cbn [sdoc_of sd_id] in H.
  destruct (d_id d =? id)%N eqn:E.
  - inversion H; subst. apply N.eqb_eq in E. exists d. split; [left |]; auto.
  - destruct (IH id s H) as (d' & Hin & Hs & Hid). exists d'. split; [right |]; auto.
Qed.

Lemma sfind_none : forall ds id, sfind id (map sdoc_of ds) = None -> forall d, In d ds -> d_id d <> id.
Proof.
  induction ds as [| d r IH]; intros id H d' Hin; [inversion Hin |].
  unfold sfind in *. cbn [map find sdoc_of sd_id] in H.
  destruct (d_id d =? id)%N eqn:E; [discriminate |].
  destruct Hin as [<- | Hin]; [apply N.eqb_neq; exact E | eapply IH; eauto].
Qed.

Section WithCodec.
  Variable dec_m : list N -> option (list dmeta).
  Variable dec_d : list N -> option (list N).
  Notation wf_bulk := (wf_bulk dec_m dec_d).

  (* fetch of one fraction: never an error; a body only of one of its own documents *)
  Lemma rfetch_char : forall fd r bs id, Served fd r bs -> Forall wf_bulk bs ->
    match rfetch dec_d fd r id with
    | Absent => forall b d, In b bs -> In d (b_docs b) -> d_id d <> id
    | Body x => exists b d, In b bs /\ In d (b_docs b) /\ d_id d = id /\ x = d_body d
    | FetchErr => False
    end.
  Proof.
    intros fd [ix sd | p] bs id H Hwf; cbn in H.
    - destruct H as (-> & -> & _ & _). cbn [rfetch]. rewrite sdocs_of_map.
      destruct (sfind id (map sdoc_of (flat_map b_docs bs))) as [s |] eqn:E.
      + destruct (sfind_some _ _ _ E) as (d & Hin & -> & Hid).
        apply in_all_docs in Hin. destruct Hin as (b & Hb & Hd). exists b, d. auto.
      + intros b d Hb Hd. eapply sfind_none; eauto. apply in_all_docs. eauto.
    - destruct H as (Hm & Hd & _ & _ & _ & _ & Hix). cbn [rfetch]. unfold fdisk. rewrite Hd, Hm.
      destruct p as [od om ix]. cbn [idx] in Hix. subst ix.
      apply (fetch_char dec_m dec_d); auto.
  Qed.

  Lemma rsearch_char : forall fd r bs t id, Served fd r bs ->
    In id (rsearch r t) <-> exists b d, In b bs /\ In d (b_docs b) /\ d_id d = id /\ In t (d_toks d).
  Proof.
    intros fd [ix sd | p] bs t id H; cbn in H.
    - destruct H as (-> & _). cbn [rsearch]. rewrite sdocs_of_map. split.
      + intros Hin. apply in_map_iff in Hin. destruct Hin as (s & Hid & Hf).
        apply filter_In in Hf. destruct Hf as (Hs & Ht).
        apply in_map_iff in Hs. destruct Hs as (d & <- & Hd).
        apply in_all_docs in Hd. destruct Hd as (b & Hb & Hd).
        exists b, d. cbn in Hid, Ht. repeat split; auto.
        apply existsb_exists in Ht. destruct Ht as (x & Hx & Ex). apply N.eqb_eq in Ex. subst. exact Hx.
      + intros (b & d & Hb & Hd & Hid & Ht). apply in_map_iff. exists (sdoc_of d). split; [exact Hid |].
        apply filter_In. split.
        * apply in_map. apply in_all_docs. eauto.
        * cbn. apply existsb_exists. exists t. split; auto. apply N.eqb_refl.
    - destruct H as (_ & _ & _ & _ & _ & _ & Hix). cbn [rsearch].
      destruct p as [od om ix]. cbn [idx] in Hix. subst ix. apply (search_char bs od om 0 t id).
  Qed.

  (* the documents a seal writes are exactly the fraction's documents with their own bodies *)
  Lemma seal_docs_char : forall bs od om, Forall wf_bulk bs -> ids_functional bs ->
    seal_docs dec_d (Disk (dfile bs) (mfile bs 0)) (Proc od om (index_of bs 0)) = Some (sdocs_of bs).
  Proof.
    intros bs od om Hwf Hfun. unfold seal_docs. cbn [idx]. rewrite fm_snd_index, sdocs_of_map.
    assert (G : forall ds, (forall d, In d ds -> exists b, In b bs /\ In d (b_docs b)) ->
              seal_metas dec_d (Disk (dfile bs) (mfile bs 0)) (Proc od om (index_of bs 0)) (map meta_of ds)
              = Some (map sdoc_of ds)).
    { induction ds as [| d r IH]; intros Hin; [reflexivity |].
      cbn [map seal_metas]. cbn [meta_of m_id m_toks].
      destruct (Hin d (or_introl eq_refl)) as (b & Hb & Hd).
      pose proof (fetch_char dec_m dec_d bs (mfile bs 0) od om (d_id d) Hwf) as F.
      destruct (fetch dec_d (Disk (dfile bs) (mfile bs 0)) (Proc od om (index_of bs 0)) (d_id d)) as [| x |].
      - exfalso. eapply F; eauto.
      - destruct F as (b' & d' & Hb' & Hd' & Hid & ->).
        rewrite (Hfun b' b d' d Hb' Hb Hd' Hd Hid).
        rewrite IH by (intros; apply Hin; right; auto). reflexivity.
      - contradiction. }
    apply G. intros d Hd. apply in_all_docs. exact Hd.
  Qed.

  (* ---------- the start-up of one fraction ---------- *)

  Lemma classify_act : forall fd, has (fd_docs fd) = true -> has (fd_meta fd) = true -> fd_ix fd = None ->
    classify fd = CActive.
  Proof.
    intros fd Hd Hm Hi. unfold classify. rewrite Hd, Hm, Hi. cbn. rewrite andb_false_r. reflexivity.
  Qed.

  Lemma idx_total_index_of : forall bs, Forall wf_bulk bs ->
    (idx_docs_total (index_of bs 0) =? 0) = match bs with [] => true | _ => false end.
  Proof.
    intros bs Hwf. destruct bs as [| b r]; [reflexivity |].
    destruct (idx_docs_total (index_of (b :: r) 0) =? 0) eqn:E; [| reflexivity].
    apply (idx_total_zero dec_m dec_d) in E; auto. discriminate.
  Qed.

  Lemma replay_frac_act : forall fd bs tm td, Forall wf_bulk bs ->
    fd_meta fd = Some (mfile bs 0 ++ tm) -> fd_docs fd = Some (dfile bs ++ td) -> eof_tail tm ->
    replay_frac dec_m fd =
    Ok (map LB (trunc_ops (Disk (dfile bs ++ td) (mfile bs 0 ++ tm)) (length (mfile bs 0)) (length (dfile bs))),
        match bs with
        | [] => None
        | _ => Some (Proc (length (dfile bs)) (length (mfile bs 0)) (index_of bs 0))
        end).
  Proof.
    intros fd bs tm td Hwf Hm Hd Ht. unfold replay_frac, fdisk. rewrite Hd, Hm. cbn [meta docs].
    rewrite (replay_blocks dec_m dec_d) by auto. rewrite !trunc_if.
    rewrite idx_total_index_of by auto. destruct bs; reflexivity.
  Qed.

  Definition is_ra (r : rfrac) : bool := match r with RActive _ => true | _ => false end.

  Lemma fplan_char : forall fd bs seal_it, FInv fd bs -> Forall wf_bulk bs -> ids_functional bs ->
    exists pl, fplan_of dec_m dec_d fd seal_it = Ok pl /\ Safe fd (fplan_prog pl) bs /\
      match fs pl with
      | FsNone => bs = [] /\ nonempty_active dec_m fd = false
      | FsSealed1 r => Served (lrun (fplan_prog pl) fd) r bs /\ nonempty_active dec_m fd = false /\ is_ra r = false
      | FsActive r => Served (lrun (fplan_prog pl) fd) r bs /\ nonempty_active dec_m fd = true /\ bs <> [] /\
                      is_ra r = negb seal_it
      end.
  Proof.
    intros fd bs seal_it HI Hwf Hfun.
    destruct HI as [Hd Hs Hi Hb | tm td Hm Hd Ht Hi Hb | Hi Hs].
    - (* skip *)
      assert (C : classify fd = CSkip) by (unfold classify; rewrite Hd, Hs; reflexivity).
      exists (FPlan [] [] [] FsNone). unfold fplan_of, nonempty_active. rewrite C.
      unfold fplan_prog; cbn [fs p1 p2 p3 app].
      split; [reflexivity |]. split; [| split; [exact Hb | reflexivity]].
      apply safe_nil; [| intro; apply finv_power]; apply FI_skip; auto.
    - (* active *)
      assert (C : classify fd = CActive) by (apply classify_act; [rewrite Hd | rewrite Hm |]; auto).
      assert (P1 : phase1_ops fd = [LDirSync; LDirSync]) by (unfold phase1_ops; rewrite C, Hd; reflexivity).
      pose proof (replay_frac_act fd bs tm td Hwf Hm Hd Ht) as R.
      destruct (trunc_safe fd bs tm td Hm Hd Ht Hi Hb) as (St & Fm & Fd & Fi & Fs).
      set (ops2 := map LB (trunc_ops (Disk (dfile bs ++ td) (mfile bs 0 ++ tm)) (length (mfile bs 0)) (length (dfile bs)))) in *.
      assert (S1 : Safe fd [LDirSync; LDirSync] bs).
      { intros j torn pl. apply finv_power.
        destruct j as [| [| j]]; cbn; tail_case; eapply FI_act; eauto. }
      unfold fplan_of, nonempty_active. rewrite C, P1. cbn [lrun fold_left lapply]. rewrite R.
      destruct bs as [| b0 bs']; cbv beta iota.
      + (* holds nothing: removed *)
        eexists. split; [reflexivity |]. unfold fplan_prog; cbn [fs p1 p2 p3]. split; [| auto].
        rewrite app_nil_r. apply safe_app; [exact S1 |]. cbn [lrun fold_left lapply].
        apply safe_app; [exact St |].
        apply remove_safe; auto. rewrite Fs. auto.
      + destruct seal_it.
        * (* sealed by Load *)
          unfold fdisk. rewrite Fd, Fm.
          rewrite (seal_docs_char (b0 :: bs')) by auto. cbv beta iota.
          eexists. split; [reflexivity |]. unfold fplan_prog; cbn [fs p1 p2 p3].
          split.
          { apply safe_app; [exact S1 |]. cbn [lrun fold_left lapply].
            apply safe_app; [exact St |]. apply seal_safe; auto. discriminate. }
          split; [| split; [reflexivity | split; [discriminate | reflexivity]]].
          rewrite !lrun_app. cbn [Served].
          destruct (seal_final (lrun ops2 (lrun [LDirSync; LDirSync] fd)) (b0 :: bs')) as (A & B). auto.
        * eexists. split; [reflexivity |]. unfold fplan_prog; cbn [fs p1 p2 p3].
          split.
          { rewrite app_nil_r. apply safe_app; [exact S1 |]. exact St. }
          split; [| split; [reflexivity | split; [discriminate | reflexivity]]].
          rewrite app_nil_r, lrun_app. cbn [lrun fold_left lapply Served off_d off_m idx].
          unfold lrun in *. rewrite Fm, Fd, Fi. repeat split; auto. intro; discriminate.
    - (* sealed *)
      assert (C : classify fd = CSealed).
      { unfold classify. rewrite Hs, Hi. unfold full_s. cbn. rewrite orb_true_r. cbn. rewrite orb_true_r. reflexivity. }
      unfold fplan_of, nonempty_active. rewrite C, Hi, Hs. unfold full_s. cbn [sf_done sf_docs andb].
      eexists. split; [reflexivity |]. unfold fplan_prog; cbn [fs p1 p2 p3]. rewrite !app_nil_r.
      assert (M : forallb md_only (phase1_ops fd) = true).
      { unfold phase1_ops. rewrite C. destruct (has (fd_meta fd)), (has (fd_docs fd)); reflexivity. }
      split; [apply sealed_md_safe; auto |].
      split; [| auto]. cbn [Served]. destruct (lrun_md_only _ fd M) as (A & B). rewrite A, B. auto.
  Qed.

End WithCodec.
